#!/bin/bash
set -e
export GOFLAGS=-mod=mod GOPROXY=off GOSUMDB=off GOWORK=off GOTOOLCHAIN=local
cd "$(dirname "$0")/checker"
mkdir -p ../bin ../evidence
go build -o ../bin/verifchk .
echo "verifchk built"
