#!/bin/bash
# usage: benigntool.sh <prop> <agent-out-dir (…/out/A)> <name>
#        benigntool.sh --recheck <name>
# Confirms a behaviour-preserving change produced by an independent sub-agent (applies, builds, full
# test suite passes), runs ALL 20 quick checks against the changed tree and stores the change under
# /verif/benign/<name>/ with the list of checks that raised an alarm (each such alarm is a false alarm
# to be corrected in the machinery, unless reading the patch shows it is not behaviour-preserving).
set -u
export GOFLAGS=-mod=mod GOPROXY=off GOSUMDB=off GOTOOLCHAIN=local GOWORK=off
recheck=0
if [ "$1" = "--recheck" ]; then recheck=1; name="$2"; d=/verif/benign/$name; prop=$(python3 -c "import json;print(json.load(open('$d/meta.json'))['property'])"); src="$d"
else prop="$1"; src="$2"; name="$3"; d=/verif/benign/$name; fi
wt=/tmp/wt/benign-$name
rm -rf "$wt"; git -C /repo worktree prune
git -C /repo worktree add -q --detach "$wt" HEAD || exit 9
trap 'git -C /repo worktree remove --force "$wt" 2>/dev/null; rm -rf "$wt"' EXIT
(cd "$wt" && git apply "$src/patch.diff") || { echo "RESULT name=$name patch does not apply"; exit 7; }
rb=0; rs=0
if [ $recheck -eq 0 ]; then
  (cd "$wt" && go build ./... >"$wt/.build.log" 2>&1); rb=$?
  (cd "$wt" && go test -vet=off -count=1 ./... >"$wt/.suite.log" 2>&1); rs=$?; grep -E '^(FAIL|---)' "$wt/.suite.log" | head -5
fi
alarms=""
for i in $(seq -w 1 20); do
  ( ${VERIFBIN:-/verif/bin/verifchk} -prop C$i -tier quick -repo "$wt" -verif /verif -no-evidence > "$wt/.check_C$i.log" 2>&1; echo $? > "$wt/.rc_C$i" ) &
  [ $((10#$i % 5)) -eq 0 ] && wait
done; wait
for i in $(seq -w 1 20); do
  rc=$(cat "$wt/.rc_C$i")
  if [ "$rc" != "0" ]; then
    alarms="$alarms C$i"
    echo "-- C$i rc=$rc"; grep -E 'VIOLATED|UNDECIDED|BROKEN|FAILED' "$wt/.check_C$i.log" | cut -c1-330 | head -5
  fi
done
echo "RESULT name=$name build_rc=$rb suite_rc=$rs alarms=[$alarms ]"
if [ $rb -eq 0 ] && [ $rs -eq 0 ]; then
  mkdir -p "$d"
  if [ $recheck -eq 0 ]; then cp "$src/patch.diff" "$d/patch.diff"; cp "$src/notes.md" "$d/notes.md" 2>/dev/null; fi
  python3 - "$d" "$prop" "$name" "$alarms" <<'PY'
import json,sys,os
d,prop,name,alarms=sys.argv[1:5]
p=d+"/meta.json"
meta=json.load(open(p)) if os.path.exists(p) else {"benign":name,"property":prop,"confirmed":{"changed_tree_build":"ok","changed_tree_full_suite":"pass"},
  "ran":["git worktree add (scratch)","git apply patch.diff","go build ./...","go test -vet=off -count=1 ./...","verifchk -prop C01..C20 -repo <scratch>"]}
if "first_run_alarms" not in meta: meta["first_run_alarms"]=alarms.split()
meta["alarms_now"]=alarms.split()
json.dump(meta,open(p,"w"),indent=1)
PY
  echo "stored in $d"
else
  echo "NOT CONFIRMED (does not build or suite fails) - not stored"
fi
