#!/bin/bash
# usage: benignbatch-b1.sh <prop> ; processes /tmp/wtb/<prop>/out/{A,B,C} as benign changes <prop>-b1a, -b1b, -b1c
p=$1
mkdir -p /tmp/agentout
rm -rf /tmp/agentout/$p-b1
cp -r /tmp/wtb/$p/out /tmp/agentout/$p-b1 || exit 1
git -C /repo worktree remove --force /tmp/wtb/$p
cp /verif/benigntool.sh /tmp/benigntool_run_$p.sh
for m in A B C; do
  [ -d /tmp/agentout/$p-b1/$m ] || continue
  n=$p-b1$(echo $m | tr 'ABC' 'abc')
  bash /tmp/benigntool_run_$p.sh $p /tmp/agentout/$p-b1/$m $n > /tmp/benign_$n.log 2>&1
  grep -E "^-- |VIOLATED|UNDECIDED|BROKEN|RESULT" /tmp/benign_$n.log | cut -c1-300
done
