#!/bin/bash
# usage: benignbatch-b2.sh <prop> ; processes /tmp/wtc/<prop>/out/{A,B,C} as benign changes <prop>-b2a, -b2b, -b2c
p=$1
mkdir -p /tmp/agentout
rm -rf /tmp/agentout/$p-b2
cp -r /tmp/wtc/$p/out /tmp/agentout/$p-b2 || exit 1
git -C /repo worktree remove --force /tmp/wtc/$p
cp /verif/benigntool.sh /tmp/benigntool_run_$p.sh
for m in A B C; do
  [ -d /tmp/agentout/$p-b2/$m ] || continue
  n=$p-b2$(echo $m | tr 'ABC' 'abc')
  bash /tmp/benigntool_run_$p.sh $p /tmp/agentout/$p-b2/$m $n > /tmp/benign_$n.log 2>&1
  grep -E "^-- |VIOLATED|UNDECIDED|BROKEN|RESULT" /tmp/benign_$n.log | cut -c1-300
done
