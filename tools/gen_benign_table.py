#!/usr/bin/env python3
# usage: gen_benign_table.py b1..b5  — prints the DESIGN §10 table for one false-alarm round from /verif/benign/*/meta.json
import json, os, re, sys
rnd = sys.argv[1] if len(sys.argv) > 1 else "b2"
root = "/verif/benign"
print("| change | what | checks that alarmed when it arrived | now (all 20 checks) |")
print("|---|---|---|---|")
for n in sorted(os.listdir(root)):
    if "-" + rnd not in n:
        continue
    d = os.path.join(root, n)
    meta = json.load(open(os.path.join(d, "meta.json")))
    what = ""
    files = []
    try:
        for l in open(os.path.join(d, "patch.diff")):
            m = re.match(r"^\+\+\+ b/(.*)$", l)
            if m:
                files.append(os.path.basename(m.group(1)))
    except FileNotFoundError:
        pass
    try:
        for l in open(os.path.join(d, "notes.md")):
            l = l.strip()
            if l.startswith("#"):
                what = re.sub(r"^#+\s*", "", l)
                what = re.sub(r"^Refactor(ing)? [A-C]\s*[-—–:]+\s*", "", what)
                break
    except FileNotFoundError:
        pass
    what = (", ".join(sorted(set(files))) + ": " + what).replace("|", "/")[:150]
    first = " ".join(meta.get("first_run_alarms", [])) or "—"
    now = " ".join(meta.get("alarms_now", [])) or "quiet"
    if str(meta.get("status", "")).startswith("rejected") and now != "quiet":
        now += " (limitation)"
    print(f"| {n} | {what} | {first} | {now} |")
