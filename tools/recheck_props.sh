#!/bin/bash
# usage: recheck_props.sh "C07 C08 …" — runs only the named properties' quick checks against every stored
# behaviour-preserving change (benign/*) and re-checks the stored seeds of those properties; honours VERIFBIN.
# Output: /tmp/recheck_props_benign.log (one line per change: alarms) and /tmp/recheck_props_seeds.log
props="$1"
cd /verif
export GOFLAGS=-mod=mod GOPROXY=off GOSUMDB=off GOTOOLCHAIN=local GOWORK=off
one() {
  name=$1; props="$2"
  wt=/tmp/wt/rp-$name
  rm -rf "$wt"; git -C /repo worktree add -q --detach "$wt" HEAD 2>/dev/null || { echo "RP name=$name worktree failed"; return; }
  (cd "$wt" && git apply /verif/benign/$name/patch.diff) || { echo "RP name=$name patch does not apply"; git -C /repo worktree remove --force "$wt"; return; }
  alarms=""
  for p in $props; do
    ${VERIFBIN:-/verif/bin/verifchk} -prop $p -tier quick -repo "$wt" -verif /verif -no-evidence > "$wt/.check_$p.log" 2>&1 || { alarms="$alarms $p"; grep -E 'VIOLATED|UNDECIDED|BROKEN|FAILED' "$wt/.check_$p.log" | cut -c1-250 | head -3 | sed "s/^/   [$name] /"; }
  done
  echo "RP name=$name alarms=[$alarms ]"
  git -C /repo worktree remove --force "$wt" 2>/dev/null; rm -rf "$wt"
}
export -f one
ls benign | xargs -P ${RP_PAR:-5} -I{} bash -c "one {} \"$props\"" > /tmp/recheck_props_benign.log 2>&1
pat=$(echo $props | tr ' ' '|')
ls seeded | grep -E "^($pat)-" | xargs -P 6 -I{} sh -c 'p=$(echo {} | cut -c1-3); cp seedtool.sh /tmp/st_{}.sh; bash /tmp/st_{}.sh --recheck $p {} 2>&1 | tail -n 1' | sort > /tmp/recheck_props_seeds.log
echo finished >> /tmp/recheck_props_seeds.log
