#!/bin/bash
# usage: seedbatch.sh <prop> ; processes /tmp/wt9/<prop>/out/{A,B,C} as seeds <prop>-r9a, -r9b, -r9c
p=$1
mkdir -p /tmp/agentout
rm -rf /tmp/agentout/$p-r9
cp -r /tmp/wt9/$p/out /tmp/agentout/$p-r9 || exit 1
git -C /repo worktree remove --force /tmp/wt9/$p
cp /verif/seedtool.sh /tmp/seedtool_run_$p.sh
for m in A B C; do
  [ -d /tmp/agentout/$p-r9/$m ] || continue
  n=$p-r9$(echo $m | tr 'ABC' 'abc')
  bash /tmp/seedtool_run_$p.sh $p /tmp/agentout/$p-r9/$m $n > /tmp/seed_$n.log 2>&1
  tail -n 2 /tmp/seed_$n.log | cut -c1-200
done
