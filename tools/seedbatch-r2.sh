#!/bin/bash
# usage: seedbatch.sh <prop> ; processes /tmp/wt2/<prop>/out/{A,B,C} as seeds <prop>-r2a, -r2b, -r2c
p=$1
mkdir -p /tmp/agentout
rm -rf /tmp/agentout/$p-r2
cp -r /tmp/wt2/$p/out /tmp/agentout/$p-r2 || exit 1
git -C /repo worktree remove --force /tmp/wt2/$p
cp /verif/seedtool.sh /tmp/seedtool_run_$p.sh
for m in A B C; do
  [ -d /tmp/agentout/$p-r2/$m ] || continue
  n=$p-r2$(echo $m | tr 'ABC' 'abc')
  bash /tmp/seedtool_run_$p.sh $p /tmp/agentout/$p-r2/$m $n > /tmp/seed_$n.log 2>&1
  tail -n 2 /tmp/seed_$n.log | cut -c1-200
done
