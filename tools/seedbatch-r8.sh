#!/bin/bash
# usage: seedbatch.sh <prop> ; processes /tmp/wt8/<prop>/out/{A,B,C} as seeds <prop>-r8a, -r8b, -r8c
p=$1
mkdir -p /tmp/agentout
rm -rf /tmp/agentout/$p-r8
cp -r /tmp/wt8/$p/out /tmp/agentout/$p-r8 || exit 1
git -C /repo worktree remove --force /tmp/wt8/$p
cp /verif/seedtool.sh /tmp/seedtool_run_$p.sh
for m in A B C; do
  [ -d /tmp/agentout/$p-r8/$m ] || continue
  n=$p-r8$(echo $m | tr 'ABC' 'abc')
  bash /tmp/seedtool_run_$p.sh $p /tmp/agentout/$p-r8/$m $n > /tmp/seed_$n.log 2>&1
  tail -n 2 /tmp/seed_$n.log | cut -c1-200
done
