#!/bin/bash
# usage: benignbatch-b5.sh <prop> ; processes /tmp/wtf/<prop>/out/{A,B,C} as benign changes <prop>-b5a, -b5b, -b5c
p=$1
mkdir -p /tmp/agentout
rm -rf /tmp/agentout/$p-b5
cp -r /tmp/wtf/$p/out /tmp/agentout/$p-b5 || exit 1
git -C /repo worktree remove --force /tmp/wtf/$p
cp /verif/benigntool.sh /tmp/benigntool_run_$p.sh
for m in A B C; do
  [ -d /tmp/agentout/$p-b5/$m ] || continue
  n=$p-b5$(echo $m | tr 'ABC' 'abc')
  bash /tmp/benigntool_run_$p.sh $p /tmp/agentout/$p-b5/$m $n > /tmp/benign_$n.log 2>&1
  grep -E "^-- |VIOLATED|UNDECIDED|BROKEN|RESULT" /tmp/benign_$n.log | cut -c1-300
done
