#!/bin/bash
# usage: benignbatch-b3.sh <prop> ; processes /tmp/wtd/<prop>/out/{A,B,C} as benign changes <prop>-b3a, -b3b, -b3c
p=$1
mkdir -p /tmp/agentout
rm -rf /tmp/agentout/$p-b3
cp -r /tmp/wtd/$p/out /tmp/agentout/$p-b3 || exit 1
git -C /repo worktree remove --force /tmp/wtd/$p
cp /verif/benigntool.sh /tmp/benigntool_run_$p.sh
for m in A B C; do
  [ -d /tmp/agentout/$p-b3/$m ] || continue
  n=$p-b3$(echo $m | tr 'ABC' 'abc')
  bash /tmp/benigntool_run_$p.sh $p /tmp/agentout/$p-b3/$m $n > /tmp/benign_$n.log 2>&1
  grep -E "^-- |VIOLATED|UNDECIDED|BROKEN|RESULT" /tmp/benign_$n.log | cut -c1-300
done
