#!/bin/bash
# usage: seedbatch.sh <prop> ; processes /tmp/wt4/<prop>/out/{A,B,C} as seeds <prop>-r4a, -r4b, -r4c
p=$1
mkdir -p /tmp/agentout
rm -rf /tmp/agentout/$p-r4
cp -r /tmp/wt4/$p/out /tmp/agentout/$p-r4 || exit 1
git -C /repo worktree remove --force /tmp/wt4/$p
cp /verif/seedtool.sh /tmp/seedtool_run_$p.sh
for m in A B C; do
  [ -d /tmp/agentout/$p-r4/$m ] || continue
  n=$p-r4$(echo $m | tr 'ABC' 'abc')
  bash /tmp/seedtool_run_$p.sh $p /tmp/agentout/$p-r4/$m $n > /tmp/seed_$n.log 2>&1
  tail -n 2 /tmp/seed_$n.log | cut -c1-200
done
