#!/bin/bash
# usage: seedbatch.sh <prop> ; processes /tmp/wt6/<prop>/out/{A,B,C} as seeds <prop>-r6a, -r6b, -r6c
p=$1
mkdir -p /tmp/agentout
rm -rf /tmp/agentout/$p-r6
cp -r /tmp/wt6/$p/out /tmp/agentout/$p-r6 || exit 1
git -C /repo worktree remove --force /tmp/wt6/$p
cp /verif/seedtool.sh /tmp/seedtool_run_$p.sh
for m in A B C; do
  [ -d /tmp/agentout/$p-r6/$m ] || continue
  n=$p-r6$(echo $m | tr 'ABC' 'abc')
  bash /tmp/seedtool_run_$p.sh $p /tmp/agentout/$p-r6/$m $n > /tmp/seed_$n.log 2>&1
  tail -n 2 /tmp/seed_$n.log | cut -c1-200
done
