#!/bin/bash
# re-runs all 20 checks against every stored behaviour-preserving change (../benigntool.sh --recheck), 2 in parallel
cd /verif
ls benign | xargs -P ${BENIGN_PAR:-3} -I{} sh -c 'cp benigntool.sh /tmp/bt_{}.sh; bash /tmp/bt_{}.sh --recheck {} > /tmp/benign_recheck_{}.log 2>&1; grep "^RESULT" /tmp/benign_recheck_{}.log' | sort > /tmp/recheck_benign.log
echo finished >> /tmp/recheck_benign.log
