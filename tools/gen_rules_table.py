#!/usr/bin/env python3
# Regenerates the DESIGN.md §8.5 table from evidence/C*.json (run after a full quick or thorough run).
import json, glob, os
here = os.path.dirname(os.path.dirname(os.path.abspath(__file__)))
rows = []
for f in sorted(glob.glob(os.path.join(here, 'evidence', 'C*.json'))):
    e = json.load(open(f))
    for r in sorted(e['coverage']['rules'], key=lambda r: r['id']):
        rows.append("| %s | %s | %d | %d | %s |" % (e['property_id'], r['id'], r['floor'], r['obligations'], r['text'].replace('|', '\\|')))
hdr = "| property | rule | floor | obligations on the reference tree | what it requires |\n|---|---|---|---|---|\n"
p = os.path.join(here, 'DESIGN.md')
d = open(p).read()
i = d.index('### 8.5 Rules as built')
j = d.index('## 9. Seeded changes')
k = d.index('| property | rule | floor', i)
lines = d[k:j].split('\n')
n = 0
while n < len(lines) and lines[n].startswith('|'):
    n += 1
d = d[:k] + hdr + '\n'.join(rows) + '\n' + '\n'.join(lines[n:]) + d[j:]
open(p, 'w').write(d)
print(len(rows), "rules")
