#!/bin/bash
# usage: benignbatch-b4.sh <prop> ; processes /tmp/wte/<prop>/out/{A,B,C} as benign changes <prop>-b4a, -b4b, -b4c
p=$1
mkdir -p /tmp/agentout
rm -rf /tmp/agentout/$p-b4
cp -r /tmp/wte/$p/out /tmp/agentout/$p-b4 || exit 1
git -C /repo worktree remove --force /tmp/wte/$p
cp /verif/benigntool.sh /tmp/benigntool_run_$p.sh
for m in A B C; do
  [ -d /tmp/agentout/$p-b4/$m ] || continue
  n=$p-b4$(echo $m | tr 'ABC' 'abc')
  bash /tmp/benigntool_run_$p.sh $p /tmp/agentout/$p-b4/$m $n > /tmp/benign_$n.log 2>&1
  grep -E "^-- |VIOLATED|UNDECIDED|BROKEN|RESULT" /tmp/benign_$n.log | cut -c1-300
done
