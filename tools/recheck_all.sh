#!/bin/bash
cd /verif
ls seeded | xargs -P 6 -I{} sh -c 'p=$(echo {} | cut -c1-3); cp seedtool.sh /tmp/st_{}.sh; bash /tmp/st_{}.sh --recheck $p {} 2>&1 | tail -n 1' | sort > /tmp/recheck_all.log
