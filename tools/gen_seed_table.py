#!/usr/bin/env python3
# usage: gen_seed_table.py r6 — prints the DESIGN §9 table of one seeding round from tools/<round>_firstrun.txt
# (RESULT lines of the first run) and /verif/seeded/*/meta.json (reporting rules after the last recheck)
import json, os, re, sys
rnd = sys.argv[1] if len(sys.argv) > 1 else "r6"
root = "/verif/seeded"
first = {}
for l in open(f"/verif/tools/{rnd}_firstrun.txt"):
    m = re.search(r"name=(\S+).*check_rc=(\d+)", l)
    if m:
        first[m.group(1)] = m.group(2) == "1"
print("| seed | what the change does (sub-agent's words, shortened) | reported by | at arrival |")
print("|---|---|---|---|")
for n in sorted(os.listdir(root)):
    if f"-{rnd}" not in n:
        continue
    d = os.path.join(root, n)
    meta = json.load(open(os.path.join(d, "meta.json")))
    what = ""
    files = []
    try:
        for l in open(os.path.join(d, "patch.diff")):
            m = re.match(r"^\+\+\+ b/(.*)$", l)
            if m:
                files.append(os.path.basename(m.group(1)))
    except FileNotFoundError:
        pass
    try:
        for l in open(os.path.join(d, "notes.md")):
            l = l.strip()
            if l.startswith("#"):
                what = re.sub(r"^#+\s*", "", l)
                what = re.sub(r"^Mutant [A-C]\s*[-—–:]+\s*", "", what)
                break
    except FileNotFoundError:
        pass
    what = (", ".join(sorted(set(files))) + ": " + what).replace("|", "/")[:170]
    rules = ",".join(sorted(set(r.replace("rule=", "") for r in str(meta.get("reporting_rules", "")).split(",") if r)))
    st = str(meta.get("status", ""))
    if st.startswith("not-reported") or not rules:
        rules = "— (not reported)"
    arr = "caught" if first.get(n) else "missed → rule added/strengthened"
    print(f"| {n} | {what} | {rules} | {arr} |")
