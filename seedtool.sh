#!/bin/bash
# usage: seedtool.sh <prop> <agent-out-dir (…/out/A)> <seed-name>
# Confirms a seeded change in a scratch worktree (build, full tests, demo both ways), runs the
# property's check against it, and on success stores it under /verif/seeded/<name>/.
set -u
export GOFLAGS=-mod=mod GOPROXY=off GOSUMDB=off GOTOOLCHAIN=local GOWORK=off
if [ "$1" = "--recheck" ]; then
  # re-run only the check against an already confirmed seed and refresh meta.json's detection fields
  prop="$2"; name="$3"; d=/verif/seeded/$name
  wt=/tmp/wt/recheck-$name; rm -rf "$wt"; git -C /repo worktree prune
  git -C /repo worktree add -q --detach "$wt" HEAD || exit 9
  trap 'git -C /repo worktree remove --force "$wt" 2>/dev/null; rm -rf "$wt"' EXIT
  (cd "$wt" && git apply "$d/patch.diff") || { echo "patch does not apply to current HEAD"; exit 7; }
  (cd "$wt" && go build ./... 2>&1 | grep -v 'ld:\|^#' | head -3)
  ${VERIFBIN:-/verif/bin/verifchk} -prop "$prop" -tier quick -repo "$wt" -verif /verif -no-evidence > "$wt/.check.log" 2>&1; rcq=$?
  grep -E 'VIOLATED|UNDECIDED|BROKEN' "$wt/.check.log" | cut -c1-300 | head -4
  rules=$(grep -E 'VIOLATED|UNDECIDED' "$wt/.check.log" | grep -oE 'rule=[A-Z0-9-]+' | sort -u | paste -sd, )
  python3 - "$d" "$rcq" "$rules" <<'PY'
import json,sys
d,rc,rules=sys.argv[1:4]
m=json.load(open(d+"/meta.json")); m["detected_by_check"]=(rc=="1"); m["reporting_rules"]=rules
json.dump(m,open(d+"/meta.json","w"),indent=1)
PY
  echo "RECHECK name=$name check_rc=$rcq rules=$rules"; exit 0
fi
prop="$1"; src="$2"; name="$3"
wt=/tmp/wt/confirm-$name
rm -rf "$wt"; git -C /repo worktree prune
git -C /repo worktree add -q --detach "$wt" HEAD || exit 9
trap 'git -C /repo worktree remove --force "$wt" 2>/dev/null; rm -rf "$wt"' EXIT
demo_rel=$(grep -oE '[A-Za-z0-9_./-]+_test\.go' "$src/demo_path.txt" | grep -v '^out/' | head -1)
demo_src=$(ls "$src"/*_test.go 2>/dev/null | head -1)
[ -z "$demo_rel" ] && { echo "no demo path"; exit 8; }
run_demo() { (cd "$wt" && cp "$demo_src" "$demo_rel" && pkg=./$(dirname "$demo_rel") && tn=$(grep -oE '^func (Test[A-Za-z0-9_]+)' "$demo_src" | awk '{print $2}' | paste -sd'|') && extra=""; grep -q -- '-race' "$src/demo_path.txt" && extra="-race"; tag=$(grep -oE '^//go:build [a-z0-9_]+' "$demo_src" | awk '{print $2}' | head -1); [ -n "$tag" ] && extra="$extra -tags $tag"; go test $extra -vet=off -count=1 -run "^($tn)\$" "$pkg" >"$wt/.demo.log" 2>&1; rc=$?; rm -f "$demo_rel"; return $rc); }
echo "== demo on unchanged tree (must pass)"; run_demo; r0=$?; tail -3 "$wt/.demo.log" | grep -v 'ld:'
(cd "$wt" && git apply "$src/patch.diff") || { echo "patch does not apply"; exit 7; }
echo "== build"; (cd "$wt" && go build ./... 2>&1 | grep -v 'ld:\|^#' | head -5)
echo "== full test suite with the change (must pass)"; (cd "$wt" && go test -vet=off -count=1 ./... >"$wt/.suite.log" 2>&1); rs=$?; grep -E '^(FAIL|---)' "$wt/.suite.log" | head
echo "== demo with the change (must fail)"; run_demo; r1=$?; grep -E 'FAIL|panic|DATA RACE|Error' "$wt/.demo.log" | head -5
echo "== check $prop against the changed tree"
VERIF_REPO="$wt" ${VERIFBIN:-/verif/bin/verifchk} -prop "$prop" -tier quick -repo "$wt" -verif /verif -no-evidence > "$wt/.check.log" 2>&1; rcq=$?
grep -E 'VIOLATED|UNDECIDED|BROKEN' "$wt/.check.log" | cut -c1-260 | head -6; tail -1 "$wt/.check.log"
echo "RESULT name=$name demo_clean_rc=$r0 suite_rc=$rs demo_mutant_rc=$r1 check_rc=$rcq"
if [ $r0 -eq 0 ] && [ $rs -eq 0 ] && [ $r1 -ne 0 ]; then
  d=/verif/seeded/$name; mkdir -p "$d"; cp "$src/patch.diff" "$d/patch.diff"; cp "$demo_src" "$d/demo_test.go.txt"; cp "$src/notes.md" "$d/notes.md" 2>/dev/null
  det=$([ $rcq -eq 1 ] && echo true || echo false)
  rules=$(grep -E 'VIOLATED|UNDECIDED' "$wt/.check.log" | grep -oE 'rule=[A-Z0-9-]+' | sort -u | paste -sd, )
  python3 - "$d" "$prop" "$demo_rel" "$det" "$rules" "$name" <<'PY'
import json,sys
d,prop,rel,det,rules,name=sys.argv[1:7]
meta={"seed":name,"property":prop,"demo_placed_at":rel,"confirmed":{"unchanged_tree_demo":"pass","changed_tree_build":"ok","changed_tree_full_suite":"pass","changed_tree_demo":"fail"},
      "ran":["git worktree add (scratch)","demo on unchanged tree","git apply patch.diff","go build ./...","go test -vet=off -count=1 ./...","demo on changed tree","verifchk -prop %s -repo <scratch>"%prop],
      "detected_by_check":det=="true","reporting_rules":rules,"needs_to_manifest":"see notes.md (written by the independent sub-agent that produced the change)"}
json.dump(meta,open(d+"/meta.json","w"),indent=1)
PY
  echo "stored in $d (detected=$det rules=$rules)"
else
  echo "NOT CONFIRMED - not stored"
fi
