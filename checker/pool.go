package main

import (
	"sort"
	"strings"

	"golang.org/x/tools/go/ssa"
)

// checkBlockingPools (rule <P>-POOL): work handed to a worker pool is not dropped. The proof queries of the
// keepers (capacity, skchia) and the superior's broadcast hand one task per space / per collector to an
// ants.Pool and do not act on Submit's error (the reference code ignores it or logs it). That is sound only
// while the pool is a blocking one — Submit then waits for a free worker and fails only on a closed pool. A
// pool built with WithNonblocking / WithMaxBlockingTasks / WithOptions rejects tasks with ErrPoolOverload as
// soon as all workers are busy: with more spaces (collectors) than workers the rejected ones silently miss
// from the answer (a proof that exists is not offered; a broadcast does not reach every collector).
// Accepted alternative: the option is used and every Submit in the package hands its error on to a return.
func checkBlockingPools(c *Ctx, rule string, pkgs []string) {
	inPkg := map[string]bool{}
	for _, p := range pkgs {
		inPkg[p] = true
	}
	var fns []*ssa.Function
	for fn := range c.AllFuncs {
		if fn != nil && fn.Blocks != nil && inPkg[pkgOf(outermost(fn))] {
			fns = append(fns, fn)
		}
	}
	sort.Slice(fns, func(i, j int) bool { return FuncName(fns[i]) < FuncName(fns[j]) })
	n := 0
	for _, fn := range fns {
		k := 0
		allInstrsShallow(fn, func(in ssa.Instruction) {
			cl, ok := in.(*ssa.Call)
			if !ok {
				return
			}
			id := calleeID(cl)
			if !strings.HasSuffix(id, "ants/v2.NewPool") && !strings.HasSuffix(id, "ants.NewPool") && !strings.HasSuffix(id, "ants/v2.NewPoolWithFunc") && !strings.HasSuffix(id, "ants.NewPoolWithFunc") {
				return
			}
			n++
			k++
			key := FuncName(fn) + ":pool#" + itoa(k)
			// the options: the variadic slice's elements
			loosening := ""
			for v := range backSlice(cl.Call.Args[len(cl.Call.Args)-1]).vals {
				oc, isCall := v.(*ssa.Call)
				if !isCall {
					continue
				}
				oid := calleeID(oc)
				for _, opt := range []string{"WithNonblocking", "WithMaxBlockingTasks", "WithOptions"} {
					if strings.HasSuffix(oid, "."+opt) {
						loosening = opt
					}
				}
			}
			if loosening == "" {
				c.OK(rule, key, c.Pos(cl.Pos()), "a blocking pool: Submit waits for a worker")
				return
			}
			// every Submit of the package must hand its error on
			dropped := ""
			for _, g := range fns {
				if pkgOf(outermost(g)) != pkgOf(outermost(fn)) {
					continue
				}
				allInstrsShallow(g, func(in2 ssa.Instruction) {
					sc, ok := in2.(*ssa.Call)
					if !ok || !strings.HasSuffix(calleeID(sc), "ants.Pool).Submit") && !strings.HasSuffix(calleeID(sc), "ants/v2.Pool).Submit") {
						return
					}
					errs := errResults(sc)
					if len(errs) == 0 || !flowsToReturn(g, aliasesForward(g, errs[0])) {
						dropped = c.Pos(sc.Pos())
					}
				})
			}
			if dropped != "" {
				c.Bad(rule, key, c.Pos(cl.Pos()), "the pool is built with "+loosening+" (Submit fails with ErrPoolOverload when all workers are busy) while the Submit at "+dropped+" does not hand its error on: with more tasks than workers the rejected ones are silently dropped from the answer")
			} else {
				c.OK(rule, key, c.Pos(cl.Pos()), "non-blocking pool, and every Submit hands its error on")
			}
		})
	}
	if n == 0 {
		c.Bad(rule, "anchor", "", "reason=anchor-missing: no ants.NewPool in the packages of the rule")
	}
}

func runPoolRule(c *Ctx, prop string) {
	var pkgs []string
	floor := 2
	switch prop {
	case "C07", "C08":
		pkgs = []string{pkgCapacity, pkgSkchia}
	case "C17":
		pkgs = []string{pkgFractal}
		floor = 1
	default:
		return
	}
	rule := prop + "-POOL"
	c.Rule(rule, "work handed to a worker pool is not dropped: the pools that run the per-space proof queries and the per-collector broadcast are blocking pools (no WithNonblocking / WithMaxBlockingTasks / WithOptions), or every Submit hands its error on — otherwise tasks beyond the number of workers are silently missing from the answer", floor)
	checkBlockingPools(c, rule, pkgs)
}
