package main

// Branch polarity of the child counters: the external (plot-key) and internal (change) counters are
// two uint32 values that travel side by side through tuples, parameter lists and struct literals.
// Every producer and consumer is labelled from the repository itself (the DB key a helper reads or
// writes, the name of a struct field) and no value may flow from a producer of one branch into a
// consumer of the other. Shared by C06 (ordinals), C01 (export/import) and C02 (reload).

import (
	"fmt"
	"go/types"
	"sort"
	"strings"

	"golang.org/x/tools/go/ssa"
)

func branchOfName(n string) string {
	l := strings.ToLower(n)
	switch {
	case strings.Contains(l, "external"):
		return "external"
	case strings.Contains(l, "internal"):
		return "internal"
	}
	return ""
}

type branchLabels struct {
	retLabel   map[*ssa.Function][]string // per result index
	paramLabel map[*ssa.Function][]string // per parameter index
}

// keyGlobalLabel: the branch of a bucket key expression (global externalChildNumName/internalChildNumName).
func keyGlobalLabel(v ssa.Value) string {
	lab := ""
	for x := range backSlice(v).vals {
		if g, ok := x.(*ssa.Global); ok && strings.Contains(g.Name(), "ChildNum") {
			if b := branchOfName(g.Name()); b != "" {
				if lab != "" && lab != b {
					return "both"
				}
				lab = b
			}
		}
	}
	return lab
}

func isBucketCall(in ssa.Instruction, name string) (*ssa.Call, bool) {
	cl, ok := in.(*ssa.Call)
	if !ok || !cl.Call.IsInvoke() || cl.Call.Method.Name() != name {
		return nil, false
	}
	return cl, true
}

func computeBranchLabels(c *Ctx) *branchLabels {
	bl := &branchLabels{retLabel: map[*ssa.Function][]string{}, paramLabel: map[*ssa.Function][]string{}}
	for fn := range c.AllFuncs {
		if pkgOf(fn) != pkgKeystore || fn.Signature == nil || len(fn.Blocks) == 0 {
			continue
		}
		// results read from a labelled key
		res := fn.Signature.Results()
		if res.Len() >= 2 {
			labs := make([]string, res.Len())
			any := false
			for _, ret := range returnsOf(fn) {
				for i, r := range ret.Results {
					if k, isK := strip(r).(*ssa.Const); isK && k.Value != nil {
						continue
					}
					l := ""
					for x := range backSlice(r).vals {
						if cl, ok := x.(*ssa.Call); ok {
							if g, isGet := isBucketCall(cl, "Get"); isGet {
								if kl := keyGlobalLabel(g.Call.Args[0]); kl != "" {
									if l != "" && l != kl {
										l = "both"
									} else {
										l = kl
									}
								}
							}
						}
					}
					if l != "" {
						if labs[i] != "" && labs[i] != l {
							labs[i] = "both"
						} else {
							labs[i] = l
						}
						any = true
					}
				}
			}
			if any {
				bl.retLabel[fn] = labs
			}
		}
		// parameters written under a labelled key
		labs := make([]string, len(fn.Params))
		any := false
		allInstrsShallow(fn, func(in ssa.Instruction) {
			put, ok := isBucketCall(in, "Put")
			if !ok {
				return
			}
			kl := keyGlobalLabel(put.Call.Args[0])
			if kl == "" || kl == "both" {
				return
			}
			vs := backSlice(put.Call.Args[1])
			for i, p := range fn.Params {
				if b, isB := p.Type().Underlying().(*types.Basic); !isB || b.Info()&types.IsInteger == 0 {
					continue
				}
				if vs.has(p) {
					if labs[i] != "" && labs[i] != kl {
						labs[i] = "both"
					} else {
						labs[i] = kl
					}
					any = true
				}
			}
		})
		if any {
			bl.paramLabel[fn] = labs
		}
	}
	return bl
}

// sourceLabels: the branches of the counter sources in the backward slice of v.
func (bl *branchLabels) sourceLabels(v ssa.Value) map[string]string {
	out := map[string]string{}
	for x := range backSlice(v).vals {
		switch y := x.(type) {
		case *ssa.Extract:
			if cl, ok := y.Tuple.(*ssa.Call); ok {
				if f := cl.Call.StaticCallee(); f != nil {
					if labs, ok := bl.retLabel[f]; ok && y.Index < len(labs) && labs[y.Index] != "" {
						out[labs[y.Index]] = fmt.Sprintf("result #%d of %s", y.Index, f.Name())
					}
				}
			}
		case *ssa.Call:
			if f := y.Call.StaticCallee(); f != nil && f.Name() == "getChildNum" && pkgOf(f) == pkgKeystore && len(y.Call.Args) == 2 {
				if k, isK := strip(y.Call.Args[1]).(*ssa.Const); isK && k.Value != nil {
					if k.Value.String() == "true" {
						out["internal"] = "getChildNum(internal=true)"
					} else {
						out["external"] = "getChildNum(internal=false)"
					}
				}
			}
		case *ssa.UnOp, *ssa.Field:
			if typ, f, _, ok := fieldOfValue(x); ok && strings.HasPrefix(typ, pkgKeystore+".") && isCounterField(f) {
				out[branchOfName(f)] = "field " + shortType(typ) + "." + f
			}
		}
	}
	return out
}

func isCounterField(name string) bool {
	l := strings.ToLower(name)
	return branchOfName(name) != "" && (strings.Contains(l, "index") || strings.Contains(l, "childnum")) && !strings.Contains(l, "priv") && !strings.Contains(l, "pub")
}

type branchSink struct {
	in    ssa.Instruction
	val   ssa.Value
	label string
	what  string
}

func (bl *branchLabels) sinksIn(fn *ssa.Function) []branchSink {
	var out []branchSink
	for _, a := range fieldAccesses(fn) {
		if a.Kind != "store" || !strings.HasPrefix(a.Type, pkgKeystore+".") || !isCounterField(a.Field) {
			continue
		}
		st, ok := a.In.(*ssa.Store)
		if !ok {
			continue
		}
		out = append(out, branchSink{a.In, st.Val, branchOfName(a.Field), "store to " + shortType(a.Type) + "." + a.Field})
	}
	allInstrsShallow(fn, func(in ssa.Instruction) {
		cl, ok := in.(*ssa.Call)
		if !ok {
			return
		}
		f := cl.Call.StaticCallee()
		if f == nil || pkgOf(f) != pkgKeystore {
			return
		}
		if labs, ok := bl.paramLabel[f]; ok {
			for i, l := range labs {
				if l == "" || i >= len(cl.Call.Args) {
					continue
				}
				if l == "both" {
					// updateChildNum(b, internal, v): resolved by the constant flag
					continue
				}
				out = append(out, branchSink{in, cl.Call.Args[i], l, fmt.Sprintf("argument %s of %s", f.Params[i].Name(), f.Name())})
			}
		}
		if f.Name() == "updateChildNum" && len(cl.Call.Args) == 3 {
			if k, isK := strip(cl.Call.Args[1]).(*ssa.Const); isK && k.Value != nil {
				l := "external"
				if k.Value.String() == "true" {
					l = "internal"
				}
				out = append(out, branchSink{in, cl.Call.Args[2], l, "updateChildNum(internal=" + k.Value.String() + ")"})
			}
		}
	})
	return out
}

// checkBranchPolarity emits one obligation per counter sink of the keystore package.
func checkBranchPolarity(c *Ctx, rule string) {
	bl := computeBranchLabels(c)
	// the helper tables themselves
	fc := c.Fn("poc/wallet/keystore", "fetchChildNum")
	pl := c.Fn("poc/wallet/keystore", "putLastIndex")
	if fc == nil || pl == nil || len(bl.retLabel[fc]) < 2 || bl.retLabel[fc][0] == "" || bl.retLabel[fc][1] == "" || bl.retLabel[fc][0] == bl.retLabel[fc][1] ||
		len(bl.paramLabel[pl]) < 3 || bl.paramLabel[pl][1] == "" || bl.paramLabel[pl][2] == "" || bl.paramLabel[pl][1] == bl.paramLabel[pl][2] {
		c.Bad(rule, "anchor:counter-helpers", "", fmt.Sprintf("reason=anchor-missing: fetchChildNum results %v / putLastIndex parameters %v are not one external and one internal counter", bl.retLabel[fc], bl.paramLabel[pl]))
		return
	}
	c.Note("%s: fetchChildNum returns (%s, %s); putLastIndex takes (bucket, %s, %s)", rule, bl.retLabel[fc][0], bl.retLabel[fc][1], bl.paramLabel[pl][1], bl.paramLabel[pl][2])
	var fns []*ssa.Function
	for fn := range c.AllFuncs {
		if pkgOf(fn) == pkgKeystore && len(fn.Blocks) > 0 {
			fns = append(fns, fn)
		}
	}
	sort.Slice(fns, func(i, j int) bool { return FuncName(fns[i]) < FuncName(fns[j]) })
	for _, fn := range fns {
		n := map[string]int{}
		for _, s := range bl.sinksIn(fn) {
			src := bl.sourceLabels(s.val)
			if len(src) == 0 {
				continue // constants (fresh keystore) and parameters
			}
			n[s.what]++
			key := fmt.Sprintf("%s:%s#%d", FuncName(fn), s.what, n[s.what])
			other := "internal"
			if s.label == "internal" {
				other = "external"
			}
			if from, bad := src[other]; bad {
				c.Bad(rule, key, c.Pos(s.in.Pos()), fmt.Sprintf("the %s counter receives the %s counter (%s): after this point plot-key ordinals / change indices are taken from the wrong branch — issued keys are issued again or become unknown", s.label, other, from))
			} else if _, both := src["both"]; both {
				c.Unk(rule, key, c.Pos(s.in.Pos()), "the branch of the value cannot be established")
			} else {
				c.OK(rule, key, c.Pos(s.in.Pos()), fmt.Sprintf("%s ← %s", s.what, src[s.label]))
			}
		}
	}
}

// checkCountersFinal: in createManagerKeyScope the counters a restored keystore ends up with are the
// ones of the file: a zero-initialisation of both counters (initBranchChildNum) is always followed, on
// every path to a successful return, by putLastIndex — otherwise it wipes a counter written before it.
func checkCountersFinal(c *Ctx, rule string) {
	f := c.MustFn(rule, "poc/wallet/keystore", "createManagerKeyScope")
	if f == nil {
		return
	}
	key := "createManagerKeyScope:zero-init-never-final"
	inits := callsIn(f, pkgKeystore+".initBranchChildNum")
	puts := callsIn(f, pkgKeystore+".putLastIndex")
	if len(puts) == 0 {
		c.Bad(rule, key, c.Pos(f.Pos()), "the counters of the restored keystore are never written with the file's values (putLastIndex is gone): a later zero-initialisation or a missing write leaves a branch counter at 0, and keys already issued are issued again")
		return
	}
	isPut := func(in ssa.Instruction) bool {
		cl, ok := in.(*ssa.Call)
		return ok && isCall(cl, pkgKeystore+".putLastIndex")
	}
	bad := false
	for _, in := range inits {
		r := reach(f, in, errorEdgeCut(f, in, true), isPut)
		for _, ret := range returnsOf(f) {
			if isNilErrorReturn(ret) && r(ret) {
				bad = true
			}
		}
	}
	// and without any init, success still requires putLastIndex
	r0 := reach(f, f.Blocks[0].Instrs[0], nil, isPut)
	for _, ret := range returnsOf(f) {
		if isNilErrorReturn(ret) && r0(ret) {
			bad = true
		}
	}
	if bad {
		c.Bad(rule, key, c.Pos(f.Pos()), "a successful return can be reached with the zero-initialised counters as the last write (or without writing the file's counters at all): the branch counter written earlier for a restored branch is wiped, so the next key issued repeats ordinal 0")
	} else {
		c.OK(rule, key, c.Pos(puts[0].Pos()), "every successful return has passed putLastIndex(external, internal) after any zero-initialisation")
	}
}
