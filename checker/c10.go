package main

// C10 — interrupted plotting resumes; never falsely complete (structural clauses)
// C07 — every proof served verifies; plotting reads are complete

import (
	"go/constant"
	"fmt"
	"go/token"
	"go/types"
	"sort"
	"strings"

	"golang.org/x/tools/go/ssa"
)

const (
	pkgMassDBV1 = repoMod + "/poc/engine/massdb/massdb.v1"
	pkgMassDB   = repoMod + "/poc/engine/massdb"
	pkgCapacity = repoMod + "/poc/engine/spacekeeper/capacity"
	pkgSkchia   = repoMod + "/poc/engine.v2/spacekeeper/skchia"
	pkgEngine   = repoMod + "/poc/engine"
	pkgEngineV2 = repoMod + "/poc/engine.v2"
	tHashMap    = pkgMassDBV1 + ".HashMap"
	idSync      = "(*os.File).Sync"
	idWTW       = "(*" + pkgMassDBV1 + ".MemCache).WriteToWriter"
	idUpdCkpt   = "(*" + pkgMassDBV1 + ".HashMap).UpdateCheckpoint"
)

// callsIn: calls of the named functions in fn — and in the helpers fn calls that the reference tree
// does not have (they are part of fn for the rules, summary.go); on the reference tree itself that is
// fn alone.
func callsIn(fn *ssa.Function, ids ...string) []*ssa.Call {
	out := callsInShallow(fn, ids...)
	for _, h := range newHelpersOf(fn) {
		out = append(out, callsInShallow(h, ids...)...)
	}
	return out
}

func callsInShallow(fn *ssa.Function, ids ...string) []*ssa.Call {
	var out []*ssa.Call
	allInstrs(fn, func(in ssa.Instruction) {
		if c, ok := in.(*ssa.Call); ok && isCallAny(c, ids...) {
			out = append(out, c)
		}
	})
	return out
}

func normPath(p string) string {
	return trimPath(p+".", "HashMap")
}

// fileOfSync: access path of the *os.File receiver, normalised ("mdb.HashMapA.data.")
func recvPath(c *ssa.Call) string {
	r := callRecv(c)
	if r == nil {
		return ""
	}
	return normPath(accessPath(r))
}

// syncWrapperSuffix: f is a method whose every possibly-nil return is preceded by
// (*os.File).Sync on <receiver>.<suffix>; returns the normalised suffix ("data.").
func syncWrapperSuffix(f *ssa.Function) (string, bool) {
	if f == nil || f.Blocks == nil || f.Signature.Recv() == nil || len(f.Params) == 0 {
		return "", false
	}
	syncs := callsIn(f, idSync)
	if len(syncs) != 1 {
		return "", false
	}
	p := recvPath(syncs[0])
	recv := f.Params[0].Name() + "."
	if !strings.HasPrefix(p, recv) {
		return "", false
	}
	r := reach(f, nil, nil, func(in ssa.Instruction) bool { return in == ssa.Instruction(syncs[0]) })
	for _, ret := range returnsOf(f) {
		if r(ret) && (len(ret.Results) == 0 || isNilErrorReturn(ret)) {
			return "", false
		}
	}
	return strings.TrimPrefix(p, recv), true
}

func init() {
	register("C10", checkC10)
	register("C07", checkC07)
}

// failureEdgesOf returns a cut predicate for the non-nil edges of the error result of call.
func errorEdgeCut(fn *ssa.Function, call *ssa.Call, cutNonNil bool) func(from, to *ssa.BasicBlock) bool {
	orig := call
	if call != nil && call.Parent() != fn && lexicalOutermost(call.Parent()) != lexicalOutermost(fn) {
		// the step sits in a new helper: the error fn tests is that of the helper's call (the helper hands the
		// step's error on — the ERRFLOW rules of the properties cover the helpers too)
		if s2, ok := siteIn(fn, call).(*ssa.Call); ok && s2 != nil {
			call = s2
		}
	}
	var tests []nilTest
	for _, e := range errResults(call) {
		tests = append(tests, nilTestsOf(fn, e)...)
	}
	if orig != nil && orig != call {
		// also inside the helpers the step sits in: the step's own error edge, and that of each enclosing
		// helper's call (reach walks the helpers from a start point inside them)
		for _, lv := range projectChain(orig) {
			if lc, ok := lv.(*ssa.Call); ok && lc != call {
				for _, e := range errResults(lc) {
					tests = append(tests, nilTestsOf(lc.Parent(), e)...)
				}
			}
		}
	}
	return func(from, to *ssa.BasicBlock) bool {
		for _, t := range tests {
			if from == t.If.Block() {
				if cutNonNil && to == t.NonNil && t.NonNil != t.NilSucc {
					return true
				}
				if !cutNonNil && to == t.NilSucc && t.NonNil != t.NilSucc {
					return true
				}
			}
		}
		return false
	}
}

func orCut(cuts ...func(from, to *ssa.BasicBlock) bool) func(from, to *ssa.BasicBlock) bool {
	return func(from, to *ssa.BasicBlock) bool {
		for _, c := range cuts {
			if c(from, to) {
				return true
			}
		}
		return false
	}
}

// isNilErrorReturn: the return may report success — its error operand is the nil constant, or a
// call result handed through untested (`return f.Sync()`), i.e. not a value known non-nil.
func isNilErrorReturn(r *ssa.Return) bool {
	if len(r.Results) == 0 {
		return false
	}
	last := r.Results[len(r.Results)-1]
	if !isErrorType(last.Type()) {
		return false
	}
	fn := r.Parent()
	if cellKnownNonNil(fn, last, r) {
		return false
	}
	// defer-spilled result (`*res = x; rundefers; return *res`): judge x
	if ld, ok := last.(*ssa.UnOp); ok && ld.Op == token.MUL {
		if rd := rdOf(fn); rd != nil && !rd.fromEntry[ld] && len(rd.loads[ld]) == 1 {
			if st, isSt := rd.loads[ld][0].(*ssa.Store); isSt && st.Val != last {
				last = st.Val
			}
		}
	}
	may := false
	valueOrigins(fn, last, func(root ssa.Value) {
		switch x := root.(type) {
		case *ssa.Const:
			if x.IsNil() {
				may = true
			}
		case *ssa.Call, *ssa.Extract:
			if cl, ok := root.(*ssa.Call); ok && (isCallAny(cl, "errors.New", "fmt.Errorf") || strings.HasSuffix(calleeID(cl), "/errors.New") || strings.HasSuffix(calleeID(cl), "/errors.Errorf")) {
				return
			}
			// grpc: status.New(code, msg).Err() / status.Error(code, msg) with a constant code other than OK (0)
			// is a non-nil error (the library's contract)
			if cl, ok := root.(*ssa.Call); ok && grpcStatusError(cl) {
				return
			}
			// known non-nil if the return is dominated by the non-nil edge of a test of this value
			for _, t := range nilTestsOf(fn, root) {
				if len(t.NonNil.Preds) == 1 && t.NonNil.Dominates(r.Block()) {
					return
				}
			}
			// …or if every edge into the returning block is such an edge or, for the error of
			// io.ReadFull / io.ReadAtLeast, the "short count" edge of a comparison of the same call's byte
			// count (the library's contract: a count below the requested length comes with a non-nil error)
			if nonNilOnEveryEdge(fn, root, r.Block(), 3) {
				return
			}
			may = true
		case *ssa.UnOp:
			if g, ok := x.X.(*ssa.Global); ok && (strings.HasPrefix(g.Name(), "Err") || strings.HasPrefix(g.Name(), "err")) {
				return
			}
			may = true
		default:
			may = true
		}
	})
	return may
}

// nonNilOnEveryEdge: see isNilErrorReturn.
func nonNilOnEveryEdge(fn *ssa.Function, root ssa.Value, b *ssa.BasicBlock, depth int) bool {
	ex, isEx := root.(*ssa.Extract)
	var tuple *ssa.Call
	if isEx {
		tuple, _ = ex.Tuple.(*ssa.Call)
	}
	tests := nilTestsOf(fn, root)
	if len(b.Preds) == 0 {
		return false
	}
	for _, p := range b.Preds {
		iff, ok := p.Instrs[len(p.Instrs)-1].(*ssa.If)
		if !ok {
			// a straight-line predecessor (logging): judge its own incoming edges
			if len(p.Succs) == 1 && depth > 0 && nonNilOnEveryEdge(fn, root, p, depth-1) {
				continue
			}
			return false
		}
		good := false
		for _, t := range tests {
			if t.If == iff && t.NonNil == b && t.NonNil != t.NilSucc {
				good = true
			}
		}
		if !good && tuple != nil && isCallAny(tuple, "io.ReadFull", "io.ReadAtLeast") {
			if bo, isB := iff.Cond.(*ssa.BinOp); isB {
				cnt, other := bo.X, bo.Y
				if e0, isE := strip(cnt).(*ssa.Extract); !isE || e0.Tuple != ssa.Value(tuple) || e0.Index != 0 {
					cnt, other = bo.Y, bo.X
				}
				if e0, isE := strip(cnt).(*ssa.Extract); isE && e0.Tuple == ssa.Value(tuple) && e0.Index == 0 {
					isLen := false
					for v := range backSlice(other).vals {
						if cl, isC := v.(*ssa.Call); isC {
							if bi, isBi := cl.Call.Value.(*ssa.Builtin); isBi && bi.Name() == "len" {
								isLen = true
							}
						}
					}
					short := (bo.Op == token.NEQ || (bo.Op == token.LSS && cnt == bo.X) || (bo.Op == token.GTR && cnt == bo.Y))
					if isLen && short && p.Succs[0] == b && p.Succs[0] != p.Succs[1] {
						good = true
					}
					full := (bo.Op == token.EQL || (bo.Op == token.GEQ && cnt == bo.X) || (bo.Op == token.LEQ && cnt == bo.Y))
					if isLen && full && p.Succs[1] == b && p.Succs[0] != p.Succs[1] {
						good = true
					}
				}
			}
		}
		if !good {
			return false
		}
	}
	return true
}

type ckptEvent struct {
	site   *ssa.Call // UpdateCheckpoint, or the call of a commit helper
	file   string    // the map file the checkpoint belongs to ("mdb.HashMapA.data.")
	synced bool      // the site itself syncs that file after the header write
}

type ckptStore struct {
	in  ssa.Instruction // store to HashMap.checkpoint, or the call of a commit helper
	val ssa.Value
}

// commitHelper: h (a method the reference tree does not have) sets its receiver's checkpoint from one
// of its parameters, then writes it with UpdateCheckpoint on the same receiver, and every path from
// there to a successful return passes Sync on the receiver's data file. Returns the parameter index.
func commitHelper(h *ssa.Function) (int, bool) {
	if h == nil || !gNewFuncs[h] || len(h.Blocks) == 0 || h.Signature.Recv() == nil {
		return 0, false
	}
	us := callsIn(h, idUpdCkpt)
	if len(us) != 1 {
		return 0, false
	}
	u := us[0]
	if callRecv(u) == nil || rootParam(callRecv(u)) != h.Params[0] {
		return 0, false
	}
	idx := -1
	for _, a := range fieldAccesses(h) {
		if a.Kind != "store" || a.Type != tHashMap || a.Field != "checkpoint" {
			continue
		}
		st := a.In.(*ssa.Store)
		if !instrDominates(st, u) {
			return 0, false
		}
		for i, p := range h.Params {
			if strip(st.Val) == ssa.Value(p) {
				idx = i
			}
		}
	}
	if idx < 1 {
		return 0, false
	}
	ufile := recvPath(u) + "data."
	r := reach(h, u, errorEdgeCut(h, u, true), func(in ssa.Instruction) bool {
		cl, ok := in.(*ssa.Call)
		return ok && isCall(cl, idSync) && recvPath(cl) == ufile
	})
	for _, ret := range returnsOf(h) {
		if r(ret) && isNilErrorReturn(ret) {
			// `return hm.data.Sync()` stops at the Sync call itself, so a reached return is a path without it
			return 0, false
		}
	}
	return idx, true
}

// rootParam: the parameter a value is (a load/field/conversion of), or nil.
func rootParam(v ssa.Value) ssa.Value {
	for i := 0; i < 8; i++ {
		switch x := v.(type) {
		case *ssa.Parameter:
			return x
		case *ssa.FieldAddr:
			v = x.X
		case *ssa.Field:
			v = x.X
		case *ssa.UnOp:
			v = x.X
		case *ssa.ChangeType:
			v = x.X
		default:
			return nil
		}
	}
	return nil
}

func checkPlotOrder(c *Ctx, rule string, fn *ssa.Function, mapField string) {
	name := fn.Name()
	setBindCtx(fn) // helpers shared by the two passes are judged at this pass's call sites
	ws := callsIn(fn, idWTW)
	ss := callsIn(fn, idSync)
	// checkpoint events: direct UpdateCheckpoint calls, and calls of a commit helper the reference tree
	// does not have (sets the checkpoint from an argument, writes the header, syncs the file)
	var us []ckptEvent
	var ckStores []ckptStore
	// what a recognised commit helper does inside is represented by the helper's call (below)
	inCommitHelper := func(in ssa.Instruction) bool {
		if in.Parent() == fn {
			return false
		}
		_, is := commitHelper(in.Parent())
		return is
	}
	for _, u := range callsIn(fn, idUpdCkpt) {
		if inCommitHelper(u) {
			continue
		}
		us = append(us, ckptEvent{site: u, file: recvPath(u) + "data."})
	}
	for _, a := range fieldAccesses(fn) {
		if a.Kind == "store" && a.Type == tHashMap && a.Field == "checkpoint" && !inCommitHelper(a.In) {
			ckStores = append(ckStores, ckptStore{in: a.In, val: a.In.(*ssa.Store).Val})
		}
	}
	allInstrsNew(fn, func(in ssa.Instruction) {
		cl, ok := in.(*ssa.Call)
		if !ok {
			return
		}
		if idx, isCommit := commitHelper(cl.Call.StaticCallee()); isCommit && idx < len(cl.Call.Args) {
			us = append(us, ckptEvent{site: cl, file: recvPath(cl) + "data.", synced: true})
			ckStores = append(ckStores, ckptStore{in: cl, val: cl.Call.Args[idx]})
		}
	})
	nSynced := 0
	for _, u := range us {
		if u.synced {
			nSynced++
		}
	}
	if len(ws) == 0 || len(us) < 2 || len(ss)+nSynced == 0 {
		c.Bad(rule, name+":shape", c.Pos(fn.Pos()), fmt.Sprintf("reason=anchor-missing: expected WriteToWriter, two UpdateCheckpoint and Sync calls, found %d/%d/%d", len(ws), len(us), len(ss)))
		return
	}
	wantFile := "mdb." + mapField + ".data."
	syncOn := func(file string) func(ssa.Instruction) bool {
		return func(in ssa.Instruction) bool {
			cl, ok := in.(*ssa.Call)
			if !ok {
				return false
			}
			if isCall(cl, idSync) {
				return recvPath(cl) == file
			}
			for _, u := range us {
				if u.site == cl && u.synced && u.file == file {
					return true
				}
			}
			// a helper whose every possibly-successful return has passed Sync on a file reached from
			// its receiver (one level of summary): hm.sync() == hm.data.Sync()
			if suffix, ok := syncWrapperSuffix(cl.Call.StaticCallee()); ok {
				return recvPath(cl)+suffix == file
			}
			return false
		}
	}
	// (1) data written -> Sync(data) -> UpdateCheckpoint
	for i, w := range ws {
		key := fmt.Sprintf("%s:data-sync-before-checkpoint#%d", name, i+1)
		wfile := normPath(accessPath(w.Call.Args[2]))
		if wfile != wantFile {
			c.Bad(rule, key, c.Pos(w.Pos()), "window is written to "+wfile+" instead of this pass's own map file "+wantFile)
			continue
		}
		r := reach(fn, w, errorEdgeCut(fn, w, true), syncOn(wfile))
		bad := false
		for _, ue := range us {
			u := ue.site
			if r(u) {
				bad = true
				c.Bad(rule, key, c.Pos(u.Pos()), "UpdateCheckpoint is reachable after the window write without a Sync of "+wfile+" in between: recorded progress can run ahead of durable data")
			}
		}
		for _, ret := range returnsOf(fn) {
			if r(ret) && isNilErrorReturn(ret) {
				bad = true
				c.Bad(rule, key, c.Pos(ret.Pos()), "normal return reachable after the window write without Sync")
			}
		}
		if !bad {
			c.OK(rule, key, c.Pos(w.Pos()), "every path from the window write to a checkpoint update passes Sync on "+wfile)
		}
	}
	// (1b) a checkpoint recorded inside the window loop covers a window that was written: no in-loop
	// checkpoint event is reachable from the function's entry without passing a window write (recording
	// first and flushing second leaves, after an interruption between the two, a checkpoint ahead of the data)
	{
		key := name + ":window-written-before-its-checkpoint"
		isW := func(in ssa.Instruction) bool {
			cl, ok := in.(*ssa.Call)
			return ok && isCall(cl, idWTW)
		}
		r := reach(fn, nil, nil, isW)
		bad := false
		nIn := 0
		for _, ue := range us {
			if !blockReentered(fn, ue.site) {
				continue
			}
			nIn++
			if r(ue.site) {
				bad = true
				c.Bad(rule, key, c.Pos(ue.site.Pos()), "the in-loop checkpoint update can run before the window it accounts for has been written: a stop, crash or failed flush between the two leaves recorded progress ahead of durable data, and the resumed pass skips that window")
			}
		}
		if nIn == 0 {
			c.Bad(rule, key, c.Pos(fn.Pos()), "reason=anchor-missing: no checkpoint update inside the window loop")
		} else if !bad {
			c.OK(rule, key, c.Pos(fn.Pos()), "every in-loop checkpoint update is preceded, on every path from the entry, by a window write")
		}
	}
	// (2) UpdateCheckpoint -> Sync(same file) before the next window write or any normal return
	for i, ue := range us {
		u := ue.site
		key := fmt.Sprintf("%s:checkpoint-sync#%d", name, i+1)
		ufile := ue.file
		if ufile != wantFile {
			c.Bad(rule, key, c.Pos(u.Pos()), "checkpoint is written to "+ufile+" instead of "+wantFile)
			continue
		}
		if ue.synced {
			c.OK(rule, key, c.Pos(u.Pos()), "the commit helper syncs "+ufile+" after writing the checkpoint, on every path to its successful return")
			continue
		}
		r := reach(fn, u, errorEdgeCut(fn, u, true), syncOn(ufile))
		bad := false
		for _, w := range ws {
			if r(w) {
				bad = true
				c.Bad(rule, key, c.Pos(w.Pos()), "the next window write is reachable after UpdateCheckpoint without a Sync of the checkpoint")
			}
		}
		for _, ret := range returnsOf(fn) {
			if r(ret) && isNilErrorReturn(ret) {
				bad = true
				c.Bad(rule, key, c.Pos(ret.Pos()), "normal return reachable after UpdateCheckpoint without a Sync of the checkpoint")
			}
		}
		if !bad {
			c.OK(rule, key, c.Pos(u.Pos()), "every path from UpdateCheckpoint to the next window write or a normal return passes Sync on "+ufile)
		}
	}
	// (3) every normal exit passed a final checkpoint whose value derives from the map's volume
	{
		key := name + ":final-checkpoint"
		r := reach(fn, nil, nil, func(in ssa.Instruction) bool {
			cl, ok := in.(*ssa.Call)
			if !ok || blockReentered(fn, cl) {
				return false
			}
			for _, ue := range us {
				if ue.site == cl {
					return true
				}
			}
			return false
		})
		bad := false
		for _, ret := range returnsOf(fn) {
			if isNilErrorReturn(ret) && r(ret) {
				bad = true
				c.Bad(rule, key, c.Pos(ret.Pos()), "a normal return is reachable without the final (out-of-loop) UpdateCheckpoint: the pass could report success with an unfinished checkpoint")
			}
		}
		// value stored to .checkpoint outside the loop derives from volume
		foundFinal := false
		for _, st := range ckStores {
			sl := backSlice(st.val)
			if blockReentered(fn, st.in) {
				continue
			}
			foundFinal = true
			if !sl.hasField(tHashMap, "volume") {
				bad = true
				c.Bad(rule, key, c.Pos(st.in.Pos()), "the final checkpoint value does not derive from the map's volume")
			}
		}
		if !foundFinal {
			bad = true
			c.Bad(rule, key, c.Pos(fn.Pos()), "no final checkpoint store outside the window loop")
		}
		if !bad {
			c.OK(rule, key, c.Pos(fn.Pos()), "every normal exit passes the final checkpoint, whose value derives from HashMap.volume")
		}
	}
	// (3b) the checkpoint recorded after a window never lies beyond what the window covered:
	// with s = window start and w = window size (end = s + w), checkpoint = a*s + b*w + k must satisfy
	// checkpoint <= s + w for every w >= 1 (resuming at `checkpoint` may redo work but never skips a slot)
	{
		key := name + ":checkpoint-not-beyond-window"
		done := false
		for _, st := range ckStores {
			if !blockReentered(fn, st.in) {
				continue
			}
			e, ok := affine(st.val)
			if !ok {
				c.Unk(rule, key, c.Pos(st.in.Pos()), "checkpoint value is not an affine expression of the window start and size")
				done = true
				continue
			}
			// leaves: the loop variable phi (start) and the window-size call result
			var sCoef, wCoef int64
			other := false
			for leaf, co := range e.coef {
				if co == 0 {
					continue
				}
				switch leaf.(type) {
				case *ssa.Phi:
					sCoef += co
				case *ssa.Call:
					wCoef += co
				default:
					other = true
				}
			}
			done = true
			if other || sCoef != 1 {
				c.Bad(rule, key, c.Pos(st.in.Pos()), fmt.Sprintf("the in-loop checkpoint is not window-start + (0 or 1)*window-size + constant (start coefficient %d)", sCoef))
				continue
			}
			// (b-1)*w + k <= 0 for all w >= 1  <=>  b <= 1 and b - 1 + k <= 0
			if wCoef <= 1 && wCoef-1+e.k <= 0 && wCoef >= 0 {
				c.OK(rule, key, c.Pos(st.in.Pos()), fmt.Sprintf("checkpoint = start + %d*size + %d <= start + size for every size >= 1", wCoef, e.k))
			} else {
				c.Bad(rule, key, c.Pos(st.in.Pos()), fmt.Sprintf("checkpoint = start + %d*size + %d can exceed the end of the window just written: resuming there skips slots that were never plotted, and the plot still reports complete", wCoef, e.k))
			}
		}
		if !done {
			c.Bad(rule, key, c.Pos(fn.Pos()), "no in-loop checkpoint store found")
		}
	}
	checkWindowTiling(c, rule, fn, ws)
	// (4) window placement: file offset of the window and the in-loop checkpoint derive from the same loop variable
	for i, w := range ws {
		key := fmt.Sprintf("%s:window-offset#%d", name, i+1)
		dst := w.Call.Args[4]
		sl := backSlice(dst)
		var loopStores []ckptStore
		for _, st := range ckStores {
			if blockReentered(fn, st.in) {
				loopStores = append(loopStores, st)
			}
		}
		if len(loopStores) == 0 {
			c.Bad(rule, key, c.Pos(w.Pos()), "no in-loop checkpoint store found")
			continue
		}
		common := false
		for _, st := range loopStores {
			s2 := backSlice(st.val)
			for v := range s2.vals {
				if _, isPhi := v.(*ssa.Phi); isPhi && sl.has(v) {
					common = true
				}
			}
		}
		okOff := sl.hasField(tHashMap, "offset")
		if !common {
			c.Bad(rule, key, c.Pos(w.Pos()), "the file offset of the window write does not derive from the loop variable the checkpoint is computed from (a window written at another window's offset corrupts the table on resume)")
		} else if !okOff {
			c.Bad(rule, key, c.Pos(w.Pos()), "the file offset of the window write does not include the map's data offset")
		} else {
			c.OK(rule, key, c.Pos(w.Pos()), "dstStart derives from HashMap.offset and from the window start that the checkpoint is computed from")
		}
	}
}

func plotErrClass(fn *ssa.Function, call *ssa.Call) bool {
	id := calleeID(call)
	switch id {
	case idSync, "(*os.File).WriteAt", "(*os.File).Seek", "(*os.File).Read", "(*os.File).Write",
		"(*bufio.Reader).Read", "io.ReadFull", "io.ReadAtLeast", idWTW, idUpdCkpt,
		pkgMassDBV1 + ".makeAvailableMemory", "(*" + pkgMassDBV1 + ".HashMapA).makeAvailableMemory", "(*" + pkgMassDBV1 + ".HashMapB).makeAvailableMemory":
		return true
	}
	// local closures returning error (ensureCacheMemory)
	if call.Call.StaticCallee() != nil && call.Call.StaticCallee().Parent() != nil {
		return true
	}
	// a helper the reference tree does not have, called on the plotting path
	if h := call.Call.StaticCallee(); h != nil && gNewFuncs[h] {
		return true
	}
	if _, ok := call.Call.Value.(*ssa.MakeClosure); ok {
		return true
	}
	// call through a local variable holding a closure
	if !call.Call.IsInvoke() && call.Call.StaticCallee() == nil {
		if _, isB := call.Call.Value.(*ssa.Builtin); !isB {
			return true
		}
	}
	return false
}

func checkC10(c *Ctx) Meta {
	c.Rule("C10-ORDER", "in both plotting passes: window write -> Sync(data) -> UpdateCheckpoint -> Sync(checkpoint) on every path, every normal exit passes the final checkpoint (derived from the volume), each window is written at the offset of its own start point; the in-loop checkpoint never lies beyond the window just written", 12)
	c.Rule("C10-ERR", "no storage error on the plotting path is dropped: Sync, WriteAt, Seek, Read, WriteToWriter, UpdateCheckpoint results reach the pass's return as a non-nil error", 14)
	c.Rule("C10-STOP", "an interrupted step is never taken for a completed one: on the plotting path the branch taken when the stop channel fires returns a provably non-nil error", 3)
	c.Rule("C10-FRESH", "every window is computed into a freshly allocated (zeroed) cache: Update always reallocates, makeAvailableMemory always updates on success, every window write is preceded by it within its own round", 4)
	c.Rule("C10-REMOVE", "map A is removed only after both passes returned nil (whose every normal exit has passed the final checkpoint and its Sync)", 2)
	c.Rule("C10-SCAN", "a resumed or multi-window second pass computes what an uninterrupted one computes: every window considers every pair of map A (read from the start of map A, pair loop from 0, full window loops, consistent offsets)", 5)
	c.pushAlias("C07-SCAN", "C10-SCAN")
	c.Rule("C07-OWN", "", 0)
	checkC07ScanOwn(c)
	c.popAlias()
	delete(c.Rules, "C07-OWN")
	delete(c.Floors, "C07-OWN")
	checkMapALoadedByProgressOnly(c, "C10-READY")
	// a space opens as complete only if what it was opened from passed the open checks: OpenDB cannot
	// succeed past a map whose load or header check failed (the C11 open-path rule as a premise — a
	// missing map A that is waved through makes a half-plotted space look finished)
	c.Rule("C10-OPENHDR", "OpenDB cannot succeed after a map load without that map's own header having matched the name (the C11 open-path rule, here as the premise of 'never falsely complete')", 4)
	c.Rule("C10-STATE", "a space's resting state is decided in one place: workspaces are constructed only in the documented initial states by the documented constructor, and every later state comes from a documented transition (the C09 transition extraction as the premise of 'reports plotted only if the table is complete' — a second open path with its own state rule is reported)", 14)
	c09TransRule = "C10-STATE"
	checkTransitions(c, pkgCapacity, "capacity")
	checkTransitions(c, pkgSkchia, "skchia")
	c09TransRule = "C09-TRANS"
	c.pushAlias("C11-HEADER", "C10-OPENHDR")
	checkHeaderVsName(c)
	c.popAlias()
	c.Rule("C10-KEEPER", "the keeper never takes an unfinished plot for a finished one: after a plot run the plotter moves the space to ready or mining only behind `Progress() >= 100` of the plotted space, evaluated after Plot returned", 2)
	checkStep3(c, "C10-KEEPER", pkgCapacity, "capacity")
	c.Rule("C10-READY", "readiness is derived from B's checkpoint: HashMapB.Progress compares checkpoint with volume; MassDBV1.Progress forwards it; NewWorkSpace stores Ready only under that flag; OpenDB loads map A whenever B is not final", 4)

	pre := c.MustFn("C10-ORDER", "poc/engine/massdb/massdb.v1", "(*MassDBV1).prePlotWork")
	plot := c.MustFn("C10-ORDER", "poc/engine/massdb/massdb.v1", "(*MassDBV1).plotWork")
	upd := c.MustFn("C10-ERR", "poc/engine/massdb/massdb.v1", "(*HashMap).UpdateCheckpoint")
	if pre != nil {
		checkPlotOrder(c, "C10-ORDER", pre, "HashMapA")
	}
	if plot != nil {
		checkPlotOrder(c, "C10-ORDER", plot, "HashMapB")
	}
	var scope []*ssa.Function
	for _, f := range []*ssa.Function{pre, plot, upd} {
		if f != nil {
			scope = append(scope, bodyFns(f, nil)...) // with helpers the reference tree does not have
		}
	}
	runErrflow(c, errflowCfg{rule: "C10-ERR", scope: scope, classK: plotErrClass,
		strict: func(fn *ssa.Function, call *ssa.Call) bool { return true }})

	checkStopReturns(c, "C10-STOP")
	checkFreshWindow(c, "C10-FRESH")
	checkRemoveAfterPasses(c, "C10-REMOVE")

	checkReadyRules(c, "C10-READY")

	return Meta{
		Explanation: "Structural necessary conditions of crash-safe, never-falsely-complete plotting, decided on every CFG path of prePlotWork/plotWork/executePlot/UpdateCheckpoint/OpenDB/NewWorkSpace: the durability order write→Sync→checkpoint→Sync with file identity by access path; no dropped storage error on that path; map A removed only after both passes returned nil; readiness derived from map B's checkpoint.",
		NotDecided:  "that the resumed table equals the uninterrupted one for every window size (values); that startPoint+1 is a safe checkpoint (arithmetic); 'the loop starts at the stored checkpoint' is deliberately not a rule (restarting from zero is wasteful but correct).",
		Trusted:     []string{"go/ssa", "os.File.Sync makes preceding WriteAt durable", "file identity = normalised access path (mdb.HashMapA.data / mdb.HashMapB.data)"},
		Assumptions: []string{"engine.Registered==0 and engine.Ready==2 (checked against constants by C09)"},
	}
}

func checkC07(c *Ctx) Meta {
	c.Rule("C07-VERIFY", "GetProof returns a non-nil proof only on the success edge of poc.VerifyProof(proof, mdb.pubKeyHash, challenge, filter) applied to the very proof returned", 3)
	c.Rule("C07-READ", "plotting passes consume reads completely: every io.Reader-shaped Read in the plotting functions is io.ReadFull/ReadAtLeast or has its byte count tested; its error reaches the return", 1)
	c.Rule("C07-FRESH", "every window of both passes is computed into a freshly allocated (zeroed) cache, so slots the construction leaves empty read as empty", 4)
	c.Rule("C07-SCAN", "every window of the second pass considers every pair of map A: the read position is the start of map A (no window-dependent term) and the pair loop runs from 0 to half, because a pair lands in a window by its z, not by its position; the window loops run to the full volume; each cache write is placed relative to the lower bound of its own range test", 5)
	c.Rule("C07-OWN", "a proof handed out is owned by the caller: the byte slices HashMapB.Get / HashMapA.Get return derive from a buffer allocated in that call, never from storage held by the map object (which the next lookup would overwrite after VerifyProof has passed)", 2)
	checkC07ScanOwn(c)
	c.Rule("C07-STOP", "an interrupted window is never recorded as written: on the plotting path the branch taken when the stop channel fires returns a provably non-nil error (the C10-STOP rule: otherwise the checkpoint advances past a window that was never flushed and the completed table lacks its entries)", 3)
	checkStopReturns(c, "C07-STOP")
	c.Rule("C07-ORDER", "every window lands where the construction puts it: in both passes the window is written at the file offset derived from its own start (and from the map's data offset), synced before the checkpoint that accounts for it — the C10-ORDER rules, here as the premise of 'the completed table equals the construction' for multi-window and resumed plots", 12)
	if pre := c.Fn("poc/engine/massdb/massdb.v1", "(*MassDBV1).prePlotWork"); pre != nil {
		checkPlotOrder(c, "C07-ORDER", pre, "HashMapA")
	}
	if plot := c.Fn("poc/engine/massdb/massdb.v1", "(*MassDBV1).plotWork"); plot != nil {
		checkPlotOrder(c, "C07-ORDER", plot, "HashMapB")
	}
	c.Rule("C07-READY", "only a complete table serves proofs: readiness is derived from map B's checkpoint (HashMapB.Progress, MassDBV1.Progress, NewWorkSpace, OpenDB — the C10-READY rules), so a space interrupted in the second pass is re-plotted, not mined", 4)
	checkReadyRules(c, "C07-READY")
	checkMapALoadedByProgressOnly(c, "C07-READY")
	c.Rule("C07-LOADRO", "opening and reading a plot file never writes it: no write to an *os.File (Write, WriteAt, WriteString, Truncate) is reachable, through the package's own functions, from loadHashMap / LoadHashMap, the Get methods of both maps, GetProof, ReadCheckpoint or Progress — the stored table changes only through the plotting passes and their checkpoints", 8)
	checkLoadReadOnly(c, "C07-LOADRO")
	c.Rule("C07-FORWARD", "the keeper forwards proof and error of MassDB.GetProof unchanged and the miner drops entries whose Error is non-nil; every proof task handed to the worker pool works on the space of its own loop iteration (no loop variable or per-loop struct shared between tasks)", 2)
	checkLoopVarCapture(c, "C07-FORWARD", []string{pkgCapacity, pkgSkchia})

	if f := c.MustFn("C07-VERIFY", "poc/engine/massdb/massdb.v1", "(*MassDBV1).GetProof"); f != nil {
		vs := callsIn(f, "github.com/massnetorg/mass-core/poc.VerifyProof")
		if len(vs) != 1 {
			c.Bad("C07-VERIFY", "GetProof:verify-call", c.Pos(f.Pos()), "reason=anchor-missing: GetProof does not call poc.VerifyProof exactly once")
		} else {
			v := vs[0]
			cutOK := errorEdgeCut(f, v, false) // cut success edges
			r := reach(f, nil, cutOK, nil)
			bad := false
			tested := len(errResults(v)) > 0 && len(nilTestsOf(f, errResults(v)[0])) > 0
			for _, ret := range returnsOf(f) {
				if isNilConst(strip(ret.Results[0])) {
					continue
				}
				if !tested || r(ret) {
					bad = true
					c.Bad("C07-VERIFY", "GetProof:return-dominated-by-verify", c.Pos(ret.Pos()), "a non-nil proof is returned on a path that does not pass the success edge of poc.VerifyProof")
				}
				// the returned proof is the verified proof
				same := false
				valueOrigins(f, ret.Results[0], func(root ssa.Value) {
					valueOrigins(f, v.Call.Args[0], func(r2 ssa.Value) {
						if strip(root) == strip(r2) {
							same = true
						}
					})
				})
				if !same {
					bad = true
					c.Bad("C07-VERIFY", "GetProof:returned-is-verified", c.Pos(ret.Pos()), "the proof returned is not the object handed to poc.VerifyProof")
				}
			}
			if !bad {
				c.OK("C07-VERIFY", "GetProof:return-dominated-by-verify", c.Pos(v.Pos()), "non-nil proof returned only behind VerifyProof's success edge")
				c.OK("C07-VERIFY", "GetProof:returned-is-verified", c.Pos(v.Pos()), "returned proof object is the verified object")
			}
			// arguments
			a := v.Call.Args
			hsl := backSlice(a[1])
			argsOK := (hsl.hasField(pkgMassDBV1+".MassDBV1", "pubKeyHash") || hsl.hasField(pkgMassDBV1+".MassDBV1", "pubKey")) && backSlice(a[2]).hasParam(f, "challenge") && backSlice(a[3]).hasParam(f, "filter")
			// the proof's X/XPrime derive from HashMapB.Get(CutHash(challenge))
			psl := backSlice(a[0])
			argsOK = argsOK && psl.hasCallTo("(*"+pkgMassDBV1+".HashMapB).Get") && psl.hasParam(f, "challenge")
			if argsOK {
				c.OK("C07-VERIFY", "GetProof:verify-arguments", c.Pos(v.Pos()), "VerifyProof(proof from HashMapB.Get(challenge), mdb.pubKeyHash, challenge, filter)")
			} else {
				c.Bad("C07-VERIFY", "GetProof:verify-arguments", c.Pos(v.Pos()), "VerifyProof is not applied to (stored proof, the DB's own pubKeyHash, the caller's challenge, the caller's filter)")
			}
		}
	}

	// READ completeness
	nRead := 0
	for _, name := range []string{"(*MassDBV1).prePlotWork", "(*MassDBV1).plotWork"} {
		f := c.MustFn("C07-READ", "poc/engine/massdb/massdb.v1", name)
		if f == nil {
			continue
		}
		for _, fn := range bodyFns(f, nil) { // with the phase helpers the reference tree does not have
			allInstrsShallow(fn, func(in ssa.Instruction) {
				cl, ok := in.(*ssa.Call)
				if !ok {
					return
				}
				id := calleeID(cl)
				key := fn.Name() + ":" + shortID(id)
				if id == "io.ReadFull" || id == "io.ReadAtLeast" {
					nRead++
					c.OK("C07-READ", key, c.Pos(cl.Pos()), "complete-read helper")
					return
				}
				if callName(cl) != "Read" {
					return
				}
				sig := cl.Call.Signature()
				if sig.Params().Len() != 1 || sig.Results().Len() != 2 || !strings.HasPrefix(sig.Params().At(0).Type().String(), "[]byte") {
					return
				}
				nRead++
				n := resultOf(cl, 0)
				used := false
				if n != nil {
					for a := range aliasesForward(fn, n) {
						if refs := a.Referrers(); refs != nil {
							for _, r := range *refs {
								if _, isCmp := r.(*ssa.BinOp); isCmp {
									used = true
								}
							}
						}
					}
				}
				if used {
					c.OK("C07-READ", key, c.Pos(cl.Pos()), "byte count of Read is tested")
				} else {
					c.Bad("C07-READ", key, c.Pos(cl.Pos()), "short reads are ignored: "+shortID(id)+" may return fewer bytes than the record pair (bufio.Reader.Read returns what is left in its buffer; 64 MiB is not a multiple of the 10-byte pair for bit lengths 34-40), after which every following pair is read misaligned and map B is garbage")
				}
			})
		}
	}
	_ = nRead

	// no storage error of a plotting pass is taken for the end of the input (the C10 error rule as a
	// premise: a truncated map A that ends the pair loop "normally" yields a complete-looking table with
	// proofs missing)
	c.Rule("C07-ERR", "no storage error on the plotting path is dropped: Sync, WriteAt, Seek, Read, WriteToWriter, UpdateCheckpoint results reach the pass's return as a non-nil error (the C10 rule as a premise)", 14)
	{
		pre := c.Fn("poc/engine/massdb/massdb.v1", "(*MassDBV1).prePlotWork")
		plot := c.Fn("poc/engine/massdb/massdb.v1", "(*MassDBV1).plotWork")
		upd := c.Fn("poc/engine/massdb/massdb.v1", "(*HashMap).UpdateCheckpoint")
		var scope []*ssa.Function
		for _, f := range []*ssa.Function{pre, plot, upd} {
			if f != nil {
				scope = append(scope, bodyFns(f, nil)...)
			}
		}
		runErrflow(c, errflowCfg{rule: "C07-ERR", scope: scope, classK: plotErrClass,
			strict: func(fn *ssa.Function, call *ssa.Call) bool { return true }})
	}
	c.Rule("C07-KEEPER", "a proof is served only from a completed table: after a plot run the keeper moves the space to ready or mining only behind `Progress() >= 100` of the plotted space, evaluated after Plot returned (the C10 keeper rule, here as the premise of 'a proof is served whenever one exists')", 2)
	checkStep3(c, "C07-KEEPER", pkgCapacity, "capacity")
	checkFreshWindow(c, "C07-FRESH")
	c.Rule("C07-SIBLING", "the pre-plot pass places a value in map A by the same mapping (comparison with half, doubled / flipped-doubled-plus-one) that map A's own accessors use", 1)
	checkSlotMappingSiblings(c, "C07-SIBLING")
	// FORWARD: capacity.getProof / miner.getValidProofs
	if f := c.MustFn("C07-FORWARD", "poc/engine/spacekeeper/capacity", "(*SpaceKeeper).getProof"); f != nil {
		checkGetProofForward(c, f, "capacity")
	}
	if f := c.MustFn("C07-FORWARD", "poc/engine/pocminer/miner", "getValidProofs"); f != nil {
		checkValidFilter(c, "C07-FORWARD", f)
	}
	return Meta{
		Explanation: "Decides only the clause 'every proof served verifies against the space's public key': GetProof's non-nil returns lie behind VerifyProof's success edge on the returned object with the DB's own key hash and the caller's challenge; keeper forwards (proof, error) unchanged; miner keeps only Error==nil. Plus a necessary condition of table correctness: plotting reads are complete (no ignored short read).",
		NotDecided:  "equality of the stored table with the construction, completeness ('a proof is served whenever one exists'), behaviour for any number of windows: value facts about 2^bl entries, not applicable to static analysis in reach.",
		Trusted:     []string{"go/ssa", "mass-core poc.VerifyProof is the verification oracle"},
	}
}

func checkGetProofForward(c *Ctx, f *ssa.Function, label string) {
	setBindCtx(f)
	key := label + ".getProof:forwards-proof-and-error"
	gps := callsIn(f, "("+pkgMassDB+".MassDB).GetProof")
	if len(gps) == 0 {
		c.Bad("C07-FORWARD", key, c.Pos(f.Pos()), "reason=anchor-missing: getProof does not call MassDB.GetProof")
		return
	}
	// every store into WorkSpaceProof.Proof derives from GetProof result 0 and .Error from result 1
	okP, okE := false, false
	bad := ""
	for _, fn := range withClosures(f) {
		for _, a := range fieldAccesses(fn) {
			if a.Kind != "store" || a.Type != pkgEngine+".WorkSpaceProof" {
				continue
			}
			st := a.In.(*ssa.Store)
			sl := backSlice(st.Val)
			switch a.Field {
			case "Proof":
				if sl.hasCallTo("(" + pkgMassDB + ".MassDB).GetProof") {
					okP = true
				} else if !isNilConst(strip(st.Val)) {
					bad = "WorkSpaceProof.Proof is set from something other than MassDB.GetProof"
				}
			case "Error":
				if sl.hasCallTo("(" + pkgMassDB + ".MassDB).GetProof") {
					okE = true
				}
			}
		}
	}
	if bad != "" || !okP || !okE {
		if bad == "" {
			bad = "proof or error of MassDB.GetProof is not forwarded into WorkSpaceProof"
		}
		c.Bad("C07-FORWARD", key, c.Pos(f.Pos()), bad)
	} else {
		c.OK("C07-FORWARD", key, c.Pos(f.Pos()), "WorkSpaceProof.Proof and .Error derive from MassDB.GetProof's results")
	}
}

// checkValidFilter: getValidProofs appends an element only on the edge where its Error == nil.
func checkValidFilter(c *Ctx, rule string, f *ssa.Function) {
	setBindCtx(f)
	key := "miner.getValidProofs:keeps-only-error-nil"
	var tests []nilTest
	for _, a := range fieldAccesses(f) {
		if a.Kind == "load" && a.Field == "Error" {
			tests = append(tests, nilTestsOf(f, a.In.(ssa.Value))...)
		}
	}
	if len(tests) == 0 {
		// a generic filter with a predicate: keep(element) decides, and keep is `element.Error == nil`
		if pred, elem := predicateFilterForm(f); pred != nil && predicateIs(pred, func(v ssa.Value) bool {
			bo, isB := v.(*ssa.BinOp)
			if !isB || bo.Op != token.EQL {
				return false
			}
			x, y := bo.X, bo.Y
			if k, isK := x.(*ssa.Const); isK && k.IsNil() {
				x, y = y, x
			}
			if k, isK := y.(*ssa.Const); !isK || !k.IsNil() {
				return false
			}
			ld, isLd := x.(*ssa.UnOp)
			if !isLd || ld.Op != token.MUL {
				return false
			}
			_, fname, base, isF := fieldOfAddr(ld.X)
			if !isF || fname != "Error" {
				return false
			}
			return base == ssa.Value(elem) || sameOriginValue(pred, base, ssa.Value(elem))
		}) {
			c.OK(rule, key, c.Pos(f.Pos()), "a generic filter keeps an element only where its predicate says so, and the predicate is element.Error == nil")
			return
		}
		c.Bad(rule, key, c.Pos(f.Pos()), "no test of WorkSpaceProof.Error in getValidProofs")
		return
	}
	cut := func(from, to *ssa.BasicBlock) bool {
		for _, t := range tests {
			if from == t.If.Block() && to == t.NilSucc {
				return true
			}
		}
		return false
	}
	r := reach(f, nil, cut, nil)
	bad := false
	n := 0
	allInstrs(f, func(in ssa.Instruction) {
		if cl, ok := in.(*ssa.Call); ok && calleeID(cl) == "builtin.append" {
			n++
			if r(cl) {
				bad = true
			}
		}
	})
	if n == 0 {
		c.Bad(rule, key, c.Pos(f.Pos()), "no append in getValidProofs")
	} else if bad {
		c.Bad(rule, key, c.Pos(f.Pos()), "an element is appended on a path where its Error is not known to be nil")
	} else {
		c.OK(rule, key, c.Pos(f.Pos()), "append only behind the Error==nil edge")
	}
}

// checkFreshWindow (shared by C10 and C07): every window is computed into a freshly allocated
// (zeroed) cache — the scan loops rely on untouched slots reading as "no entry".
func checkFreshWindow(c *Ctx, rule string) {
	upd := c.MustFn(rule, "poc/engine/massdb/massdb.v1", "(*MemCache).Update")
	mam := c.MustFn(rule, "poc/engine/massdb/massdb.v1", "makeAvailableMemory")
	if upd != nil {
		key := "MemCache.Update:always-reallocates"
		var mk ssa.Instruction
		for _, a := range fieldAccesses(upd) {
			if a.Kind == "store" && a.Field == "data" {
				if _, ok := a.In.(*ssa.Store).Val.(*ssa.MakeSlice); ok {
					mk = a.In
				}
			}
		}
		if mk == nil {
			c.Bad(rule, key, c.Pos(upd.Pos()), "Update no longer stores a freshly made slice into cache.data")
		} else {
			r := reach(upd, nil, nil, func(in ssa.Instruction) bool { return in == mk })
			bad := false
			for _, ret := range returnsOf(upd) {
				if r(ret) {
					bad = true
					c.Bad(rule, key, c.Pos(ret.Pos()), "Update can return without allocating a fresh (zeroed) buffer: a window of the same size as the previous one keeps stale records in the slots it does not fill, so the table depends on the memory available")
				}
			}
			if !bad {
				c.OK(rule, key, c.Pos(mk.Pos()), "every return of Update is preceded by cache.data = make([]byte, size)")
			}
		}
	}
	if mam != nil {
		key := "makeAvailableMemory:always-updates-cache"
		us := callsIn(mam, "(*"+pkgMassDBV1+".MemCache).Update")
		if len(us) == 0 {
			c.Bad(rule, key, c.Pos(mam.Pos()), "makeAvailableMemory no longer calls cache.Update")
		} else {
			r := reach(mam, nil, nil, func(in ssa.Instruction) bool {
				cl, ok := in.(*ssa.Call)
				return ok && isCall(cl, "(*"+pkgMassDBV1+".MemCache).Update")
			})
			bad := false
			for _, ret := range returnsOf(mam) {
				if isNilErrorReturn(ret) && r(ret) {
					bad = true
					c.Bad(rule, key, c.Pos(ret.Pos()), "makeAvailableMemory can succeed without re-creating the cache: the next window is computed over the previous window's contents")
				}
			}
			if !bad {
				c.OK(rule, key, c.Pos(us[0].Pos()), "every successful return is preceded by cache.Update")
			}
		}
	}
	for _, name := range []string{"(*MassDBV1).prePlotWork", "(*MassDBV1).plotWork"} {
		f := c.MustFn(rule, "poc/engine/massdb/massdb.v1", name)
		if f == nil {
			continue
		}
		key := f.Name() + ":fresh-cache-per-window"
		ws := callsIn(f, idWTW)
		// the call (direct or through the local closure) that re-creates the cache
		isMem := func(in ssa.Instruction) bool {
			cl, ok := in.(*ssa.Call)
			if !ok {
				return false
			}
			if strings.HasSuffix(calleeID(cl), "makeAvailableMemory") {
				return true
			}
			for _, callee := range (&c13ctx{}).calleesOf(cl) {
				if callee.Parent() != nil {
					found := false
					allInstrs(callee, func(i2 ssa.Instruction) {
						if strings.HasSuffix(calleeID(i2), "makeAvailableMemory") {
							found = true
						}
					})
					if found {
						return true
					}
				}
			}
			return false
		}
		bad := len(ws) == 0
		for _, w := range ws {
			// from one window write round to the next, and from entry to the first
			if reach(f, w, nil, isMem)(w) || reach(f, nil, nil, isMem)(w) {
				bad = true
			}
		}
		if bad {
			c.Bad(rule, key, c.Pos(f.Pos()), "a window can be computed and written without the cache having been re-created since the previous window")
		} else {
			c.OK(rule, key, c.Pos(f.Pos()), "every path to a window write passes makeAvailableMemory since the previous write")
		}
	}
}

// checkStopReturns: on the plotting path, the arm taken when the stop channel fires returns a
// provably non-nil error — an interrupted step must never be taken for a completed one.
func checkStopReturns(c *Ctx, rule string) {
	for _, name := range []string{"(*MassDBV1).prePlotWork", "(*MassDBV1).plotWork", "(*MemCache).WriteToWriter"} {
		f := c.MustFn(rule, "poc/engine/massdb/massdb.v1", name)
		if f == nil {
			continue
		}
		n := 0
		for _, fn := range withClosures(f) {
			allInstrs(fn, func(in ssa.Instruction) {
				sel, ok := in.(*ssa.Select)
				if !ok {
					return
				}
				for idx, st := range sel.States {
					org := chanOrigin(fn, st.Chan)
					if !(strings.HasSuffix(org, ".stopPlotCh") || org == "param:quit") {
						continue
					}
					n++
					key := fmt.Sprintf("%s:stop-arm-returns-error#%d", fn.Name(), n)
					// find `extract sel #0 == idx`
					var tests []boolTest
					if refs := sel.Referrers(); refs != nil {
						for _, r := range *refs {
							ex, ok := r.(*ssa.Extract)
							if !ok || ex.Index != 0 {
								continue
							}
							if xr := ex.Referrers(); xr != nil {
								for _, u := range *xr {
									if bo, ok := u.(*ssa.BinOp); ok && bo.Op == token.EQL {
										if k, ok := bo.Y.(*ssa.Const); ok && k.Int64() == int64(idx) {
											tests = append(tests, boolTestsOf(fn, bo)...)
										}
									}
								}
							}
						}
					}
					if len(tests) == 0 {
						c.Unk(rule, key, c.Pos(sel.Pos()), "cannot find the branch taken when the stop channel fires")
						continue
					}
					bad := ""
					saw := false
					for _, t := range tests {
						region := dominatedRegion(fn, t.TrueSucc)
						for _, ret := range returnsOf(fn) {
							if !region[ret.Block()] {
								continue
							}
							saw = true
							last := ret.Results[len(ret.Results)-1]
							if good, why := provablyNonNilError(fn, last, map[ssa.Value]bool{}); !good {
								bad = "when the stop channel fires the function " + why + ": the caller treats the interrupted step as completed and records progress for data that was not written"
							}
						}
						for b := range region {
							for _, s := range b.Succs {
								if !region[s] {
									bad = "the stop arm falls through into normal flow instead of returning"
								}
							}
						}
					}
					if bad == "" && saw {
						c.OK(rule, key, c.Pos(sel.Pos()), "stop arm returns a provably non-nil error")
					} else if bad == "" {
						c.Bad(rule, key, c.Pos(sel.Pos()), "stop arm does not return")
					} else {
						c.Bad(rule, key, c.Pos(sel.Pos()), bad)
					}
				}
			})
		}
	}
}

// ---- sibling agreement of the map-A slot mapping (writer: prePlotWork; readers: HashMapA.Get/Set)

func exprStr(v ssa.Value, depth int) string {
	if depth > 8 {
		return "…"
	}
	switch x := v.(type) {
	case *ssa.Const:
		if x.Value == nil {
			return "nil"
		}
		return x.Value.ExactString()
	case *ssa.Convert:
		return exprStr(x.X, depth+1)
	case *ssa.ChangeType:
		return exprStr(x.X, depth+1)
	case *ssa.BinOp:
		if x.Op == token.QUO {
			if k, ok := x.Y.(*ssa.Const); ok && k.Value != nil && k.Value.ExactString() == "2" {
				if backSlice(x.X).hasField(tHashMap, "volume") {
					return "half"
				}
			}
		}
		return "(" + exprStr(x.X, depth+1) + " " + x.Op.String() + " " + exprStr(x.Y, depth+1) + ")"
	case *ssa.Call:
		if strings.HasSuffix(calleeID(x), "pocutil.FlipValue") {
			return "flip(" + exprStr(x.Call.Args[0], depth+1) + ")"
		}
		return "v"
	case *ssa.UnOp:
		if _, f, _, ok := fieldOfValue(x); ok {
			switch f {
			case "half":
				return "half"
			case "bl":
				return "bl"
			}
		}
		if x.Op == token.MUL {
			if c := cellOf(x.X); c != nil {
				// a local: single reaching definition chain
				s := ""
				n := 0
				valueOrigins(x.Parent(), x, func(root ssa.Value) {
					n++
					if root != ssa.Value(x) {
						s = exprStr(root, depth+1)
					}
				})
				if n == 1 && s != "" {
					return s
				}
			}
		}
		return "v"
	case *ssa.Phi:
		return "v"
	case *ssa.Parameter:
		return "v"
	}
	return "v"
}

// slotMapping extracts "cond ? then : else" of the A-table slot mapping from fn.
func slotMapping(fn *ssa.Function) string {
	var out []string
	for _, f := range bodyFns(fn, nil) { // fn, its closures and helpers the reference tree does not have
		f := f
		allInstrsShallow(f, func(in ssa.Instruction) {
			bo, ok := in.(*ssa.BinOp)
			if !ok {
				return
			}
			switch bo.Op {
			case token.LSS, token.LEQ, token.GTR, token.GEQ:
			default:
				return
			}
			l, r := exprStr(bo.X, 0), exprStr(bo.Y, 0)
			if !(l == "v" && r == "half") && !(l == "half" && r == "v") {
				return
			}
			tests := boolTestsOf(f, bo)
			if len(tests) == 0 {
				return
			}
			t := tests[0]
			// the mapped values: stores / phi inputs computed in the two successor blocks
			branch := func(b *ssa.BasicBlock) string {
				var es []string
				for _, i2 := range b.Instrs {
					if v, ok := i2.(*ssa.BinOp); ok {
						// outermost arithmetic expressions of the block
						used := false
						if refs := v.Referrers(); refs != nil {
							for _, u := range *refs {
								if ub, ok := u.(*ssa.BinOp); ok && ub.Block() == b {
									used = true
								}
							}
						}
						if !used {
							es = append(es, exprStr(v, 0))
						}
					}
				}
				sort.Strings(es)
				return strings.Join(es, ";")
			}
			// canonical form `v < half ? lower : upper`, whatever way the condition is written
			// (v >= half with the branches swapped, half > v, …)
			lower, upper := branch(t.TrueSucc), branch(t.FalseSucc)
			op := bo.Op
			if l == "half" { // half OP v  ==  v OP' half
				switch op {
				case token.LSS:
					op = token.GTR
				case token.LEQ:
					op = token.GEQ
				case token.GTR:
					op = token.LSS
				case token.GEQ:
					op = token.LEQ
				}
			}
			switch op {
			case token.GEQ: // v >= half ? upper : lower
				lower, upper = upper, lower
				op = token.LSS
			case token.GTR: // v > half ? … : …  (a different boundary: keep it visible)
				lower, upper = upper, lower
				op = token.LEQ
			}
			out = append(out, fmt.Sprintf("v %s half ? %s : %s", op, lower, upper))
		})
	}
	sort.Strings(out)
	return strings.Join(out, " | ")
}

func checkSlotMappingSiblings(c *Ctx, rule string) {
	w := c.MustFn(rule, "poc/engine/massdb/massdb.v1", "(*MassDBV1).prePlotWork")
	g := c.MustFn(rule, "poc/engine/massdb/massdb.v1", "(*HashMapA).Get")
	s := c.MustFn(rule, "poc/engine/massdb/massdb.v1", "(*HashMapA).Set")
	if w == nil || g == nil || s == nil {
		return
	}
	mw, mg, ms := slotMapping(w), slotMapping(g), slotMapping(s)
	key := "mapA-slot-mapping:writer-equals-readers"
	if mw == "" || mg == "" {
		c.Bad(rule, key, c.Pos(w.Pos()), "reason=anchor-missing: slot mapping (value vs half) not found in prePlotWork / HashMapA.Get")
		return
	}
	if mw == mg && mg == ms {
		c.OK(rule, key, c.Pos(w.Pos()), "prePlotWork, HashMapA.Get and HashMapA.Set map a value to its slot identically: "+mw)
	} else {
		c.Bad(rule, key, c.Pos(w.Pos()), "the pre-plot pass places values in map A differently from how map A is addressed by its readers: writer {"+mw+"} vs Get {"+mg+"} / Set {"+ms+"} — the boundary value lands in a slot no reader looks at, so its pair (and the proofs built from it) is missing from the finished table")
	}
}

// cellKnownNonNil: v is a load of a variable cell (a captured `err`); another load of the same cell
// was tested non-nil on an edge dominating the use, and between that test and the use the cell is
// neither stored to nor can a closure capturing it run (no call receives such a closure).
func cellKnownNonNil(fn *ssa.Function, v ssa.Value, use ssa.Instruction) bool {
	ld, ok := v.(*ssa.UnOp)
	if !ok || ld.Op != token.MUL {
		return false
	}
	cell := rootCell(ld.X)
	if cell == nil {
		return false
	}
	// defer-spilled result: `*res = x; rundefers; return *res` — look through to x at the spill
	if rd := rdOf(fn); rd != nil && !rd.fromEntry[ld] && len(rd.loads[ld]) == 1 {
		if st, isSt := rd.loads[ld][0].(*ssa.Store); isSt {
			if _, isLoad := st.Val.(*ssa.UnOp); isLoad && st.Val != v {
				if cellKnownNonNil(fn, st.Val, st) {
					return true
				}
			}
		}
	}
	touches := func(in ssa.Instruction) bool {
		switch x := in.(type) {
		case *ssa.Store:
			return rootCell(x.Addr) == cell
		case ssa.CallInstruction:
			for _, a := range x.Common().Args {
				if mc, isMC := a.(*ssa.MakeClosure); isMC {
					for _, b := range mc.Bindings {
						if rootCell(b) == cell {
							return true
						}
					}
				}
				if rootCell(a) == cell {
					return true
				}
			}
		}
		return false
	}
	found := false
	allInstrs(fn, func(in ssa.Instruction) {
		l2, ok := in.(*ssa.UnOp)
		if found || !ok || l2.Op != token.MUL || rootCell(l2.X) != cell {
			return
		}
		for _, t := range nilTestsOf(fn, l2) {
			if len(t.NonNil.Preds) != 1 || !t.NonNil.Dominates(use.Block()) {
				continue
			}
			r := reach(fn, l2, nil, nil)
			clean := true
			allInstrs(fn, func(x ssa.Instruction) {
				if clean && touches(x) && r(x) {
					if reach(fn, x, nil, nil)(use) {
						clean = false
					}
				}
			})
			if clean {
				found = true
			}
		}
	})
	return found
}

func checkC07ScanOwn(c *Ctx) {
	if f := c.MustFn("C07-SCAN", "poc/engine/massdb/massdb.v1", "(*MassDBV1).plotWork"); f != nil {
		reads := callsIn(f, "io.ReadFull")
		if len(reads) == 0 {
			c.Bad("C07-SCAN", "plotWork:anchor", c.Pos(f.Pos()), "reason=anchor-missing: io.ReadFull in the pair loop")
		} else {
			rd := reads[0]
			// the pair loop may sit in a phase helper the reference tree does not have
			f = hostFn(f, rd)
			// the loop variable: phi compared with `half` in a re-entered block dominating the read
			var yphi *ssa.Phi
			allInstrs(f, func(in ssa.Instruction) {
				iff, ok := in.(*ssa.If)
				if !ok || !iff.Block().Dominates(rd.Block()) || !blockReentered(f, iff) {
					return
				}
				if cmp, isB := iff.Cond.(*ssa.BinOp); isB && cmp.Op == token.LSS {
					if ph, isP := cmp.X.(*ssa.Phi); isP && ph.Block() == iff.Block() {
						// innermost: keep the one whose block is dominated by previous candidates
						if yphi == nil || yphi.Block().Dominates(ph.Block()) {
							yphi = ph
						}
					}
				}
			})
			key := "plotWork:pair-loop-from-zero"
			if yphi == nil {
				c.Bad("C07-SCAN", key, c.Pos(rd.Pos()), "reason=anchor-missing: the loop over the pairs of map A")
			} else {
				zero := false
				other := true
				for _, e := range yphi.Edges {
					if k, isK := strip(e).(*ssa.Const); isK && k.Value != nil {
						if k.Value.ExactString() == "0" {
							zero = true
						} else {
							other = false
						}
						continue
					}
					if !backSlice(e).has(yphi) {
						other = false // an initial value that is not the constant 0
					}
				}
				if zero && other {
					c.OK("C07-SCAN", key, c.Pos(yphi.Pos()), "y starts at the constant 0 in every window")
				} else {
					c.Bad("C07-SCAN", key, c.Pos(yphi.Pos()), "the pair loop of a window does not start at 0: pairs below its start are never considered, so proofs whose pair precedes the window start are silently missing from every later (or resumed) window")
				}
			}
			// the read position
			key = "plotWork:read-from-start-of-map-A"
			var seek *ssa.Call
			allInstrs(f, func(in ssa.Instruction) {
				if cl, ok := in.(*ssa.Call); ok && strings.HasSuffix(calleeID(cl), "os.File).Seek") && strings.Contains(accessPath(callRecv(cl)), "HashMapA") && reach(f, cl, nil, nil)(rd) {
					seek = cl
				}
			})
			if seek == nil {
				c.Bad("C07-SCAN", key, c.Pos(rd.Pos()), "reason=anchor-missing: Seek on map A's file before the pair loop")
			} else {
				hasPhi, hasOffset := false, false
				for x := range backSlice(callArgs(seek)[0]).vals {
					if _, isP := x.(*ssa.Phi); isP {
						hasPhi = true
					}
					if _, fld, _, ok := fieldOfValue(x); ok && fld == "offset" {
						hasOffset = true
					}
				}
				if hasOffset && !hasPhi {
					c.OK("C07-SCAN", key, c.Pos(seek.Pos()), "Seek(hmA.offset): no window-dependent term")
				} else {
					c.Bad("C07-SCAN", key, c.Pos(seek.Pos()), "the read position of a window depends on the window (or is not map A's offset): the pairs read no longer are all pairs of map A")
				}
			}
		}
	}
	// windows cover the whole table: the window loop of each pass runs while start < volume (pass A) or
	// start < volume/2 (pass B), not a shortened bound
	for _, spec := range []struct{ fn, bound string }{{"(*MassDBV1).prePlotWork", "volume"}, {"(*MassDBV1).plotWork", "half"}} {
		f := c.MustFn("C07-SCAN", "poc/engine/massdb/massdb.v1", spec.fn)
		if f == nil {
			continue
		}
		key := strings.NewReplacer("(", "", "*", "", ")", "").Replace(spec.fn) + ":windows-cover-the-whole-table"
		// the outermost loop whose condition compares a phi with something derived from the volume field
		var outer *ssa.If
		allInstrsNew(f, func(in ssa.Instruction) { // the window loop may sit in a phase helper the reference tree does not have
			iff, ok := in.(*ssa.If)
			if !ok || !blockReentered(iff.Parent(), iff) {
				return
			}
			cmp, isB := iff.Cond.(*ssa.BinOp)
			if !isB || cmp.Op != token.LSS {
				return
			}
			if _, isP := cmp.X.(*ssa.Phi); !isP || !backSlice(cmp.Y).hasField(pkgMassDBV1+".HashMap", "volume") {
				return
			}
			if outer == nil || (iff.Parent() == outer.Parent() && iff.Block().Dominates(outer.Block())) || (iff.Parent() != outer.Parent() && instrDominates(iff, outer)) {
				outer = iff
			}
		})
		if outer == nil {
			c.Bad("C07-SCAN", key, c.Pos(f.Pos()), "reason=anchor-missing: the window loop bounded by the table volume")
			continue
		}
		bound := outer.Cond.(*ssa.BinOp).Y
		shortened := ""
		for x := range backSlice(bound).vals {
			if bo, isB := x.(*ssa.BinOp); isB && (bo.Op == token.SUB || bo.Op == token.ADD) {
				shortened = bo.Op.String()
			}
		}
		if shortened != "" {
			c.Bad("C07-SCAN", key, c.Pos(outer.Pos()), "the window loop's bound is the volume adjusted by a "+shortened+": a resumed pass (odd start) never runs its last one-record window and the last slot of the table stays empty although the construction fills it")
		} else {
			c.OK("C07-SCAN", key, c.Pos(outer.Pos()), "window loop runs while start < "+spec.bound+" (no adjustment)")
		}
	}
	// both orderings of a pair are placed relative to the same window base: the offset of every cache
	// write subtracts the very lower bound its range test compares with
	if f := c.MustFn("C07-SCAN", "poc/engine/massdb/massdb.v1", "(*MassDBV1).plotWork"); f != nil {
		key := "plotWork:offset-base-is-the-window-lower-bound"
		n, bad := 0, ""
		// the writes may sit in a helper the reference tree does not have (summary.go); the range test is
		// looked for in the function that contains the write, in any of its source forms:
		//   if L <= V && … { write }        if V < L || … { return }; write
		for _, w := range callsInBody(f, "(*"+pkgMassDBV1+".MemCache).WriteAt") {
			g := w.Parent()
			weight := 1
			if gNewFuncs[g] && len(gCallSitesOf[g]) > 0 {
				weight = len(gCallSitesOf[g])
			}
			off := w.Call.Args[len(w.Call.Args)-1]
			for x := range backSlice(off).vals {
				sub, isB := x.(*ssa.BinOp)
				if !isB || sub.Op != token.SUB || sub.Parent() != g {
					continue
				}
				// a dominating range test  L <= V  (V = sub.X)
				allInstrs(g, func(in ssa.Instruction) {
					iff, ok := in.(*ssa.If)
					if !ok {
						return
					}
					cmp, isC := iff.Cond.(*ssa.BinOp)
					if !isC || !iff.Block().Dominates(w.Block()) || len(iff.Block().Succs) != 2 {
						return
					}
					var lower ssa.Value
					var viaTrue bool
					switch {
					case cmp.Op == token.LEQ && cmp.Y == sub.X: // L <= V
						lower, viaTrue = cmp.X, true
					case cmp.Op == token.GEQ && cmp.X == sub.X: // V >= L
						lower, viaTrue = cmp.Y, true
					case cmp.Op == token.LSS && cmp.X == sub.X: // V < L  (write on the false edge)
						lower, viaTrue = cmp.Y, false
					case cmp.Op == token.GTR && cmp.Y == sub.X: // L > V  (write on the false edge)
						lower, viaTrue = cmp.X, false
					default:
						return
					}
					// the write is reached only through the edge on which L <= V holds
					edge := iff.Block().Succs[1]
					other := iff.Block().Succs[0]
					if viaTrue {
						edge, other = other, edge
					}
					if !(edge.Dominates(w.Block()) && len(edge.Preds) == 1) && !unreachableWithout(g, iff.Block(), other, w) {
						return
					}
					n += weight
					if lower != sub.Y {
						bad = c.Pos(w.Pos()) + " "
					}
				})
			}
		}
		switch {
		case n < 4:
			c.Bad("C07-SCAN", key, c.Pos(f.Pos()), fmt.Sprintf("reason=anchor-missing: expected the four cache writes of pass B behind their range tests, found %d", n))
		case bad != "":
			c.Bad("C07-SCAN", key, strings.TrimSpace(bad), "a cache write computes its offset from a base other than the lower bound of its own range test (single vs doubled window start): in every window but the first the entry lands in the wrong slot")
		default:
			c.OK("C07-SCAN", key, c.Pos(f.Pos()), fmt.Sprintf("%d write/test pairs, each offset = (z - lower bound of its test)", n))
		}
	}
	for _, name := range []string{"(*HashMapB).Get", "(*HashMapA).Get"} {
		f := c.MustFn("C07-OWN", "poc/engine/massdb/massdb.v1", name)
		if f == nil {
			continue
		}
		key := strings.NewReplacer("(", "", "*", "", ")", "").Replace(name) + ":returns-caller-owned-bytes"
		bad := ""
		n := 0
		for _, ret := range returnsOf(f) {
			for _, r := range ret.Results {
				if _, isS := r.Type().Underlying().(*types.Slice); !isS {
					continue
				}
				valueOrigins(f, r, func(root ssa.Value) {
					var chase func(v ssa.Value, d int)
					chase = func(v ssa.Value, d int) {
						if d > 6 {
							return
						}
						switch x := v.(type) {
						case *ssa.Const:
						case *ssa.Slice:
							chase(x.X, d+1)
						case *ssa.Alloc:
							n++
							if x.Parent() != f {
								bad = "a buffer of the enclosing function"
							}
						case *ssa.MakeSlice:
							n++
						case *ssa.Call:
							if b, isB := x.Call.Value.(*ssa.Builtin); isB && b.Name() == "append" {
								// append(nil/fresh, …) yields a new array; append(shared, …) may write into the shared one
								if isNilConst(strip(x.Call.Args[0])) {
									n++
								} else {
									chase(x.Call.Args[0], d+1)
								}
							} else {
								n++ // a value returned by another function: owned by whoever made it, not by the map object
							}
						case *ssa.FieldAddr, *ssa.Field:
							bad = "storage held in " + accessPath(x)
						case *ssa.UnOp:
							if _, _, _, ok := fieldOfValue(x); ok {
								bad = "storage held in " + accessPath(x)
							} else {
								valueOrigins(f, x.X, func(r2 ssa.Value) {
									if r2 != v {
										chase(r2, d+1)
									}
								})
							}
						default:
							bad = "a value of unknown ownership (" + v.String() + ")"
						}
					}
					chase(root, 0)
				})
			}
		}
		if bad != "" {
			c.Bad("C07-OWN", key, c.Pos(f.Pos()), "the bytes returned alias "+bad+": a proof already verified and handed out is rewritten by the next lookup on the same space")
		} else if n == 0 {
			c.Bad("C07-OWN", key, c.Pos(f.Pos()), "reason=anchor-missing: no byte slice is returned")
		} else {
			c.OK("C07-OWN", key, c.Pos(f.Pos()), "returned slices are cut from a buffer allocated in the call")
		}
	}
}

// checkRemoveAfterPasses: map A is removed only after both passes returned nil (shared by C10 and C11).
func checkRemoveAfterPasses(c *Ctx, rule string) {
	exec := c.MustFn(rule, "poc/engine/massdb/massdb.v1", "(*MassDBV1).executePlot")
	if exec != nil {
		removes := callsIn(exec, "os.Remove", "os.RemoveAll")
		pw := callsIn(exec, "(*"+pkgMassDBV1+".MassDBV1).prePlotWork")
		plw := callsIn(exec, "(*"+pkgMassDBV1+".MassDBV1).plotWork")
		if len(removes) == 0 || len(pw) != 1 || len(plw) != 1 {
			c.Bad(rule, "executePlot:shape", c.Pos(exec.Pos()), "reason=anchor-missing: executePlot no longer calls prePlotWork, plotWork and os.Remove")
		} else {
			for i, passCall := range []*ssa.Call{pw[0], plw[0]} {
				key := fmt.Sprintf("executePlot:remove-after-%s", []string{"prePlotWork", "plotWork"}[i])
				// cut the success edge of this pass: Remove must become unreachable from entry
				r := reach(exec, nil, errorEdgeCut(exec, passCall, false), nil)
				bad := false
				if h := passCall.Parent(); h != exec && h.Parent() == nil && gNewFuncs[h] && len(sitesOf(h)) == 1 {
					// the passes run in a phase helper the reference tree does not have: the helper must not
					// signal "completed" (a true result, or a nil error) when this pass failed, and map A is
					// removed only behind that signal
					site, isCall := sitesOf(h)[0].(*ssa.Call)
					if !isCall || site.Parent() != exec || len(errResults(passCall)) == 0 {
						c.Bad(rule, key, c.Pos(passCall.Pos()), "the pass's error is not tested before map A is removed")
						continue
					}
					nres := h.Signature.Results().Len()
					bidx := -1
					for i := 0; i < nres; i++ {
						if b, isB := h.Signature.Results().At(i).Type().Underlying().(*types.Basic); isB && b.Kind() == types.Bool {
							bidx = i
						}
					}
					rh := reach(h, nil, errorEdgeCut(h, passCall, false), nil)
					for _, ret := range returnsOf(h) {
						if !rh(ret) {
							continue
						}
						if bidx >= 0 {
							// (named results are spilled to cells when the helper defers: judge what reaches the return)
							valueOrigins(h, ret.Results[bidx], func(rv ssa.Value) {
								if k, isK := rv.(*ssa.Const); !isK || k.Value == nil || k.Value.String() != "false" {
									bad = true
								}
							})
						} else if isNilErrorReturn(ret) {
							bad = true
						}
					}
					if bad {
						c.Bad(rule, key, c.Pos(passCall.Pos()), "the phase helper can report the plot complete although this pass did not return nil")
						continue
					}
					var cut func(from, to *ssa.BasicBlock) bool
					if bidx >= 0 {
						var okv ssa.Value = site
						if nres > 1 {
							okv = resultOf(site, bidx)
						}
						ot := boolTestsOf(exec, okv)
						if okv == nil || len(ot) == 0 {
							c.Bad(rule, key, c.Pos(site.Pos()), "the phase helper's completion result is not tested before map A is removed")
							continue
						}
						cut = boolEdgeCut(ot, true)
					} else {
						cut = errorEdgeCut(exec, site, false)
					}
					r = reach(exec, nil, cut, nil)
				} else if len(errResults(passCall)) == 0 || len(nilTestsOf(exec, errResults(passCall)[0])) == 0 {
					bad = true
					c.Bad(rule, key, c.Pos(passCall.Pos()), "the pass's error is not tested before map A is removed")
				}
				for _, rm := range removes {
					if r(rm) {
						bad = true
						c.Bad(rule, key, c.Pos(rm.Pos()), "os.Remove of map A is reachable although the pass did not return nil")
					}
					if !instrDominates(passCall, rm) {
						bad = true
						c.Bad(rule, key, c.Pos(rm.Pos()), "os.Remove of map A is not dominated by the pass")
					}
				}
				if !bad {
					c.OK(rule, key, c.Pos(passCall.Pos()), "os.Remove(filePathA) unreachable unless the pass returned nil")
				}
			}
		}
	}
}

// checkMapALoadedByProgressOnly: in OpenDB the decision to load map A (i.e. to treat the space as
// unfinished) is the plotted flag of map B's recorded checkpoint and nothing else (shared by C10-READY
// and C11-STATE).
func checkMapALoadedByProgressOnly(c *Ctx, rule string) {
	f := c.MustFn(rule, "poc/engine/massdb/massdb.v1", "OpenDB")
	if f == nil {
		return
	}
	key := "OpenDB:unfinished-iff-recorded-progress-says-so"
	loads := callsIn(f, pkgMassDBV1+".LoadHashMap")
	prog := callsIn(f, "(*"+pkgMassDBV1+".HashMapB).Progress")
	if len(loads) != 2 || len(prog) != 1 {
		c.Bad(rule, key, c.Pos(f.Pos()), "reason=anchor-missing: the two LoadHashMap calls and HashMapB.Progress in OpenDB")
		return
	}
	ldA := loads[1]
	if instrDominates(loads[1], loads[0]) {
		ldA = loads[0]
	}
	plotted := resultOf(prog[0], 0)
	// the innermost test dominating the load of map A
	var test *ssa.If
	allInstrs(f, func(in ssa.Instruction) {
		iff, ok := in.(*ssa.If)
		if !ok || !iff.Block().Dominates(ldA.Block()) || iff.Block() == ldA.Block() {
			return
		}
		for _, s2 := range iff.Block().Succs {
			if len(s2.Preds) == 1 && s2.Dominates(ldA.Block()) {
				if test == nil || test.Block().Dominates(iff.Block()) {
					test = iff
				}
			}
		}
	})
	if test == nil {
		c.Bad(rule, key, c.Pos(ldA.Pos()), "map A is loaded unconditionally or its guard cannot be found")
		return
	}
	pure := true
	seen := 0
	var walk func(v ssa.Value, d int)
	walk = func(v ssa.Value, d int) {
		if d > 6 {
			pure = false
			return
		}
		switch x := v.(type) {
		case *ssa.UnOp:
			if x.Op == token.NOT {
				walk(x.X, d+1)
				return
			}
			valueOrigins(f, x, func(r ssa.Value) {
				if r != v {
					walk(r, d+1)
				} else {
					pure = false
				}
			})
		case *ssa.Extract:
			if v == plotted {
				seen++
			} else {
				pure = false
			}
		case *ssa.Phi:
			for _, e := range x.Edges {
				walk(e, d+1)
			}
		default:
			pure = false
		}
	}
	walk(test.Cond, 0)
	if pure && seen > 0 {
		c.OK(rule, key, c.Pos(ldA.Pos()), "LoadHashMap(pathA) is guarded by !plotted of hmB.Progress() alone")
	} else {
		c.Bad(rule, key, c.Pos(ldA.Pos()), "whether a space is opened as finished depends on something other than map B's recorded checkpoint (e.g. on whether the `_a` file exists): a B file with an unfinished checkpoint and no companion is reported ready at 100% and offered for proofs")
	}
}


// unreachableWithout: target cannot be reached from block `from` when the edge from->avoid is the only
// one taken (i.e. every path from `from` to target leaves through the other successor).
func unreachableWithout(f *ssa.Function, from, avoid *ssa.BasicBlock, target ssa.Instruction) bool {
	if len(from.Instrs) == 0 {
		return false
	}
	last := from.Instrs[len(from.Instrs)-1]
	r := reach(f, last, func(a, b *ssa.BasicBlock) bool { return a == from && b != avoid }, nil)
	return !r(target)
}


// checkReadyRules: readiness is derived from map B's recorded checkpoint all the way up to the keeper's
// state (HashMapB.Progress, MassDBV1.Progress, NewWorkSpace, OpenDB). Shared by C10 (never falsely
// complete), C07 (a space that serves proofs holds the whole table) and C09 (registered vs ready on open).
func checkReadyRules(c *Ctx, rule string) {
	// READY
	if f := c.MustFn(rule, "poc/engine/massdb/massdb.v1", "(*HashMapB).Progress"); f != nil {
		ok := false
		for _, r := range returnsOf(f) {
			sl := backSlice(r.Results[0])
			cmp := false
			for v := range sl.vals {
				if b, isB := v.(*ssa.BinOp); isB && (b.Op == token.GEQ || b.Op == token.LEQ || b.Op == token.EQL || b.Op == token.GTR || b.Op == token.LSS) {
					cmp = true
				}
			}
			if cmp && sl.hasField(tHashMap, "checkpoint") && sl.hasField(tHashMap, "volume") {
				ok = true
			}
		}
		if ok {
			c.OK(rule, "HashMapB.Progress", c.Pos(f.Pos()), "plotted flag is a comparison of HashMap.checkpoint with HashMap.volume")
		} else {
			c.Bad(rule, "HashMapB.Progress", c.Pos(f.Pos()), "plotted flag does not derive from a comparison of the checkpoint with the volume")
		}
	}
	if f := c.MustFn(rule, "poc/engine/massdb/massdb.v1", "(*MassDBV1).Progress"); f != nil {
		bad := ""
		for _, r := range returnsOf(f) {
			sl := backSlice(r.Results[1])
			if sl.hasCallTo("(*" + pkgMassDBV1 + ".HashMapB).Progress") {
				// must be component 0 of that call
				viaExtract0 := false
				for v := range sl.vals {
					if ex, ok := v.(*ssa.Extract); ok && ex.Index == 0 {
						if cl, ok := ex.Tuple.(*ssa.Call); ok && isCall(cl, "(*"+pkgMassDBV1+".HashMapB).Progress") {
							viaExtract0 = true
						}
					}
				}
				if !viaExtract0 {
					bad = "plotted is not the first result of HashMapB.Progress"
				}
				continue
			}
			// constant true only on the branch where HashMapA == nil
			if k, ok := strip(r.Results[1]).(*ssa.Const); ok && k.Value != nil && k.Value.String() == "true" {
				// r must be unreachable when the HashMapA==nil edge is cut
				var tests []nilTest
				for _, a := range fieldAccesses(f) {
					if a.Kind == "load" && a.Field == "HashMapA" {
						tests = append(tests, nilTestsOf(f, a.In.(ssa.Value))...)
					}
				}
				rr := reach(f, nil, func(from, to *ssa.BasicBlock) bool {
					for _, t := range tests {
						if from == t.If.Block() && to == t.NilSucc {
							return true
						}
					}
					return false
				}, nil)
				if len(tests) == 0 || rr(r) {
					bad = "returns plotted=true on a path where HashMapA is not known to be nil"
				}
				continue
			}
			bad = "plotted result neither comes from HashMapB.Progress nor is the HashMapA==nil constant"
		}
		// the percentage the keeper compares with 100 after a plot run is computed from the two checkpoints (and
		// the volumes) and from nothing else the running plot writes: a counter that runs ahead of the checkpoint
		// reports a table complete that was never flushed
		for _, r := range returnsOf(f) {
			if len(r.Results) < 3 {
				continue
			}
			for v := range backSlice(r.Results[2]).vals {
				switch x := v.(type) {
				case *ssa.Call:
					if strings.HasPrefix(calleeID(x), "sync/atomic.") || strings.HasPrefix(calleeID(x), "(*sync/atomic.") {
						bad = "the progress percentage also derives from an atomically read counter, not only from the maps' checkpoints"
					}
				case *ssa.FieldAddr:
					if t, fld, _, ok := fieldOfAddr(x); ok && t == pkgMassDBV1+".MassDBV1" && fld != "HashMapA" && fld != "HashMapB" {
						bad = "the progress percentage also derives from MassDBV1." + fld + ", not only from the maps' checkpoints"
					}
				}
			}
		}
		if bad == "" {
			c.OK(rule, "MassDBV1.Progress", c.Pos(f.Pos()), "plotted is HashMapB.Progress()'s flag, or true only when map A is absent")
		} else {
			c.Bad(rule, "MassDBV1.Progress", c.Pos(f.Pos()), bad)
		}
	}
	for _, spec := range []struct{ pkg, label string }{{"poc/engine/spacekeeper/capacity", "capacity"}} {
		f := c.MustFn(rule, spec.pkg, "NewWorkSpace")
		if f == nil {
			continue
		}
		key := spec.label + ".NewWorkSpace:ready-under-plotted"
		progress := callsIn(f, "("+pkgMassDB+".MassDB).Progress")
		if len(progress) != 1 {
			c.Bad(rule, key, c.Pos(f.Pos()), "reason=anchor-missing: NewWorkSpace no longer calls MassDB.Progress exactly once")
			continue
		}
		plotted := resultOf(progress[0], 1)
		var tests []boolTest
		if plotted != nil {
			tests = boolTestsOf(f, plotted)
		}
		cut := func(from, to *ssa.BasicBlock) bool {
			for _, t := range tests {
				if from == t.If.Block() && to == t.TrueSucc {
					return true
				}
			}
			return false
		}
		r := reach(f, nil, cut, nil)
		found, bad := false, false
		for _, a := range fieldAccesses(f) {
			if a.Kind != "store" || a.Field != "state" {
				continue
			}
			st := a.In.(*ssa.Store)
			// the value stored: a constant, or a local chosen between constants before the struct is built
			// (`state := Registered; if plotted { state = Ready }`): each constant is judged where it is chosen
			type choice struct {
				k  *ssa.Const
				at ssa.Instruction
			}
			var choices []choice
			if k, ok := strip(st.Val).(*ssa.Const); ok {
				choices = append(choices, choice{k, st})
			} else if phi, isPhi := strip(st.Val).(*ssa.Phi); isPhi {
				for i, e := range phi.Edges {
					if k, ok := strip(e).(*ssa.Const); ok {
						pred := phi.Block().Preds[i]
						choices = append(choices, choice{k, pred.Instrs[len(pred.Instrs)-1]})
					} else {
						choices = nil
						break
					}
				}
			}
			if len(choices) == 0 {
				// the state rule moved into a helper the reference tree does not have (`state: initialState(mdb)`):
				// the helper asks Progress itself and every return is a state constant, Ready only behind plotted
				if cl, isCall := strip(st.Val).(*ssa.Call); isCall {
					if h := cl.Call.StaticCallee(); h != nil && gNewFuncs[h] && progress[0].Parent() == h && plotted != nil {
						testsH := boolTestsOf(h, plotted)
						rh := reach(h, nil, func(from, to *ssa.BasicBlock) bool {
							for _, t := range testsH {
								if from == t.If.Block() && to == t.TrueSucc {
									return true
								}
							}
							return false
						}, nil)
						okAll, sawReady := len(returnsOf(h)) > 0, false
						for _, ret := range returnsOf(h) {
							var k *ssa.Const
							if len(ret.Results) == 1 {
								k, _ = strip(ret.Results[0]).(*ssa.Const)
							}
							if k == nil || k.Value == nil {
								okAll = false
								break
							}
							switch k.Value.ExactString() {
							case "2":
								sawReady = true
								if len(testsH) == 0 || rh(ret) {
									bad = true
									c.Bad(rule, key, c.Pos(ret.Pos()), "state Ready is chosen on a path where the plotted flag is not known to be true")
								}
							case "0":
							default:
								bad = true
								c.Bad(rule, key, c.Pos(ret.Pos()), "a state other than Registered/Ready is assigned on open")
							}
						}
						if okAll {
							found = found || sawReady
							continue
						}
					}
				}
				bad = true
				c.Bad(rule, key, c.Pos(st.Pos()), "workspace state on open is not a constant")
				continue
			}
			for _, ch := range choices {
				k := ch.k
				if k.Value == nil {
					bad = true
					continue
				}
				if k.Value.ExactString() == "2" { // engine.Ready
					found = true
					at := ch.at
					// a value that reaches the join straight from the test block is judged on its edge
					onPlottedEdge := false
					if at != ssa.Instruction(st) {
						for _, t := range tests {
							if at.Block() == t.If.Block() && phiBlockOf(st) == t.TrueSucc {
								onPlottedEdge = true
							}
						}
					}
					if len(tests) == 0 || (r(at) && !onPlottedEdge) {
						bad = true
						c.Bad(rule, key, c.Pos(st.Pos()), "state Ready is stored on a path where the plotted flag is not known to be true")
					}
				} else if k.Value.ExactString() != "0" {
					bad = true
					c.Bad(rule, key, c.Pos(st.Pos()), "a state other than Registered/Ready is assigned on open")
				}
			}
		}
		if !found {
			c.Bad(rule, key, c.Pos(f.Pos()), "reason=anchor-missing: no store of engine.Ready in NewWorkSpace")
		} else if !bad {
			c.OK(rule, key, c.Pos(f.Pos()), "state Ready is stored only on the true edge of MassDB.Progress()'s plotted flag")
		}
	}
	if f := c.MustFn(rule, "poc/engine/massdb/massdb.v1", "OpenDB"); f != nil {
		key := "OpenDB:mapA-loaded-unless-final"
		prog := callsIn(f, "(*"+pkgMassDBV1+".HashMapB).Progress")
		loads := callsIn(f, pkgMassDBV1+".LoadHashMap")
		if len(prog) != 1 || len(loads) != 2 {
			c.Bad(rule, key, c.Pos(f.Pos()), "reason=anchor-missing: OpenDB shape changed")
		} else {
			plotted := resultOf(prog[0], 0)
			tests := boolTestsOf(f, plotted)
			// on the not-plotted edge every success return passes the second LoadHashMap
			var loadA *ssa.Call
			for _, l := range loads {
				if instrDominates(prog[0], l) {
					loadA = l
				}
			}
			cutTrue := func(from, to *ssa.BasicBlock) bool {
				for _, t := range tests {
					if from == t.If.Block() && to == t.TrueSucc {
						return true
					}
				}
				return false
			}
			bad := false
			if loadA == nil || len(tests) == 0 {
				bad = true
			} else {
				r := reach(f, prog[0], cutTrue, func(in ssa.Instruction) bool { return in == ssa.Instruction(loadA) })
				for _, ret := range returnsOf(f) {
					if isNilErrorReturn(ret) && r(ret) {
						bad = true
					}
				}
				// and map A's path argument is pathA (result 0 of getPath), map B's pathB
				gp := callsIn(f, pkgMassDBV1+".getPath")
				if len(gp) == 1 {
					if !backSlice(loadA.Call.Args[0]).has(resultOf(gp[0], 0)) {
						bad = true
					}
				}
			}
			if bad {
				c.Bad(rule, key, c.Pos(f.Pos()), "OpenDB can succeed without loading map A although map B is not final (or loads the wrong path)")
			} else {
				c.OK(rule, key, c.Pos(f.Pos()), "when HashMapB.Progress() is not plotted every successful return has loaded map A from pathA")
			}
		}
	}

}


func phiBlockOf(st *ssa.Store) *ssa.BasicBlock {
	if phi, ok := strip(st.Val).(*ssa.Phi); ok {
		return phi.Block()
	}
	return nil
}

// grpcStatusError: status.New(k, …).Err(), status.Error(k, …) or status.Errorf(k, …) of google.golang.org/grpc/status
// with a constant code k != 0 (codes.OK): the library returns a non-nil error for every code but OK.
func grpcStatusError(cl *ssa.Call) bool {
	id := calleeID(cl)
	nonOK := func(v ssa.Value) bool {
		if cv, ok := v.(*ssa.Convert); ok {
			v = cv.X
		}
		if cv, ok := v.(*ssa.ChangeType); ok {
			v = cv.X
		}
		k, ok := v.(*ssa.Const)
		return ok && k.Value != nil && k.Value.Kind() == constant.Int && k.Int64() != 0
	}
	switch {
	case strings.HasSuffix(id, "grpc/status.Error"), strings.HasSuffix(id, "grpc/status.Errorf"):
		return len(cl.Call.Args) > 0 && nonOK(cl.Call.Args[0])
	case strings.HasSuffix(id, "grpc/internal/status.Status).Err"), strings.HasSuffix(id, "grpc/status.Status).Err"):
		if len(cl.Call.Args) == 0 {
			return false
		}
		nw, ok := cl.Call.Args[0].(*ssa.Call)
		if !ok {
			return false
		}
		nid := calleeID(nw)
		if !(strings.HasSuffix(nid, "grpc/status.New") || strings.HasSuffix(nid, "grpc/status.Newf") || strings.HasSuffix(nid, "grpc/internal/status.New")) {
			return false
		}
		return len(nw.Call.Args) > 0 && nonOK(nw.Call.Args[0])
	}
	return false
}

// checkLoadReadOnly (C07-LOADRO): the functions that open an existing map file or read from it do not write it.
func checkLoadReadOnly(c *Ctx, rule string) {
	short := "poc/engine/massdb/massdb.v1"
	isWrite := func(in ssa.Instruction) bool {
		if _, ok := in.(*ssa.Call); !ok {
			if _, isD := in.(*ssa.Defer); !isD {
				return false
			}
		}
		switch calleeID(in) {
		case "(*os.File).Write", "(*os.File).WriteAt", "(*os.File).WriteString", "(*os.File).Truncate", "os.Truncate", "os.WriteFile", "io/ioutil.WriteFile":
			return true
		}
		return false
	}
	for _, name := range []string{"loadHashMap", "LoadHashMap", "(*HashMapA).Get", "(*HashMapB).Get", "(*MassDBV1).Get", "(*MassDBV1).GetProof", "(*HashMap).ReadCheckpoint", "(*MassDBV1).Progress"} {
		f := c.MustFn(rule, short, name)
		if f == nil {
			continue
		}
		key := FuncName(f) + ":writes-nothing"
		if mayDo(f, isWrite) {
			// name the site
			pos := f.Pos()
			var find func(h *ssa.Function, depth int, seen map[*ssa.Function]bool) bool
			find = func(h *ssa.Function, depth int, seen map[*ssa.Function]bool) bool {
				if h == nil || seen[h] {
					return false
				}
				seen[h] = true
				for _, g := range withClosures(h) {
					for _, b := range g.Blocks {
						for _, in := range b.Instrs {
							if isWrite(in) {
								pos = in.Pos()
								return true
							}
							if depth > 0 {
								if k := helperCallee(in, pkgOf(h)); k != nil && find(k, depth-1, seen) {
									return true
								}
							}
						}
					}
				}
				return false
			}
			find(f, summaryDepth, map[*ssa.Function]bool{})
			c.Bad(rule, key, c.Pos(pos), "a write to the plot file is reachable from "+FuncName(f)+": opening or reading an existing (possibly completely plotted) map file changes stored bytes")
		} else {
			c.OK(rule, key, c.Pos(f.Pos()), "no file write reachable through the package's own functions")
		}
	}
}
