package main

const fProtoMsg = "fractal/protocol/message.go"
const fProto = "fractal/protocol/protocol.go"
const fConn = "fractal/connection/conn.go"

func init() {
	variants["C16"] = []variant{
		{Name: "two decoder cases swapped", Kill: true, Rule: "C16-TABLE", File: fProtoMsg,
			Old: "\tcase MsgTypeRequestProof:\n\t\tmsg = &RequestProof{}\n\tcase MsgTypeReportProof:\n\t\tmsg = &ReportProof{}", New: "\tcase MsgTypeRequestProof:\n\t\tmsg = &ReportProof{}\n\tcase MsgTypeReportProof:\n\t\tmsg = &RequestProof{}"},
		{Name: "new message type constant without a decoder case", Kill: true, Rule: "C16-TABLE", File: fProtoMsg,
			Old: "\tMsgTypeReportSignature  MsgType = 6\n", New: "\tMsgTypeReportSignature  MsgType = 6\n\tMsgTypeCancelTask       MsgType = 7\n"},
		{Name: "type prefix read without a length check", Kill: true, Rule: "C16-TABLE", File: fProtoMsg,
			Old: "\tif len(bs) < msgTypeByteSize {", New: "\tif bs == nil {"},
		{Name: "decoder forgets the height", Kill: true, Rule: "C16-CROSS", File: fProto,
			Old: "\treq.ParentSlot = msg.ParentSlot\n\treq.Height = msg.Height\n", New: "\treq.ParentSlot = msg.ParentSlot\n"},
		{Name: "encoder swaps parent slot and height", Kill: true, Rule: "C16-CROSS", File: fProto,
			Old: "\t\tParentSlot:   req.ParentSlot,\n\t\tHeight:       req.Height,\n\t}\n}\n\nfunc (req *RequestQualities) SetMsg", New: "\t\tParentSlot:   req.Height,\n\t\tHeight:       req.ParentSlot,\n\t}\n}\n\nfunc (req *RequestQualities) SetMsg"},
		{Name: "proof decoder restores the pool key from the plot key field", Kill: true, Rule: "C16-CROSS", File: fProto,
			Old: "\tpoolPublicKey, err := newG1ElementFromString(msg.PoolPublicKey)\n\tif err != nil {\n\t\treturn err\n\t}\n\tplotPublicKey, err := newG1ElementFromString(msg.PlotPublicKey)", New: "\tpoolPublicKey, err := newG1ElementFromString(msg.PlotPublicKey)\n\tif err != nil {\n\t\treturn err\n\t}\n\tplotPublicKey, err := newG1ElementFromString(msg.PlotPublicKey)"},
		{Name: "signature decoding error dropped", Kill: true, Rule: "C16-ERR", File: fProto,
			Old: "\tsig, err := newG2ElementFromString(msg.Signature)\n\tif err != nil {\n\t\treturn err\n\t}\n", New: "\tsig, _ := newG2ElementFromString(msg.Signature)\n"},
		{Name: "null nested proof dereferenced again", Kill: true, Rule: "C16-NILJSON", File: fProto,
			Old: "func NewProof(msg *MsgProof) (*Proof, error) {\n\tif msg == nil {\n\t\treturn nil, errNilMsg\n\t}\n", New: "func NewProof(msg *MsgProof) (*Proof, error) {\n"},
		{Name: "frame buffer allocated before the size test", Kill: true, Rule: "C16-FRAME", File: fConn,
			Old:   "\t\tsize := bytesToMsgSize(msgSizeBytes[:])\n\t\tif size == 0 {",
			New:   "\t\tsize := bytesToMsgSize(msgSizeBytes[:])\n\t\tdata := make([]byte, size)\n\t\tif size == 0 {",
			File2: fConn, Old2: "\t\tdata := make([]byte, size)\n\t\tif err = conn.readNetConn(data[:]); err != nil {", New2: "\t\tif err = conn.readNetConn(data[:]); err != nil {"},
		{Name: "size limit compared the wrong way round", Kill: true, Rule: "C16-FRAME", File: fConn,
			Old: "} else if size > conn.opts.maxRecvMsgSize {", New: "} else if size < conn.opts.maxRecvMsgSize {"},

		{Name: "struct-literal fields of an encoder reordered", Kill: false, File: fProto,
			Old: "\t\tTaskID:    req.TaskID.String(),\n\t\tHeight:    req.Height,\n\t\tSpaceID:   req.SpaceID,\n\t\tChallenge: req.Challenge.String(),\n\t\tIndex:     req.Index,\n\t}\n}\n\nfunc (req *RequestProof) SetMsg",
			New: "\t\tIndex:     req.Index,\n\t\tChallenge: req.Challenge.String(),\n\t\tSpaceID:   req.SpaceID,\n\t\tHeight:    req.Height,\n\t\tTaskID:    req.TaskID.String(),\n\t}\n}\n\nfunc (req *RequestProof) SetMsg"},
		{Name: "decoder cases listed in another order", Kill: false, File: fProtoMsg,
			Old: "\tcase MsgTypeRequestQualities:\n\t\tmsg = &RequestQualities{}\n\tcase MsgTypeReportQualities:\n\t\tmsg = &ReportQualities{}\n", New: "\tcase MsgTypeReportQualities:\n\t\tmsg = &ReportQualities{}\n\tcase MsgTypeRequestQualities:\n\t\tmsg = &RequestQualities{}\n"},
		{Name: "nil check placed in the caller instead of NewQuality", Kill: false, File: fProto,
			Old:   "func NewQuality(msg *MsgQuality) (*Quality, error) {\n\tif msg == nil {\n\t\treturn nil, errNilMsg\n\t}\n",
			New:   "func NewQuality(msg *MsgQuality) (*Quality, error) {\n",
			File2: fProto, Old2: "\t\tquality, err := NewQuality(msg.Qualities[i])\n", New2: "\t\tif msg.Qualities[i] == nil {\n\t\t\treturn errNilMsg\n\t\t}\n\t\tquality, err := NewQuality(msg.Qualities[i])\n"},
		{Name: "default send and receive limits exchanged (seed C16-r2c)", Kill: true, Rule: "C16-FRAME", File: "fractal/connection/options.go",
			Old: "\tdefaultMaxRecvMsgSize        = 2 * 1024 * 1024\n\tdefaultMaxSendMsgSize        = math.MaxUint32\n", New: "\tdefaultMaxRecvMsgSize        = math.MaxUint32\n\tdefaultMaxSendMsgSize        = 2 * 1024 * 1024\n"},
		{Name: "decode error shadowed in readRemoteMessage (seed C16-r2b)", Kill: true, Rule: "C16-RECV", File: "fractal/reader.go",
			Old: "\treturn protocol.DecodeMessage(data)\n", New: "\tif m, err := protocol.DecodeMessage(data); err != nil {\n\t\tlogging.CPrint(logging.WARN, \"undecodable frame\", logging.LogFormat{\"err\": err})\n\t} else {\n\t\treturn m, nil\n\t}\n\treturn nil, nil\n"},
		{Name: "decode result returned through locals", Kill: false, File: "fractal/reader.go",
			Old: "\treturn protocol.DecodeMessage(data)\n", New: "\tm, derr := protocol.DecodeMessage(data)\n\tif derr != nil {\n\t\treturn nil, derr\n\t}\n\treturn m, nil\n"},
	}
}

func init() {
	variants["C16"] = append(variants["C16"],
		variant{Name: "parent target parsed as a hex number instead of hex bytes", Kill: true, Rule: "C16-CODEC", File: fProto,
			Old: "\ttargetBytes, err := hex.DecodeString(msg.ParentTarget)\n\tif err != nil {\n\t\treturn err\n\t}\n\tparentTarget := new(big.Int).SetBytes(targetBytes)\n",
			New: "\tparentTarget, okT := new(big.Int).SetString(msg.ParentTarget, 16)\n\tif !okT {\n\t\treturn errNilMsg\n\t}\n"},
		variant{Name: "size limit applied to size plus prefix length (wraps)", Kill: true, Rule: "C16-FRAME", File: fConn,
			Old: "} else if size > conn.opts.maxRecvMsgSize {", New: "} else if size+uint32(len(msgSizeBytes)) > conn.opts.maxRecvMsgSize {"},
		variant{Name: "size widened to 64 bits before the comparison", Kill: false, File: fConn,
			Old: "} else if size > conn.opts.maxRecvMsgSize {", New: "} else if uint64(size) > uint64(conn.opts.maxRecvMsgSize) {"},
	)
}
