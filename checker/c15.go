package main

// C15 — capacity configuration: rejection, placement, reuse-first and never-exceed structure.

import (
	"fmt"
	"go/token"
	"go/types"
	"sort"
	"strings"

	"golang.org/x/tools/go/ssa"
)

func init() { register("C15", checkC15) }

const idPlotSize = "(github.com/massnetorg/mass-core/poc.ProofType).PlotSize"

// cmpTests returns the If tests of comparisons accepted by pred; TrueSucc = comparison holds.
func cmpTests(fn *ssa.Function, pred func(bo *ssa.BinOp) bool) []boolTest {
	var out []boolTest
	allInstrs(fn, func(in ssa.Instruction) {
		bo, ok := in.(*ssa.BinOp)
		if !ok {
			return
		}
		switch bo.Op {
		case token.LSS, token.GTR, token.LEQ, token.GEQ, token.EQL, token.NEQ:
		default:
			return
		}
		if pred(bo) {
			out = append(out, boolTestsOf(fn, bo)...)
		}
	})
	return out
}

// unreachableWhenCut: all target instructions are unreachable from entry when cut edges are removed
func unreachableWhenCut(fn *ssa.Function, cut func(from, to *ssa.BasicBlock) bool, targets []ssa.Instruction) (bool, ssa.Instruction) {
	r := reach(fn, nil, cut, nil)
	for _, t := range targets {
		if r(t) {
			return false, t
		}
	}
	return true, nil
}

func callInstrs(cs []*ssa.Call) []ssa.Instruction {
	var out []ssa.Instruction
	for _, c := range cs {
		out = append(out, c)
	}
	return out
}

// callsToAny: calls in fn and its closures to any of the ids; also calls of local closures that
// (transitively) contain such calls are returned as sites in fn itself.
func callsDeep(fn *ssa.Function, ids ...string) []ssa.Instruction {
	var out []ssa.Instruction
	contains := func(f *ssa.Function) bool { return len(callsIn(f, ids...)) > 0 }
	allInstrs(fn, func(in ssa.Instruction) {
		cl, ok := in.(*ssa.Call)
		if !ok {
			return
		}
		if isCallAny(cl, ids...) {
			out = append(out, in)
			return
		}
		for _, callee := range (&c13ctx{}).calleesOf(cl) {
			if callee.Parent() != nil && contains(callee) {
				out = append(out, in)
			}
		}
	})
	return out
}

func checkC15(c *Ctx) Meta {
	c.Rule("C15-REJECT", "requests below the minimum plot size are rejected before anything else; every creation of a new space is dominated by the allow-generate flag and by the success edge of a free-disk check whose argument derives from the shortfall (target - current)", 9)
	c.Rule("C15-PLACE", "per-directory configuration creates and selects spaces only in the requested directory: the same directory value feeds the fill filter, the disk check and the creation, and reaches the file path of the new plot", 5)
	c.Rule("C15-REUSE", "indexed spaces are consulted before creation: the fill step precedes the generate step, which runs only when fill reports unfinished; removed spaces stay indexed; the count-based finished flag is a conjunction", 6)
	c.Rule("C15-BOUND", "a space is selected or created only behind the comparison that keeps the running total within the target (never exceeds); the smallest usable bit length equals the chain library's minimum (shortfall bound)", 5)
	c.Rule("C15-ACCUM", "running totals are what they claim to be: the per-directory total starts at 0 for every directory of a per-directory request; a free-disk requirement built in a loop is the sum over the loop (its argument is an accumulator, not the last term); a reconfiguration marks every space of the *previous* selection unused before it installs the new one", 4)
	checkC15Accum(c)
	c.Rule("C15-GUARD", "a configuration request touches the keeper only after it has won the `configuring` flag: in every Configure* entry point no store to a keeper field and no indexing/creation step is reachable unless the compare-and-swap on `configuring` succeeded, so a request refused as concurrent changes nothing; capacity arithmetic on unsigned sizes cannot wrap (no a-b without a guard b<=a)", 6)
	checkC15Guard(c)
	checkIndexFromRequestedDirs(c, "C15-REUSE")
	checkNoAppendOntoLivePrefix(c, "C15-ACCUM")

	pkgS := "poc/engine/spacekeeper/capacity"
	sk := "(*" + pkgCapacity + ".SpaceKeeper)."
	// creation sites: the generate helpers, or the constructor itself where a helper was folded into its caller
	genIDs := []string{sk + "generateNewWorkSpace", sk + "generateNewWorkSpaceByPath", sk + "generateNewWorkSpaceByPubKey", pkgCapacity + ".NewWorkSpace"}
	diskChecks := []string{sk + "checkOSDiskSize", pkgCapacity + ".checkOSDiskSizeByPath"}

	// ---- REJECT: lower bound in ConfigureBySize
	if f := c.MustFn("C15-REJECT", pkgS, "(*SpaceKeeper).ConfigureBySize"); f != nil {
		tests := cmpTests(f, func(bo *ssa.BinOp) bool {
			if bo.Op != token.LSS && bo.Op != token.GTR && bo.Op != token.LEQ && bo.Op != token.GEQ {
				return false
			}
			sx, sy := backSlice(bo.X), backSlice(bo.Y)
			return (sx.hasParam(f, "targetSize") && sy.hasCallTo(idPlotSize)) || (sy.hasParam(f, "targetSize") && sx.hasCallTo(idPlotSize))
		})
		// normalise: TrueSucc = "below minimum" edge. The code is `targetSize < PlotSize(..)`; for other
		// spellings determine polarity by which successor reaches the work.
		work := callsDeep(f, pkgCapacity+".fillSpaceListBySize", sk+"generateFillSpaceListBySize", sk+"applyConfiguredWorkSpaces", sk+"getIndexedWorkSpaces")
		key := "ConfigureBySize:lower-bound-first"
		if len(tests) == 0 || len(work) == 0 {
			c.Bad("C15-REJECT", key, c.Pos(f.Pos()), "no comparison of the requested size with the minimum plot size guards the configuration work")
		} else {
			okCut := false
			for _, cutTrue := range []bool{true, false} {
				if ok, _ := unreachableWhenCut(f, boolEdgeCut(tests, cutTrue), work); ok {
					okCut = true
				}
			}
			if okCut {
				c.OK("C15-REJECT", key, c.Pos(tests[0].If.Pos()), fmt.Sprintf("fill/generate/apply (%d sites) unreachable unless the size test passed", len(work)))
			} else {
				c.Bad("C15-REJECT", key, c.Pos(f.Pos()), "configuration work is reachable on both outcomes of the minimum-size test")
			}
		}
	}
	// ---- REJECT: generation guarded by allow flag + disk check
	for _, spec := range []struct{ fn, check, shortfall string }{
		{"generateFillSpaceListBySize", sk + "checkOSDiskSize", "sub"},
		{"generateFillSpaceListByPathSize", pkgCapacity + ".checkOSDiskSizeByPath", "sub"},
		{"generateFillSpaceListByBitLength", sk + "checkOSDiskSize", "count"},
		{"generateFillSpaceListByPubKey", sk + "checkOSDiskSize", "count"},
	} {
		f := c.MustFn("C15-REJECT", pkgS, "(*SpaceKeeper)."+spec.fn)
		if f == nil {
			continue
		}
		gens := callInstrs(callsIn(f, genIDs...))
		if len(gens) == 0 {
			c.Bad("C15-REJECT", spec.fn+":anchor", c.Pos(f.Pos()), "reason=anchor-missing: no generateNewWorkSpace* call")
			continue
		}
		// allow flag
		var flagTests []boolTest
		for _, a := range fieldAccesses(f) {
			if a.Kind == "load" && a.Field == "allowGenerateNewSpace" {
				flagTests = append(flagTests, boolTestsOf(f, a.In.(ssa.Value))...)
			}
		}
		key := spec.fn + ":allow-generate-flag"
		if ok, at := unreachableWhenCut(f, boolEdgeCut(flagTests, true), gens); len(flagTests) > 0 && ok {
			c.OK("C15-REJECT", key, c.Pos(f.Pos()), "creation unreachable unless allowGenerateNewSpace")
		} else {
			p := c.Pos(f.Pos())
			if at != nil {
				p = c.Pos(at.Pos())
			}
			c.Bad("C15-REJECT", key, p, "a new space can be created although allowGenerateNewSpace is false")
		}
		// disk check
		key = spec.fn + ":free-disk-check"
		chk := callsIn(f, diskChecks...)
		if len(chk) != 1 {
			c.Bad("C15-REJECT", key, c.Pos(f.Pos()), "no (single) free-disk check before creating spaces")
			continue
		}
		if ok, at := unreachableWhenCut(f, errorEdgeCut(f, chk[0], false), gens); !ok || len(errResults(chk[0])) == 0 {
			p := c.Pos(chk[0].Pos())
			if at != nil {
				p = c.Pos(at.Pos())
			}
			c.Bad("C15-REJECT", key, p, "a new space can be created on a path where the free-disk check did not succeed")
			continue
		}
		// argument derives from the shortfall
		arg := chk[0].Call.Args[len(chk[0].Call.Args)-1]
		sl := backSlice(arg)
		okArg := false
		if spec.shortfall == "sub" {
			okArg = sl.hasParam(f, "targetSize") && sl.hasParam(f, "currentSize")
			hasSub := false
			for v := range sl.vals {
				if b, ok := v.(*ssa.BinOp); ok && b.Op == token.SUB {
					hasSub = true
				}
			}
			okArg = okArg && hasSub
		} else {
			okArg = sl.hasCallTo(idPlotSize) && (sl.hasParam(f, "targetCount") || sl.hasParam(f, "targetPubKeyBL"))
		}
		if okArg {
			c.OK("C15-REJECT", key, c.Pos(chk[0].Pos()), "creation behind the success edge of the free-disk check of the shortfall")
		} else {
			c.Bad("C15-REJECT", key, c.Pos(chk[0].Pos()), "the free-disk check is not applied to the shortfall (target - current / missing plots)")
		}
	}

	// ---- PLACE
	if f := c.MustFn("C15-PLACE", pkgS, "(*SpaceKeeper).ConfigureByPath"); f != nil {
		fill := callsIn(f, pkgCapacity+".fillSpaceListByPathSize")
		gen := callsIn(f, sk+"generateFillSpaceListByPathSize")
		key := "ConfigureByPath:same-directory-for-fill-and-generate"
		if len(fill) != 1 || len(gen) != 1 {
			c.Bad("C15-PLACE", key, c.Pos(f.Pos()), "reason=anchor-missing: fill/generate by path calls")
		} else {
			a, b := fill[0].Call.Args[0], gen[0].Call.Args[1]
			sa, sb := backSlice(a), backSlice(b)
			// both are loads of absDirs[i] with the same index value
			same := false
			for v := range sa.vals {
				if ia, ok := v.(*ssa.IndexAddr); ok && sb.has(ia.Index) && sb.has(ia.X) {
					for w := range sb.vals {
						if ib, ok := w.(*ssa.IndexAddr); ok && ib.Index == ia.Index && ib.X == ia.X {
							same = true
						}
					}
				}
			}
			// and the size used is sizes[i] of the same index
			if same {
				c.OK("C15-PLACE", key, c.Pos(gen[0].Pos()), "fill filter and creation receive the same absDirs[i]")
			} else {
				c.Bad("C15-PLACE", key, c.Pos(gen[0].Pos()), "the directory used to create new spaces is not the directory whose existing spaces were counted")
			}
			// absDirs derive from the paths parameter
			if !sa.hasParam(f, "paths") {
				c.Bad("C15-PLACE", key, c.Pos(fill[0].Pos()), "directories do not derive from the requested paths")
			}
		}
	}
	if f := c.MustFn("C15-PLACE", pkgS, "(*SpaceKeeper).generateFillSpaceListByPathSize"); f != nil {
		key := "generateFillSpaceListByPathSize:creates-in-path"
		ok := true
		for _, g := range callsIn(f, genIDs...) {
			if !isCallAny(g, sk+"generateNewWorkSpaceByPath", pkgCapacity+".NewWorkSpace") || !backSlice(g.Call.Args[1]).hasParam(f, "path") || backSlice(g.Call.Args[1]).hasField(pkgCapacity+".SpaceKeeper", "dbDirs") {
				ok = false
			}
		}
		for _, ch := range callsIn(f, pkgCapacity+".checkOSDiskSizeByPath") {
			if !backSlice(ch.Call.Args[0]).hasParam(f, "path") {
				ok = false
			}
		}
		if ok {
			c.OK("C15-PLACE", key, c.Pos(f.Pos()), "disk check and creation use the requested path")
		} else {
			c.Bad("C15-PLACE", key, c.Pos(f.Pos()), "new spaces are created (or disk space checked) somewhere other than the requested directory")
		}
	}
	if f := c.MustFn("C15-PLACE", pkgS, "(*SpaceKeeper).generateNewWorkSpaceByPath"); f != nil {
		key := "generateNewWorkSpaceByPath:rootDir-reaches-NewWorkSpace"
		nw := callsIn(f, pkgCapacity+".NewWorkSpace")
		if len(nw) == 1 && backSlice(nw[0].Call.Args[1]).hasParam(f, "rootDir") && !backSlice(nw[0].Call.Args[1]).hasField(pkgCapacity+".SpaceKeeper", "dbDirs") {
			c.OK("C15-PLACE", key, c.Pos(nw[0].Pos()), "NewWorkSpace receives the rootDir parameter")
		} else {
			c.Bad("C15-PLACE", key, c.Pos(f.Pos()), "the new space is not created in the directory passed by the caller")
		}
	}
	// the default directory is the keeper's *current* first db dir: where a creation step takes its
	// directory from the keeper (not from a requested path), the dbDirs field is read inside that step —
	// not a copy some other object took when the keeper was built (ConfigureByPath re-assigns dbDirs; a
	// copy keeps creating plot files in the start-up directory, outside the configured ones)
	for _, name := range []string{"generateNewWorkSpace", "generateNewWorkSpaceByPubKey", "generateFillSpaceListBySize", "generateFillSpaceListByBitLength", "generateFillSpaceListByPubKey", "generateFillSpaceListByPathSize"} {
		f := c.fnExact(pkgS, "(*SpaceKeeper)."+name)
		if f == nil {
			continue // folded into its callers: judged there
		}
		setBindCtx(f)
		body := map[*ssa.Function]bool{}
		for _, g := range bodyFns(f, nil) {
			body[g] = true
		}
		key := name + ":default-directory-read-from-the-keeper-now"
		n, bad := 0, ""
		for g := range body {
			for _, cl := range callsInShallow(g, pkgCapacity+".NewWorkSpace", sk+"generateNewWorkSpaceByPath") {
				dir := cl.Call.Args[1]
				sl := backSlice(dir)
				if sl.hasParam(f, "path") || sl.hasParam(f, "rootDir") {
					continue // a requested directory (C15-PLACE rules above)
				}
				n++
				cur := false
				for v := range sl.vals {
					if u, ok := v.(*ssa.UnOp); ok && u.Op == token.MUL && body[u.Parent()] {
						if t, fld, _, isF := fieldOfValue(u); isF && t == pkgCapacity+".SpaceKeeper" && fld == "dbDirs" {
							cur = true
						}
					}
				}
				if !cur {
					bad = c.Pos(cl.Pos())
				}
			}
		}
		if bad != "" {
			c.Bad("C15-PLACE", key, bad, "a new space is created in a directory that is not read from the keeper's dbDirs at the time of the creation (a copy taken earlier): after ConfigureByPath has re-assigned dbDirs the copy is stale and plot files appear outside the configured directories")
		} else if n > 0 {
			c.OK("C15-PLACE", key, c.Pos(f.Pos()), fmt.Sprintf("%d default-directory creation(s) read sk.dbDirs inside the step", n))
		}
	}
	if f := c.MustFn("C15-PLACE", pkgS, "NewWorkSpace"); f != nil {
		key := "NewWorkSpace:rootDir-reaches-db"
		ok := true
		n := 0
		for _, id := range []string{pkgMassDB + ".OpenDB", pkgMassDB + ".CreateDB"} {
			for _, cl := range callsIn(f, id) {
				n++
				if !backSlice(cl.Call.Args[1]).hasParam(f, "rootDir") {
					ok = false
				}
			}
		}
		// and the WorkSpace remembers the same rootDir (used by the per-path filter)
		remembered := false
		for _, a := range fieldAccesses(f) {
			if a.Kind == "store" && a.Field == "rootDir" && backSlice(a.In.(*ssa.Store).Val).hasParam(f, "rootDir") {
				remembered = true
			}
		}
		if ok && n == 2 && remembered {
			c.OK("C15-PLACE", key, c.Pos(f.Pos()), "rootDir is handed to OpenDB/CreateDB and recorded in the WorkSpace")
		} else {
			c.Bad("C15-PLACE", key, c.Pos(f.Pos()), "rootDir does not reach the plot database or is not the directory recorded for the space")
		}
	}
	if f := c.MustFn("C15-PLACE", pkgS, "fillSpaceListByPathSize"); f != nil {
		key := "fillSpaceListByPathSize:only-spaces-of-path"
		tests := cmpTests(f, func(bo *ssa.BinOp) bool {
			if bo.Op != token.EQL && bo.Op != token.NEQ {
				return false
			}
			sx, sy := backSlice(bo.X), backSlice(bo.Y)
			return (sx.hasField(pkgCapacity+".WorkSpace", "rootDir") && sy.hasParam(f, "path")) || (sy.hasField(pkgCapacity+".WorkSpace", "rootDir") && sx.hasParam(f, "path"))
		})
		// normalise to TrueSucc = equal
		for i := range tests {
			if bo, ok := tests[i].If.Cond.(*ssa.BinOp); ok && bo.Op == token.NEQ {
				tests[i].TrueSucc, tests[i].FalseSucc = tests[i].FalseSucc, tests[i].TrueSucc
			}
		}
		var apps []ssa.Instruction
		allInstrs(f, func(in ssa.Instruction) {
			if calleeID(in) == "builtin.append" {
				apps = append(apps, in)
			}
		})
		if ok, _ := unreachableWhenCut(f, boolEdgeCut(tests, true), apps); len(tests) > 0 && len(apps) > 0 && ok {
			c.OK("C15-PLACE", key, c.Pos(f.Pos()), "a space is selected only when its rootDir equals the requested path")
		} else {
			c.Bad("C15-PLACE", key, c.Pos(f.Pos()), "spaces from other directories can be selected for the requested path")
		}
	}

	// ---- REUSE
	for _, spec := range []struct{ fn, fill, gen string }{
		{"ConfigureBySize", pkgCapacity + ".fillSpaceListBySize", sk + "generateFillSpaceListBySize"},
		{"ConfigureByBitLength", pkgCapacity + ".fillSpaceListByBitLength", sk + "generateFillSpaceListByBitLength"},
		{"ConfigureByPath", pkgCapacity + ".fillSpaceListByPathSize", sk + "generateFillSpaceListByPathSize"},
	} {
		f := c.MustFn("C15-REUSE", pkgS, "(*SpaceKeeper)."+spec.fn)
		if f == nil {
			continue
		}
		key := spec.fn + ":fill-before-generate"
		fill, gen := callsIn(f, spec.fill), callsIn(f, spec.gen)
		if len(fill) != 1 || len(gen) != 1 {
			c.Bad("C15-REUSE", key, c.Pos(f.Pos()), "reason=anchor-missing: fill/generate calls")
			continue
		}
		fin := resultOf(fill[0], 2)
		var tests []boolTest
		if fin != nil {
			tests = boolTestsOf(f, fin)
		}
		ok1 := instrDominates(fill[0], gen[0])
		ok2, _ := unreachableWhenCut(f, boolEdgeCut(tests, false), []ssa.Instruction{gen[0]})
		// the fill consults the indexed spaces
		ok3 := backSlice(fill[0].Call.Args[len(fill[0].Call.Args)-3]).hasCallTo(sk+"getIndexedWorkSpaces") || backSliceAny(fill[0].Call.Args).hasCallTo(sk+"getIndexedWorkSpaces")
		// generate continues from the list and total the fill produced
		ok4 := backSliceAny(gen[0].Call.Args).has(resultOf(fill[0], 0)) && backSliceAny(gen[0].Call.Args).has(resultOf(fill[0], 1))
		if ok1 && ok2 && len(tests) > 0 && ok3 && ok4 {
			c.OK("C15-REUSE", key, c.Pos(gen[0].Pos()), "generate is dominated by fill(getIndexedWorkSpaces()), runs only on !finished and continues from fill's list and total")
		} else {
			c.Bad("C15-REUSE", key, c.Pos(gen[0].Pos()), fmt.Sprintf("new spaces can be generated without first using the indexed ones (dominated=%v, only-when-unfinished=%v, indexed-consulted=%v, continues-from-fill=%v)", ok1, ok2 && len(tests) > 0, ok3, ok4))
		}
	}
	{
		// ConfigureByPubKey: an indexed space with the same id is reused instead of created
		f := c.MustFn("C15-REUSE", pkgS, "(*SpaceKeeper).generateFillSpaceListByPubKey")
		if f != nil {
			key := "generateFillSpaceListByPubKey:reuse-indexed"
			tests, n := indexGetTests(f, pkgCapacity, "4")
			gens := callInstrs(callsIn(f, genIDs...))
			if ok, _ := unreachableWhenCut(f, boolEdgeCut(tests, false), gens); n > 0 && len(gens) > 0 && ok {
				c.OK("C15-REUSE", key, c.Pos(f.Pos()), "a space is created only when index[all] does not contain its id")
			} else {
				c.Bad("C15-REUSE", key, c.Pos(f.Pos()), "a space can be created although one with the same id is indexed")
			}
		}
	}

	// removed spaces stay indexed (so that a later configuration reuses them instead of creating new ones)
	if rm := c.MustFn("C15-REUSE", pkgS, "(*SpaceKeeper).RemoveWS"); rm != nil {
		seen := c.Reachable([]*ssa.Function{rm}, func(from *ssa.Function, e callEdge) bool { return pkgOf(e.Callee) == pkgCapacity })
		bad := ""
		for g := range seen {
			for _, d := range callsIn(g, "(*"+pkgCapacity+".WorkSpaceMap).Delete") {
				bad = FuncName(g) + " at " + c.Pos(d.Pos())
			}
		}
		if bad != "" {
			c.Bad("C15-REUSE", "RemoveWS:space-stays-indexed", c.Pos(rm.Pos()), "RemoveWS drops the space from the index ("+bad+") although its files stay on disk: the next configuration creates a new space instead of reusing it and the leftover file reappears after a restart")
		} else {
			c.OK("C15-REUSE", "RemoveWS:space-stays-indexed", c.Pos(rm.Pos()), fmt.Sprintf("%d functions reachable from RemoveWS, none deletes from workSpaceIndex", len(seen)))
		}
	}
	// count-based fill: the finished flag is a conjunction over all requested bit lengths
	if f := c.MustFn("C15-REUSE", pkgS, "fillSpaceListByBitLength"); f != nil {
		key := "fillSpaceListByBitLength:finished-is-conjunction"
		ok := false
		why := "the finished result is not loop-carried"
		for _, ret := range returnsOf(f) {
			fin := ret.Results[2]
			// header phi of the flag
			var hdr *ssa.Phi
			valueOrigins(f, fin, func(root ssa.Value) {})
			for v := range backSlice(fin).vals {
				if p, isPhi := v.(*ssa.Phi); isPhi && blockReentered(f, p) && p.Type() == fin.Type() {
					// a phi with an edge from outside the loop (initial value) and from the latch
					if hdr == nil || p.Block().Index < hdr.Block().Index {
						hdr = p
					}
				}
			}
			if hdr == nil {
				continue
			}
			// every in-loop incoming value must depend (data or control) on the phi itself, or be the constant false
			all := true
			for i, e := range hdr.Edges {
				pred := hdr.Block().Preds[i]
				if !hdr.Block().Dominates(pred) {
					continue // initial value
				}
				if k, isK := strip(e).(*ssa.Const); isK && k.Value != nil && k.Value.String() == "false" {
					continue
				}
				if !ctrlSlice(e).has(hdr) {
					all = false
					why = "the flag computed in one round does not depend on its value from earlier rounds: it reflects only the bit length visited last"
				}
			}
			if all {
				ok = true
			}
		}
		if ok {
			c.OK("C15-REUSE", key, c.Pos(f.Pos()), "finished is accumulated over all requested bit lengths (false is sticky)")
		} else {
			c.Bad("C15-REUSE", key, c.Pos(f.Pos()), why+" — configuring by counts can report success without creating the missing spaces")
		}
	}

	// ---- BOUND
	for _, name := range []string{"fillSpaceListBySize", "fillSpaceListByPathSize"} {
		f := c.MustFn("C15-BOUND", pkgS, name)
		if f == nil {
			continue
		}
		key := name + ":select-within-target"
		tests := cmpTests(f, func(bo *ssa.BinOp) bool {
			if bo.Op != token.GTR && bo.Op != token.LSS && bo.Op != token.LEQ && bo.Op != token.GEQ {
				return false
			}
			sx, sy := backSlice(bo.X), backSlice(bo.Y)
			// the running total (depends on PlotSize) against the target parameter itself
			tx, ty := strip(bo.X), strip(bo.Y)
			isTarget := func(v ssa.Value) bool { p, ok := v.(*ssa.Parameter); return ok && p.Name() == "targetSize" }
			return (isTarget(ty) && sx.hasCallTo(idPlotSize)) || (isTarget(tx) && sy.hasCallTo(idPlotSize))
		})
		var apps []ssa.Instruction
		allInstrs(f, func(in ssa.Instruction) {
			if calleeID(in) == "builtin.append" {
				apps = append(apps, in)
			}
		})
		ok := false
		for _, cutTrue := range []bool{true, false} {
			if u, _ := unreachableWhenCut(f, boolEdgeCut(tests, cutTrue), apps); u {
				ok = true
			}
		}
		if len(tests) > 0 && len(apps) > 0 && ok {
			c.OK("C15-BOUND", key, c.Pos(f.Pos()), "a space is appended only behind the comparison of the running total (with this plot added) against targetSize")
		} else {
			c.Bad("C15-BOUND", key, c.Pos(f.Pos()), "a space can be selected without the comparison that keeps the total within the target")
		}
	}
	for _, name := range []string{"generateFillSpaceListBySize", "generateFillSpaceListByPathSize"} {
		f := c.MustFn("C15-BOUND", pkgS, "(*SpaceKeeper)."+name)
		if f == nil {
			continue
		}
		key := name + ":create-within-target"
		tests := cmpTests(f, func(bo *ssa.BinOp) bool {
			if bo.Op != token.GTR && bo.Op != token.LSS && bo.Op != token.LEQ && bo.Op != token.GEQ {
				return false
			}
			sx, sy := backSlice(bo.X), backSlice(bo.Y)
			a := sx.hasParam(f, "targetSize") && sx.hasParam(f, "currentSize") && sy.hasCallTo(idPlotSize)
			b := sy.hasParam(f, "targetSize") && sy.hasParam(f, "currentSize") && sx.hasCallTo(idPlotSize)
			return a || b
		})
		gens := callInstrs(callsIn(f, genIDs...))
		ok := false
		for _, cutTrue := range []bool{true, false} {
			if u, _ := unreachableWhenCut(f, boolEdgeCut(tests, cutTrue), gens); u {
				ok = true
			}
		}
		// the bit length created is the one whose plot size was compared
		sameBL := true
		for _, g := range callsIn(f, genIDs...) {
			bl := g.Call.Args[len(g.Call.Args)-1]
			hit := false
			for _, t := range tests {
				// the plot-size side of the comparison (the operand not depending on targetSize) must be
				// PlotSize of this very bit length
				bo, ok := t.If.Cond.(*ssa.BinOp)
				if !ok {
					if u, isU := t.If.Cond.(*ssa.UnOp); isU {
						bo, ok = u.X.(*ssa.BinOp)
					}
				}
				if !ok {
					continue
				}
				side := bo.Y
				if backSlice(bo.Y).hasParam(f, "targetSize") {
					side = bo.X
				}
				ss := backSlice(side)
				if ss.has(strip(bl)) || ss.has(bl) {
					hit = true
				}
			}
			if !hit {
				sameBL = false
			}
		}
		if len(tests) > 0 && len(gens) > 0 && ok && sameBL {
			c.OK("C15-BOUND", key, c.Pos(f.Pos()), "a space of bit length bl is created only behind the comparison of the shortfall with PlotSize(bl)")
		} else {
			c.Bad("C15-BOUND", key, c.Pos(f.Pos()), "a space can be created without the comparison of the remaining shortfall with its plot size (total could exceed the request)")
		}
	}
	// CONSTEVAL: smallest usable bit length == chain minimum (shortfall < smallest plot)
	{
		key := "usableBitLength[0]==poc.MinValidDefaultBitLength"
		f := c.MustFn("C15-BOUND", pkgS, "usableBitLength")
		minV, okMin := constVal(c, "github.com/massnetorg/mass-core/poc", "MinValidDefaultBitLength")
		first := ""
		smallest := int64(1 << 62)
		if f != nil {
			allInstrs(f, func(in ssa.Instruction) {
				st, ok := in.(*ssa.Store)
				if !ok {
					return
				}
				ia, ok := st.Addr.(*ssa.IndexAddr)
				if !ok {
					return
				}
				idx, ok1 := ia.Index.(*ssa.Const)
				val, ok2 := st.Val.(*ssa.Const)
				if ok1 && ok2 {
					if idx.Int64() == 0 {
						first = val.Value.ExactString()
					}
					if val.Int64() < smallest {
						smallest = val.Int64()
					}
				}
			})
		}
		if okMin && first == minV && fmt.Sprint(smallest) == minV {
			c.OK("C15-BOUND", key, "", "usableBitLength()[0] = "+first+" is the smallest usable bit length and equals poc.MinValidDefaultBitLength")
		} else {
			c.Bad("C15-BOUND", key, "", fmt.Sprintf("usableBitLength()[0]=%s, smallest=%d, poc.MinValidDefaultBitLength=%s: the lower-bound test, the shortfall test and the greedy fill no longer agree on the smallest plot", first, smallest, minV))
		}
	}
	_ = strings.TrimSpace
	return Meta{
		Explanation: "Decides the rejection, placement, reuse-first and never-exceed *structure* of capacity configuration on all CFG paths: which tests dominate which creations/selections and where the directory and shortfall values flow.",
		NotDecided:  "the arithmetic itself (exact totals, shortfall < smallest plot, exact counts by bit length) and 'found again after a restart': value facts over all size/directory/space-set inputs, not decidable by a static rule in reach.",
		Trusted:     []string{"go/ssa", "poc.ProofType.PlotSize is monotone in the bit length"},
	}
}

func backSliceAny(vs []ssa.Value) *slice {
	s := &slice{vals: map[ssa.Value]bool{}}
	for _, v := range vs {
		for k := range backSlice(v).vals {
			s.vals[k] = true
		}
	}
	return s
}

// checkC15Accum: C15-ACCUM.
func checkC15Accum(c *Ctx) {
	rule := "C15-ACCUM"
	for _, pkg := range []string{"poc/engine/spacekeeper/capacity"} {
		// (1) per-directory totals start at 0
		if f := c.MustFn(rule, pkg, "(*SpaceKeeper).ConfigureByPath"); f != nil {
			key := "ConfigureByPath:per-directory-total-starts-at-zero"
			fills := callsIn(f, pkgCapacity+".fillSpaceListByPathSize")
			if len(fills) == 0 {
				c.Bad(rule, key, c.Pos(f.Pos()), "reason=anchor-missing: fillSpaceListByPathSize call")
			}
			for _, fl := range fills {
				g := fl.Call.StaticCallee()
				idx := -1
				for i, p := range g.Params {
					if p.Name() == "currentSize" {
						idx = i
					}
				}
				if idx < 0 || !blockReentered(f, fl) {
					c.Bad(rule, key, c.Pos(fl.Pos()), "reason=anchor-missing: currentSize parameter / per-directory loop")
					continue
				}
				if k, ok := strip(fl.Call.Args[idx]).(*ssa.Const); ok && k.Value != nil && k.Value.ExactString() == "0" {
					c.OK(rule, key, c.Pos(fl.Pos()), "the fill of each directory starts from currentSize = 0")
				} else {
					c.Bad(rule, key, c.Pos(fl.Pos()), "the running size handed to the first fill of a directory is carried over from the previous directory: re-used bytes of directory i count against directory i+1, which then falls short of (or creates new spaces beside) what it already holds")
				}
			}
		}
		// (2) accumulators feeding the free-disk check
		n := 0
		for fn := range c.AllFuncs {
			if pkgOf(fn) != pkgCapacity {
				continue
			}
			for _, chk := range callsInShallow(fn, "(*"+pkgCapacity+".SpaceKeeper).checkOSDiskSize", pkgCapacity+".checkOSDiskSizeByPath") {
				arg := chk.Call.Args[len(chk.Call.Args)-1]
				ph, ok := strip(arg).(*ssa.Phi)
				if !ok {
					continue
				}
				// a loop-carried value: some edge depends on the phi itself or comes from inside a loop
				n++
				key := fmt.Sprintf("%s:disk-requirement-is-a-sum@%s", fn.Name(), accessPath(ph.Edges[0]))
				key = fn.Name() + ":disk-requirement-is-a-sum"
				okSum := true
				carried := false
				var visit func(p *ssa.Phi, seen map[*ssa.Phi]bool)
				visit = func(p *ssa.Phi, seen map[*ssa.Phi]bool) {
					if seen[p] {
						return
					}
					seen[p] = true
					for _, e := range p.Edges {
						e = strip(e)
						if k, isK := e.(*ssa.Const); isK && k.Value != nil {
							continue
						}
						if p2, isP := e.(*ssa.Phi); isP {
							visit(p2, seen)
							continue
						}
						if bo, isB := e.(*ssa.BinOp); isB && bo.Op == token.ADD {
							lx, ly := strip(bo.X), strip(bo.Y)
							inChain := func(v ssa.Value) bool {
								p3, isP := v.(*ssa.Phi)
								return isP && seen[p3]
							}
							if inChain(lx) || inChain(ly) {
								carried = true
								continue
							}
						}
						// a term assigned without adding to the running value
						if blockReentered(fn, p) {
							okSum = false
						}
					}
				}
				visit(ph, map[*ssa.Phi]bool{})
				if !blockReentered(fn, ph) && !carried {
					n--
					continue // not a loop accumulator
				}
				if okSum && carried {
					c.OK(rule, key, c.Pos(chk.Pos()), "the requirement checked is an accumulator: every loop edge adds to the running value")
				} else {
					c.Bad(rule, key, c.Pos(chk.Pos()), "the free-disk requirement is overwritten inside the loop instead of added to: only the last bit length visited is checked, so a request beyond the free disk space is accepted and files are created")
				}
			}
		}
		if n < 2 {
			c.Bad(rule, "disk-requirement:anchor", "", fmt.Sprintf("reason=anchor-missing: expected the two summed free-disk requirements (count-based and key-based), found %d", n))
		}
		// (3) the old selection is marked unused
		if f := c.MustFn(rule, pkg, "(*SpaceKeeper).applyConfiguredWorkSpaces"); f != nil {
			key := "applyConfiguredWorkSpaces:previous-selection-marked-unused"
			var repl ssa.Instruction
			for _, a := range fieldAccesses(f) {
				if a.Kind == "store" && a.Field == "workSpaceList" {
					repl = a.In
				}
			}
			ok := false
			for _, a := range fieldAccesses(f) {
				if a.Kind != "store" || a.Field != "using" {
					continue
				}
				k, isK := strip(a.In.(*ssa.Store).Val).(*ssa.Const)
				if !isK || k.Value == nil || k.Value.ExactString() != "false" {
					continue
				}
				// the space written is an element of the list held in the field (not of the argument)
				fromField, fromParam := false, false
				for x := range backSlice(a.Base).vals {
					if _, fld, _, isF := fieldOfValue(x); isF && fld == "workSpaceList" {
						fromField = true
					}
					if p, isP := x.(*ssa.Parameter); isP && p.Name() == "wsList" {
						fromParam = true
					}
				}
				if fromField && !fromParam && repl != nil && reach(f, a.In, nil, nil)(repl) && blockReentered(f, a.In) {
					ok = true
				}
			}
			if ok {
				c.OK(rule, key, c.Pos(f.Pos()), "every element of sk.workSpaceList gets using = false before the list is replaced")
			} else {
				c.Bad(rule, key, c.Pos(f.Pos()), "the spaces of the previous selection are not marked unused before the new selection is installed: after a shrinking reconfiguration the dropped spaces still count as selected (per-directory totals exceed the request; actions on them succeed)")
			}
		}
	}
}

// checkIndexFromRequestedDirs: a function that both sets the keeper's directories and rebuilds the
// index rebuilds it from the directories it has just set: the store to dbDirs dominates the call of
// generateInitialIndex (which scans sk.dbDirs). Rebuilding first indexes the old directories, so spaces
// already present in a newly requested directory are not found and a complete new set is created beside them.
func checkIndexFromRequestedDirs(c *Ctx, rule string) {
	n := 0
	var fns []*ssa.Function
	for fn := range c.AllFuncs {
		if pkgOf(fn) == pkgCapacity {
			fns = append(fns, fn)
		}
	}
	sort.Slice(fns, func(i, j int) bool { return FuncName(fns[i]) < FuncName(fns[j]) })
	for _, f := range fns {
		var stores []ssa.Instruction
		for _, a := range fieldAccessesShallow(f) {
			if a.Kind == "store" && a.Type == pkgCapacity+".SpaceKeeper" && a.Field == "dbDirs" && !isFreshObject(a.Base) {
				stores = append(stores, a.In)
			}
		}
		// sk.generateInitialIndex is a function-typed field (set per database type): the rebuild is a call
		// through that field
		var gens []*ssa.Call
		allInstrsShallow(f, func(in ssa.Instruction) {
			if cl, ok := in.(*ssa.Call); ok && isFieldFuncCall(cl, pkgCapacity+".SpaceKeeper", "generateInitialIndex") {
				gens = append(gens, cl)
			}
		})
		if len(stores) == 0 || len(gens) == 0 {
			continue
		}
		for i, g := range gens {
			n++
			key := fmt.Sprintf("%s:index-rebuilt-from-the-directories-just-set#%d", f.Name(), i+1)
			dom := false
			for _, st := range stores {
				if instrDominates(st, g) {
					dom = true
				}
			}
			if dom {
				c.OK(rule, key, c.Pos(g.Pos()), "sk.dbDirs is set before generateInitialIndex scans it")
			} else {
				c.Bad(rule, key, c.Pos(g.Pos()), "the index is rebuilt before the requested directories are published in sk.dbDirs: existing spaces of a newly requested directory are not indexed, a second complete set is created beside them, and after a restart the selection differs")
			}
		}
	}
	if n == 0 {
		c.Bad(rule, "anchor:dbDirs-then-index", "", "reason=anchor-missing: no function both sets sk.dbDirs and calls generateInitialIndex")
	}
}

// checkC15Guard: C15-GUARD.
func checkC15Guard(c *Ctx) {
	rule := "C15-GUARD"
	var fns []*ssa.Function
	for fn := range c.AllFuncs {
		if pkgOf(fn) == pkgCapacity && fn.Parent() == nil && strings.HasPrefix(fn.Name(), "Configure") && fn.Signature.Recv() != nil {
			fns = append(fns, fn)
		}
	}
	sort.Slice(fns, func(i, j int) bool { return fns[i].Name() < fns[j].Name() })
	for _, f := range fns {
		var cas *ssa.Call
		allInstrsShallow(f, func(in ssa.Instruction) {
			if cl, ok := in.(*ssa.Call); ok && strings.HasPrefix(calleeID(cl), "sync/atomic.CompareAndSwap") {
				if _, fld, _, isF := fieldOfAddr(cl.Call.Args[0]); isF && fld == "configuring" {
					cas = cl
				}
			}
		})
		if cas == nil {
			continue // wrappers that delegate to a guarded entry point
		}
		key := f.Name() + ":effects-only-after-winning-the-flag"
		var effects []ssa.Instruction
		for _, g := range withClosures(f) {
			for _, a := range fieldAccesses(g) {
				if a.Kind == "store" && a.Type == pkgCapacity+".SpaceKeeper" && !isFreshObject(a.Base) {
					effects = append(effects, a.In)
				}
			}
			allInstrs(g, func(in ssa.Instruction) {
				// the flag itself: releasing it (directly or by registering a deferred release) is an effect too —
				// a refused request that clears the flag lets a third request in beside the one still running
				if ci, isCI := in.(ssa.CallInstruction); isCI && ci != ssa.CallInstruction(cas) {
					id := calleeID(in)
					if (strings.HasPrefix(id, "sync/atomic.Store") || strings.HasPrefix(id, "sync/atomic.Swap") || strings.HasPrefix(id, "sync/atomic.Add")) && len(ci.Common().Args) > 0 {
						if _, fld, _, isF := fieldOfAddr(ci.Common().Args[0]); isF && fld == "configuring" {
							effects = append(effects, in)
						}
					}
				}
				if cl, isC := in.(*ssa.Call); isC && isFieldFuncCall(cl, pkgCapacity+".SpaceKeeper", "generateInitialIndex") {
					effects = append(effects, in) // the index rebuild, called through the function-typed field
				}
				if callee := staticCallee(in); callee != nil && pkgOf(callee) == pkgCapacity {
					n := callee.Name()
					if n == "generateInitialIndex" || n == "applyConfiguredWorkSpaces" || strings.HasPrefix(n, "generateFill") || n == "upgradeMassDBFile" || n == "prepareDirs" {
						effects = append(effects, in)
					}
				}
			})
		}
		tests := boolTestsOf(f, cas)
		if len(tests) == 0 {
			c.Bad(rule, key, c.Pos(cas.Pos()), "the result of the compare-and-swap on `configuring` is not tested")
			continue
		}
		// effects in closures are reached through the closure's call sites: check the outer function's
		// instructions, and for closures require that they are only called after the CAS
		var outer []ssa.Instruction
		for _, e := range effects {
			if e.Parent() == f {
				outer = append(outer, e)
			} else {
				// the closure body runs where it is called
				for _, site := range directClosureCalls(f, e.Parent()) {
					outer = append(outer, site)
				}
			}
		}
		if ok, at := unreachableWhenCut(f, boolEdgeCut(tests, true), outer); ok && len(outer) > 0 {
			c.OK(rule, key, c.Pos(cas.Pos()), fmt.Sprintf("%d effects, all behind the successful compare-and-swap", len(outer)))
		} else if len(outer) == 0 {
			c.Bad(rule, key, c.Pos(f.Pos()), "reason=anchor-missing: no effect found in "+f.Name())
		} else {
			c.Bad(rule, key, c.Pos(at.Pos()), "a keeper field is written or an indexing/creation step runs before the request has won the `configuring` flag: a request that is then refused as concurrent has already replaced the directories of the configuration in progress, whose new spaces land in the wrong directory")
		}
	}
	// unsigned capacity arithmetic
	if f := c.MustFn(rule, "poc/engine/spacekeeper/capacity", "(*SpaceKeeper).IsCapacityAvailable"); f != nil {
		key := "IsCapacityAvailable:no-unsigned-wrap"
		bad := ""
		allInstrs(f, func(in ssa.Instruction) {
			bo, ok := in.(*ssa.BinOp)
			if !ok || bo.Op != token.SUB {
				return
			}
			b, isB := bo.X.Type().Underlying().(*types.Basic)
			if !isB || b.Info()&types.IsUnsigned == 0 {
				return
			}
			// guarded by a dominating comparison Y <= X / X >= Y ?
			guarded := false
			allInstrs(f, func(x ssa.Instruction) {
				iff, isI := x.(*ssa.If)
				if !isI || !iff.Block().Dominates(bo.Block()) {
					return
				}
				if cmp, isC := iff.Cond.(*ssa.BinOp); isC {
					if (cmp.Op == token.LEQ || cmp.Op == token.LSS) && cmp.X == bo.Y && cmp.Y == bo.X {
						guarded = true
					}
					if (cmp.Op == token.GEQ || cmp.Op == token.GTR) && cmp.X == bo.X && cmp.Y == bo.Y {
						guarded = true
					}
				}
			})
			if !guarded {
				bad = c.Pos(bo.Pos()) + " "
			}
		})
		if bad != "" {
			c.Bad(rule, key, strings.TrimSpace(bad), "an unsigned size is computed as a difference without a guard: when the directory already holds more plotted bytes than requested the difference wraps to ~2^64 and a request that needs no new space is refused as exceeding the free disk space")
		} else {
			c.OK(rule, key, c.Pos(f.Pos()), "the capacity test adds (free + plotted < requested); no unguarded unsigned subtraction")
		}
	}
}


// isFieldFuncCall: a dynamic call of the function stored in field `field` of type `typ`.
func isFieldFuncCall(cl *ssa.Call, typ, field string) bool {
	if cl.Call.IsInvoke() || cl.Call.StaticCallee() != nil {
		return false
	}
	t, f, _, ok := fieldOfValue(cl.Call.Value)
	return ok && t == typ && f == field
}

// checkNoAppendOntoLivePrefix: `append(s[:i], v)` writes v into s's backing array at index i (the
// prefix has spare capacity: the rest of s). If s[i:] is read afterwards — the classic one-line
// "insert" `append(append(s[:i], v), s[i:]...)` — the element that was at i has already been
// overwritten: one space is lost from the per-directory list and another appears twice, which corrupts
// the selection found again after a restart and the free-space sum.
func checkNoAppendOntoLivePrefix(c *Ctx, rule string) {
	n := 0
	var bad []string
	for fn := range c.AllFuncs {
		if pkgOf(fn) != pkgCapacity {
			continue
		}
		fn := fn
		allInstrsShallow(fn, func(in ssa.Instruction) {
			cl, ok := in.(*ssa.Call)
			if !ok {
				return
			}
			b, isB := cl.Call.Value.(*ssa.Builtin)
			if !isB || b.Name() != "append" || len(cl.Call.Args) == 0 {
				return
			}
			n++
			pre, isS := cl.Call.Args[0].(*ssa.Slice)
			if !isS || pre.High == nil || pre.Max != nil {
				return
			}
			base := accessPath(pre.X)
			if base == "" {
				return
			}
			// a later read of the same slice from the same index on
			r := reach(fn, cl, nil, nil)
			allInstrsShallow(fn, func(i2 ssa.Instruction) {
				suf, isS2 := i2.(*ssa.Slice)
				if !isS2 || suf.Low == nil || accessPath(suf.X) != base {
					return
				}
				if strip(suf.Low) != strip(pre.High) {
					return
				}
				// evaluated after the append (Go evaluates the inner append before the outer call's operands are used)
				used := false
				if refs := suf.Referrers(); refs != nil {
					for _, u := range *refs {
						if r(u) || u == ssa.Instruction(cl) {
							used = true
						}
					}
				}
				if used || r(suf) {
					bad = append(bad, fn.Name()+": append onto "+base+"[:i] at "+c.Pos(cl.Pos())+" while "+base+"[i:] is still read")
				}
			})
		})
	}
	sort.Strings(bad)
	key := "no-append-onto-a-live-prefix"
	if len(bad) > 0 {
		c.Bad(rule, key, "", strings.Join(bad, "; ")+": the append overwrites element i in the shared backing array before the tail is copied — one indexed space is lost and another listed twice")
	} else {
		c.OK(rule, key, "", fmt.Sprintf("%d append calls in the keeper, none onto a prefix whose tail is read afterwards", n))
	}
}
