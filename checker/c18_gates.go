package main

import (
	"go/token"

	"golang.org/x/tools/go/ssa"
)

// checkChildDepthGate (C18-DEPTH): Child never derives below the maximum depth — the depth byte of the
// serialised key would wrap to 0 and a grand-…-child would read back as a master key. Every path of Child
// to the construction of the child key passes the comparison of the parent's depth with 255 on its
// "not equal" edge, for private and for public parents alike. The gate may sit in a helper the reference
// tree does not have that reports by error: then no successful return of the helper may avoid the test,
// and the construction must lie behind the helper's success edge.
func checkChildDepthGate(c *Ctx) {
	rule := "C18-DEPTH"
	f := c.MustFn(rule, "poc/wallet/keystore/hdkeychain", "(*ExtendedKey).Child")
	if f == nil {
		return
	}
	key := "Child:refuses-at-maximum-depth"
	ctor := callsIn(f, pkgHD+".NewExtendedKey")
	if len(ctor) == 0 {
		c.Bad(rule, key, c.Pos(f.Pos()), "reason=anchor-missing: NewExtendedKey call in Child")
		return
	}
	isDepthTest := func(bo *ssa.BinOp) bool {
		if bo.Op != token.EQL && bo.Op != token.NEQ {
			return false
		}
		for _, pr := range [][2]ssa.Value{{bo.X, bo.Y}, {bo.Y, bo.X}} {
			k, isK := strip(pr[1]).(*ssa.Const)
			if !isK || k.Value == nil || k.Value.ExactString() != "255" {
				continue
			}
			if backSlice(pr[0]).hasField(pkgHD+".ExtendedKey", "depth") {
				return true
			}
		}
		return false
	}
	// the "not equal" edge of each test
	neCut := func(g *ssa.Function) (func(from, to *ssa.BasicBlock) bool, int) {
		tests := cmpTests(g, isDepthTest)
		var eq, ne []boolTest
		for _, t := range tests {
			if bo, ok := t.If.Cond.(*ssa.BinOp); ok && bo.Op == token.NEQ {
				ne = append(ne, t)
			} else {
				eq = append(eq, t)
			}
		}
		return orCut(boolEdgeCut(eq, false), boolEdgeCut(ne, true)), len(tests)
	}
	host := hostFn(f, ctor[0])
	// 1. directly in the function that constructs the child
	if cut, n := neCut(host); n > 0 {
		if u, _ := unreachableWhenCut(host, cut, callInstrs(ctor)); u {
			c.OK(rule, key, c.Pos(ctor[0].Pos()), "the child key is constructed only on the depth != 255 edge")
			return
		}
	}
	// 2. in a gate helper reporting by error
	for _, g := range bodyFns(f, nil) {
		if g == host || g.Parent() != nil || !gNewFuncs[g] {
			continue
		}
		cut, n := neCut(g)
		if n == 0 {
			continue
		}
		r := reach(g, nil, cut, nil)
		avoid := false
		for _, ret := range returnsOf(g) {
			if isNilErrorReturn(ret) && r(ret) {
				avoid = true
			}
		}
		if avoid {
			continue
		}
		for _, site := range sitesOf(g) {
			cl, ok := site.(*ssa.Call)
			if !ok || cl.Parent() != host || len(errResults(cl)) == 0 {
				continue
			}
			if u, _ := unreachableWhenCut(host, errorEdgeCut(host, cl, false), callInstrs(ctor)); u {
				c.OK(rule, key, c.Pos(cl.Pos()), "the child key is constructed only after "+g.Name()+" succeeded, which it does only on the depth != 255 edge")
				return
			}
		}
	}
	c.Bad(rule, key, c.Pos(ctor[0].Pos()), "a child key can be constructed without the parent's depth having been compared with 255 (for some kind of parent key): at depth 255 the child's depth byte wraps to 0 and the derived key serialises as a master key")
}
