package main

import (
	"go/token"
	"go/types"
	"sort"
	"strings"

	"golang.org/x/tools/go/ssa"
)

// checkGuardedEscape (rule <P>-ESCAPE): a map that a type guards with its own mutex stays behind that mutex.
// For every struct type of the property's packages that has a sync.Mutex / sync.RWMutex field and a map-typed
// field F which some method of the type updates (m[k] = v, delete) while it holds that mutex: no method hands
// out F itself — as a result (`return t.F`) or by storing it into a field of another object. The caller (or
// the other object, with its own lock) would read or range over the live map while the owner's methods write
// it under a lock the reader does not hold: a data race, and for maps a fatal "concurrent map read and map
// write". Handing out a copy made under the lock is the accepted form.
// With no such type the rule has one census obligation.
func checkGuardedEscape(c *Ctx, rule string, pkgs ...string) {
	inPkg := map[string]bool{}
	for _, p := range pkgs {
		inPkg[p] = true
	}
	isMutex := func(t types.Type) bool {
		if p, ok := t.(*types.Pointer); ok {
			t = p.Elem()
		}
		n, ok := t.(*types.Named)
		return ok && n.Obj().Pkg() != nil && n.Obj().Pkg().Path() == "sync" && (n.Obj().Name() == "Mutex" || n.Obj().Name() == "RWMutex")
	}
	// methods by receiver type
	byRecv := map[*types.Named][]*ssa.Function{}
	for fn := range c.AllFuncs {
		if fn == nil || fn.Blocks == nil || fn.Signature.Recv() == nil || !inPkg[pkgOf(fn)] {
			continue
		}
		rt := fn.Signature.Recv().Type()
		if p, ok := rt.(*types.Pointer); ok {
			rt = p.Elem()
		}
		if n, ok := rt.(*types.Named); ok {
			byRecv[n] = append(byRecv[n], fn)
		}
	}
	var named []*types.Named
	for n := range byRecv {
		named = append(named, n)
	}
	sort.Slice(named, func(i, j int) bool { return named[i].String() < named[j].String() })
	examined := 0
	for _, n := range named {
		st, ok := n.Underlying().(*types.Struct)
		if !ok {
			continue
		}
		mutexIdx := map[int]bool{}
		mapIdx := map[int]bool{}
		for i := 0; i < st.NumFields(); i++ {
			ft := st.Field(i).Type()
			if isMutex(ft) {
				mutexIdx[i] = true
			}
			if _, isMap := ft.Underlying().(*types.Map); isMap {
				mapIdx[i] = true
			}
		}
		if len(mutexIdx) == 0 || len(mapIdx) == 0 {
			continue
		}
		ms := byRecv[n]
		sort.Slice(ms, func(i, j int) bool { return FuncName(ms[i]) < FuncName(ms[j]) })
		recvField := func(fn *ssa.Function, v ssa.Value) (int, bool) {
			// v is a load of receiver.F
			ld, ok := v.(*ssa.UnOp)
			if !ok || ld.Op != token.MUL {
				return 0, false
			}
			fa, ok := ld.X.(*ssa.FieldAddr)
			if !ok || len(fn.Params) == 0 {
				return 0, false
			}
			base := fa.X
			if l2, isLd := base.(*ssa.UnOp); isLd && l2.Op == token.MUL {
				base = l2.X // spilled receiver
			}
			if base != ssa.Value(fn.Params[0]) {
				// spilled receiver cell: alloc storing the parameter
				al, isAl := base.(*ssa.Alloc)
				if !isAl {
					return 0, false
				}
				fromRecv := false
				if refs := al.Referrers(); refs != nil {
					for _, r := range *refs {
						if s, isS := r.(*ssa.Store); isS && s.Addr == ssa.Value(al) && s.Val == ssa.Value(fn.Params[0]) {
							fromRecv = true
						}
					}
				}
				if !fromRecv {
					return 0, false
				}
			}
			return fa.Field, true
		}
		locksOwn := func(fn *ssa.Function) bool {
			found := false
			allInstrsShallow(fn, func(in ssa.Instruction) {
				cl, ok := in.(*ssa.Call)
				if !ok {
					return
				}
				id := calleeID(cl)
				if id != "(*sync.Mutex).Lock" && id != "(*sync.RWMutex).Lock" {
					return
				}
				if fa, isFA := cl.Call.Args[0].(*ssa.FieldAddr); isFA && mutexIdx[fa.Field] {
					found = true
				}
			})
			return found
		}
		// guarded map fields: updated in a method that takes the type's own write lock
		guarded := map[int]*ssa.Function{}
		for _, fn := range ms {
			if !locksOwn(fn) {
				continue
			}
			allInstrsShallow(fn, func(in ssa.Instruction) {
				switch x := in.(type) {
				case *ssa.MapUpdate:
					if i, ok := recvField(fn, x.Map); ok && mapIdx[i] {
						guarded[i] = fn
					}
				case *ssa.Call:
					if calleeID(x) == "builtin.delete" && len(x.Call.Args) > 0 {
						if i, ok := recvField(fn, x.Call.Args[0]); ok && mapIdx[i] {
							guarded[i] = fn
						}
					}
				}
			})
		}
		if len(guarded) == 0 {
			continue
		}
		for _, fn := range ms {
			allInstrsShallow(fn, func(in ssa.Instruction) {
				switch x := in.(type) {
				case *ssa.Return:
					for _, r0 := range x.Results {
						if _, isMap := r0.Type().Underlying().(*types.Map); !isMap {
							continue
						}
						// through the cell a deferred unlock spills the result into
						cands := []ssa.Value{r0}
						valueOriginsLocal(fn, r0, func(root ssa.Value) { cands = append(cands, root) })
						hit, idx := false, 0
						for _, r := range cands {
							if i, ok := recvField(fn, r); ok && guarded[i] != nil {
								hit, idx = true, i
							}
						}
						if i := idx; hit {
							examined++
							c.Bad(rule, FuncName(fn)+":returns:"+st.Field(i).Name(), c.Pos(x.Pos()), "the map "+n.Obj().Name()+"."+st.Field(i).Name()+" is updated under the type's own mutex (in "+FuncName(guarded[i])+") and handed out as it is here: the caller reads or ranges over the live map without that mutex while the owner writes it — a data race, for a map a fatal \"concurrent map read and map write\"; hand out a copy made under the lock")
						}
					}
				case *ssa.Store:
					if i, ok := recvField(fn, x.Val); ok && guarded[i] != nil {
						if fa, isFA := x.Addr.(*ssa.FieldAddr); isFA {
							bt := fa.X.Type()
							if p, isP := bt.Underlying().(*types.Pointer); isP {
								bt = p.Elem()
							}
							_ = bt
							if base := fa.X; base != ssa.Value(fn.Params[0]) {
								examined++
								c.Bad(rule, FuncName(fn)+":aliases:"+st.Field(i).Name(), c.Pos(x.Pos()), "the map "+n.Obj().Name()+"."+st.Field(i).Name()+", which is updated under the type's own mutex (in "+FuncName(guarded[i])+"), is stored into another object: that object's readers use another lock (or none) while the owner writes the shared map")
							}
						}
					}
				}
			})
		}
		examined++
		c.OK(rule, "type:"+strings.TrimPrefix(n.String(), repoMod+"/"), "", "maps updated under the type's own mutex are handed out only as copies")
	}
	if examined == 0 {
		c.OK(rule, "census", "", "no type with its own mutex and a map updated under it in the packages of the property")
	}
}

// checkWalletSpawns (rule C14-SPAWN / C18-SPAWN): the lock discipline of the wallet is decided per call — the
// reference tree starts no goroutine inside the wallet packages, so within one API call there is one thread
// and the manager's locks order the calls. A `go` statement added to these packages is examined: the function
// it starts (with its closures and the same-package functions it calls, to the summary depth) must not write a
// field of an object it did not allocate itself, unless it takes a mutex — two such goroutines, or one and its
// starter, would write the same object (a lazily filled memo of a shared key, a counter) with nothing between
// them. Writing disjoint elements of a result slice is the accepted way for workers to report.
func checkWalletSpawns(c *Ctx, rule string, pkgs []string) {
	inPkg := map[string]bool{}
	for _, p := range pkgs {
		inPkg[p] = true
	}
	var fns []*ssa.Function
	for fn := range c.AllFuncs {
		if fn != nil && fn.Blocks != nil && inPkg[pkgOf(outermost(fn))] {
			fns = append(fns, fn)
		}
	}
	sort.Slice(fns, func(i, j int) bool { return FuncName(fns[i]) < FuncName(fns[j]) })
	n := 0
	for _, fn := range fns {
		k := 0
		allInstrsShallow(fn, func(in ssa.Instruction) {
			g, ok := in.(*ssa.Go)
			if !ok {
				return
			}
			n++
			k++
			key := FuncName(fn) + ":go#" + itoa(k)
			var body *ssa.Function
			switch v := g.Call.Value.(type) {
			case *ssa.MakeClosure:
				body, _ = v.Fn.(*ssa.Function)
			case *ssa.Function:
				body = v
			}
			if body == nil {
				body = g.Call.StaticCallee()
			}
			if body == nil || len(body.Blocks) == 0 {
				c.Unk(rule, key, c.Pos(g.Pos()), "a goroutine is started on a function value the analysis cannot resolve")
				return
			}
			var where token.Pos
			what := ""
			writes := func(in2 ssa.Instruction) bool {
				st, ok := in2.(*ssa.Store)
				if !ok {
					return false
				}
				fa, ok := st.Addr.(*ssa.FieldAddr)
				if !ok || isFreshObject(strip(fa.X)) {
					return false
				}
				// under a mutex taken in the same function: accepted
				locked := false
				allInstrsShallow(in2.Parent(), func(i3 ssa.Instruction) {
					if id := calleeID(i3); id == "(*sync.Mutex).Lock" || id == "(*sync.RWMutex).Lock" {
						locked = true
					}
				})
				if locked {
					return false
				}
				where = st.Pos()
				if t, f, _, ok := fieldOfAddr(fa); ok {
					what = shortType(t) + "." + f
				}
				return true
			}
			if mayDo(body, writes) {
				c.Bad(rule, key, c.Pos(g.Pos()), "the goroutine started here writes the field "+what+" of an object it shares (at "+c.Pos(where)+") without a lock: it runs beside its siblings and its starter, which read and write the same field — the wallet's lock discipline orders calls, not goroutines inside a call")
			} else {
				c.OK(rule, key, c.Pos(g.Pos()), "the goroutine writes no field of a shared object")
			}
		})
	}
	c.OK(rule, "census", "", itoa(n)+" go statement(s) in the wallet packages examined")
}
