package main

import (
	"fmt"
	"os"
	"go/types"
	"sort"
	"strings"

	"golang.org/x/tools/go/ssa"
)

// checkNewState (rule <P>-NEWSTATE): state a change adds next to the mechanism — a field the reference
// tree does not have on one of its struct types, or a new package-level variable — is kept consistent:
//
//  (i)   lock consistency: if some write of the new cell holds a lock class, every other access holds it
//        too (a cache filled under the mutex and read on a lock-free fast path is a data race; for a map
//        it is a fatal "concurrent map read and map write");
//  (ii)  no stale derived state: where the values stored into the new cell derive from reference fields
//        that change after construction (a cache, an index, a memo of such state), every exported
//        operation of the property's packages that changes one of those source fields also writes the new
//        cell (refreshes or invalidates it) — otherwise the cell keeps answering from the state before;
//  (iii) a memo's key covers what its value depends on: for a new map (or sync.Map) filled with
//        key → value, every parameter or parameter field the value derives from also reaches the key.
//
// With no new state the rule has nothing to examine (the reference tree's own state is covered by the
// property's specific rules). Counters, flags set from constants and timestamps have no sources and are
// only subject to (i).
func checkNewState(c *Ctx, rule string, pkgs ...string) {
	inPkg := map[string]bool{}
	for _, p := range pkgs {
		inPkg[p] = true
	}
	if c.refSyms == nil {
		c.OK(rule, "census", "", "no reference table: nothing examined")
		return
	}
	// ---- the new cells
	type cell struct {
		name   string // "<Type>.<field>" (package-qualified) or "global:<pkg>.<name>"
		isMap  bool
		global *ssa.Global
	}
	newField := map[string]bool{} // "<pkg>.<Type>.<field>"
	isMapField := map[string]bool{}
	for p := range inPkg {
		rp := c.refSyms[p]
		sp := c.SSA[p]
		if rp == nil || sp == nil {
			continue
		}
		for _, n := range sp.Pkg.Scope().Names() {
			tn, ok := sp.Pkg.Scope().Lookup(n).(*types.TypeName)
			if !ok {
				continue
			}
			st, isS := tn.Type().Underlying().(*types.Struct)
			if !isS {
				continue
			}
			rt := rp.Types[n]
			if rt == nil {
				continue // a new type: its fields are the state of an object the rules do not know
			}
			have := map[string]bool{}
			for _, f := range rt.Fields {
				have[f.Name] = true
			}
			for i := 0; i < st.NumFields(); i++ {
				f := st.Field(i)
				if have[f.Name()] || f.Embedded() {
					continue
				}
				k := p + "." + n + "." + f.Name()
				newField[k] = true
				switch f.Type().Underlying().(type) {
				case *types.Map:
					isMapField[k] = true
				}
			}
		}
	}
	var newGlobals []*ssa.Global
	for p := range inPkg {
		rp := c.refSyms[p]
		sp := c.SSA[p]
		if rp == nil || sp == nil {
			continue
		}
		for n, m := range sp.Members {
			g, ok := m.(*ssa.Global)
			if !ok || rp.Globals[n] != nil || strings.HasPrefix(n, "init$") {
				continue
			}
			newGlobals = append(newGlobals, g)
		}
	}
	sort.Slice(newGlobals, func(i, j int) bool { return newGlobals[i].Name() < newGlobals[j].Name() })
	if len(newField) == 0 && len(newGlobals) == 0 {
		c.OK(rule, "census", "", "no field or package-level variable beyond the reference tree's in the property's packages")
		return
	}
	// ---- accesses
	scope := map[*ssa.Function]bool{}
	var fns []*ssa.Function
	for fn := range c.AllFuncs {
		if inPkg[pkgOf(fn)] && fn.Blocks != nil {
			scope[fn] = true
			fns = append(fns, fn)
		}
	}
	sort.Slice(fns, func(i, j int) bool { return FuncName(fns[i]) < FuncName(fns[j]) })
	li := computeLocksets(c, scope, map[string]bool{}, func(fn *ssa.Function) bool { return isExportedFunc(fn) })
	type access struct {
		in    ssa.Instruction
		fn    *ssa.Function
		write bool
		val   ssa.Value // stored value (store / mapupdate value)
		key   ssa.Value // mapupdate key
	}
	accs := map[string][]access{}
	for _, fn := range fns {
		for _, a := range fieldAccessesShallow(fn) {
			k := a.Type + "." + a.Field
			if !newField[k] {
				continue
			}
			if isFreshObject(strip(a.Base)) {
				continue // construction
			}
			x := access{in: a.In, fn: fn, write: a.Write}
			switch y := a.In.(type) {
			case *ssa.Store:
				x.val = y.Val
			case *ssa.MapUpdate:
				x.val, x.key = y.Value, y.Key
			}
			accs[k] = append(accs[k], x)
		}
		// package-level variables (the variable itself, or a field of a struct variable)
		rootGlobal := func(v ssa.Value) *ssa.Global {
			for i := 0; i < 6 && v != nil; i++ {
				switch x := v.(type) {
				case *ssa.Global:
					return x
				case *ssa.FieldAddr:
					v = x.X
				case *ssa.IndexAddr:
					v = x.X
				case *ssa.UnOp:
					v = x.X
				default:
					return nil
				}
			}
			return nil
		}
		isNew := map[*ssa.Global]bool{}
		for _, g := range newGlobals {
			isNew[g] = true
		}
		gkey := func(g *ssa.Global) string { return "global:" + pkgOf2(g) + "." + g.Name() }
		allInstrsShallow(fn, func(in ssa.Instruction) {
			if fn.Name() == "init" && fn.Parent() == nil {
				return
			}
			switch y := in.(type) {
			case *ssa.Store:
				if g := rootGlobal(y.Addr); g != nil && isNew[g] {
					accs[gkey(g)] = append(accs[gkey(g)], access{in: in, fn: fn, write: true, val: y.Val})
				}
			case *ssa.MapUpdate:
				if g := rootGlobal(y.Map); g != nil && isNew[g] {
					accs[gkey(g)] = append(accs[gkey(g)], access{in: in, fn: fn, write: true, val: y.Value, key: y.Key})
				}
			case *ssa.Lookup:
				if g := rootGlobal(y.X); g != nil && isNew[g] {
					accs[gkey(g)] = append(accs[gkey(g)], access{in: in, fn: fn})
				}
			case *ssa.Range:
				if g := rootGlobal(y.X); g != nil && isNew[g] {
					accs[gkey(g)] = append(accs[gkey(g)], access{in: in, fn: fn})
				}
			case ssa.CallInstruction:
				// sync.Map Store / Load / LoadOrStore on the variable, builtin delete / len on a map variable
				cc := y.Common()
				id := calleeID(in)
				if len(cc.Args) > 0 && strings.HasPrefix(id, "(*sync.Map).") {
					if g := rootGlobal(cc.Args[0]); g != nil && isNew[g] {
						w := strings.HasSuffix(id, ").Store") || strings.HasSuffix(id, ").LoadOrStore") || strings.HasSuffix(id, ").Delete")
						x := access{in: in, fn: fn, write: w}
						if w && len(cc.Args) >= 3 {
							x.key, x.val = cc.Args[1], cc.Args[2]
						}
						accs[gkey(g)] = append(accs[gkey(g)], x)
					}
				}
				if id == "builtin.delete" && len(cc.Args) > 0 {
					if g := rootGlobal(cc.Args[0]); g != nil && isNew[g] {
						accs[gkey(g)] = append(accs[gkey(g)], access{in: in, fn: fn, write: true})
					}
				}
			}
		})
	}
	var cells []string
	for k := range accs {
		cells = append(cells, k)
	}
	sort.Strings(cells)
	// exported operations and what they reach inside the packages
	var ops []*ssa.Function
	for _, fn := range fns {
		if fn.Parent() == nil && isExportedFunc(fn) {
			ops = append(ops, fn)
		}
	}
	reachOf := map[*ssa.Function]map[*ssa.Function]bool{}
	reachFrom := func(op *ssa.Function) map[*ssa.Function]bool {
		if r, ok := reachOf[op]; ok {
			return r
		}
		out := map[*ssa.Function]bool{}
		for f := range c.Reachable([]*ssa.Function{op}, func(from *ssa.Function, e callEdge) bool {
			return e.Callee != nil && inPkg[pkgOf(e.Callee)] && !(e.Callee.Parent() == nil && isExportedFunc(e.Callee) && e.Callee != op && e.Kind == "go")
		}) {
			out[f] = true
		}
		reachOf[op] = out
		return out
	}
	// writers of reference fields (after construction), by field; mutating method calls on a value loaded
	// from the field count as writes of the field (index.Set / index.Delete on a map-like object)
	mutVerbs := map[string]bool{"Set": true, "Delete": true, "Remove": true, "Add": true, "Put": true, "Push": true, "Reset": true, "Clear": true, "Store": true}
	srcWriters := map[string]map[*ssa.Function]bool{}
	noteW := func(k string, fn *ssa.Function) {
		if srcWriters[k] == nil {
			srcWriters[k] = map[*ssa.Function]bool{}
		}
		srcWriters[k][fn] = true
	}
	for _, fn := range fns {
		for _, a := range fieldAccessesShallow(fn) {
			if a.Write && !isFreshObject(strip(a.Base)) && inPkg[typePkg(a.Type)] {
				noteW(a.Type+"."+a.Field, fn)
			}
		}
		allInstrsShallow(fn, func(in ssa.Instruction) {
			ci, ok := in.(ssa.CallInstruction)
			if !ok {
				return
			}
			cc := ci.Common()
			name := ""
			var recv ssa.Value
			if cc.IsInvoke() {
				name, recv = cc.Method.Name(), cc.Value
			} else if h := cc.StaticCallee(); h != nil && h.Signature.Recv() != nil && len(cc.Args) > 0 {
				name, recv = h.Name(), cc.Args[0]
			}
			if !mutVerbs[name] || recv == nil {
				return
			}
			for v := range backSlice(recv).vals {
				if t, f, base, isF := fieldOfValue(v); isF && inPkg[typePkg(t)] && !isFreshObject(strip(base)) {
					noteW(t+"."+f, fn)
				}
			}
		})
	}
	// static call sites of the scope's functions (a value stored into a new cell may come in through a
	// parameter: its sources are then the arguments at the call sites)
	sitesIn := map[*ssa.Function][]ssa.CallInstruction{}
	for _, fn := range fns {
		allInstrsShallow(fn, func(in ssa.Instruction) {
			if ci, ok := in.(ssa.CallInstruction); ok {
				if h := ci.Common().StaticCallee(); h != nil && scope[h] {
					sitesIn[h] = append(sitesIn[h], ci)
				}
			}
		})
	}
	var fieldSources func(v ssa.Value, depth int, out map[string]bool, self string)
	fieldSources = func(v ssa.Value, depth int, out map[string]bool, self string) {
		for x := range backSlice(v).vals {
			if t, f, base, isF := fieldOfValue(x); isF && inPkg[typePkg(t)] && t+"."+f != self && !newField[t+"."+f] && !isFreshObject(strip(base)) {
				if len(srcWriters[t+"."+f]) > 0 {
					out[t+"."+f] = true
				}
			}
			if p, isP := x.(*ssa.Parameter); isP && depth > 0 {
				h := p.Parent()
				idx := -1
				for i, q := range h.Params {
					if q == p {
						idx = i
					}
				}
				for _, cs := range sitesIn[h] {
					if args := cs.Common().Args; idx >= 0 && idx < len(args) {
						fieldSources(args[idx], depth-1, out, self)
					}
				}
			}
		}
	}
	n := 0
	for _, k := range cells {
		as := accs[k]
		short := shortType(strings.TrimPrefix(k, "global:"))
		// (i) lock consistency
		var guard map[string]bool
		nW := 0
		for _, a := range as {
			if !a.write {
				continue
			}
			nW++
			held := map[string]bool{}
			for l := range li.at[a.in] {
				held[l.Class] = true
			}
			if guard == nil {
				guard = held
			} else {
				for g := range guard {
					if !held[g] {
						delete(guard, g)
					}
				}
			}
		}
		n++
		key := "lock:" + short
		if nW > 0 && len(guard) > 0 {
			bad := ""
			for _, a := range as {
				ok := false
				for l := range li.at[a.in] {
					if guard[l.Class] {
						ok = true
					}
				}
				if !ok {
					bad = fmt.Sprintf("%s at %s (lockset %s)", FuncName(a.fn), c.Pos(a.in.Pos()), li.at[a.in].String())
				}
			}
			var gs []string
			for g := range guard {
				gs = append(gs, shortType(g))
			}
			sort.Strings(gs)
			if bad != "" {
				c.Bad(rule, key, "", fmt.Sprintf("new state %s is written with %s held but accessed without it in %s: a data race (for a map: fatal concurrent map read and map write) between requests", short, strings.Join(gs, "/"), bad))
			} else {
				c.OK(rule, key, "", fmt.Sprintf("every access of %s holds %s", short, strings.Join(gs, "/")))
			}
		} else {
			c.OK(rule, key, "", fmt.Sprintf("no write of %s holds a lock (lock consistency not applicable)", short))
		}
		// (ii) derived state is refreshed by every operation that changes its sources
		srcs := map[string]bool{}
		for _, a := range as {
			if !a.write {
				continue
			}
			for _, v := range []ssa.Value{a.val, a.key} {
				if v == nil {
					continue
				}
				fieldSources(v, 2, srcs, k)
			}
		}
		writersOfCell := map[*ssa.Function]bool{}
		for _, a := range as {
			if a.write {
				writersOfCell[a.fn] = true
			}
		}
		var srcList []string
		for s := range srcs {
			srcList = append(srcList, s)
		}
		sort.Strings(srcList)
		for _, s := range srcList {
			for _, op := range ops {
				r := reachFrom(op)
				changes, refreshes := false, false
				for f := range r {
					if srcWriters[s][f] || srcWriters[s][lexicalOutermost(f)] {
						changes = true
					}
					if writersOfCell[f] {
						refreshes = true
					}
				}
				if !changes {
					continue
				}
				n++
				okey := fmt.Sprintf("stale:%s<-%s:%s", short, shortType(s), FuncName(op))
				if refreshes {
					c.OK(rule, okey, c.Pos(op.Pos()), "changes "+shortType(s)+" and writes "+short)
				} else {
					c.Bad(rule, okey, c.Pos(op.Pos()), fmt.Sprintf("new state %s is derived from %s, which %s changes without refreshing or invalidating %s: the cell keeps answering from the state before (a stale cache / index / memo)", short, shortType(s), FuncName(op), short))
				}
			}
		}
		// (iii) a memo's key covers the inputs of its value
		for _, a := range as {
			if !a.write || a.key == nil || a.val == nil {
				continue
			}
			// input atoms: parameters and fields of parameters, followed through the single call site of
			// the function (a value and its key computed from the same thing by the caller are the same atom)
			var paramOf func(v ssa.Value, depth int) *ssa.Parameter
			paramOf = func(v ssa.Value, depth int) *ssa.Parameter {
				v = strip(v)
				if u, ok := v.(*ssa.UnOp); ok {
					v = u.X
				}
				var pp *ssa.Parameter
				switch x := v.(type) {
				case *ssa.Parameter:
					pp = x
				case *ssa.Alloc:
					// the spill of a by-value parameter
					if refs := x.Referrers(); refs != nil {
						for _, r := range *refs {
							if st, ok := r.(*ssa.Store); ok && st.Addr == ssa.Value(x) {
								if q, isP := st.Val.(*ssa.Parameter); isP {
									pp = q
								}
							}
						}
					}
				}
				if pp == nil || depth == 0 {
					return pp
				}
				h := pp.Parent()
				if ss := sitesIn[h]; len(ss) == 1 {
					for i, q := range h.Params {
						if q == pp && i < len(ss[0].Common().Args) {
							if up := paramOf(ss[0].Common().Args[i], depth-1); up != nil {
								return up
							}
						}
					}
				}
				return pp
			}
			var atoms func(v ssa.Value, depth int, out map[string]bool)
			atoms = func(v ssa.Value, depth int, out map[string]bool) {
				for x := range backSlice(v).vals {
					if _, f, base, isF := fieldOfValue(x); isF {
						if bp := paramOf(base, 2); bp != nil {
							out[fmt.Sprintf("%s.%s.%s", FuncName(bp.Parent()), bp.Name(), f)] = true
						}
						continue
					}
					if pp, isP := x.(*ssa.Parameter); isP {
						if _, isStruct := pp.Type().Underlying().(*types.Struct); isStruct || isPtrToStruct(pp.Type()) {
							continue // only through its fields
						}
						h := pp.Parent()
						if ss := sitesIn[h]; len(ss) == 1 && depth > 0 {
							for i, q := range h.Params {
								if q == pp && i < len(ss[0].Common().Args) {
									atoms(ss[0].Common().Args[i], depth-1, out)
								}
							}
							continue
						}
						out[FuncName(h)+"."+pp.Name()] = true
					}
				}
			}
			ka, va := map[string]bool{}, map[string]bool{}
			atoms(a.key, 2, ka)
			atoms(a.val, 2, va)
			if os.Getenv("VERIF_DEBUG") != "" {
				fmt.Printf("DEBUG memo %s key=%v val=%v\n", short, ka, va)
			}
			missing := ""
			var ml []string
			for x := range va {
				if !ka[x] {
					ml = append(ml, x)
				}
			}
			sort.Strings(ml)
			if len(ml) > 0 {
				missing = strings.Join(ml, ", ")
			}
			n++
			okey := fmt.Sprintf("memo-key:%s:%s", short, FuncName(a.fn))
			if missing != "" {
				c.Bad(rule, okey, c.Pos(a.in.Pos()), fmt.Sprintf("the value remembered in %s depends on %s, which is not part of the key it is remembered under: a later request that differs only there is answered with the first one's value", short, missing))
			} else {
				c.OK(rule, okey, c.Pos(a.in.Pos()), "the key covers the inputs of the remembered value")
			}
		}
	}
	c.OK(rule, "census", "", fmt.Sprintf("%d new state cell(s) accessed after construction, %d obligations", len(cells), n))
}

func pkgOf2(g *ssa.Global) string {
	if g.Pkg != nil && g.Pkg.Pkg != nil {
		return g.Pkg.Pkg.Path()
	}
	return ""
}

func typePkg(t string) string {
	i := strings.LastIndex(t, ".")
	if i < 0 {
		return ""
	}
	return t[:i]
}

func isPtrToStruct(t types.Type) bool {
	p, ok := t.Underlying().(*types.Pointer)
	if !ok {
		return false
	}
	_, isS := p.Elem().Underlying().(*types.Struct)
	return isS
}
