package main

const fMgr = "poc/wallet/keystore/manager.go"
const fAddrMgr = "poc/wallet/keystore/addrmgr.go"
const fKsDB = "poc/wallet/keystore/db.go"
const fDB = "poc/wallet/db/db.go"

func init() {
	variants["C12"] = []variant{
		{Name: "second db.Update in ChangeRemark", Kill: true, Rule: "C12-A", File: fMgr,
			Old: "\t\taddrManager.mu.Lock()\n\t\taddrManager.remark = newRemark\n",
			New: "\t\t_ = db.Update(kmc.db, func(tx db.DBTransaction) error { return nil })\n\t\taddrManager.mu.Lock()\n\t\taddrManager.remark = newRemark\n"},
		{Name: "putRemark error dropped in create", Kill: true, Rule: "C12-D", File: fMgr,
			Old: "\t\terr = putRemark(acctBucket, []byte(remark))\n\t\tif err != nil {\n\t\t\treturn nil, err\n\t\t}\n",
			New: "\t\t_ = putRemark(acctBucket, []byte(remark))\n"},
		{Name: "managedKeystores entry deleted before Update in DeleteKeystore", Kill: true, Rule: "C12-C", File: fMgr,
			Old: "\t\terr = db.Update(kmc.db, func(dbTransaction db.DBTransaction) error {\n\t\t\tif err := addrManager.destroy(dbTransaction); err != nil {",
			New: "\t\tdelete(kmc.managedKeystores, accountID)\n\t\terr = db.Update(kmc.db, func(dbTransaction db.DBTransaction) error {\n\t\t\tif err := addrManager.destroy(dbTransaction); err != nil {"},
		{Name: "DeleteKeystore returns the stale outer err again", Kill: true, Rule: "C12-D", File: fMgr,
			Old: "if err := addrManager.destroy(dbTransaction); err != nil {", New: "if addrManager.destroy(dbTransaction) != nil {"},
		{Name: "bucket write inside a db.View closure", Kill: true, Rule: "C12-B", File: fMgr,
			Old: "\t\terr = db.View(kmc.db, func(dbTransaction db.ReadTransaction) error {\n\t\t\treturn addrManager.updateManagedAddress(dbTransaction, managedAddresses)",
			New: "\t\terr = db.View(kmc.db, func(dbTransaction db.ReadTransaction) error {\n\t\t\tif b := dbTransaction.FetchBucket(addrManager.storage); b != nil {\n\t\t\t\tif err := putRemark(b, []byte(\"x\")); err != nil {\n\t\t\t\t\treturn err\n\t\t\t\t}\n\t\t\t}\n\t\t\treturn addrManager.updateManagedAddress(dbTransaction, managedAddresses)"},
		{Name: "db.Update ignores the Commit result", Kill: true, Rule: "C12-E", File: fDB,
			Old: "\treturn tx.Commit()\n", New: "\ttx.Commit()\n\treturn nil\n"},
		{Name: "db.Update commits although the closure failed", Kill: true, Rule: "C12-E", File: fDB,
			Old: "\t\t_ = tx.Rollback()\n\t\treturn err\n", New: "\t\t_ = tx.Commit()\n\t\treturn err\n"},
		{Name: "changeRemark writes a.remark inside the closure again", Kill: true, Rule: "C12-C", File: fAddrMgr,
			Old: "\t\t\treturn err\n\t\t}\n\t}\n\treturn nil\n}\n\nfunc (a *AddrManager) destroy(", New: "\t\t\treturn err\n\t\t}\n\t}\n\ta.remark = newRemark\n\treturn nil\n}\n\nfunc (a *AddrManager) destroy("},
		{Name: "updateChildNum error only logged in nextAddresses", Kill: true, Rule: "C12-D", File: fAddrMgr,
			Old: "\t\t\t\t\"err\": err,\n\t\t\t})\n\t\treturn nil, err\n\t}\n\n\tpkBucket, err := db.GetOrCreateBucket(am, pubKeyBucket)",
			New: "\t\t\t\t\"err\": err,\n\t\t\t})\n\t}\n\n\tpkBucket, err := db.GetOrCreateBucket(am, pubKeyBucket)"},
		{Name: "Put error replaced by a nil return in putCoinType", Kill: true, Rule: "C12-D", File: fKsDB,
			Old: "\treturn b.Put(coinTypeName, uint32ToBytes(coin))\n", New: "\tb.Put(coinTypeName, uint32ToBytes(coin))\n\treturn nil\n"},

		{Name: "if err := …; err != nil form in create", Kill: false, File: fMgr,
			Old: "[]byte(remark))\n\t\tif err != nil {\n\t\t\treturn nil, err\n\t\t}\n\t}\n\n\terr = putMasterKeyParams(acctBucket, pubParams, privParams)\n\tif err != nil {\n\t\treturn nil, err\n\t}\n",
			New: "[]byte(remark))\n\t\tif err != nil {\n\t\t\treturn nil, err\n\t\t}\n\t}\n\n\tif err := putMasterKeyParams(acctBucket, pubParams, privParams); err != nil {\n\t\treturn nil, err\n\t}\n"},
		{Name: "remark refresh extracted into a helper method", Kill: false, File: fMgr,
			Old:   "\t\taddrManager.mu.Lock()\n\t\taddrManager.remark = newRemark\n\t\taddrManager.mu.Unlock()\n",
			New:   "\t\taddrManager.setRemarkV(newRemark)\n",
			File2: fMgr, Old2: "func (kmc *KeystoreManagerForPoC) ChangeRemark(", New2: "func (a *AddrManager) setRemarkV(r string) {\n\ta.mu.Lock()\n\ta.remark = r\n\ta.mu.Unlock()\n}\n\nfunc (kmc *KeystoreManagerForPoC) ChangeRemark("},
		{Name: "logging added inside the NextAddresses closure", Kill: false, File: fMgr,
			Old: "\t\t\tmanagedAddresses, err = addrManager.nextAddresses(dbTransaction, internal, numAddresses, kmc.params)\n",
			New: "\t\t\tlogging.CPrint(logging.DEBUG, \"next addresses\", logging.LogFormat{\"n\": numAddresses})\n\t\t\tmanagedAddresses, err = addrManager.nextAddresses(dbTransaction, internal, numAddresses, kmc.params)\n"},
		{Name: "wrapped error returned from putRemark", Kill: false, File: fKsDB,
			Old: "\treturn b.Put(remarkName, remark)\n", New: "\tif err := b.Put(remarkName, remark); err != nil {\n\t\treturn fmt.Errorf(\"failed to store remark: %v\", err)\n\t}\n\treturn nil\n"},
		{Name: "putCryptoKeys checks one shared err at the end (seed C12-r2a)", Kill: true, Rule: "C12-D", File: fKsDB,
			Old: "\tif pubKeyEncrypted != nil {\n\t\terr := b.Put(cryptoPubKeyName, pubKeyEncrypted)\n\t\tif err != nil {\n\t\t\treturn fmt.Errorf(\"failed to store encrypted crypto public key: %v\", err)\n\t\t}\n\t}\n\n\tif privKeyEncrypted != nil {\n\t\terr := b.Put(cryptoPrivKeyName, privKeyEncrypted)\n\t\tif err != nil {\n\t\t\treturn fmt.Errorf(\"failed to store encrypted crypto private key: %v\", err)\n\t\t}\n\t}\n\n\treturn nil\n}",
			New: "\tvar err error\n\tif pubKeyEncrypted != nil {\n\t\terr = b.Put(cryptoPubKeyName, pubKeyEncrypted)\n\t}\n\n\tif privKeyEncrypted != nil {\n\t\terr = b.Put(cryptoPrivKeyName, privKeyEncrypted)\n\t}\n\n\tif err != nil {\n\t\treturn fmt.Errorf(\"failed to store encrypted crypto keys: %v\", err)\n\t}\n\treturn nil\n}"},
		{Name: "putCryptoKeys checks each error into a shared variable but returns at once", Kill: false, File: fKsDB,
			Old: "\tif pubKeyEncrypted != nil {\n\t\terr := b.Put(cryptoPubKeyName, pubKeyEncrypted)\n\t\tif err != nil {\n\t\t\treturn fmt.Errorf(\"failed to store encrypted crypto public key: %v\", err)\n\t\t}\n\t}\n",
			New: "\tvar err error\n\tif pubKeyEncrypted != nil {\n\t\terr = b.Put(cryptoPubKeyName, pubKeyEncrypted)\n\t\tif err != nil {\n\t\t\treturn fmt.Errorf(\"failed to store encrypted crypto public key: %v\", err)\n\t\t}\n\t}\n"},
		{Name: "failed index refresh only logged in GenerateNewPublicKey (seed C06-r2c)", Kill: true, Rule: "C12-F", File: fMgr,
			Old: "\t\t\treturn addrManager.updateManagedAddress(tx, managedAddresses)\n\t\t})\n\t\tif err != nil {\n\t\t\treturn nil, 0, err\n\t\t}\n", New: "\t\t\treturn addrManager.updateManagedAddress(tx, managedAddresses)\n\t\t})\n\t\tif err != nil {\n\t\t\tlogging.CPrint(logging.WARN, \"failed to refresh branch info\", logging.LogFormat{\"error\": err})\n\t\t}\n"},
		{Name: "NextAddresses ignores the result of the memory refresh", Kill: true, Rule: "C12-F", File: fMgr,
			Old: "\t\terr = db.View(kmc.db, func(dbTransaction db.ReadTransaction) error {\n\t\t\treturn addrManager.updateManagedAddress(dbTransaction, managedAddresses)\n\t\t})\n\t\tif err != nil {\n\t\t\t// should not be executed\n\t\t\tlogging.CPrint(logging.FATAL, \"failed to update new address\", logging.LogFormat{\"error\": err})\n\t\t\treturn nil, err\n\t\t}\n", New: "\t\t_ = db.View(kmc.db, func(dbTransaction db.ReadTransaction) error {\n\t\t\treturn addrManager.updateManagedAddress(dbTransaction, managedAddresses)\n\t\t})\n"},
	}
}
