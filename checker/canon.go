package main

// Canonicalisation of renamed symbols.
//
// The rules name the repository's functions, struct fields, types, package-level variables and a few
// parameters (the rule tables are frozen from the reference tree). A maintainer who renames one of them
// — and updates every user — changes no behaviour, so no rule may fire. Instead of teaching ~140 rules
// about aliases, the checker identifies *the same entity under a new name* structurally and analyses a
// copy of the current sources in which that entity carries its reference name again:
//
//   reference_symbols.json   for every repo package: functions (signature, parameter names, a body
//                            fingerprint), named types (fields / interface methods), package-level
//                            variables and constants — generated from the reference tree
//                            (verifchk -gen-reference) and committed
//   detectRenames            symbols of the reference that are missing from the current tree are matched
//                            with symbols of the current tree that the reference does not know:
//                            types by structure, fields by type and position, functions by receiver +
//                            signature + body fingerprint (callees, string literals, fields and globals
//                            used), globals by kind/type/value, parameters by position
//   rewriteRenamed           every identifier resolving (go/types Defs/Uses) to a matched object is
//                            replaced in place (same line) by the reference name; the result is handed to
//                            a second load as a type-checker overlay
//
// Only pure renames are recognised: a match needs the same signature / structure and a sufficiently
// similar body. A symbol that was really removed stays missing and the rules anchored at it report the
// missing anchor as before. If the rewritten program does not type-check the original is analysed.

import (
	"encoding/json"
	"fmt"
	"go/ast"
	"go/token"
	"go/types"
	"os"
	"path/filepath"
	"regexp"
	"sort"
	"strings"

	"golang.org/x/tools/go/packages"
	"golang.org/x/tools/go/ssa"
)

type refFunc struct {
	Sig     string   `json:"sig"`
	Params  []string `json:"params,omitempty"`
	Results []string `json:"results,omitempty"`
	Feat    []string `json:"feat,omitempty"`
}

type refField struct {
	Name     string `json:"name"`
	Type     string `json:"type"`
	Embedded bool   `json:"embedded,omitempty"`
}

type refType struct {
	Kind       string            `json:"kind"` // struct | interface | other
	Underlying string            `json:"underlying,omitempty"`
	Fields     []refField        `json:"fields,omitempty"`
	Methods    map[string]string `json:"methods,omitempty"` // interface methods: name -> signature
}

type refGlobal struct {
	Kind string `json:"kind"` // var | const
	Type string `json:"type"`
	Val  string `json:"val,omitempty"`
}

type refPkg struct {
	Funcs   map[string]*refFunc   `json:"funcs"`
	Types   map[string]*refType   `json:"types"`
	Globals map[string]*refGlobal `json:"globals"`
}

// curSyms: the symbols of the loaded tree plus the objects behind them.
type curSyms struct {
	pkgs      map[string]*refPkg
	funcObj   map[string]map[string]*types.Func
	funcDecl  map[string]map[string]*ast.FuncDecl
	typeObj   map[string]map[string]*types.TypeName
	fieldObj  map[string]map[string][]*types.Var // pkg -> type -> fields by index
	ifaceMeth map[string]map[string]map[string]*types.Func
	globalObj map[string]map[string]types.Object
	infoOfPkg map[string]*types.Info
	pkgOfPath map[string]*packages.Package
}

func typeStr(t types.Type) string {
	return types.TypeString(t, func(p *types.Package) string { return p.Path() })
}

func sigStr(sig *types.Signature) string {
	var ps, rs []string
	for i := 0; i < sig.Params().Len(); i++ {
		ps = append(ps, typeStr(sig.Params().At(i).Type()))
	}
	for i := 0; i < sig.Results().Len(); i++ {
		rs = append(rs, typeStr(sig.Results().At(i).Type()))
	}
	v := ""
	if sig.Variadic() {
		v = "..."
	}
	return "(" + strings.Join(ps, ",") + v + ")(" + strings.Join(rs, ",") + ")"
}

func funcKey(fd *ast.FuncDecl) string {
	if fd.Recv == nil || len(fd.Recv.List) == 0 {
		return fd.Name.Name
	}
	t := fd.Recv.List[0].Type
	ptr := false
	if st, ok := t.(*ast.StarExpr); ok {
		ptr = true
		t = st.X
	}
	if ix, ok := t.(*ast.IndexExpr); ok {
		t = ix.X
	}
	name := "?"
	if id, ok := t.(*ast.Ident); ok {
		name = id.Name
	}
	if ptr {
		return "(*" + name + ")." + fd.Name.Name
	}
	return "(" + name + ")." + fd.Name.Name
}

func splitFuncKey(k string) (recv string, ptr bool, name string) {
	if !strings.HasPrefix(k, "(") {
		return "", false, k
	}
	end := strings.Index(k, ")")
	recv = k[1:end]
	name = k[end+2:]
	if strings.HasPrefix(recv, "*") {
		ptr = true
		recv = recv[1:]
	}
	return
}

func joinFuncKey(recv string, ptr bool, name string) string {
	if recv == "" {
		return name
	}
	if ptr {
		return "(*" + recv + ")." + name
	}
	return "(" + recv + ")." + name
}

// bodyFeatures: what a function body mentions — callees, string literals, fields, package-level objects.
func bodyFeatures(fd *ast.FuncDecl, info *types.Info) []string {
	set := map[string]bool{}
	if fd.Body == nil {
		return nil
	}
	ast.Inspect(fd.Body, func(n ast.Node) bool {
		switch x := n.(type) {
		case *ast.BasicLit:
			if x.Kind == token.STRING && len(x.Value) > 4 {
				set["s:"+x.Value] = true
			}
		case *ast.Ident:
			obj := info.Uses[x]
			if obj == nil {
				return true
			}
			switch o := obj.(type) {
			case *types.Func:
				if o.Pkg() != nil {
					r := ""
					if sig, ok := o.Type().(*types.Signature); ok && sig.Recv() != nil {
						r = typeStr(sig.Recv().Type()) + "."
					}
					set["c:"+o.Pkg().Path()+"."+r+o.Name()] = true
				}
			case *types.Var:
				if o.IsField() {
					set["f:"+o.Name()] = true
				} else if o.Pkg() != nil && o.Parent() == o.Pkg().Scope() {
					set["g:"+o.Pkg().Path()+"."+o.Name()] = true
				}
			case *types.Const:
				if o.Pkg() != nil && o.Parent() == o.Pkg().Scope() {
					set["g:"+o.Pkg().Path()+"."+o.Name()] = true
				}
			}
		}
		return true
	})
	var out []string
	for k := range set {
		out = append(out, k)
	}
	sort.Strings(out)
	return out
}

func exprText(fset *token.FileSet, src map[string][]byte, e ast.Expr) string {
	if e == nil {
		return ""
	}
	p, q := fset.Position(e.Pos()), fset.Position(e.End())
	b := src[p.Filename]
	if b == nil || p.Offset < 0 || q.Offset > len(b) || p.Offset > q.Offset {
		return ""
	}
	return strings.Join(strings.Fields(string(b[p.Offset:q.Offset])), " ")
}

func extractSymbols(c *Ctx, overlay map[string][]byte) *curSyms {
	cs := &curSyms{pkgs: map[string]*refPkg{}, funcObj: map[string]map[string]*types.Func{}, funcDecl: map[string]map[string]*ast.FuncDecl{},
		typeObj: map[string]map[string]*types.TypeName{}, fieldObj: map[string]map[string][]*types.Var{}, ifaceMeth: map[string]map[string]map[string]*types.Func{},
		globalObj: map[string]map[string]types.Object{}, infoOfPkg: map[string]*types.Info{}, pkgOfPath: map[string]*packages.Package{}}
	srcCache := map[string][]byte{}
	readSrc := func(fn string) []byte {
		if b, ok := srcCache[fn]; ok {
			return b
		}
		var b []byte
		if ob, ok := overlay[fn]; ok {
			b = ob
		} else {
			b, _ = os.ReadFile(fn)
		}
		srcCache[fn] = b
		return b
	}
	for path, p := range c.PkgByID {
		if !strings.HasPrefix(path, repoMod) || p.TypesInfo == nil || p.Types == nil {
			continue
		}
		rp := &refPkg{Funcs: map[string]*refFunc{}, Types: map[string]*refType{}, Globals: map[string]*refGlobal{}}
		cs.pkgs[path] = rp
		cs.funcObj[path] = map[string]*types.Func{}
		cs.funcDecl[path] = map[string]*ast.FuncDecl{}
		cs.typeObj[path] = map[string]*types.TypeName{}
		cs.fieldObj[path] = map[string][]*types.Var{}
		cs.ifaceMeth[path] = map[string]map[string]*types.Func{}
		cs.globalObj[path] = map[string]types.Object{}
		cs.infoOfPkg[path] = p.TypesInfo
		cs.pkgOfPath[path] = p
		info := p.TypesInfo
		for _, file := range p.Syntax {
			fname := c.Fset.Position(file.Pos()).Filename
			src := map[string][]byte{fname: readSrc(fname)}
			for _, d := range file.Decls {
				switch x := d.(type) {
				case *ast.FuncDecl:
					obj, _ := info.Defs[x.Name].(*types.Func)
					if obj == nil {
						continue
					}
					k := funcKey(x)
					if x.Name.Name == "init" || x.Name.Name == "_" {
						continue
					}
					sig := obj.Type().(*types.Signature)
					rf := &refFunc{Sig: sigStr(sig), Feat: bodyFeatures(x, info)}
					for i := 0; i < sig.Params().Len(); i++ {
						rf.Params = append(rf.Params, sig.Params().At(i).Name())
					}
					for i := 0; i < sig.Results().Len(); i++ {
						rf.Results = append(rf.Results, sig.Results().At(i).Name())
					}
					rp.Funcs[k] = rf
					cs.funcObj[path][k] = obj
					cs.funcDecl[path][k] = x
				case *ast.GenDecl:
					for _, sp := range x.Specs {
						switch s := sp.(type) {
						case *ast.TypeSpec:
							tn, _ := info.Defs[s.Name].(*types.TypeName)
							if tn == nil || s.Name.Name == "_" {
								continue
							}
							rt := &refType{Kind: "other"}
							switch u := tn.Type().Underlying().(type) {
							case *types.Struct:
								rt.Kind = "struct"
								var objs []*types.Var
								for i := 0; i < u.NumFields(); i++ {
									f := u.Field(i)
									rt.Fields = append(rt.Fields, refField{Name: f.Name(), Type: typeStr(f.Type()), Embedded: f.Embedded()})
									objs = append(objs, f)
								}
								cs.fieldObj[path][s.Name.Name] = objs
							case *types.Interface:
								rt.Kind = "interface"
								rt.Methods = map[string]string{}
								cs.ifaceMeth[path][s.Name.Name] = map[string]*types.Func{}
								for i := 0; i < u.NumExplicitMethods(); i++ {
									m := u.ExplicitMethod(i)
									rt.Methods[m.Name()] = sigStr(m.Type().(*types.Signature))
									cs.ifaceMeth[path][s.Name.Name][m.Name()] = m
								}
							default:
								rt.Underlying = typeStr(u)
							}
							rp.Types[s.Name.Name] = rt
							cs.typeObj[path][s.Name.Name] = tn
						case *ast.ValueSpec:
							for i, id := range s.Names {
								obj := info.Defs[id]
								if obj == nil || id.Name == "_" {
									continue
								}
								g := &refGlobal{Type: typeStr(obj.Type())}
								switch o := obj.(type) {
								case *types.Const:
									g.Kind = "const"
									g.Val = o.Val().ExactString()
								case *types.Var:
									g.Kind = "var"
									if i < len(s.Values) {
										g.Val = exprText(c.Fset, src, s.Values[i])
									}
								}
								rp.Globals[id.Name] = g
								cs.globalObj[path][id.Name] = obj
							}
						}
					}
				}
			}
		}
	}
	return cs
}

func referenceFile(verif string) string { return filepath.Join(verif, "reference_symbols.json") }

func writeReference(c *Ctx, verif string) error {
	cs := extractSymbols(c, nil)
	b, err := json.MarshalIndent(cs.pkgs, "", " ")
	if err != nil {
		return err
	}
	return os.WriteFile(referenceFile(verif), b, 0o644)
}

func loadReference(verif string) map[string]*refPkg {
	b, err := os.ReadFile(referenceFile(verif))
	if err != nil {
		return nil
	}
	var out map[string]*refPkg
	if json.Unmarshal(b, &out) != nil {
		return nil
	}
	return out
}

func jaccard(a, b []string) float64 {
	if len(a) == 0 && len(b) == 0 {
		return 1
	}
	sa := map[string]bool{}
	for _, x := range a {
		sa[x] = true
	}
	inter, union := 0, len(sa)
	seen := map[string]bool{}
	for _, x := range b {
		if seen[x] {
			continue
		}
		seen[x] = true
		if sa[x] {
			inter++
		} else {
			union++
		}
	}
	if union == 0 {
		return 1
	}
	return float64(inter) / float64(union)
}

// gFuncAsMethod: reference free functions ("<pkg>.<name>") that are methods of their first parameter's type
// in the current tree (the receiver is the first parameter in SSA, so rules see the same parameters).
var gFuncAsMethod = map[string]bool{}

type renameSet struct {
	objs  map[types.Object]string // object of the current tree -> reference name
	notes []string
}

// mapTypeNames rewrites "<pkg>.<cur>" into "<pkg>.<ref>" inside a type string.
func mapTypeNames(s string, typeRen map[string]map[string]string) string {
	for pkg, m := range typeRen {
		for cur, ref := range m {
			re := regexp.MustCompile(regexp.QuoteMeta(pkg+"."+cur) + `\b`)
			s = re.ReplaceAllString(s, pkg+"."+ref)
		}
	}
	return s
}

func detectRenames(ref map[string]*refPkg, cs *curSyms) *renameSet {
	rs := &renameSet{objs: map[types.Object]string{}}
	typeRen := map[string]map[string]string{} // pkg -> cur -> ref
	pkgs := []string{}
	for p := range ref {
		if cs.pkgs[p] != nil {
			pkgs = append(pkgs, p)
		}
	}
	sort.Strings(pkgs)
	// ---- types (two rounds so that types mentioning renamed types match as well)
	for round := 0; round < 2; round++ {
		for _, p := range pkgs {
			rp, cp := ref[p], cs.pkgs[p]
			var missing, added []string
			for n := range rp.Types {
				if cp.Types[n] == nil && !hasVal(typeRen[p], n) {
					missing = append(missing, n)
				}
			}
			for n := range cp.Types {
				if rp.Types[n] == nil && typeRen[p][n] == "" {
					added = append(added, n)
				}
			}
			sort.Strings(missing)
			sort.Strings(added)
			for _, m := range missing {
				rt := rp.Types[m]
				best, bestScore, second := "", 0.0, 0.0
				for _, a := range added {
					if typeRen[p][a] != "" {
						continue
					}
					sc := typeSimilarity(rt, cp.Types[a], typeRen)
					if sc > bestScore {
						second = bestScore
						best, bestScore = a, sc
					} else if sc > second {
						second = sc
					}
				}
				if best != "" && bestScore >= 0.7 && bestScore-second >= 0.15 {
					if typeRen[p] == nil {
						typeRen[p] = map[string]string{}
					}
					typeRen[p][best] = m
					rs.objs[cs.typeObj[p][best]] = m
					rs.notes = append(rs.notes, fmt.Sprintf("type %s.%s is the reference's %s (structure %.2f)", shortPkg(p), best, m, bestScore))
				}
			}
		}
	}
	// ---- fields and interface methods
	for _, p := range pkgs {
		rp, cp := ref[p], cs.pkgs[p]
		for curName, ct := range cp.Types {
			refName := curName
			if r := typeRen[p][curName]; r != "" {
				refName = r
			}
			rt := rp.Types[refName]
			if rt == nil || rt.Kind != ct.Kind {
				continue
			}
			if ct.Kind == "struct" {
				curHas := map[string]bool{}
				for _, f := range ct.Fields {
					curHas[f.Name] = true
				}
				refHas := map[string]bool{}
				for _, f := range rt.Fields {
					refHas[f.Name] = true
				}
				for ri, rf := range rt.Fields {
					if curHas[rf.Name] || rf.Embedded {
						continue
					}
					// candidates: fields the reference does not know, same type
					var cand []int
					for ci, cf := range ct.Fields {
						if refHas[cf.Name] || cf.Embedded {
							continue
						}
						if mapTypeNames(cf.Type, typeRen) == rf.Type {
							cand = append(cand, ci)
						}
					}
					pick := -1
					if len(cand) == 1 {
						pick = cand[0]
					} else {
						for _, ci := range cand {
							if ci == ri {
								pick = ci
							}
						}
					}
					if pick >= 0 {
						obj := cs.fieldObj[p][curName][pick]
						if _, dup := rs.objs[obj]; !dup {
							rs.objs[obj] = rf.Name
							rs.notes = append(rs.notes, fmt.Sprintf("field %s.%s.%s is the reference's %s", shortPkg(p), curName, ct.Fields[pick].Name, rf.Name))
						}
					}
				}
			}
			if ct.Kind == "interface" {
				for rn, rsig := range rt.Methods {
					if _, ok := ct.Methods[rn]; ok {
						continue
					}
					var cand []string
					for cn, csig := range ct.Methods {
						if _, known := rt.Methods[cn]; known {
							continue
						}
						if mapTypeNames(csig, typeRen) == rsig {
							cand = append(cand, cn)
						}
					}
					if len(cand) == 1 {
						rs.objs[cs.ifaceMeth[p][curName][cand[0]]] = rn
						rs.notes = append(rs.notes, fmt.Sprintf("interface method %s.%s.%s is the reference's %s", shortPkg(p), curName, cand[0], rn))
					}
				}
			}
		}
	}
	// ---- globals
	for _, p := range pkgs {
		rp, cp := ref[p], cs.pkgs[p]
		var missing, added []string
		for n := range rp.Globals {
			if cp.Globals[n] == nil {
				missing = append(missing, n)
			}
		}
		for n := range cp.Globals {
			if rp.Globals[n] == nil {
				added = append(added, n)
			}
		}
		sort.Strings(missing)
		sort.Strings(added)
		used := map[string]bool{}
		for _, m := range missing {
			rg := rp.Globals[m]
			var exact, loose []string
			for _, a := range added {
				if used[a] {
					continue
				}
				cg := cp.Globals[a]
				if cg.Kind != rg.Kind || mapTypeNames(cg.Type, typeRen) != rg.Type {
					continue
				}
				loose = append(loose, a)
				if cg.Val == rg.Val {
					exact = append(exact, a)
				}
			}
			pick := ""
			if len(exact) == 1 {
				pick = exact[0]
			} else if len(exact) == 0 && len(loose) == 1 && countSame(rp.Globals, missing, rg) == 1 {
				pick = loose[0]
			}
			if pick != "" {
				used[pick] = true
				rs.objs[cs.globalObj[p][pick]] = m
				rs.notes = append(rs.notes, fmt.Sprintf("%s %s.%s is the reference's %s", rg.Kind, shortPkg(p), pick, m))
			}
		}
	}
	// ---- functions and methods
	funcRen := map[string]map[string]string{} // pkg -> cur key -> ref key
	for _, p := range pkgs {
		rp, cp := ref[p], cs.pkgs[p]
		canonKey := func(curKey string) string {
			recv, ptr, name := splitFuncKey(curKey)
			if r := typeRen[p][recv]; r != "" {
				recv = r
			}
			return joinFuncKey(recv, ptr, name)
		}
		curByCanon := map[string]string{}
		for k := range cp.Funcs {
			curByCanon[canonKey(k)] = k
		}
		var missing, added []string
		for k := range rp.Funcs {
			if curByCanon[k] == "" {
				missing = append(missing, k)
			}
		}
		for k := range cp.Funcs {
			if rp.Funcs[canonKey(k)] == nil {
				added = append(added, k)
			}
		}
		sort.Strings(missing)
		sort.Strings(added)
		type pair struct {
			m, a  string
			score float64
		}
		addedByName := map[string][]string{}
		for _, a := range added {
			_, _, n := splitFuncKey(a)
			addedByName[n] = append(addedByName[n], a)
		}
		deepFeat := func(a string) []string {
			set := map[string]bool{}
			var add func(k string, depth int)
			seen := map[string]bool{}
			add = func(k string, depth int) {
				if seen[k] || cp.Funcs[k] == nil {
					return
				}
				seen[k] = true
				for _, ft := range cp.Funcs[k].Feat {
					if strings.HasPrefix(ft, "c:"+p+".") {
						n := ft[strings.LastIndex(ft, ".")+1:]
						if hs := addedByName[n]; len(hs) == 1 && hs[0] != a && depth > 0 {
							add(hs[0], depth-1)
							continue
						}
					}
					set[ft] = true
				}
			}
			add(a, 2)
			var out []string
			for k := range set {
				out = append(out, k)
			}
			sort.Strings(out)
			return out
		}
		var pairs []pair
		toMethod := map[string]bool{}
		for _, m := range missing {
			mrecv, mptr, _ := splitFuncKey(m)
			for _, a := range added {
				arecv, aptr, _ := splitFuncKey(canonKey(a))
				asig := mapTypeNames(cp.Funcs[a].Sig, typeRen)
				if mrecv == "" && arecv != "" {
					// a free function turned into a method of its first parameter's type
					star := ""
					if aptr {
						star = "*"
					}
					first := star + p + "." + arecv
					rest := strings.TrimPrefix(asig, "(")
					if strings.HasPrefix(rest, ")") {
						asig = "(" + first + rest
					} else {
						asig = "(" + first + "," + rest
					}
					if asig != rp.Funcs[m].Sig {
						continue
					}
					toMethod[a] = true
				} else {
					if arecv != mrecv || aptr != mptr {
						continue
					}
					if asig != rp.Funcs[m].Sig {
						continue
					}
				}
				sc := jaccard(rp.Funcs[m].Feat, cp.Funcs[a].Feat)
				// renamed and split into phases at once: compare with the body the function has together
				// with the functions it calls that the reference does not know either
				if d := jaccard(rp.Funcs[m].Feat, deepFeat(a)); d > sc {
					sc = d
				}
				pairs = append(pairs, pair{m, a, sc})
			}
		}
		sort.SliceStable(pairs, func(i, j int) bool { return pairs[i].score > pairs[j].score })
		doneM, doneA := map[string]bool{}, map[string]bool{}
		for _, pr := range pairs {
			if doneM[pr.m] || doneA[pr.a] {
				continue
			}
			// alone: the only candidate of this missing function and the only missing function it fits
			nm, na := 0, 0
			for _, q := range pairs {
				if q.m == pr.m && !doneA[q.a] {
					na++
				}
				if q.a == pr.a && !doneM[q.m] {
					nm++
				}
			}
			if pr.score >= 0.45 || (na == 1 && nm == 1 && pr.score >= 0.2) {
				doneM[pr.m], doneA[pr.a] = true, true
				_, _, refName := splitFuncKey(pr.m)
				rs.objs[cs.funcObj[p][pr.a]] = refName
				if funcRen[p] == nil {
					funcRen[p] = map[string]string{}
				}
				funcRen[p][pr.a] = pr.m
				rs.notes = append(rs.notes, fmt.Sprintf("func %s.%s is the reference's %s (body %.2f)", shortPkg(p), pr.a, pr.m, pr.score))
				if toMethod[pr.a] {
					gFuncAsMethod[p+"."+refName] = true
				}
			}
		}
		// ---- parameters and named results, by position
		for curKey, cf := range cp.Funcs {
			refKey := canonKey(curKey)
			if r := funcRen[p][curKey]; r != "" {
				refKey = r
			}
			rf := rp.Funcs[refKey]
			fd := cs.funcDecl[p][curKey]
			if rf == nil || fd == nil || mapTypeNames(cf.Sig, typeRen) != rf.Sig {
				continue
			}
			obj := cs.funcObj[p][curKey]
			sig := obj.Type().(*types.Signature)
			locals := localNames(fd, cs.infoOfPkg[p])
			renameVars := func(tuple *types.Tuple, refNames []string) {
				if tuple.Len() != len(refNames) {
					return
				}
				for i := 0; i < tuple.Len(); i++ {
					v := tuple.At(i)
					rn := refNames[i]
					if v.Name() == rn || rn == "" || rn == "_" || v.Name() == "" || v.Name() == "_" {
						continue
					}
					if locals[rn] {
						continue // the reference name is taken by another local of this function
					}
					rs.objs[v] = rn
					rs.notes = append(rs.notes, fmt.Sprintf("parameter %s of %s.%s is the reference's %s", v.Name(), shortPkg(p), curKey, rn))
				}
			}
			renameVars(sig.Params(), rf.Params)
			renameVars(sig.Results(), rf.Results)
		}
	}
	sort.Strings(rs.notes)
	return rs
}

func hasVal(m map[string]string, v string) bool {
	for _, x := range m {
		if x == v {
			return true
		}
	}
	return false
}

func countSame(all map[string]*refGlobal, names []string, g *refGlobal) int {
	n := 0
	for _, x := range names {
		if o := all[x]; o != nil && o.Kind == g.Kind && o.Type == g.Type {
			n++
		}
	}
	return n
}

func shortPkg(p string) string { return strings.TrimPrefix(strings.TrimPrefix(p, repoMod), "/") }

func localNames(fd *ast.FuncDecl, info *types.Info) map[string]bool {
	out := map[string]bool{}
	ast.Inspect(fd, func(n ast.Node) bool {
		if id, ok := n.(*ast.Ident); ok {
			if o := info.Defs[id]; o != nil {
				out[id.Name] = true
			}
			if o := info.Uses[id]; o != nil {
				// names of package-level or universe objects the body uses must not be shadowed either
				out[id.Name] = true
			}
		}
		return true
	})
	return out
}

func typeSimilarity(r, c *refType, typeRen map[string]map[string]string) float64 {
	if r == nil || c == nil || r.Kind != c.Kind {
		return 0
	}
	switch r.Kind {
	case "struct":
		if len(r.Fields) == 0 && len(c.Fields) == 0 {
			return 0.5
		}
		n := len(r.Fields)
		if len(c.Fields) > n {
			n = len(c.Fields)
		}
		same := 0.0
		for i := 0; i < len(r.Fields) && i < len(c.Fields); i++ {
			if mapTypeNames(c.Fields[i].Type, typeRen) == r.Fields[i].Type {
				same += 0.7
				if c.Fields[i].Name == r.Fields[i].Name {
					same += 0.3
				}
			}
		}
		return same / float64(n)
	case "interface":
		if len(r.Methods) == 0 {
			return 0
		}
		same := 0
		for n, s := range r.Methods {
			if cs2, ok := c.Methods[n]; ok && mapTypeNames(cs2, typeRen) == s {
				same++
			}
		}
		n := len(r.Methods)
		if len(c.Methods) > n {
			n = len(c.Methods)
		}
		return float64(same) / float64(n)
	default:
		if mapTypeNames(c.Underlying, typeRen) == r.Underlying {
			return 0.8
		}
	}
	return 0
}

// rewriteRenamed returns, for every file that mentions a renamed object, its content with those
// identifiers replaced by the reference names (same lines, only identifier lengths change).
func rewriteRenamed(c *Ctx, rs *renameSet, overlay map[string][]byte) map[string][]byte {
	type edit struct {
		off, n int
		to     string
	}
	edits := map[string][]edit{}
	for path, p := range c.PkgByID {
		if !strings.HasPrefix(path, repoMod) || p.TypesInfo == nil {
			continue
		}
		info := p.TypesInfo
		for _, file := range p.Syntax {
			ast.Inspect(file, func(n ast.Node) bool {
				id, ok := n.(*ast.Ident)
				if !ok {
					return true
				}
				to := ""
				if o := info.Defs[id]; o != nil {
					if t, ok := rs.objs[o]; ok {
						to = t
					}
				}
				if to == "" {
					if o := info.Uses[id]; o != nil {
						if t, ok := rs.objs[o]; ok {
							to = t
						}
					}
				}
				if to == "" || to == id.Name {
					return true
				}
				pos := c.Fset.Position(id.Pos())
				edits[pos.Filename] = append(edits[pos.Filename], edit{pos.Offset, len(id.Name), to})
				return true
			})
		}
	}
	out := map[string][]byte{}
	for fn, es := range edits {
		var src []byte
		if b, ok := overlay[fn]; ok {
			src = b
		} else {
			src, _ = os.ReadFile(fn)
		}
		if src == nil {
			continue
		}
		sort.Slice(es, func(i, j int) bool { return es[i].off < es[j].off })
		var b []byte
		last := 0
		okFile := true
		for _, e := range es {
			if e.off < last || e.off+e.n > len(src) {
				okFile = false
				break
			}
			b = append(b, src[last:e.off]...)
			b = append(b, e.to...)
			last = e.off + e.n
		}
		if !okFile {
			continue
		}
		b = append(b, src[last:]...)
		out[fn] = b
	}
	return out
}

// LoadCanonical loads the repository and, if symbols of the reference tree were renamed, loads it again
// from sources in which they carry their reference names.
func LoadCanonical(repo, verif string, overlay map[string][]byte) (*Ctx, error) {
	c, err := Load(repo, overlay)
	if err != nil {
		return nil, err
	}
	ref := loadReference(verif)
	c.refSyms, c.overlay = ref, overlay
	if ref == nil {
		c.Note("canonicalisation: no reference_symbols.json — names are taken as they are")
		return c, nil
	}
	cs := extractSymbols(c, overlay)
	rs := detectRenames(ref, cs)
	if len(rs.objs) == 0 {
		computeNewFuncs(c, ref)
		return c, nil
	}
	rew := rewriteRenamed(c, rs, overlay)
	ov2 := map[string][]byte{}
	for k, v := range overlay {
		ov2[k] = v
	}
	for k, v := range rew {
		ov2[k] = v
	}
	c2, err2 := Load(repo, ov2)
	if err2 != nil {
		c.Note("canonicalisation: %d renamed symbol(s) recognised but the renamed program does not load (%v) — analysing the tree as it is", len(rs.objs), err2)
		computeNewFuncs(c, ref)
		return c, nil
	}
	c2.Note("canonicalisation: %d symbol(s) of the reference tree were renamed; analysed under their reference names:", len(rs.objs))
	for _, n := range rs.notes {
		c2.Note("  renamed: %s", n)
	}
	c2.Renamed = rs.notes
	c2.refSyms, c2.overlay = ref, ov2
	computeNewFuncs(c2, ref)
	return c2, nil
}

// ---------------------------------------------------------------------------------------------
// New helpers: functions the reference tree does not know (and that are not a renamed reference
// function). The rules were written against the reference's functions, so a new function is analysed
// as part of whoever calls it: its parameters are bound to the arguments of its call sites in value
// slices (prov.go) and its body belongs to its callers' bodies (summary.go, bodyFns).

var gNewFuncs = map[*ssa.Function]bool{}
var gCallSitesOf = map[*ssa.Function][]ssa.CallInstruction{}
var gUsersOf = map[*ssa.Function][]*ssa.Function{} // new function -> functions that call it or take it as a method value

// New struct types (not in the reference, not a renamed reference type): state a refactoring moved out
// of local or captured variables into an object of its own. Their fields are transparent to value
// slices: a load of field i derives from whatever any function stores into field i (field-based).
var gNewTypes = map[string]bool{}               // "<pkg>.<Type>"
var gNewTypeStores = map[string][]ssa.Value{} // "<pkg>.<Type>#<field index>" -> stored values

func newTypeFieldKey(fa *ssa.FieldAddr) (string, bool) {
	pt, ok := fa.X.Type().Underlying().(*types.Pointer)
	if !ok {
		return "", false
	}
	n, ok := pt.Elem().(*types.Named)
	if !ok || n.Obj().Pkg() == nil {
		return "", false
	}
	k := n.Obj().Pkg().Path() + "." + n.Obj().Name()
	if !gNewTypes[k] {
		return "", false
	}
	return fmt.Sprintf("%s#%d", k, fa.Field), true
}

func ssaFuncKey(fn *ssa.Function) (pkg, key string, ok bool) {
	if fn == nil || fn.Pkg == nil || fn.Parent() != nil || fn.Synthetic != "" {
		return "", "", false
	}
	pkg = fn.Pkg.Pkg.Path()
	if recv := fn.Signature.Recv(); recv != nil {
		t := recv.Type()
		ptr := false
		if p, isP := t.(*types.Pointer); isP {
			ptr = true
			t = p.Elem()
		}
		n, isN := t.(*types.Named)
		if !isN {
			return "", "", false
		}
		return pkg, joinFuncKey(n.Obj().Name(), ptr, fn.Name()), true
	}
	return pkg, fn.Name(), true
}

func computeNewFuncs(c *Ctx, ref map[string]*refPkg) {
	gNewFuncs = map[*ssa.Function]bool{}
	gCallSitesOf = map[*ssa.Function][]ssa.CallInstruction{}
	gUsersOf = map[*ssa.Function][]*ssa.Function{}
	if ref == nil {
		return
	}
	for fn := range c.AllFuncs {
		pkg, key, ok := ssaFuncKey(fn)
		if !ok || fn.Name() == "init" {
			continue
		}
		rp := ref[pkg]
		if rp == nil {
			continue // a package the reference does not have at all: nothing is anchored there
		}
		if rp.Funcs[key] == nil {
			gNewFuncs[fn] = true
		}
	}
	gNewTypes = map[string]bool{}
	gNewTypeStores = map[string][]ssa.Value{}
	for path, p := range c.PkgByID {
		rp := ref[path]
		if rp == nil || p.Types == nil || !strings.HasPrefix(path, repoMod) {
			continue
		}
		for _, name := range p.Types.Scope().Names() {
			if tn, ok := p.Types.Scope().Lookup(name).(*types.TypeName); ok && !tn.IsAlias() && rp.Types[name] == nil {
				if _, isStruct := tn.Type().Underlying().(*types.Struct); isStruct {
					gNewTypes[path+"."+name] = true
				}
			}
		}
	}
	if len(gNewTypes) > 0 {
		for fn := range c.AllFuncs {
			for _, b := range fn.Blocks {
				for _, in := range b.Instrs {
					if st, ok := in.(*ssa.Store); ok {
						if fa, isFA := st.Addr.(*ssa.FieldAddr); isFA {
							if k, isNew := newTypeFieldKey(fa); isNew {
								gNewTypeStores[k] = append(gNewTypeStores[k], st.Val)
							}
						}
					}
				}
			}
		}
		var tn []string
		for k := range gNewTypes {
			tn = append(tn, shortPkg(k))
		}
		sort.Strings(tn)
		c.Note("new struct type(s) not in the reference tree, fields followed store-to-load: %s", strings.Join(tn, ", "))
	}
	if len(gNewFuncs) == 0 {
		return
	}
	for fn := range c.AllFuncs {
		for _, b := range fn.Blocks {
			for _, in := range b.Instrs {
				ci, ok := in.(ssa.CallInstruction)
				if !ok {
					continue
				}
				if g := ci.Common().StaticCallee(); g != nil && gNewFuncs[g] {
					gCallSitesOf[g] = append(gCallSitesOf[g], ci)
					gUsersOf[g] = append(gUsersOf[g], fn)
				}
			}
		}
	}
	for fn := range c.AllFuncs {
		for _, b := range fn.Blocks {
			for _, in := range b.Instrs {
				if mc, ok := in.(*ssa.MakeClosure); ok {
					if g := boundMethodTarget(mc); g != nil && gNewFuncs[g] {
						gUsersOf[g] = append(gUsersOf[g], fn)
					}
				}
			}
		}
	}
	var names []string
	for fn := range gNewFuncs {
		names = append(names, FuncName(fn))
	}
	sort.Strings(names)
	c.Note("new helper function(s) not in the reference tree, analysed as part of their callers: %s", strings.Join(names, ", "))
}
