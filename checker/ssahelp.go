package main

// SSA helpers shared by all rule engines: callee resolution, reaching definitions for local
// cells (captured variables), nil tests, cut reachability, instruction-level dominance.

import (
	"go/token"
	"go/types"
	"strings"

	"golang.org/x/tools/go/ssa"
)

// ---------------------------------------------------------------------------------------------
// callees

func staticCallee(in ssa.Instruction) *ssa.Function {
	ci, ok := in.(ssa.CallInstruction)
	if !ok {
		return nil
	}
	return ci.Common().StaticCallee()
}

// calleeID returns a printable identity of what a call instruction calls:
// "pkgpath.Func", "(*pkgpath.T).M", or for interface calls "(pkgpath.I).M".
func calleeID(in ssa.Instruction) string {
	ci, ok := in.(ssa.CallInstruction)
	if !ok {
		return ""
	}
	cc := ci.Common()
	if cc.IsInvoke() {
		return "(" + cc.Value.Type().String() + ")." + cc.Method.Name()
	}
	if f := cc.StaticCallee(); f != nil {
		if f.Synthetic != "" && strings.Contains(f.Synthetic, "bound method") {
			return f.Object().(*types.Func).FullName()
		}
		if f.Object() != nil {
			return f.Object().(*types.Func).FullName()
		}
		return f.String()
	}
	if b, ok := cc.Value.(*ssa.Builtin); ok {
		return "builtin." + b.Name()
	}
	return ""
}

// isCall reports whether in calls the function/method with the given full name.
// Full names look like  "massnet.org/mass/poc/wallet/db.Update",
// "(*massnet.org/mass/poc/wallet/keystore.AddrManager).destroy",
// "(massnet.org/mass/poc/wallet/db.Bucket).Put".
func isCall(in ssa.Instruction, full string) bool {
	return calleeID(in) == full
}

func isCallAny(in ssa.Instruction, fulls ...string) bool {
	id := calleeID(in)
	if id == "" {
		return false
	}
	for _, f := range fulls {
		if id == f {
			return true
		}
	}
	return false
}

// methodNameOfCall returns the bare method/function name of a call.
func callName(in ssa.Instruction) string {
	ci, ok := in.(ssa.CallInstruction)
	if !ok {
		return ""
	}
	cc := ci.Common()
	if cc.IsInvoke() {
		return cc.Method.Name()
	}
	if f := cc.StaticCallee(); f != nil {
		return f.Name()
	}
	if b, ok := cc.Value.(*ssa.Builtin); ok {
		return b.Name()
	}
	return ""
}

// callArgs returns the actual arguments excluding the receiver for both call modes.
func callArgs(in ssa.Instruction) []ssa.Value {
	ci := in.(ssa.CallInstruction)
	cc := ci.Common()
	if cc.IsInvoke() {
		return cc.Args
	}
	if f := cc.StaticCallee(); f != nil && f.Signature.Recv() != nil && len(cc.Args) > 0 {
		return cc.Args[1:]
	}
	return cc.Args
}

func callRecv(in ssa.Instruction) ssa.Value {
	ci := in.(ssa.CallInstruction)
	cc := ci.Common()
	if cc.IsInvoke() {
		return cc.Value
	}
	if f := cc.StaticCallee(); f != nil && f.Signature.Recv() != nil && len(cc.Args) > 0 {
		return cc.Args[0]
	}
	return nil
}

func allInstrsShallow(fn *ssa.Function, f func(ssa.Instruction)) {
	for _, b := range fn.Blocks {
		for _, in := range b.Instrs {
			f(in)
		}
	}
}

// allInstrs visits fn's own instructions (not its closures', not its helpers'); allInstrsNew also
// visits the helpers fn calls that the reference tree does not have (a body split into phases is still
// the body; canon.go).
func allInstrs(fn *ssa.Function, f func(ssa.Instruction)) { allInstrsShallow(fn, f) }

func allInstrsNew(fn *ssa.Function, f func(ssa.Instruction)) {
	allInstrsShallow(fn, f)
	if len(gNewFuncs) == 0 {
		return
	}
	for _, h := range newHelpersOf(fn) {
		allInstrsShallow(h, f)
	}
}

// closuresOf returns the anonymous functions syntactically nested in fn (transitively).
func closuresOf(fn *ssa.Function) []*ssa.Function {
	var out []*ssa.Function
	var walk func(f *ssa.Function)
	walk = func(f *ssa.Function) {
		for _, a := range f.AnonFuncs {
			out = append(out, a)
			walk(a)
		}
	}
	walk(fn)
	return out
}

func withClosures(fn *ssa.Function) []*ssa.Function {
	return append([]*ssa.Function{fn}, closuresOf(fn)...)
}

// outermost: the named function a closure belongs to — and, for a helper the reference tree does not
// have (canon.go), the one reference function all of its uses lead back to: code that a refactoring moved
// into a new helper, method or phase still "belongs" to the function it was taken from when a rule asks
// who does something (who writes the credential, who moves a workspace, who calls Plot).
func outermost(fn *ssa.Function) *ssa.Function {
	for fn.Parent() != nil {
		fn = fn.Parent()
	}
	if len(gNewFuncs) > 0 && gNewFuncs[fn] {
		if o := ownerOfNew(fn, 4); o != nil {
			return o
		}
	}
	return fn
}

func lexicalOutermost(fn *ssa.Function) *ssa.Function {
	for fn.Parent() != nil {
		fn = fn.Parent()
	}
	return fn
}

// ownerOfNew: the single reference function from which every use (static call, `go`, defer, method
// value) of new function fn is reached, following users that are new functions themselves; nil if the
// uses lead to more than one reference function or to none.
func ownerOfNew(fn *ssa.Function, depth int) *ssa.Function {
	if depth == 0 {
		return nil
	}
	var owner *ssa.Function
	users := gUsersOf[fn]
	if len(users) == 0 {
		return nil
	}
	for _, u := range users {
		u = lexicalOutermost(u)
		if u == fn {
			continue
		}
		if gNewFuncs[u] {
			u = ownerOfNew(u, depth-1)
			if u == nil {
				return nil
			}
		}
		if owner != nil && owner != u {
			return nil
		}
		owner = u
	}
	return owner
}

// ---------------------------------------------------------------------------------------------
// instruction positions and dominance

type ipos struct {
	b *ssa.BasicBlock
	i int
}

func instrIndex(in ssa.Instruction) ipos {
	b := in.Block()
	for i, x := range b.Instrs {
		if x == in {
			return ipos{b, i}
		}
	}
	return ipos{b, -1}
}

// instrDominates: every path from entry to b passes a.
func instrDominates(a, b ssa.Instruction) bool {
	if a.Parent() != b.Parent() {
		// one of them sits in a helper the reference tree does not have: compare at the call site through
		// which it executes (canon.go / summary.go)
		a2, b2 := projectPair(a, b)
		if a2 == nil || b2 == nil || a2 == b2 {
			return false
		}
		a, b = a2, b2
	}
	pa, pb := instrIndex(a), instrIndex(b)
	if pa.b == pb.b {
		return pa.i < pb.i
	}
	return pa.b.Dominates(pb.b)
}

type edge struct{ from, to *ssa.BasicBlock }

// reach computes the set of instructions reachable from `start` (exclusive: starts after it; if
// start is nil starts at function entry) without traversing cut edges and without passing
// through (stopping at, exclusive) any instruction for which stop returns true.
// It returns a predicate telling whether an instruction is reachable.
type reachSet struct {
	full    map[*ssa.BasicBlock]bool // whole block reachable from its first instruction
	partial map[*ssa.BasicBlock]int  // start block: reachable from index
	stopAt  map[*ssa.BasicBlock]int  // first stopping index seen when scanning from entry point of block
	stop    func(ssa.Instruction) bool
}

func reach(fn *ssa.Function, start ssa.Instruction, cut func(from, to *ssa.BasicBlock) bool, stop func(ssa.Instruction) bool) func(ssa.Instruction) bool {
	type item struct {
		b    *ssa.BasicBlock
		from int
	}
	if stop != nil {
		// a call of a new helper that performs the stopping step on every path to its (successful) return
		// stops the walk like the step itself
		inner := stop
		memo := map[*ssa.Function]bool{}
		stop = func(in ssa.Instruction) bool {
			if inner(in) {
				return true
			}
			if len(gNewFuncs) == 0 {
				return false
			}
			if _, isDefer := in.(*ssa.Defer); isDefer {
				return false
			}
			ci, ok := in.(ssa.CallInstruction)
			if !ok {
				return false
			}
			if _, isGo := in.(*ssa.Go); isGo {
				return false
			}
			h := ci.Common().StaticCallee()
			if h == nil || !gNewFuncs[h] {
				return false
			}
			v, done := memo[h]
			if !done {
				memo[h] = false // recursion guard
				v = mustDoOnSuccess(h, inner)
				memo[h] = v
			}
			return v
		}
	}
	// reachable[b] = (from, until) ranges; we store for each block the minimal from and the index where scan stopped
	type rng struct{ from, until int }
	type ranges map[*ssa.BasicBlock][]rng
	walkFrom := func(f *ssa.Function, start ssa.Instruction) ranges {
		out := ranges{}
		reachedFrom := map[*ssa.BasicBlock]int{} // smallest index from which block scanned
		var work []item
		if start == nil {
			if len(f.Blocks) == 0 {
				return out
			}
			work = append(work, item{f.Blocks[0], 0})
		} else {
			p := instrIndex(start)
			work = append(work, item{p.b, p.i + 1})
		}
		for len(work) > 0 {
			it := work[len(work)-1]
			work = work[:len(work)-1]
			if prev, ok := reachedFrom[it.b]; ok && prev <= it.from {
				continue
			}
			reachedFrom[it.b] = it.from
			until := len(it.b.Instrs)
			stopped := false
			for i := it.from; i < len(it.b.Instrs); i++ {
				if stop != nil && stop(it.b.Instrs[i]) {
					until = i
					stopped = true
					break
				}
			}
			out[it.b] = append(out[it.b], rng{it.from, until})
			if stopped {
				continue
			}
			for _, s := range it.b.Succs {
				if cut != nil && cut(it.b, s) {
					continue
				}
				work = append(work, item{s, 0})
			}
		}
		return out
	}
	inRanges := func(rs ranges, in ssa.Instruction) bool {
		p := instrIndex(in)
		for _, r := range rs[p.b] {
			// the stopping instruction itself counts as reached (until inclusive) so that
			// callers can ask "is this sink reached"; instructions after it are not.
			if p.i >= r.from && p.i <= r.until {
				return true
			}
		}
		return false
	}
	// uniqueSite: the single call site of a top-level helper the reference tree does not have
	uniqueSite := func(g *ssa.Function) ssa.Instruction {
		if g == nil || g.Parent() != nil || !gNewFuncs[g] || len(sitesOf(g)) != 1 {
			return nil
		}
		if cs := sitesOf(g)[0]; cs.Common().StaticCallee() == g {
			if _, isGo := cs.(*ssa.Go); !isGo {
				if _, isDefer := cs.(*ssa.Defer); !isDefer {
					return cs
				}
			}
		}
		return nil
	}
	direct := map[*ssa.Function]ranges{} // walks from the start point through the helpers it sits in
	walkedFn := true
	if start != nil && start.Parent() != fn {
		// a start point inside a new helper: walk the helper from the start point; only if one of its
		// returns is reached does the walk continue behind the helper's call site (and so on outwards)
		cur := start
		levelled := false
		if s2 := siteIn(fn, start); s2 != nil && s2.Parent() == fn {
			levelled = true
			for depth := 0; depth < 4 && cur.Parent() != fn; depth++ {
				g := cur.Parent()
				site := uniqueSite(g)
				if site == nil {
					levelled = false
					break
				}
				rg := walkFrom(g, cur)
				direct[g] = rg
				exit := false
				for _, ret := range returnsOf(g) {
					if inRanges(rg, ret) {
						exit = true
					}
				}
				if !exit {
					walkedFn = false
					break
				}
				cur = site
			}
			if levelled && walkedFn && cur.Parent() != fn {
				levelled = false
			}
			if !levelled {
				// closures, several call sites: continue from the helper's call site in fn
				direct = map[*ssa.Function]ranges{}
				walkedFn = true
				cur = s2
			}
		}
		start = cur
	}
	fnRanges := ranges{}
	if walkedFn {
		if start == nil && len(fn.Blocks) == 0 {
			return func(ssa.Instruction) bool { return false }
		}
		if start == nil || start.Parent() == fn {
			fnRanges = walkFrom(fn, start)
		}
	}
	entry := map[*ssa.Function]ranges{}
	var query func(in ssa.Instruction, depth int) bool
	query = func(in ssa.Instruction, depth int) bool {
		g := in.Parent()
		if g == fn {
			return inRanges(fnRanges, in)
		}
		if rg, ok := direct[g]; ok && inRanges(rg, in) {
			return true
		}
		if lexicalOutermost(g) == lexicalOutermost(fn) {
			return inRanges(fnRanges, in)
		}
		if site := uniqueSite(g); site != nil && depth > 0 {
			// an instruction of a helper executes when the helper's call is reached and the walk from the
			// helper's entry reaches it
			if !query(site, depth-1) {
				return false
			}
			rg, ok := entry[g]
			if !ok {
				rg = walkFrom(g, nil)
				entry[g] = rg
			}
			return inRanges(rg, in)
		}
		if s2 := siteIn(fn, in); s2 != nil && s2.Parent() == fn {
			return inRanges(fnRanges, s2)
		}
		return inRanges(fnRanges, in)
	}
	return func(in ssa.Instruction) bool { return query(in, 4) }
}

// ---------------------------------------------------------------------------------------------
// value plumbing

// strip removes representation-only wrappers.
func strip(v ssa.Value) ssa.Value {
	for {
		switch x := v.(type) {
		case *ssa.ChangeType:
			v = x.X
		case *ssa.ChangeInterface:
			v = x.X
		case *ssa.MakeInterface:
			v = x.X
		case *ssa.Convert:
			v = x.X
		default:
			return v
		}
	}
}

func isNilConst(v ssa.Value) bool {
	c, ok := v.(*ssa.Const)
	return ok && c.IsNil()
}

func isErrorType(t types.Type) bool {
	return t != nil && t.String() == "error"
}

// cell is a local variable that lives in memory: an *ssa.Alloc, or inside a closure the
// *ssa.FreeVar bound to one.
func cellOf(addr ssa.Value) ssa.Value {
	switch a := addr.(type) {
	case *ssa.Alloc:
		return a
	case *ssa.FreeVar:
		return a
	}
	return nil
}

// rootCell maps a FreeVar to the Alloc (or outer FreeVar chain end) it was bound to.
func rootCell(v ssa.Value) ssa.Value {
	for {
		fv, ok := v.(*ssa.FreeVar)
		if !ok {
			return v
		}
		fn := fv.Parent()
		par := fn.Parent()
		if par == nil {
			return v
		}
		idx := -1
		for i, f := range fn.FreeVars {
			if f == fv {
				idx = i
			}
		}
		var bound ssa.Value
		allInstrsShallow(par, func(in ssa.Instruction) {
			if mc, ok := in.(*ssa.MakeClosure); ok && mc.Fn == fn && idx >= 0 && idx < len(mc.Bindings) {
				bound = mc.Bindings[idx]
			}
		})
		if bound == nil {
			return v
		}
		v = bound
	}
}

// reachingDefs computes, for every load of a local cell in fn, the store instructions of fn that
// may reach it (flow-sensitive within fn). A call of/through a closure that captures the cell, or
// any call while the cell's address has escaped to a closure, may also define it: those are
// represented by the pseudo-def `unknownDef` unless the closure's stores can be enumerated, in
// which case the closure's stores are added (not killing).
type rdInfo struct {
	loads map[*ssa.UnOp][]ssa.Instruction // load -> reaching stores (possibly in closures)
	// entry: loads that may see the value the cell had on function entry (FreeVar cells) or zero value
	fromEntry map[*ssa.UnOp]bool
}

func reachingDefs(fn *ssa.Function) *rdInfo {
	info := &rdInfo{loads: map[*ssa.UnOp][]ssa.Instruction{}, fromEntry: map[*ssa.UnOp]bool{}}
	// collect cells
	cells := map[ssa.Value]bool{}
	allInstrsShallow(fn, func(in ssa.Instruction) {
		switch x := in.(type) {
		case *ssa.Store:
			if c := cellOf(x.Addr); c != nil {
				cells[c] = true
			}
		case *ssa.UnOp:
			if x.Op == token.MUL {
				if c := cellOf(x.X); c != nil {
					cells[c] = true
				}
			}
		}
	})
	if len(cells) == 0 {
		return info
	}
	// closure stores: for each cell, stores performed by nested closures that capture it
	closureStores := map[ssa.Value][]ssa.Instruction{}
	capturedBy := map[ssa.Value][]*ssa.Function{}
	for _, cl := range closuresOf(fn) {
		allInstrsShallow(cl, func(in ssa.Instruction) {
			if st, ok := in.(*ssa.Store); ok {
				if fv, ok := st.Addr.(*ssa.FreeVar); ok {
					r := rootCell(fv)
					if cells[r] {
						closureStores[r] = append(closureStores[r], st)
					}
				}
			}
		})
		for _, fv := range cl.FreeVars {
			r := rootCell(fv)
			if cells[r] {
				capturedBy[r] = append(capturedBy[r], cl)
			}
		}
	}
	type defset map[ssa.Instruction]bool
	type state map[ssa.Value]defset // cell -> defs; the nil instruction key = entry/zero value
	copyState := func(s state) state {
		n := state{}
		for c, d := range s {
			nd := defset{}
			for k := range d {
				nd[k] = true
			}
			n[c] = nd
		}
		return n
	}
	in := map[*ssa.BasicBlock]state{}
	entry := state{}
	for c := range cells {
		entry[c] = defset{nil: true}
	}
	in[fn.Blocks[0]] = entry
	transfer := func(b *ssa.BasicBlock, s state, record bool) state {
		s = copyState(s)
		for _, ins := range b.Instrs {
			switch x := ins.(type) {
			case *ssa.Store:
				if c := cellOf(x.Addr); c != nil {
					s[c] = defset{x: true}
				}
			case *ssa.UnOp:
				if x.Op == token.MUL && record {
					if c := cellOf(x.X); c != nil {
						var defs []ssa.Instruction
						for d := range s[c] {
							if d == nil {
								info.fromEntry[x] = true
							} else {
								defs = append(defs, d)
							}
						}
						info.loads[x] = defs
					}
				}
			case ssa.CallInstruction:
				// any call may run a closure that captured a cell (closure stored elsewhere):
				// add the closure's stores as may-defs for cells captured by some closure.
				for c, sts := range closureStores {
					if s[c] == nil {
						s[c] = defset{}
					}
					for _, st := range sts {
						s[c][st] = true
					}
				}
			}
		}
		return s
	}
	merge := func(dst, src state) (state, bool) {
		changed := false
		if dst == nil {
			return copyState(src), true
		}
		for c, d := range src {
			if dst[c] == nil {
				dst[c] = defset{}
			}
			for k := range d {
				if !dst[c][k] {
					dst[c][k] = true
					changed = true
				}
			}
		}
		return dst, changed
	}
	work := []*ssa.BasicBlock{fn.Blocks[0]}
	for len(work) > 0 {
		b := work[0]
		work = work[1:]
		out := transfer(b, in[b], false)
		for _, s := range b.Succs {
			ns, ch := merge(in[s], out)
			in[s] = ns
			if ch {
				work = append(work, s)
			}
		}
	}
	for _, b := range fn.Blocks {
		if in[b] != nil {
			transfer(b, in[b], true)
		}
	}
	_ = capturedBy
	return info
}

// rdCache caches reaching definitions per function.
var rdCache = map[*ssa.Function]*rdInfo{}

func rdOf(fn *ssa.Function) *rdInfo {
	if r, ok := rdCache[fn]; ok {
		return r
	}
	r := reachingDefs(fn)
	rdCache[fn] = r
	return r
}

// aliasesForward returns every SSA value in fn (and only fn) that certainly or possibly carries
// the same value as v: through Phi, stores into local cells and the loads they reach,
// ChangeType/MakeInterface etc. Used to find the tests applied to a call result.
func aliasesForward(fn *ssa.Function, v ssa.Value) map[ssa.Value]bool {
	out := map[ssa.Value]bool{v: true}
	rd := rdOf(fn)
	// inverse map store -> loads
	storeLoads := map[ssa.Instruction][]*ssa.UnOp{}
	for ld, sts := range rd.loads {
		for _, st := range sts {
			storeLoads[st] = append(storeLoads[st], ld)
		}
	}
	work := []ssa.Value{v}
	for len(work) > 0 {
		x := work[len(work)-1]
		work = work[:len(work)-1]
		refs := x.Referrers()
		if refs == nil {
			continue
		}
		for _, r := range *refs {
			switch y := r.(type) {
			case *ssa.Phi:
				if !out[y] {
					out[y] = true
					work = append(work, y)
				}
			case *ssa.ChangeType, *ssa.ChangeInterface, *ssa.MakeInterface:
				yv := y.(ssa.Value)
				if !out[yv] {
					out[yv] = true
					work = append(work, yv)
				}
			case *ssa.Store:
				if y.Val == x && cellOf(y.Addr) != nil {
					for _, ld := range storeLoads[y] {
						if !out[ld] {
							out[ld] = true
							work = append(work, ld)
						}
					}
				}
			}
		}
	}
	return out
}

// nilTest describes an `if v ==/!= nil` on value v.
type nilTest struct {
	If       *ssa.If
	NilSucc  *ssa.BasicBlock // successor taken when v == nil
	NonNil   *ssa.BasicBlock // successor taken when v != nil
	Compared ssa.Value
}

// nilTestsOf finds the nil comparisons applied to v or its forward aliases inside fn.
func nilTestsOf(fn *ssa.Function, v ssa.Value) []nilTest {
	var out []nilTest
	for a := range aliasesForward(fn, v) {
		refs := a.Referrers()
		if refs == nil {
			continue
		}
		for _, r := range *refs {
			bo, ok := r.(*ssa.BinOp)
			if !ok || (bo.Op != token.EQL && bo.Op != token.NEQ) {
				continue
			}
			var other ssa.Value
			if bo.X == a {
				other = bo.Y
			} else {
				other = bo.X
			}
			if !isNilConst(other) {
				continue
			}
			out = append(out, condTests(bo, bo.Op == token.EQL, a)...)
		}
	}
	return out
}

// condTests follows a boolean value to the If instructions it controls (directly, or through
// short-circuit phis is not attempted: `a != nil && b` compiles to nested ifs on a in SSA).
func condTests(cond ssa.Value, trueMeansNil bool, compared ssa.Value) []nilTest {
	var out []nilTest
	refs := cond.Referrers()
	if refs == nil {
		return nil
	}
	for _, r := range *refs {
		switch y := r.(type) {
		case *ssa.If:
			t := nilTest{If: y, Compared: compared}
			if trueMeansNil {
				t.NilSucc, t.NonNil = y.Block().Succs[0], y.Block().Succs[1]
			} else {
				t.NilSucc, t.NonNil = y.Block().Succs[1], y.Block().Succs[0]
			}
			out = append(out, t)
		case *ssa.UnOp:
			if y.Op == token.NOT {
				out = append(out, condTests(y, !trueMeansNil, compared)...)
			}
		}
	}
	return out
}

// boolTestsOf finds the If instructions controlled by boolean value v (or !v); TrueSucc is the
// edge taken when v is true.
type boolTest struct {
	If        *ssa.If
	TrueSucc  *ssa.BasicBlock
	FalseSucc *ssa.BasicBlock
}

func boolTestsOf(fn *ssa.Function, v ssa.Value) []boolTest {
	var out []boolTest
	var rec func(x ssa.Value, neg bool)
	seen := map[ssa.Value]bool{}
	rec = func(x ssa.Value, neg bool) {
		if seen[x] {
			return
		}
		seen[x] = true
		refs := x.Referrers()
		if refs == nil {
			return
		}
		for _, r := range *refs {
			switch y := r.(type) {
			case *ssa.If:
				t := boolTest{If: y}
				if !neg {
					t.TrueSucc, t.FalseSucc = y.Block().Succs[0], y.Block().Succs[1]
				} else {
					t.TrueSucc, t.FalseSucc = y.Block().Succs[1], y.Block().Succs[0]
				}
				out = append(out, t)
			case *ssa.UnOp:
				if y.Op == token.NOT {
					rec(y, !neg)
				}
			case *ssa.BinOp:
				// v == true / v == false
				if c, ok := y.Y.(*ssa.Const); ok && c.Value != nil && (y.Op == token.EQL || y.Op == token.NEQ) {
					if c.Value.String() == "true" {
						rec(y, neg != (y.Op == token.NEQ))
					} else if c.Value.String() == "false" {
						rec(y, neg != (y.Op == token.EQL))
					}
				}
			}
		}
	}
	for a := range aliasesForward(fn, v) {
		rec(a, false)
	}
	return out
}

// errResult returns the error-typed result value(s) of a call instruction: the call itself if it
// returns exactly error, or the Extract of the last tuple component.
func errResults(in ssa.Instruction) []ssa.Value {
	call, ok := in.(*ssa.Call)
	if !ok {
		return nil
	}
	sig := call.Call.Signature()
	res := sig.Results()
	if res.Len() == 0 {
		return nil
	}
	last := res.At(res.Len() - 1)
	if !isErrorType(last.Type()) {
		return nil
	}
	if res.Len() == 1 {
		return []ssa.Value{call}
	}
	var out []ssa.Value
	if refs := call.Referrers(); refs != nil {
		for _, r := range *refs {
			if ex, ok := r.(*ssa.Extract); ok && ex.Index == res.Len()-1 {
				out = append(out, ex)
			}
		}
	}
	return out
}

// extractOf returns the Extract of component idx of a tuple call, or the call itself for single results.
func resultOf(call *ssa.Call, idx int) ssa.Value {
	sig := call.Call.Signature()
	if sig.Results().Len() == 1 && idx == 0 {
		return call
	}
	if refs := call.Referrers(); refs != nil {
		for _, r := range *refs {
			if ex, ok := r.(*ssa.Extract); ok && ex.Index == idx {
				return ex
			}
		}
	}
	return nil
}

// returnsOf lists the Return instructions of fn.
func returnsOf(fn *ssa.Function) []*ssa.Return {
	var out []*ssa.Return
	for _, b := range fn.Blocks {
		if len(b.Instrs) == 0 {
			continue
		}
		if r, ok := b.Instrs[len(b.Instrs)-1].(*ssa.Return); ok {
			out = append(out, r)
		}
	}
	return out
}

// valueOrigins walks backward from v through phis, local cells, wrappers and Extracts and calls f on
// each root (a value that is not one of those forwarding forms). Flow-sensitive for cells.
// gOriginsLocal: valueOrigins stays inside the function (a rule that classifies how a helper passes its
// own parameter on needs the parameter itself, not the arguments of the helper's call sites).
var gOriginsLocal bool

func valueOriginsLocal(fn *ssa.Function, v ssa.Value, f func(root ssa.Value)) {
	old := gOriginsLocal
	gOriginsLocal = true
	defer func() { gOriginsLocal = old }()
	valueOrigins(fn, v, f)
}

func valueOrigins(fn *ssa.Function, v ssa.Value, f func(root ssa.Value)) {
	seen := map[ssa.Value]bool{}
	var rec func(x ssa.Value)
	rec = func(x ssa.Value) {
		x = strip(x)
		if seen[x] {
			return
		}
		seen[x] = true
		switch y := x.(type) {
		case *ssa.Phi:
			for _, e := range y.Edges {
				rec(e)
			}
		case *ssa.TypeAssert:
			rec(y.X)
		case *ssa.UnOp:
			if y.Op == token.MUL {
				if c := cellOf(y.X); c != nil {
					rd := rdOf(y.Parent())
					for _, st := range rd.loads[y] {
						rec(st.(*ssa.Store).Val)
					}
					if rd.fromEntry[y] {
						// value from outside this function's flow: for a captured variable follow the
						// stores made by the function that owns it (flow-insensitively)
						root := rootCell(c)
						if a, ok := root.(*ssa.Alloc); ok && a.Parent() != y.Parent() {
							n := 0
							for _, g := range withClosures(a.Parent()) {
								if g == y.Parent() {
									continue
								}
								allInstrsShallow(g, func(in ssa.Instruction) {
									if st, ok := in.(*ssa.Store); ok && rootCell(st.Addr) == root {
										n++
										rec(st.Val)
									}
								})
							}
							if n == 0 {
								f(root)
							}
						} else {
							f(root)
						}
					}
					return
				}
			}
			f(x)
		case *ssa.Parameter:
			// a parameter of a helper the reference tree does not have stands for the arguments of its
			// call sites (canon.go)
			if h := y.Parent(); !gOriginsLocal && h != nil && h.Parent() == nil && gNewFuncs[h] && len(sitesOf(h)) > 0 {
				idx := -1
				for i, q := range h.Params {
					if q == y {
						idx = i
					}
				}
				done := false
				for _, s := range sitesOf(h) {
					if args := s.Common().Args; idx >= 0 && idx < len(args) && s.Common().StaticCallee() == h {
						rec(args[idx])
						done = true
					}
				}
				if done {
					return
				}
			}
			f(x)
		case *ssa.Call:
			if h := y.Call.StaticCallee(); h != nil && gNewFuncs[h] && h.Signature.Results().Len() == 1 && len(h.Blocks) > 0 && !isErrorType(y.Type()) {
				for _, ret := range returnsOf(h) {
					if len(ret.Results) == 1 {
						rec(ret.Results[0])
					}
				}
				return
			}
			f(x)
		case *ssa.Extract:
			if cl, ok := y.Tuple.(*ssa.Call); ok {
				if h := cl.Call.StaticCallee(); h != nil && gNewFuncs[h] && len(h.Blocks) > 0 && !isErrorType(y.Type()) {
					n := 0
					for _, ret := range returnsOf(h) {
						if y.Index < len(ret.Results) {
							if k, isK := ret.Results[y.Index].(*ssa.Const); isK && k.IsNil() {
								continue
							}
							rec(ret.Results[y.Index])
							n++
						}
					}
					if n > 0 {
						return
					}
				}
			}
			f(x)
		default:
			f(x)
		}
	}
	rec(v)
}
