package main

// C13 — the space keeper never deadlocks or panics (structural necessary conditions):
// BLOCK (blocking operations under a lock), CHAN (close/send discipline), LOCKORDER, queue GUARD.

import (
	"fmt"
	"go/token"
	"go/types"
	"sort"
	"strings"

	"golang.org/x/tools/go/ssa"
)

func init() { register("C13", checkC13) }

// ---- channel identity: a channel is identified by the struct field that holds it, or "local"

func chanField(v ssa.Value) (string, bool) {
	if t, f, _, ok := fieldOfValue(v); ok {
		return t + "." + f, true
	}
	// through a phi / parameter: unknown
	return "", false
}

// chanOrigin: field identity, or "param:<fn>:<name>", or "local:<fn>:<comment>", or "call:<callee id>"
func chanOrigin(fn *ssa.Function, v ssa.Value) string {
	res := ""
	valueOrigins(fn, v, func(root ssa.Value) {
		var s string
		switch x := root.(type) {
		case *ssa.MakeChan:
			s = "local"
		case *ssa.Parameter:
			s = "param:" + x.Name()
		case *ssa.Call:
			s = "call:" + calleeID(x)
		case *ssa.Extract:
			if cl, ok := x.Tuple.(*ssa.Call); ok {
				s = "call:" + calleeID(cl)
			}
		default:
			if t, _, base, isF := fieldOfValue(root); isF && gNewTypes[t] && isFreshObject(strip(base)) {
				// a channel held in an object of a type the reference tree does not have, made in this function
				// (through its constructor): owned by this function like a local channel
				s = "local"
			} else if f, ok := chanField(root); ok {
				s = "field:" + f
			} else if a, ok := root.(*ssa.Alloc); ok {
				s = "local:" + a.Comment
			} else {
				s = "unknown"
			}
		}
		if res == "" {
			res = s
		} else if res != s {
			res = "mixed"
		}
	})
	return res
}

type blockingOp struct {
	In   ssa.Instruction
	Fn   *ssa.Function
	Kind string // send | recv | select | wgwait | call
	Chan string // channel origin (send/recv) or callee id (call) or waitgroup field
}

// selectHasRecvOrSendOn lists the channels of a select's states
func selectStates(fn *ssa.Function, s *ssa.Select) []string {
	var out []string
	for _, st := range s.States {
		dir := "recv"
		if st.Dir == types.SendOnly {
			dir = "send"
		}
		out = append(out, dir+":"+chanOrigin(fn, st.Chan))
	}
	return out
}

// directBlocking lists the blocking instructions of fn itself.
func directBlocking(fn *ssa.Function) []blockingOp {
	var out []blockingOp
	allInstrs(fn, func(in ssa.Instruction) {
		switch x := in.(type) {
		case *ssa.Send:
			out = append(out, blockingOp{In: in, Fn: fn, Kind: "send", Chan: chanOrigin(fn, x.Chan)})
		case *ssa.UnOp:
			if x.Op == token.ARROW {
				out = append(out, blockingOp{In: in, Fn: fn, Kind: "recv", Chan: chanOrigin(fn, x.X)})
			}
		case *ssa.Select:
			if x.Blocking {
				out = append(out, blockingOp{In: in, Fn: fn, Kind: "select", Chan: strings.Join(selectStates(fn, x), ",")})
			}
		case *ssa.Call:
			if isCall(x, "(*sync.WaitGroup).Wait") {
				w := "unknown"
				if fa, ok := x.Call.Args[0].(*ssa.FieldAddr); ok {
					if t, f, _, ok := fieldOfAddr(fa); ok {
						w = "field:" + t + "." + f
					}
				} else if a, ok := x.Call.Args[0].(*ssa.Alloc); ok {
					w = "local:" + a.Comment
				} else if fv, ok := x.Call.Args[0].(*ssa.FreeVar); ok {
					w = "local:" + fv.Name()
				}
				out = append(out, blockingOp{In: in, Fn: fn, Kind: "wgwait", Chan: w})
			}
		}
	})
	return out
}

type c13ctx struct {
	c        *Ctx
	scope    map[*ssa.Function]bool
	li       *lockInfo
	mayBlock map[*ssa.Function][]blockingOp // transitive: ops that a call of fn may block on
}

// lock acquisitions (class -> modes) performed by fn and everything it calls/spawns in scope
func (x *c13ctx) acquiredBy(roots []*ssa.Function) map[string]map[byte]ssa.Instruction {
	out := map[string]map[byte]ssa.Instruction{}
	seen := x.c.Reachable(roots, func(from *ssa.Function, e callEdge) bool { return x.scope[e.Callee] })
	for f := range seen {
		allInstrs(f, func(in ssa.Instruction) {
			if cls, mode, _, op, ok := lockOp(in); ok && op == "lock" {
				if out[cls] == nil {
					out[cls] = map[byte]ssa.Instruction{}
				}
				out[cls][mode] = in
			}
		})
	}
	return out
}

// who receives from / sends to / closes a channel field
func (x *c13ctx) chanUsers(field string, want string) []*ssa.Function {
	set := map[*ssa.Function]bool{}
	for fn := range x.scope {
		allInstrs(fn, func(in ssa.Instruction) {
			switch y := in.(type) {
			case *ssa.Send:
				if want == "send" && chanOrigin(fn, y.Chan) == "field:"+field {
					set[fn] = true
				}
			case *ssa.UnOp:
				if y.Op == token.ARROW && want == "recv" && chanOrigin(fn, y.X) == "field:"+field {
					set[fn] = true
				}
			case *ssa.Select:
				for _, st := range y.States {
					dir := "recv"
					if st.Dir == types.SendOnly {
						dir = "send"
					}
					if dir == want && chanOrigin(fn, st.Chan) == "field:"+field {
						set[fn] = true
					}
				}
			case ssa.CallInstruction:
				if want == "send" && calleeID(in) == "builtin.close" {
					if chanOrigin(fn, y.Common().Args[0]) == "field:"+field {
						set[fn] = true
					}
				}
				// channel handed to a callee/closure as an argument: the callee's parameter receives
				for i, a := range y.Common().Args {
					if chanOrigin(fn, a) != "field:"+field {
						continue
					}
					for _, callee := range x.calleesOf(in) {
						if i < len(callee.Params) {
							p := callee.Params[i]
							for _, op := range directBlocking(callee) {
								if (op.Kind == want && op.Chan == "param:"+p.Name()) || (op.Kind == "select" && strings.Contains(op.Chan, want+":param:"+p.Name())) {
									set[callee] = true
								}
							}
						}
					}
				}
			}
		})
	}
	var out []*ssa.Function
	for f := range set {
		out = append(out, f)
	}
	sort.Slice(out, func(i, j int) bool { return out[i].String() < out[j].String() })
	return out
}

func (x *c13ctx) calleesOf(in ssa.Instruction) []*ssa.Function {
	var out []*ssa.Function
	ci, ok := in.(ssa.CallInstruction)
	if !ok {
		return nil
	}
	if f := ci.Common().StaticCallee(); f != nil {
		return []*ssa.Function{f}
	}
	if ci.Common().IsInvoke() {
		if x.c == nil {
			return nil
		}
		return x.c.implementations(ci)
	}
	// call through a local closure variable
	fn := in.Parent()
	valueOrigins(fn, ci.Common().Value, func(root ssa.Value) {
		if mc, ok := root.(*ssa.MakeClosure); ok {
			out = append(out, mc.Fn.(*ssa.Function))
		}
		if a, ok := root.(*ssa.Alloc); ok {
			if refs := a.Referrers(); refs != nil {
				for _, r := range *refs {
					if st, ok := r.(*ssa.Store); ok {
						if mc, ok := st.Val.(*ssa.MakeClosure); ok {
							out = append(out, mc.Fn.(*ssa.Function))
						}
					}
				}
			}
		}
	})
	return out
}

// wgDoners: functions calling Done on the WaitGroup field
func (x *c13ctx) wgDoners(field string) []*ssa.Function {
	set := map[*ssa.Function]bool{}
	for fn := range x.scope {
		allInstrs(fn, func(in ssa.Instruction) {
			ci, ok := in.(ssa.CallInstruction)
			if !ok || calleeID(in) != "(*sync.WaitGroup).Done" {
				return
			}
			if fa, ok := ci.Common().Args[0].(*ssa.FieldAddr); ok {
				if t, f, _, ok := fieldOfAddr(fa); ok && "field:"+t+"."+f == field {
					set[outermost(fn)] = true
				}
			}
		})
	}
	var out []*ssa.Function
	for f := range set {
		out = append(out, f)
	}
	return out
}

// progressSet: the functions that must make progress for op to unblock.
func (x *c13ctx) progressSet(op blockingOp, depth int) ([]*ssa.Function, string) {
	if depth > 4 {
		return nil, "too deep"
	}
	switch op.Kind {
	case "send":
		if strings.HasPrefix(op.Chan, "field:") {
			fs := x.chanUsers(strings.TrimPrefix(op.Chan, "field:"), "recv")
			return fs, "receivers of " + shortType(op.Chan)
		}
	case "recv":
		if strings.HasPrefix(op.Chan, "field:") {
			fs := x.chanUsers(strings.TrimPrefix(op.Chan, "field:"), "send")
			return fs, "senders/closers of " + shortType(op.Chan)
		}
		if strings.HasPrefix(op.Chan, "call:") {
			// channel returned by a call: the goroutines spawned by the callee's implementations, and
			// whoever they wait for
			id := strings.TrimPrefix(op.Chan, "call:")
			var fs []*ssa.Function
			for fn := range x.scope {
				if fn.Parent() != nil {
					continue
				}
				if fn.Object() == nil {
					continue
				}
				full := fn.Object().(*types.Func).FullName()
				if full == id || implementsID(x.c, fn, id) {
					for _, cl := range closuresOf(fn) {
						fs = append(fs, cl)
						for _, b := range directBlocking(cl) {
							more, _ := x.progressSet(b, depth+1)
							fs = append(fs, more...)
						}
					}
					fs = append(fs, fn)
				}
			}
			return fs, "goroutines feeding the channel returned by " + shortID(id)
		}
	case "wgwait":
		if strings.HasPrefix(op.Chan, "field:") {
			fs := x.wgDoners(op.Chan)
			var more []*ssa.Function
			for _, f := range fs {
				for _, g := range withClosures(f) {
					for _, b := range directBlocking(g) {
						if b.Kind == "select" && !strings.Contains(b.Chan, "send:") {
							continue
						}
						m, _ := x.progressSet(b, depth+1)
						more = append(more, m...)
					}
				}
			}
			return append(fs, more...), "goroutines counted by " + shortType(op.Chan)
		}
	}
	return nil, "cannot identify who unblocks " + op.Kind + " on " + op.Chan
}

// implementsID: fn is an implementation of the interface method named by id "(pkg.I).M"
func implementsID(c *Ctx, fn *ssa.Function, id string) bool {
	if !strings.HasPrefix(id, "(") || fn.Signature.Recv() == nil {
		return false
	}
	end := strings.Index(id, ").")
	if end < 0 {
		return false
	}
	ifaceName, m := id[1:end], id[end+2:]
	if fn.Name() != m {
		return false
	}
	// find the interface type
	dot := strings.LastIndex(ifaceName, ".")
	if dot < 0 {
		return false
	}
	p := c.SSA[ifaceName[:dot]]
	if p == nil {
		return false
	}
	obj := p.Pkg.Scope().Lookup(ifaceName[dot+1:])
	if obj == nil {
		return false
	}
	iface, ok := obj.Type().Underlying().(*types.Interface)
	if !ok {
		return false
	}
	return types.Implements(fn.Signature.Recv().Type(), iface)
}

func checkC13(c *Ctx) Meta {
	c.Rule("C13-BLOCK", "every blocking operation (send, receive, blocking select, WaitGroup.Wait, or a call that may block on one) executed while a keeper lock is held is unblocked only by goroutines that never acquire a conflicting lock", 8)
	c.Rule("C13-CHAN", "every close of a channel held in a struct field is once-guarded (sync.Once, successful CAS, mutex + closed flag, or the service's CAS-serialised OnStop); every send on a closable field channel is under the closer's mutex behind the flag test", 6)
	c.Rule("C13-LOCKORDER", "the acquired-while-holding relation over the keeper's lock classes is acyclic and no non-reentrant lock is re-acquired", 1)
	c.Rule("C13-STUCK", "a space never stays `plotting` without a plot run: after ws.Plot() returns, the plotter always moves the space out of plotting (otherwise later requests for it find no popped item and panic, and remove/delete refuse for ever); lock acquisitions in the keeper are released on every path", 2)
	checkStep3(c, "C13-STUCK", pkgCapacity, "capacity")
	checkStep3(c, "C13-STUCK", pkgSkchia, "skchia")
	c.Rule("C13-MONITOR", "the goroutine watching one plot run ends with that run: the channel handed to it is made in the same iteration of the plotter loop and released by close(), never shared between iterations or signalled by a token (a stale token lets the next plot run unwatched, and stopping the keeper then waits for that plot to finish)", 2)
	checkMonitorPerPlot(c, "C13-MONITOR", pkgCapacity, "capacity")
	checkMonitorPerPlot(c, "C13-MONITOR", pkgSkchia, "skchia")
	c.Rule("C13-PAIR", "every lock the keeper, its engines and the plot database take explicitly is released on every path to a return of the same function (deferred, or an Unlock before each return): an early return that skips the Unlock blocks every later request on stateLock forever", 20)
	checkLockPairing(c, "C13-PAIR", []string{pkgCapacity, pkgSkchia, pkgMassDBV1, pkgEngine, pkgEngineV2})
	c.Rule("C13-POP", "the plotter queue's heap is popped only under the queue mutex behind a non-emptiness test in the same lock hold, and items popped from the shared queue are nil-tested before use", 8)
	c.Rule("C13-WAIT", "the keeper, its plotter and the plot databases wait for time only in a way a stop can end: a time.Sleep inside a loop is accepted only if an exit of the loop is governed by a counter, a channel operation or a stop flag (a loop that sleeps until an outside condition changes blocks StopPlot and the keeper's stop for as long as the condition lasts)", 4)
	checkStoppableWaits(c, "C13-WAIT", []string{pkgCapacity, pkgSkchia, pkgMassDBV1, repoMod + "/poc/engine.v2/massdb/massdb.chiapos"})
	c.Rule("C13-QUEUE", "the plotter queue's heap is accessed only under the queue mutex by code that can run concurrently with the keeper API", 2)

	scopePkgs := map[string]bool{pkgCapacity: true, pkgSkchia: true, pkgMassDBV1: true, pkgEngine: true, pkgEngineV2: true,
		repoMod + "/poc/engine.v2/massdb/massdb.chiapos": true}
	scope := map[*ssa.Function]bool{}
	for fn := range c.AllFuncs {
		if scopePkgs[pkgOf(fn)] {
			scope[fn] = true
		}
	}
	li := computeLocksets(c, scope, map[string]bool{}, func(fn *ssa.Function) bool { return isExportedFunc(fn) })
	x := &c13ctx{c: c, scope: scope, li: li}

	// ---- may-block summaries (transitive over static callees / interface implementations in scope)
	direct := map[*ssa.Function][]blockingOp{}
	for fn := range scope {
		direct[fn] = directBlocking(fn)
	}
	x.mayBlock = map[*ssa.Function][]blockingOp{}
	for fn := range scope {
		for _, op := range direct[fn] {
			if op.Kind == "select" && isDoneSelect(op) {
				continue
			}
			if op.Kind == "send" && firstSendOnFreshBuffered(op) {
				continue
			}
			x.mayBlock[fn] = append(x.mayBlock[fn], op)
		}
	}
	for changed := true; changed; {
		changed = false
		for fn := range scope {
			allInstrs(fn, func(in ssa.Instruction) {
				if _, isGo := in.(*ssa.Go); isGo {
					return
				}
				if _, isDefer := in.(*ssa.Defer); isDefer {
					return
				}
				for _, callee := range x.calleesOf(in) {
					if !scope[callee] {
						continue
					}
					for _, op := range x.mayBlock[callee] {
						dup := false
						for _, have := range x.mayBlock[fn] {
							if have.In == op.In {
								dup = true
							}
						}
						if !dup {
							x.mayBlock[fn] = append(x.mayBlock[fn], op)
							changed = true
						}
					}
				}
			})
		}
	}

	// ---- BLOCK obligations
	fns := []*ssa.Function{}
	for f := range scope {
		fns = append(fns, f)
	}
	sort.Slice(fns, func(i, j int) bool { return fns[i].String() < fns[j].String() })
	type site struct {
		in   ssa.Instruction
		fn   *ssa.Function
		ops  []blockingOp
		desc string
	}
	for _, fn := range fns {
		var sites []site
		for _, op := range direct[fn] {
			if op.Kind == "select" && isDoneSelect(op) {
				continue
			}
			if op.Kind == "send" && firstSendOnFreshBuffered(op) {
				continue
			}
			sites = append(sites, site{op.In, fn, []blockingOp{op}, op.Kind + ":" + shortType(op.Chan)})
		}
		allInstrsShallow(fn, func(in ssa.Instruction) {
			if _, ok := in.(*ssa.Call); !ok {
				return
			}
			var ops []blockingOp
			names := []string{}
			for _, callee := range x.calleesOf(in) {
				if scope[callee] && len(x.mayBlock[callee]) > 0 {
					ops = append(ops, x.mayBlock[callee]...)
					names = append(names, callee.Name())
				}
			}
			if len(ops) > 0 {
				sites = append(sites, site{in, fn, ops, "call:" + shortID(calleeID(in))})
			}
		})
		ord := map[string]int{}
		for _, s := range sites {
			held := li.at[s.in]
			if len(held) == 0 {
				continue
			}
			ord[s.desc]++
			key := FuncName(fn) + ":" + s.desc
			if ord[s.desc] > 1 {
				key += fmt.Sprintf("#%d", ord[s.desc])
			}
			bad := ""
			why := []string{}
			for _, op := range s.ops {
				// the lock held at the blocking instruction itself may have been released inside the callee:
				// use the lockset at the real blocking instruction when it is deeper
				heldAtOp := held
				if op.In != s.in {
					if l2, ok := li.at[op.In]; ok {
						heldAtOp = unionLocks(held, l2)
					}
				}
				ps, what := x.progressSet(op, 0)
				if len(ps) == 0 {
					bad = "cannot determine who unblocks it (" + what + ")"
					break
				}
				acq := x.acquiredBy(ps)
				for k := range heldAtOp {
					modes := acq[k.Class]
					if modes == nil {
						continue
					}
					conflict := ssa.Instruction(nil)
					if k.Mode == 'W' {
						for _, in := range modes {
							conflict = in
						}
					} else if in, ok := modes['W']; ok {
						conflict = in
					}
					if conflict != nil {
						bad = fmt.Sprintf("%s at %s blocks while holding %s, and the %s (%s) acquire that lock at %s: if they are waiting for it the operation never unblocks", op.Kind+" on "+shortType(op.Chan), c.Pos(op.In.Pos()), shortType(k.Class)+"("+string(k.Mode)+")", what, funcNames(ps), c.Pos(conflict.Pos()))
					}
				}
				why = append(why, what+" = "+funcNames(ps))
			}
			if bad != "" {
				c.Bad("C13-BLOCK", key, c.Pos(s.in.Pos()), bad)
			} else {
				c.OK("C13-BLOCK", key, c.Pos(s.in.Pos()), "holds "+held.String()+"; unblocked by "+strings.Join(why, "; ")+", none of which acquires a held lock")
			}
		}
	}

	// ---- CHAN
	checkChanDiscipline(c, "C13-CHAN", scope, li)

	// ---- LOCKORDER
	checkLockOrder(c, "C13-LOCKORDER", scope, li)

	// ---- QUEUE guard
	for _, spec := range []struct{ pkg, label string }{{pkgCapacity, "capacity"}, {pkgSkchia, "skchia"}} {
		checkQueueGuard(c, spec.pkg, spec.label, scope, li)
		checkPopGuard(c, spec.pkg, spec.label, li)
	}

	return Meta{
		Explanation: "Necessary conditions for 'every request returns, stopping terminates, no panic' decided from must-held locksets and channel/wait-group identities: a blocking operation under a lock is accepted only when the goroutines that can unblock it (receivers/senders of that channel field, goroutines feeding a returned channel, goroutines counted by a WaitGroup) never acquire a conflicting lock; closes of shared channels must be once-guarded; lock order acyclic; the plotter queue's heap accessed under its mutex.",
		NotDecided:  "absence of deadlock in general (this checks the known blocking shapes, it is not a liveness proof); panics from nil items or out-of-range indexes; the lost stop request when StopWS races with the start of a plot.",
		Trusted:     []string{"go/ssa", "mass-core service.BaseService serialises OnStart/OnStop with a CAS (re-verified on its SSA each run)", "channel identity = the struct field holding it"},
	}
}

func unionLocks(a, b lockset) lockset {
	n := a.copy()
	for k := range b {
		n[k] = true
	}
	return n
}

func funcNames(fs []*ssa.Function) string {
	set := map[string]bool{}
	for _, f := range fs {
		set[FuncName(outermost(f))] = true
	}
	var s []string
	for k := range set {
		s = append(s, k)
	}
	sort.Strings(s)
	if len(s) > 4 {
		s = append(s[:4], "…")
	}
	return strings.Join(s, ", ")
}

// isDoneSelect: a blocking select that has a receive arm on a quit/done/context channel is a wait
// that terminates on shutdown; not an obligation by itself (locks are checked at its site anyway
// through the generic rule when held — keep it if any lock is held).
func isDoneSelect(op blockingOp) bool { return false }

// ---------------------------------------------------------------------------------------------

func checkChanDiscipline(c *Ctx, rule string, scope map[*ssa.Function]bool, li *lockInfo) {
	fns := []*ssa.Function{}
	for f := range scope {
		fns = append(fns, f)
	}
	sort.Slice(fns, func(i, j int) bool { return fns[i].String() < fns[j].String() })
	closedFields := map[string][]ssa.Instruction{}
	for _, fn := range fns {
		allInstrsShallow(fn, func(in ssa.Instruction) {
			ci, ok := in.(ssa.CallInstruction)
			if !ok || calleeID(in) != "builtin.close" {
				return
			}
			org := chanOrigin(fn, ci.Common().Args[0])
			key := FuncName(fn) + ":close:" + shortType(org)
			if strings.HasPrefix(org, "local") {
				c.OK(rule, key, c.Pos(in.Pos()), "function-local channel, closed by its only owner")
				return
			}
			if !strings.HasPrefix(org, "field:") {
				c.Unk(rule, key, c.Pos(in.Pos()), "cannot identify the channel being closed ("+org+")")
				return
			}
			field := strings.TrimPrefix(org, "field:")
			closedFields[field] = append(closedFields[field], in)
			if why, ok := onceGuarded(c, fn, in, li); ok {
				c.OK(rule, key, c.Pos(in.Pos()), why)
			} else {
				c.Bad(rule, key, c.Pos(in.Pos()), "close of shared channel "+shortType(field)+" is not once-guarded ("+why+"): two callers can both reach it and the second close panics")
			}
		})
	}
	// sends on closable channels
	for _, fn := range fns {
		allInstrsShallow(fn, func(in ssa.Instruction) {
			s, ok := in.(*ssa.Send)
			if !ok {
				return
			}
			org := chanOrigin(fn, s.Chan)
			if !strings.HasPrefix(org, "field:") {
				return
			}
			field := strings.TrimPrefix(org, "field:")
			closes := closedFields[field]
			if len(closes) == 0 {
				return
			}
			key := FuncName(fn) + ":send-on-closable:" + shortType(field)
			// must share a lock with every close and be dominated by a flag test (bool field load) under that lock
			held := li.at[in]
			okAll := true
			for _, cl := range closes {
				shared := false
				for k := range held {
					for k2 := range li.at[cl] {
						if k.Class == k2.Class {
							shared = true
						}
					}
				}
				if !shared {
					okAll = false
				}
			}
			if okAll && dominatedByFlagTest(fn, in) {
				c.OK(rule, key, c.Pos(in.Pos()), "send holds the closer's mutex "+held.String()+" behind the closed-flag test")
			} else if recoverGuarded(fn) {
				c.OK(rule, key, c.Pos(in.Pos()), "send is recover-guarded")
			} else {
				c.Bad(rule, key, c.Pos(in.Pos()), "send on "+shortType(field)+", which is closed elsewhere, is neither under the closer's mutex behind a closed-flag test nor recover-guarded: send on closed channel panics")
			}
		})
	}
}

func recoverGuarded(fn *ssa.Function) bool {
	if recoverGuardedHere(fn) {
		return true
	}
	// a phase helper the reference tree does not have, called (not started with `go`) only from functions whose
	// deferred recover is already registered when they call it: a panic in the helper unwinds into that guard
	if !gNewFuncs[fn] || fn.Parent() != nil {
		return false
	}
	sites := gCallSitesOf[fn]
	if len(sites) == 0 {
		return false
	}
	for _, s := range sites {
		cl, isCall := s.(*ssa.Call)
		if !isCall || cl.Parent() == fn || !recoverGuardedHere(cl.Parent()) {
			return false
		}
		// the guard is registered before the call
		dominated := false
		for _, b := range cl.Parent().Blocks {
			for _, in := range b.Instrs {
				if d, ok := in.(*ssa.Defer); ok && deferRecovers(d) && instrDominates(d, cl) {
					dominated = true
				}
			}
		}
		if !dominated {
			return false
		}
	}
	return true
}

func deferRecovers(d *ssa.Defer) bool {
	found := false
	look := func(f *ssa.Function) {
		if f == nil {
			return
		}
		allInstrs(f, func(i2 ssa.Instruction) {
			if calleeID(i2) == "builtin.recover" {
				found = true
			}
		})
	}
	if cl, ok := d.Call.Value.(*ssa.MakeClosure); ok {
		look(cl.Fn.(*ssa.Function))
	}
	look(d.Call.StaticCallee())
	return found
}

func recoverGuardedHere(fn *ssa.Function) bool {
	found := false
	allInstrs(fn, func(in ssa.Instruction) {
		if d, ok := in.(*ssa.Defer); ok {
			if cl, ok := d.Call.Value.(*ssa.MakeClosure); ok {
				allInstrs(cl.Fn.(*ssa.Function), func(i2 ssa.Instruction) {
					if calleeID(i2) == "builtin.recover" {
						found = true
					}
				})
			}
			if f := d.Call.StaticCallee(); f != nil {
				allInstrs(f, func(i2 ssa.Instruction) {
					if calleeID(i2) == "builtin.recover" {
						found = true
					}
				})
			}
		}
	})
	return found
}

// dominatedByFlagTest: in is control-dependent on a test of a bool struct field (closed flag)
func dominatedByFlagTest(fn *ssa.Function, in ssa.Instruction) bool {
	for _, a := range fieldAccesses(fn) {
		if a.Kind != "load" {
			continue
		}
		v, ok := a.In.(ssa.Value)
		if !ok {
			continue
		}
		if b, ok := v.Type().Underlying().(*types.Basic); !ok || b.Kind() != types.Bool {
			continue
		}
		for _, t := range boolTestsOf(fn, v) {
			for _, succ := range []*ssa.BasicBlock{t.TrueSucc, t.FalseSucc} {
				if len(succ.Preds) == 1 && succ.Dominates(in.Block()) {
					return true
				}
			}
		}
	}
	return false
}

// onceGuarded recognises the accepted once-guards for a close of a shared channel.
func onceGuarded(c *Ctx, fn *ssa.Function, closeIn ssa.Instruction, li *lockInfo) (string, bool) {
	// (a) mutex held + dominated by a flag test, and the flag is set in the same region
	if len(li.at[closeIn]) > 0 && dominatedByFlagTest(fn, closeIn) {
		return "under " + li.at[closeIn].String() + " behind a closed-flag test", true
	}
	// (b) dominated by the success edge of a CompareAndSwap
	found := false
	allInstrs(fn, func(in ssa.Instruction) {
		cl, ok := in.(*ssa.Call)
		if !ok || !strings.HasPrefix(calleeID(cl), "sync/atomic.CompareAndSwap") {
			return
		}
		for _, t := range boolTestsOf(fn, cl) {
			if len(t.TrueSucc.Preds) == 1 && t.TrueSucc.Dominates(closeIn.Block()) {
				found = true
			}
		}
	})
	if found {
		return "behind the success edge of an atomic compare-and-swap", true
	}
	// (c) the closure is only handed to (*sync.Once).Do
	if fn.Parent() != nil {
		onlyOnce := false
		allInstrs(fn.Parent(), func(in ssa.Instruction) {
			if calleeID(in) == "(*sync.Once).Do" {
				for _, a := range in.(ssa.CallInstruction).Common().Args {
					if mc, ok := a.(*ssa.MakeClosure); ok && mc.Fn == fn {
						onlyOnce = true
					}
				}
			}
		})
		if onlyOnce {
			if why, ok := onceLifetimeMatchesChannel(c, fn, closeIn); !ok {
				return why, false
			}
			return "inside sync.Once.Do", true
		}
	}
	// (d) OnStop of a service: called only by mass-core's BaseService.Stop, which is CAS-serialised and
	// runs OnStop only while started
	if fn.Name() == "OnStop" && fn.Signature.Recv() != nil {
		callers := 0
		for f := range c.AllFuncs {
			for _, e := range c.Callees(f) {
				if e.Callee == fn && e.Kind == "static" {
					callers++
				}
			}
		}
		if callers == 0 && baseServiceSerialised(c) {
			return "OnStop has no caller in the repository; service.BaseService.Stop serialises it with a CAS and a started test", true
		}
		return "OnStop is called directly from repository code or BaseService is not CAS-serialised", false
	}
	// (e) close deferred in the goroutine function that exclusively owns the channel: not used by the keeper
	return "no sync.Once, successful CAS, or mutex+flag guard dominates it", false
}

func baseServiceSerialised(c *Ctx) bool {
	stop := c.Fn("github.com/massnetorg/mass-core/massutil/service", "(*BaseService).Stop")
	if stop == nil || stop.Blocks == nil {
		return false
	}
	var cas *ssa.Call
	var onStop ssa.Instruction
	allInstrs(stop, func(in ssa.Instruction) {
		if cl, ok := in.(*ssa.Call); ok && strings.HasPrefix(calleeID(cl), "sync/atomic.CompareAndSwap") {
			cas = cl
		}
		if callName(in) == "OnStop" {
			onStop = in
		}
	})
	if cas == nil || onStop == nil {
		return false
	}
	for _, t := range boolTestsOf(stop, cas) {
		r := reach(stop, nil, func(from, to *ssa.BasicBlock) bool { return from == t.If.Block() && to == t.TrueSucc }, nil)
		if !r(onStop) {
			return true
		}
	}
	return false
}

func checkLockOrder(c *Ctx, rule string, scope map[*ssa.Function]bool, li *lockInfo) {
	edges := map[string]map[string]ssa.Instruction{}
	for fn := range scope {
		allInstrs(fn, func(in ssa.Instruction) {
			cls, mode, _, op, ok := lockOp(in)
			if !ok || op != "lock" {
				return
			}
			for k := range li.at[in] {
				if k.Class == cls && k.Mode == 'R' && mode == 'R' {
					// recursive read lock: can deadlock with a waiting writer; report as self edge
				}
				if edges[k.Class] == nil {
					edges[k.Class] = map[string]ssa.Instruction{}
				}
				if _, dup := edges[k.Class][cls]; !dup {
					edges[k.Class][cls] = in
				}
			}
		})
	}
	// re-acquisition through the package's own API: a call, made while a keeper lock class is held, of an
	// exported function that takes the same class itself. A recursive read lock is a deadlock as soon as
	// a writer is waiting between the two RLocks (Go's RWMutex blocks new readers then); a write lock
	// after any hold blocks at once.
	{
		takes := map[*ssa.Function]map[string]byte{}
		for fn := range scope {
			// every named function of the scope that takes a lock itself — the exported API and, after a
			// refactoring, a shared "locked" helper an API function calls while it still holds the lock
			if fn.Parent() != nil {
				continue
			}
			allInstrsShallow(fn, func(in ssa.Instruction) {
				if cls, mode, _, op, ok := lockOp(in); ok && op == "lock" {
					if takes[fn] == nil {
						takes[fn] = map[string]byte{}
					}
					takes[fn][cls] = mode
				}
			})
		}
		var bad []string
		n := 0
		for fn := range scope {
			fn := fn
			allInstrs(fn, func(in ssa.Instruction) {
				callee := staticCallee(in)
				if callee == nil || takes[callee] == nil {
					return
				}
				if _, isGo := in.(*ssa.Go); isGo {
					return
				}
				n++
				for k := range li.at[in] {
					if _, again := takes[callee][k.Class]; again {
						bad = append(bad, fmt.Sprintf("%s calls %s at %s while holding %s(%c), which %s locks again", FuncName(fn), callee.Name(), c.Pos(in.Pos()), shortType(k.Class), k.Mode, callee.Name()))
					}
				}
			})
		}
		sort.Strings(bad)
		if len(bad) > 0 {
			c.Bad(rule, "no-reacquisition-through-the-api", "", strings.Join(bad, "; ")+": the second acquisition blocks behind a waiting writer that itself waits for the first to be released — the request, the writer and every later request hang")
		} else {
			c.OK(rule, "no-reacquisition-through-the-api", "", fmt.Sprintf("%d calls of lock-taking API functions from inside the scope, none while their lock class is held", n))
		}
	}
	// cycle detection
	var cyc []string
	state := map[string]int{}
	var stack []string
	var dfs func(n string) bool
	dfs = func(n string) bool {
		state[n] = 1
		stack = append(stack, n)
		for m := range edges[n] {
			if state[m] == 1 {
				cyc = append(append([]string{}, stack...), m)
				return true
			}
			if state[m] == 0 && dfs(m) {
				return true
			}
		}
		stack = stack[:len(stack)-1]
		state[n] = 2
		return false
	}
	nodes := []string{}
	for n := range edges {
		nodes = append(nodes, n)
	}
	sort.Strings(nodes)
	nEdges := 0
	for _, n := range nodes {
		nEdges += len(edges[n])
	}
	for _, n := range nodes {
		if state[n] == 0 && dfs(n) {
			var short []string
			for _, s := range cyc {
				short = append(short, shortType(s))
			}
			at := edges[cyc[len(cyc)-2]][cyc[len(cyc)-1]]
			c.Bad(rule, "lock-order", c.Pos(at.Pos()), "cycle in the acquired-while-holding relation: "+strings.Join(short, " -> "))
			return
		}
	}
	var desc []string
	for _, n := range nodes {
		for m := range edges[n] {
			desc = append(desc, shortType(n)+" -> "+shortType(m))
		}
	}
	sort.Strings(desc)
	c.OK(rule, "lock-order", "", fmt.Sprintf("%d acquired-while-holding edges, acyclic: %s", nEdges, strings.Join(desc, "; ")))
}

// checkQueueGuard: plotterQueue.Prque / poppedItem accesses by code reachable from the concurrent
// roots (keeper API except the pre-start Configure*/ResetDBDirs entries, and the plotter goroutine)
// hold the queue mutex whenever some store to the field exists.
func checkQueueGuard(c *Ctx, pkg, label string, scope map[*ssa.Function]bool, li *lockInfo) {
	rule := "C13-QUEUE"
	qType := pkg + ".plotterQueue"
	short := strings.TrimPrefix(pkg, repoMod+"/")
	// concurrent roots
	var roots []*ssa.Function
	for _, f := range exportedFuncs(c, pkg) {
		n := f.Name()
		if strings.HasPrefix(n, "Configure") || n == "ResetDBDirs" || strings.HasPrefix(n, "NewSpaceKeeper") || n == "IsCapacityAvailable" {
			continue
		}
		roots = append(roots, f)
	}
	if sp := c.Fn(short, "(*SpaceKeeper).spacePlotter"); sp != nil {
		roots = append(roots, sp)
	} else {
		c.Bad(rule, label+":anchor", "", "reason=anchor-missing: spacePlotter")
		return
	}
	conc := c.Reachable(roots, func(from *ssa.Function, e callEdge) bool { return pkgOf(e.Callee) == pkg })
	type acc struct {
		fa   fieldAccess
		fn   *ssa.Function
		held bool
	}
	by := map[string][]acc{}
	for fn := range conc {
		for _, a := range fieldAccesses(fn) {
			if a.Type != qType || a.Field == "Mutex" {
				continue
			}
			// fresh queue objects (newPlotterQueue literal)
			if isFreshObject(a.Base) {
				continue
			}
			held := false
			for k := range li.at[a.In] {
				if k.Class == qType+".Mutex" {
					held = true
				}
			}
			by[a.Field] = append(by[a.Field], acc{a, fn, held})
		}
	}
	fields := []string{}
	for f := range by {
		fields = append(fields, f)
	}
	sort.Strings(fields)
	if len(fields) == 0 {
		c.Bad(rule, label+":anchor", "", "reason=anchor-missing: no plotterQueue field access found")
		return
	}
	for _, f := range fields {
		stored := false
		for _, a := range by[f] {
			if a.fa.Write {
				stored = true
			}
		}
		key := label + ".plotterQueue." + f
		if !stored {
			c.OK(rule, key, "", "never stored by concurrent code")
			continue
		}
		var bad []string
		for _, a := range by[f] {
			if !a.held {
				bad = append(bad, FuncName(a.fn)+" at "+c.Pos(a.fa.In.Pos()))
			}
		}
		sort.Strings(bad)
		if len(bad) > 0 {
			c.Bad(rule, key, "", fmt.Sprintf("the queue's %s is replaced under the queue mutex (Delete) but accessed without it by code that runs concurrently: %s — a data race on the heap that can corrupt it or lose a request", f, strings.Join(bad, "; ")))
		} else {
			c.OK(rule, key, "", fmt.Sprintf("%d concurrent accesses, all under the queue mutex", len(by[f])))
		}
	}
}

// checkPopGuard: (1) inside the queue type, every pop from the heap is, under the queue mutex,
// dominated by a non-emptiness test of the same heap; (2) every pop from the keeper's shared queue
// (sk.queue) has its result tested for nil before use — the test-then-pop of the plotter loop is not
// atomic against the API's queue.Delete.
func checkPopGuard(c *Ctx, pkg, label string, li *lockInfo) {
	rule := "C13-POP"
	qType := pkg + ".plotterQueue"
	prque := "(*gopkg.in/karalabe/cookiejar.v2/collections/prque.Prque)."
	// (3) who may forget the popped item: Reset() also sets poppedItem = nil, and PlotWS / MineWS / StopWS use
	// queue.PoppedItem() without a nil test while a space is in the plotting index. Reset of the keeper's shared
	// queue is therefore confined to the two places where no plot can be running: the configuration step
	// (applyConfiguredWorkSpaces, refused while the keeper is started) and the plotter itself (on its way out).
	{
		short := strings.TrimPrefix(pkg, repoMod+"/")
		allowed := map[*ssa.Function]bool{}
		for _, name := range []string{"(*SpaceKeeper).applyConfiguredWorkSpaces", "(*SpaceKeeper).spacePlotter"} {
			if f := c.Fn(short, name); f != nil {
				for _, g := range bodyFns(f, nil) {
					allowed[g] = true
				}
			}
		}
		var fns []*ssa.Function
		for fn := range c.AllFuncs {
			if pkgOf(outermost(fn)) == pkg {
				fns = append(fns, fn)
			}
		}
		sort.Slice(fns, func(i, j int) bool { return FuncName(fns[i]) < FuncName(fns[j]) })
		n := 0
		for _, fn := range fns {
			for _, rs := range callsInShallow(fn, "(*"+qType+").Reset") {
				t, f, _, ok := fieldOfValue(callRecv(rs))
				if !ok || f != "queue" || !strings.HasSuffix(t, ".SpaceKeeper") {
					continue // a queue of its own (the temporary ordering queue)
				}
				n++
				key := label + ":" + FuncName(outermost(fn)) + ":shared-queue-reset"
				if allowed[fn] || allowed[outermost(fn)] {
					c.OK(rule, key, c.Pos(rs.Pos()), "Reset of the shared queue in the configuration step / at the plotter's exit")
				} else {
					c.Bad(rule, key, c.Pos(rs.Pos()), "the keeper's shared plotter queue is Reset() outside the configuration step and the plotter's exit: Reset also forgets the popped item, and PlotWS / MineWS / StopWS dereference queue.PoppedItem() without a nil test while a space is plotting (nil dereference in an API goroutine)")
				}
			}
		}
		if n == 0 {
			c.Bad(rule, label+":shared-queue-reset-anchor", "", "reason=anchor-missing: no Reset of the shared queue found (the census of who may forget the popped item has nothing to examine)")
		}
	}
	for fn := range c.AllFuncs {
		if pkgOf(fn) != pkg {
			continue
		}
		for _, pop := range callsInShallow(fn, prque+"Pop", prque+"PopItem") {
			// only pops on the heap of a plotterQueue (field Prque)
			t, f, base, ok := fieldOfValue(callRecv(pop))
			if !ok || t != qType || f != "Prque" {
				continue
			}
			key := label + ":" + FuncName(fn) + ":heap-pop-guarded"
			held := false
			for k := range li.at[pop] {
				if k.Class == qType+".Mutex" {
					held = true
				}
			}
			var tests []boolTest
			for _, e := range callsInShallow(fn, prque+"Empty") {
				if t2, f2, b2, ok := fieldOfValue(callRecv(e)); ok && t2 == qType && f2 == "Prque" && accessPath(b2) == accessPath(base) {
					tests = append(tests, boolTestsOf(fn, e)...)
				}
			}
			okDom, _ := unreachableWhenCut(fn, boolEdgeCut(tests, false), []ssa.Instruction{pop})
			// and going round a loop must pass the test again
			again := reach(fn, pop, boolEdgeCut(tests, false), nil)(pop)
			switch {
			case !held:
				c.Bad(rule, key, c.Pos(pop.Pos()), "the heap is popped without the queue mutex")
			case len(tests) == 0 || !okDom || again:
				c.Bad(rule, key, c.Pos(pop.Pos()), "the heap is popped without a non-emptiness test under the same lock hold: a caller's earlier Empty() test can be invalidated by a concurrent Delete/Reset, and popping an empty heap panics (index out of range)")
			default:
				c.OK(rule, key, c.Pos(pop.Pos()), "pop under the queue mutex behind !Empty()")
			}
		}
	}
	// (2) results of PopItem/Pop on the shared queue are nil-tested before use
	for fn := range c.AllFuncs {
		if pkgOf(fn) != pkg {
			continue
		}
		for _, cl := range callsInShallow(fn, "(*"+qType+").PopItem", "(*"+qType+").Pop") {
			p := accessPath(callRecv(cl))
			if !strings.HasSuffix(p, ".queue") {
				continue // function-local queues are not shared
			}
			key := label + ":" + FuncName(fn) + ":shared-pop-result-nil-tested"
			res := resultOf(cl, 0)
			if res == nil {
				c.OK(rule, key, c.Pos(cl.Pos()), "result unused")
				continue
			}
			tests := nilTestsOf(fn, res)
			cut := func(from, to *ssa.BasicBlock) bool {
				for _, t := range tests {
					if from == t.If.Block() && to == t.NonNil {
						return true
					}
				}
				return false
			}
			r := reach(fn, cl, cut, nil)
			bad := false
			for a := range aliasesForward(fn, res) {
				if refs := a.Referrers(); refs != nil {
					for _, u := range *refs {
						switch u.(type) {
						case *ssa.FieldAddr, *ssa.Field:
							if r(u) {
								bad = true
							}
						case ssa.CallInstruction:
							if r(u) {
								bad = true
							}
						}
					}
				}
			}
			if len(tests) == 0 || bad {
				c.Bad(rule, key, c.Pos(cl.Pos()), "the item popped from the shared plotter queue is used without a nil test although the queue can be emptied between the caller's Empty() test and the pop")
			} else {
				c.OK(rule, key, c.Pos(cl.Pos()), "popped item is used only behind a nil test")
			}
		}
	}
}

// onceLifetimeMatchesChannel: the close in closure fn runs under once.Do. If the channel field is
// re-created outside its owner's constructor (a new channel per run), the Once must be re-created at
// the same place; otherwise the second channel can never be closed (the stop request of the second
// run is lost and StopPlot waits for the plot to finish while holding the keeper's lock).
func onceLifetimeMatchesChannel(c *Ctx, fn *ssa.Function, closeIn ssa.Instruction) (string, bool) {
	parent := fn.Parent()
	var chT, chF, onT, onF string
	onceIsValue := false
	ci := closeIn.(ssa.CallInstruction)
	for x := range backSlice(ci.Common().Args[0]).vals {
		if t, f, _, ok := fieldOfValue(x); ok {
			if _, isCh := x.Type().Underlying().(*types.Chan); isCh {
				chT, chF = t, f
			}
		}
	}
	allInstrs(parent, func(in ssa.Instruction) {
		if calleeID(in) != "(*sync.Once).Do" {
			return
		}
		recv := in.(ssa.CallInstruction).Common().Args[0]
		if fa, ok := recv.(*ssa.FieldAddr); ok {
			if t, f, _, ok2 := fieldOfAddr(fa); ok2 {
				onT, onF, onceIsValue = t, f, true
			}
			return
		}
		for x := range backSlice(recv).vals {
			if t, f, _, ok := fieldOfValue(x); ok && strings.HasSuffix(x.Type().String(), "sync.Once") {
				onT, onF = t, f
			}
		}
	})
	if chF == "" || onF == "" || chT != onT {
		return "", true // not a field-held pair: nothing to relate
	}
	// re-creations of the channel outside constructors
	for g := range c.AllFuncs {
		if !inRepo(g) {
			continue
		}
		for _, a := range fieldAccessesShallow(g) {
			if a.Kind != "store" || a.Type != chT || a.Field != chF || isFreshObject(a.Base) {
				continue
			}
			if _, isMk := strip(a.In.(*ssa.Store).Val).(*ssa.MakeChan); !isMk {
				continue
			}
			if onceIsValue {
				return fmt.Sprintf("%s.%s is re-created in %s but the Once guarding its close (%s) is a value that lives as long as the object: after the first stop the next run's channel can never be closed", shortType(chT), chF, g.Name(), onF), false
			}
			paired := false
			for _, b := range fieldAccessesShallow(g) {
				if b.Kind == "store" && b.Type == onT && b.Field == onF {
					if al, isAl := strip(b.In.(*ssa.Store).Val).(*ssa.Alloc); isAl && al.Heap {
						r := reach(g, a.In, nil, func(in ssa.Instruction) bool { return in == b.In })
						skip := false
						for _, ret := range returnsOf(g) {
							if r(ret) {
								skip = true
							}
						}
						if instrDominates(b.In, a.In) || !skip {
							paired = true
						}
					}
				}
			}
			if !paired {
				return fmt.Sprintf("%s.%s is re-created in %s without a fresh Once for %s: the new channel inherits a Once that may already have fired", shortType(chT), chF, g.Name(), onF), false
			}
		}
	}
	return "", true
}

// checkMonitorPerPlot: the goroutine that watches one plot run (stop the plot when the keeper quits) is
// told to end through a channel of its own: the channel handed to a `go` statement of the plotter is made
// in the same loop iteration and released by close(), never by a send of a token — a channel shared
// between iterations keeps a stale token when a queue entry is skipped, the next plot's monitor consumes
// it and exits, and Stop() then waits for a plot nobody interrupts.
func checkMonitorPerPlot(c *Ctx, rule, pkg, label string) {
	f := c.MustFn(rule, strings.TrimPrefix(pkg, repoMod+"/"), "(*SpaceKeeper).spacePlotter")
	if f == nil {
		return
	}
	key := label + ".spacePlotter:monitor-channel-per-plot"
	n := 0
	bad := ""
	for _, g := range withClosures(f) {
		g := g
		allInstrs(g, func(in ssa.Instruction) {
			goi, ok := in.(*ssa.Go)
			if !ok {
				return
			}
			// the channel may be a field of a per-plot job object of a type the reference tree does not have
			// (`go job.monitor(&wg)` … `close(job.killMonitorCh)`): then the object is made in the iteration
			// (its constructor is called there), the field holds a channel made for it, and it is released by close()
			for _, a := range goi.Call.Args {
				pt, isP := a.Type().Underlying().(*types.Pointer)
				if !isP {
					continue
				}
				nt, isN := pt.Elem().(*types.Named)
				if !isN || nt.Obj().Pkg() == nil || !gNewTypes[nt.Obj().Pkg().Path()+"."+nt.Obj().Name()] {
					continue
				}
				st, isS := nt.Underlying().(*types.Struct)
				if !isS {
					continue
				}
				for fi := 0; fi < st.NumFields(); fi++ {
					if _, isCh := st.Field(fi).Type().Underlying().(*types.Chan); !isCh {
						continue
					}
					n++
					k := fmt.Sprintf("%s.%s#%d", nt.Obj().Pkg().Path(), nt.Obj().Name(), fi)
					perPlot := len(gNewTypeStores[k]) > 0
					for _, v := range gNewTypeStores[k] {
						mk, isM := strip(v).(*ssa.MakeChan)
						if !isM {
							perPlot = false
							continue
						}
						site := siteIn(g, mk)
						if site == nil || !blockReentered(g, site) {
							perPlot = false
						}
					}
					closed, sent := false, false
					for _, h := range bodyFns(f, nil) {
						allInstrsShallow(h, func(x ssa.Instruction) {
							isField := func(v ssa.Value) bool {
								t, fld, _, ok := fieldOfValue(v)
								return ok && fld == st.Field(fi).Name() && strings.HasSuffix(t, "."+nt.Obj().Name())
							}
							switch y := x.(type) {
							case *ssa.Call:
								if b, isB := y.Call.Value.(*ssa.Builtin); isB && b.Name() == "close" && isField(y.Call.Args[0]) {
									closed = true
								}
							case *ssa.Send:
								if isField(y.Chan) {
									sent = true
								}
							}
						})
					}
					if !perPlot {
						bad = "the monitor channel held in " + nt.Obj().Name() + "." + st.Field(fi).Name() + " is not made anew for the job started in this loop iteration"
					} else if !closed || sent {
						bad = fmt.Sprintf("the monitor channel held in %s.%s is not released by close() alone (closed=%v, token sent=%v)", nt.Obj().Name(), st.Field(fi).Name(), closed, sent)
					}
				}
			}
			for _, a := range goi.Call.Args {
				if _, isCh := a.Type().Underlying().(*types.Chan); !isCh {
					continue
				}
				n++
				var mk *ssa.MakeChan
				valueOrigins(g, a, func(root ssa.Value) {
					if m, isM := root.(*ssa.MakeChan); isM {
						mk = m
					} else {
						bad = "the channel handed to the monitor goroutine at " + c.Pos(goi.Pos()) + " is not made by the plotter"
					}
				})
				if mk == nil {
					if bad == "" {
						bad = "the channel handed to the monitor goroutine at " + c.Pos(goi.Pos()) + " is not made by the plotter"
					}
					continue
				}
				if mk.Parent() != g || !blockReentered(g, mk) || !blockReentered(g, goi) {
					bad = "the monitor channel (made at " + c.Pos(mk.Pos()) + ") is not made anew in the loop iteration that starts the monitor: monitors of different plots share it"
					continue
				}
				closed, sent := false, false
				for al := range aliasesForward(g, mk) {
					if refs := al.Referrers(); refs != nil {
						for _, r := range *refs {
							switch x := r.(type) {
							case *ssa.Call:
								if b, isB := x.Call.Value.(*ssa.Builtin); isB && b.Name() == "close" {
									closed = true
								}
							case *ssa.Send:
								if x.Chan == al {
									sent = true
								}
							case *ssa.Select:
								for _, st := range x.States {
									if st.Dir == types.SendOnly && st.Chan == al {
										sent = true
									}
								}
							}
						}
					}
				}
				if !closed || sent {
					bad = fmt.Sprintf("the monitor channel made at %s is not released by close() alone (closed=%v, token sent=%v)", c.Pos(mk.Pos()), closed, sent)
				}
			}
		})
	}
	switch {
	case n == 0:
		c.Bad(rule, key, c.Pos(f.Pos()), "reason=anchor-missing: no goroutine started with a channel argument in spacePlotter")
	case bad != "":
		c.Bad(rule, key, c.Pos(f.Pos()), bad)
	default:
		c.OK(rule, key, c.Pos(f.Pos()), "each monitor gets a channel made in its own iteration, released by close()")
	}
}
