package main

import (
	"fmt"
	"sort"
	"strings"

	"golang.org/x/tools/go/ssa"
)

// checkBatchWritten (C19-BATCH): a leveldb.Batch only collects operations; they reach the store when the
// batch is handed to Transaction.Write / DB.Write. Every batch the store package allocates must therefore
// reach such a Write: in the allocating function, or in a callee it is passed to, or it leaves the function
// (returned, stored, captured — then nothing is claimed). A batch that is allocated, filled (by the
// function or by the callees it is passed to) and dropped loses what was collected: the k/v of a nested
// bucket survive the deletion of their parent while the nested bucket's index entry — deleted directly
// through the transaction — is gone, so a bucket created later under the same path finds them
// (seed C02-r9a: the recursion of deleteBucket given a batch of its own).
func checkBatchWritten(c *Ctx, rule string) {
	isBatchPtr := func(v ssa.Value) bool {
		return strings.HasSuffix(v.Type().String(), "*github.com/syndtr/goleveldb/leveldb.Batch")
	}
	isWrite := func(in ssa.Instruction) bool {
		id := calleeID(in)
		return strings.HasSuffix(id, "leveldb.Transaction).Write") || strings.HasSuffix(id, "leveldb.DB).Write")
	}
	// fate of a batch value inside its function: "written", "escapes" or "" (only filled / dropped)
	type pk struct {
		f *ssa.Function
		i int
	}
	memo := map[pk]string{}
	var fate func(v ssa.Value, seen map[ssa.Value]bool) string
	fate = func(v ssa.Value, seen map[ssa.Value]bool) string {
		if seen[v] {
			return ""
		}
		seen[v] = true
		refs := v.Referrers()
		if refs == nil {
			return "escapes"
		}
		res := ""
		set := func(s string) {
			if s == "written" || (s == "escapes" && res == "") {
				res = s
			}
		}
		for _, in := range *refs {
			switch x := in.(type) {
			case *ssa.DebugRef:
			case *ssa.Phi:
				set(fate(x, seen))
			case *ssa.Return, *ssa.Store, *ssa.MakeClosure, *ssa.MakeInterface, *ssa.MapUpdate, *ssa.Send:
				if st, ok := in.(*ssa.Store); ok && st.Val != v {
					continue
				}
				set("escapes")
			case *ssa.ChangeType:
				set(fate(x, seen))
			case ssa.CallInstruction:
				if isWrite(in) {
					for _, a := range callArgs(in) {
						if a == v {
							set("written")
						}
					}
					continue
				}
				cc := x.Common()
				h := cc.StaticCallee()
				if h == nil {
					// dynamic call: as an argument it may be written there
					for _, a := range cc.Args {
						if a == v {
							set("escapes")
						}
					}
					continue
				}
				if strings.Contains(calleeID(in), "goleveldb/leveldb.Batch).") && len(cc.Args) > 0 && cc.Args[0] == v {
					continue // a method of the batch itself: fills, resets or inspects it
				}
				for i, a := range cc.Args {
					if a != v {
						continue
					}
					if h.Blocks == nil || i >= len(h.Params) {
						set("escapes")
						continue
					}
					k := pk{h, i}
					r, ok := memo[k]
					if !ok {
						memo[k] = "" // recursion: the recursive call itself adds nothing
						r = fate(h.Params[i], map[ssa.Value]bool{})
						memo[k] = r
					}
					set(r)
				}
			default:
				if _, ok := in.(ssa.Value); ok {
					set("escapes") // field address, index, conversion…: not followed
				}
			}
		}
		return res
	}
	var fns []*ssa.Function
	for fn := range c.AllFuncs {
		if fn != nil && fn.Blocks != nil && pkgOf(outermost(fn)) == pkgLDB {
			fns = append(fns, fn)
		}
	}
	sort.Slice(fns, func(i, j int) bool { return FuncName(fns[i]) < FuncName(fns[j]) })
	n := 0
	for _, fn := range fns {
		k := 0
		allInstrsShallow(fn, func(in ssa.Instruction) {
			v, ok := in.(ssa.Value)
			if !ok || !isBatchPtr(v) {
				return
			}
			switch x := in.(type) {
			case *ssa.Alloc:
			case *ssa.Call:
				if !strings.HasSuffix(calleeID(x), "goleveldb/leveldb.MakeBatch") {
					return
				}
			default:
				return
			}
			n++
			k++
			key := FuncName(outermost(fn)) + ":batch#" + fmt.Sprint(k)
			switch fate(v, map[ssa.Value]bool{}) {
			case "written":
				c.OK(rule, key, c.Pos(in.Pos()), "the batch allocated here is handed to Transaction.Write / DB.Write")
			case "escapes":
				c.OK(rule, key, c.Pos(in.Pos()), "the batch leaves the function (returned, stored or captured): nothing claimed")
			default:
				c.Bad(rule, key, c.Pos(in.Pos()), "a leveldb.Batch is allocated and filled (here or in the functions it is passed to) but never handed to Transaction.Write / DB.Write: the operations collected in it are dropped — entries of a deleted bucket survive and reappear in a bucket created later under the same path")
			}
		})
	}
	if n == 0 {
		c.Bad(rule, "anchor", "", "reason=anchor-missing: no leveldb.Batch allocated in the store package")
	}
}
