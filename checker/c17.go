package main

// C17 — cluster tasks: no-panic / prompt-stop structure and routing bindings.

import (
	"fmt"
	"go/token"
	"go/types"
	"sort"
	"strings"

	"golang.org/x/tools/go/ssa"
)

func init() { register("C17", checkC17) }

const pkgFractal = repoMod + "/fractal"

func fractalFuncs(c *Ctx) []*ssa.Function {
	var out []*ssa.Function
	for fn := range c.AllFuncs {
		p := pkgOf(fn)
		if p == pkgFractal || p == pkgConn {
			out = append(out, fn)
		}
	}
	sort.Slice(out, func(i, j int) bool { return out[i].String() < out[j].String() })
	return out
}

// isDoneChan: v is a cancellation channel: result of (context.Context).Done(), or a struct field /
// parameter named quit/done/stop*, or a local holding such a value.
func isDoneChan(fn *ssa.Function, v ssa.Value) bool {
	ok := false
	valueOrigins(fn, v, func(root ssa.Value) {
		switch x := root.(type) {
		case *ssa.Call:
			if x.Call.IsInvoke() && x.Call.Method.Name() == "Done" && strings.HasSuffix(x.Call.Value.Type().String(), "context.Context") {
				ok = true
			}
		case *ssa.Parameter:
			n := strings.ToLower(x.Name())
			if n == "quit" || n == "done" || strings.HasPrefix(n, "stop") || n == "donech" {
				ok = true
			}
		default:
			if _, f, _, isF := fieldOfValue(root); isF {
				n := strings.ToLower(f)
				if n == "quit" || n == "done" || strings.HasPrefix(n, "stop") {
					ok = true
				}
			}
		}
	})
	return ok
}

func checkC17(c *Ctx) Meta {
	c.Rule("C17-STOP", "every waitStop has the CAS-guarded shape: stopped-load → CAS(stopping) else wg.Wait → cancel → wg.Wait → store stopped", 5)
	c.Rule("C17-WG", "every goroutine counted by a component's WaitGroup is started after wg.Add and begins with defer wg.Done()", 8)
	c.Rule("C17-CHAN", "every close of a fractal channel field is deferred in the goroutine that owns it or happens under the task lock together with unregistering; every send on a closable channel is recover-guarded, in the closing function itself, or under the closer's lock after the lookup", 12)
	c.Rule("C17-INTR", "every blocking channel operation in a goroutine that a waitStop waits for has an arm on a cancellation channel (so that stop returns promptly)", 7)
	c.Rule("C17-BLOCK", "no blocking operation while the superior's task lock or collector lock is held unless whoever unblocks it never needs that lock", 1)
	c.Rule("C17-PAIR", "every AddTask is paired with RemoveTask of the same task id on all exits of the caller", 3)
	c.Rule("C17-ROUTE", "a report is sent on the channel looked up by its own task id; CollectorMsg carries the reporting collector's id; Send addresses only the target collector; Broadcast iterates the subscribed collectors; a late subscriber gets the current task replayed to itself only, read after its registration; reports are handed over in the reporting goroutine", 9)

	fns := fractalFuncs(c)
	if len(fns) < 100 {
		c.Bad("C17-STOP", "anchor", "", fmt.Sprintf("reason=anchor-missing: only %d fractal functions", len(fns)))
	}
	scope := map[*ssa.Function]bool{}
	for _, f := range fns {
		scope[f] = true
	}
	li := computeLocksets(c, scope, map[string]bool{}, func(fn *ssa.Function) bool { return isExportedFunc(fn) })

	// ---- STOP shape
	for _, fn := range fns {
		if fn.Name() != "waitStop" || fn.Parent() != nil {
			continue
		}
		key := FuncName(fn)
		var cas *ssa.Call
		var waits, cancels []*ssa.Call
		var storeStopped *ssa.Call
		var loadStopped *ssa.Call
		allInstrsShallow(fn, func(in ssa.Instruction) {
			cl, ok := in.(*ssa.Call)
			if !ok {
				return
			}
			id := calleeID(cl)
			switch {
			case strings.HasPrefix(id, "sync/atomic.CompareAndSwap"):
				cas = cl
			case id == "(*sync.WaitGroup).Wait":
				waits = append(waits, cl)
			case strings.HasPrefix(id, "sync/atomic.Store"):
				if fa, ok := cl.Call.Args[0].(*ssa.FieldAddr); ok {
					if _, f, _, ok := fieldOfAddr(fa); ok && f == "stopped" {
						storeStopped = cl
					}
				}
			case strings.HasPrefix(id, "sync/atomic.Load"):
				if fa, ok := cl.Call.Args[0].(*ssa.FieldAddr); ok {
					if _, f, _, ok := fieldOfAddr(fa); ok && f == "stopped" {
						loadStopped = cl
					}
				}
			default:
				// call of a cancel function field
				if u, ok := cl.Call.Value.(*ssa.UnOp); ok {
					if _, f, _, ok := fieldOfAddr(u.X); ok && strings.Contains(strings.ToLower(f), "cancel") {
						cancels = append(cancels, cl)
					}
				}
			}
		})
		if cas == nil {
			// the persistent wrapper: only idempotent cancellers, no wait group of its own
			if len(waits) == 0 && len(cancels) > 0 && loadStopped != nil {
				c.OK("C17-STOP", key, c.Pos(fn.Pos()), "wrapper stop: calls idempotent cancel functions only")
			} else {
				c.Bad("C17-STOP", key, c.Pos(fn.Pos()), "waitStop has no compare-and-swap on the stopping flag: two stoppers both run the stop sequence")
			}
			continue
		}
		tests := boolTestsOf(fn, cas)
		bad := ""
		if len(tests) == 0 || len(cancels) == 0 || len(waits) < 2 || storeStopped == nil || loadStopped == nil {
			bad = "missing element of the stop protocol (stopped-load, CAS test, cancel, two wg.Wait, store stopped)"
		} else {
			// cancel only on the CAS-success edge
			if ok, _ := unreachableWhenCut(fn, boolEdgeCut(tests, true), callInstrs(cancels)); !ok {
				bad = "the cancel function runs although the compare-and-swap failed"
			}
			// losers wait: on the CAS-failure edge every return passes wg.Wait
			rLose := reach(fn, cas, boolEdgeCut(tests, true), func(in ssa.Instruction) bool {
				cl, ok := in.(*ssa.Call)
				return ok && isCall(cl, "(*sync.WaitGroup).Wait")
			})
			for _, ret := range returnsOf(fn) {
				if rLose(ret) {
					bad = "a concurrent stopper returns without waiting for the goroutines (stop is reported before it happened)"
				}
			}
			// winner: cancel -> Wait -> store stopped, in this order on every path
			for _, cn := range cancels {
				rw := reach(fn, cn, nil, func(in ssa.Instruction) bool {
					cl, ok := in.(*ssa.Call)
					return ok && isCall(cl, "(*sync.WaitGroup).Wait")
				})
				if rw(storeStopped) {
					bad = "stopped is stored before the goroutines were waited for"
				}
			}
			if !instrDominates(cancels[0], storeStopped) {
				bad = "stopped is stored on a path that did not cancel"
			}
			// wait without cancel on the winner path = hang
			rNoCancel := reach(fn, cas, boolEdgeCut(tests, false), func(in ssa.Instruction) bool {
				for _, cn := range cancels {
					if in == ssa.Instruction(cn) {
						return true
					}
				}
				return false
			})
			for _, w := range waits {
				if rNoCancel(w) && instrDominates(cas, w) {
					// wg.Wait reachable on the success edge before any cancel
					if t := tests[0]; t.TrueSucc.Dominates(w.Block()) {
						bad = "the winner waits for the goroutines before cancelling them"
					}
				}
			}
		}
		if bad != "" {
			c.Bad("C17-STOP", key, c.Pos(fn.Pos()), bad)
		} else {
			c.OK("C17-STOP", key, c.Pos(cas.Pos()), "stopped-load → CAS → cancel → wg.Wait → store; losers wait")
		}
	}

	// ---- WG
	for _, fn := range fns {
		allInstrsShallow(fn, func(in ssa.Instruction) {
			g, ok := in.(*ssa.Go)
			if !ok {
				return
			}
			callee := g.Call.StaticCallee()
			if callee == nil || !scope[callee] {
				return
			}
			// does the callee Done a component wait group?
			var doneField string
			deferred := false
			allInstrs(callee, func(i2 ssa.Instruction) {
				var cc *ssa.CallCommon
				isDefer := false
				switch x := i2.(type) {
				case *ssa.Defer:
					cc, isDefer = &x.Call, true
				case *ssa.Call:
					cc = &x.Call
				default:
					return
				}
				if cc.StaticCallee() == nil || cc.StaticCallee().String() != "(*sync.WaitGroup).Done" {
					return
				}
				if fa, ok := cc.Args[0].(*ssa.FieldAddr); ok {
					if t, f, _, ok := fieldOfAddr(fa); ok {
						doneField = t + "." + f
						if isDefer && i2.Block() == callee.Blocks[0] {
							deferred = true
						}
					}
				}
			})
			if doneField == "" {
				return
			}
			key := FuncName(fn) + ":go:" + callee.Name()
			// wg.Add on the same field dominates the go statement
			added := false
			for _, a := range callsInShallow(fn, "(*sync.WaitGroup).Add") {
				if fa, ok := a.Call.Args[0].(*ssa.FieldAddr); ok {
					if t, f, _, ok := fieldOfAddr(fa); ok && t+"."+f == doneField && instrDominates(a, g) {
						added = true
					}
				}
			}
			// a counted goroutine never waits for the group it is counted in: no Wait on the same WaitGroup is
			// reachable from it through synchronous calls (it has to hand the shutdown to another goroutine)
			selfWait := ""
			{
				seen := map[*ssa.Function]bool{}
				var walk func(f *ssa.Function, via string)
				walk = func(f *ssa.Function, via string) {
					if seen[f] || selfWait != "" {
						return
					}
					seen[f] = true
					allInstrs(f, func(i2 ssa.Instruction) {
						var cc *ssa.CallCommon
						switch x := i2.(type) {
						case *ssa.Call:
							cc = &x.Call
						case *ssa.Defer:
							cc = &x.Call
						default:
							return // `go f()` runs elsewhere
						}
						h := cc.StaticCallee()
						if h == nil {
							return
						}
						if h.String() == "(*sync.WaitGroup).Wait" {
							if fa, ok := cc.Args[0].(*ssa.FieldAddr); ok {
								if t, fl, _, ok := fieldOfAddr(fa); ok && t+"."+fl == doneField {
									selfWait = via + f.Name() + " at " + c.Pos(i2.Pos())
								}
							}
							return
						}
						if scope[h] {
							walk(h, via+f.Name()+" → ")
						}
					})
				}
				walk(callee, "")
			}
			switch {
			case selfWait != "":
				c.Bad("C17-WG", key, c.Pos(g.Pos()), callee.Name()+" is counted in "+shortType(doneField)+" and can itself wait for that group ("+selfWait+"): it waits for its own exit, the stop function never returns and the peer is never released")
			case !deferred:
				c.Bad("C17-WG", key, c.Pos(g.Pos()), callee.Name()+" does not begin with defer wg.Done(): a panic or early return leaves waitStop waiting forever")
			case !added:
				c.Bad("C17-WG", key, c.Pos(g.Pos()), "the goroutine is started without a dominating wg.Add on "+shortType(doneField)+": waitStop can return before it has finished")
			default:
				c.OK("C17-WG", key, c.Pos(g.Pos()), "wg.Add dominates go; "+callee.Name()+" begins with defer wg.Done()")
			}
		})
	}

	// ---- CHAN
	checkFractalChannels(c, fns, li)

	// ---- INTR
	for _, fn := range fns {
		if fn.Parent() != nil {
			continue
		}
		counted := false
		allInstrsShallow(fn, func(in ssa.Instruction) {
			if d, ok := in.(*ssa.Defer); ok && d.Call.StaticCallee() != nil && d.Call.StaticCallee().String() == "(*sync.WaitGroup).Done" {
				if _, ok := d.Call.Args[0].(*ssa.FieldAddr); ok {
					counted = true
				}
			}
		})
		if !counted {
			continue
		}
		ord := 0
		for _, op := range directBlocking(fn) {
			ord++
			key := fmt.Sprintf("%s:%s#%d", FuncName(fn), op.Kind, ord)
			switch op.Kind {
			case "select":
				sel := op.In.(*ssa.Select)
				ok := false
				for _, st := range sel.States {
					if st.Dir == types.RecvOnly && isDoneChan(fn, st.Chan) {
						ok = true
					}
				}
				if ok {
					c.OK("C17-INTR", key, c.Pos(op.In.Pos()), "blocking select has a cancellation arm")
				} else {
					c.Bad("C17-INTR", key, c.Pos(op.In.Pos()), "blocking select without a cancellation arm in a goroutine that waitStop waits for")
				}
			case "send", "recv":
				c.Bad("C17-INTR", key, c.Pos(op.In.Pos()), "unconditional "+op.Kind+" on "+shortType(op.Chan)+" in a goroutine that waitStop waits for: if the other side has gone and the buffer is full the goroutine never sees the cancellation and waitStop's wg.Wait never returns")
			case "wgwait":
				c.OK("C17-INTR", key, c.Pos(op.In.Pos()), "waits for its own children")
			}
		}
	}

	// ---- BLOCK under the superior's locks
	x := &c13ctx{c: c, scope: scope, li: li}
	// also include the v2 miner (the receivers of task channels)
	for fn := range c.AllFuncs {
		if pkgOf(fn) == repoMod+"/poc/engine.v2/pocminer/miner" {
			x.scope[fn] = true
		}
	}
	nBlocking, nUnderLock := 0, 0
	defer func() {
		c.Add("C17-BLOCK", "scan", Discharged, "", fmt.Sprintf("%d blocking channel operations in the cluster layer examined, %d of them execute with a lock held (each is an obligation of this rule; the overlay variant that re-introduces the send under taskCacheLock is the positive control)", nBlocking, nUnderLock), true)
	}()
	for _, fn := range fns {
		ord := 0
		for _, op := range directBlocking(fn) {
			held := li.at[op.In]
			if op.Kind == "send" || op.Kind == "select" || op.Kind == "recv" {
				nBlocking++
			}
			if len(held) == 0 {
				continue
			}
			if op.Kind != "send" && op.Kind != "select" && op.Kind != "recv" {
				continue
			}
			nUnderLock++
			ord++
			key := fmt.Sprintf("%s:%s-under-lock#%d", FuncName(fn), op.Kind, ord)
			// who receives: for a channel obtained from the task cache, the functions reading the channel
			// returned by AddTask
			isTaskChan := false
			if op.Kind == "select" {
				for _, st := range op.In.(*ssa.Select).States {
					if st.Dir == types.SendOnly && strings.Contains(chanOrigin(fn, st.Chan), "CCache).Get") {
						isTaskChan = true
					}
				}
			} else if strings.Contains(op.Chan, "CCache).Get") {
				isTaskChan = true
			}
			if !isTaskChan {
				c.Unk("C17-BLOCK", key, c.Pos(op.In.Pos()), "blocking "+op.Kind+" on "+op.Chan+" while holding "+held.String()+": cannot identify who unblocks it")
				continue
			}
			var readers []*ssa.Function
			for g := range x.scope {
				allInstrs(g, func(in ssa.Instruction) {
					if cl, ok := in.(*ssa.Call); ok && callName(cl) == "AddTask" {
						readers = append(readers, outermost(g))
					}
				})
			}
			acq := x.acquiredBy(readers)
			conflict := ""
			for k := range held {
				if m := acq[k.Class]; m != nil {
					for _, at := range m {
						conflict = fmt.Sprintf("the waiters of task channels (%s) acquire %s at %s (RemoveTask): a waiter that has stopped reading and is removing its task waits for the lock this send holds, while the send waits for the waiter — every other task is blocked too", funcNames(readers), shortType(k.Class), c.Pos(at.Pos()))
					}
				}
			}
			if conflict != "" {
				c.Bad("C17-BLOCK", key, c.Pos(op.In.Pos()), "report is sent on a bounded task channel while holding "+held.String()+"; "+conflict)
			} else {
				c.OK("C17-BLOCK", key, c.Pos(op.In.Pos()), "receivers never need a held lock")
			}
		}
	}

	// ---- PAIR
	for fn := range c.AllFuncs {
		if !inRepo(fn) {
			continue
		}
		for _, add := range callsInByName(fn, "AddTask") {
			if pkgOf(fn) == pkgFractal {
				continue
			}
			key := FuncName(fn) + ":AddTask:" + c.Pos(add.Pos())
			key = FuncName(fn) + ":AddTask#" + fmt.Sprint(indexOfCall(fn, add, "AddTask"))
			// the id removed must be the id of the request added
			req := callArgs(add)[2]
			okPair := false
			allInstrsShallow(fn, func(in ssa.Instruction) {
				d, ok := in.(*ssa.Defer)
				if !ok || d.Call.StaticCallee() == nil || d.Call.StaticCallee().Name() != "RemoveTask" {
					return
				}
				idArg := d.Call.Args[len(d.Call.Args)-1]
				// derives from the same request object's TaskID
				same := false
				for v := range backSlice(idArg).vals {
					if fa, ok := v.(*ssa.FieldAddr); ok {
						if _, f, base, ok := fieldOfAddr(fa); ok && f == "TaskID" && sameObject(base, req) {
							same = true
						}
					}
				}
				if !same {
					return
				}
				// no return between AddTask and the defer
				r := reach(fn, add, nil, func(i2 ssa.Instruction) bool { return i2 == in })
				for _, ret := range returnsOf(fn) {
					if r(ret) {
						return
					}
				}
				if instrDominates(add, in) {
					okPair = true
				}
			})
			if okPair {
				c.OK("C17-PAIR", key, c.Pos(add.Pos()), "defer RemoveTask(req.TaskID) follows AddTask(req) with no exit in between")
			} else {
				c.Bad("C17-PAIR", key, c.Pos(add.Pos()), "a task is added but not removed on every exit (no deferred RemoveTask of the same request's TaskID directly after AddTask): the task channel and cache entry leak and late reports are delivered to a task nobody waits for")
			}
		}
	}

	// ---- ROUTE
	checkRouting(c)
	c.Rule("C17-LATEST", "the current broadcast task of a superior (latestTask, replayed to late subscribers) is read and written under one common lock in every function that touches it", 4)
	checkLatestTaskGuard(c, fns, li)
	c.Rule("C17-CTX", "a function that is handed a context passes it on to every context-taking call (not a longer-lived field context), so that stopping the caller releases the call", 30)
	checkCtxPassThrough(c, fns)
	c.Rule("C17-OWN", "every frame handed to the receive queue owns its buffer (allocated afresh per frame): reports are delivered unmodified", 1)
	checkFrameOwnership(c)

	// the wire codec (C16) is a premise of "a report is delivered unmodified, directly or through relays":
	// its rules run here under C17's name
	c.pushAlias("C16-", "C17-WIRE-")
	checkC16(c)
	c.popAlias()

	return Meta{
		Explanation: "Decides the no-panic / prompt-return structure of the cluster layer and two routing bindings: CAS-guarded stop protocol of every component, wait-group discipline of every counted goroutine, close/send discipline of every channel field, a cancellation arm on every blocking operation of a waited goroutine, no blocking send under the task lock, AddTask/RemoveTask pairing, and provenance of the channel a report is sent on.",
		NotDecided:  "exactly-once delivery, per-connection order, replay to late subscribers, behaviour for all topologies and drop points — schedule facts not reachable by a static argument here.",
		Trusted:     []string{"go/ssa", "ants.Pool.Submit hands the closure to a worker (treated as asynchronous)", "context cancellation semantics"},
	}
}

func callsInByName(fn *ssa.Function, name string) []*ssa.Call {
	var out []*ssa.Call
	allInstrs(fn, func(in ssa.Instruction) {
		if cl, ok := in.(*ssa.Call); ok && callName(cl) == name {
			out = append(out, cl)
		}
	})
	return out
}

func indexOfCall(fn *ssa.Function, cl *ssa.Call, name string) int {
	for i, x := range callsInByName(fn, name) {
		if x == cl {
			return i + 1
		}
	}
	return 0
}

func sameObject(a, b ssa.Value) bool {
	ra, rb := map[ssa.Value]bool{}, map[ssa.Value]bool{}
	if fa := a.Parent(); fa != nil {
		valueOrigins(fa, a, func(r ssa.Value) { ra[strip(r)] = true })
	}
	if fb := b.Parent(); fb != nil {
		valueOrigins(fb, b, func(r ssa.Value) { rb[strip(r)] = true })
	}
	for k := range ra {
		if rb[k] {
			return true
		}
	}
	return false
}

func checkFractalChannels(c *Ctx, fns []*ssa.Function, li *lockInfo) {
	rule := "C17-CHAN"
	type closeSite struct {
		in       ssa.Instruction
		fn       *ssa.Function
		deferred bool
	}
	closes := map[string][]closeSite{}
	for _, fn := range fns {
		allInstrsShallow(fn, func(in ssa.Instruction) {
			var cc *ssa.CallCommon
			deferred := false
			async := false
			switch x := in.(type) {
			case *ssa.Defer:
				cc, deferred = &x.Call, true
			case *ssa.Call:
				cc = &x.Call
			case *ssa.Go:
				cc, async = &x.Call, true
			default:
				return
			}
			b, ok := cc.Value.(*ssa.Builtin)
			if !ok || b.Name() != "close" {
				return
			}
			org := chanOrigin(fn, cc.Args[0])
			if async {
				org = "async:" + org
			}
			closes[org] = append(closes[org], closeSite{in, fn, deferred})
		})
	}
	orgs := []string{}
	for o := range closes {
		orgs = append(orgs, o)
	}
	sort.Strings(orgs)
	for _, org := range orgs {
		for _, cs := range closes[org] {
			key := FuncName(cs.fn) + ":close:" + shortType(org)
			switch {
			case strings.HasPrefix(org, "local"):
				c.OK(rule, key, c.Pos(cs.in.Pos()), "function-local channel")
			case strings.HasPrefix(org, "field:") && cs.deferred && len(closes[org]) == 1 && startedOnlyWithGo(c, cs.fn):
				c.OK(rule, key, c.Pos(cs.in.Pos()), "closed once, by a defer in the goroutine that owns the channel")
			case strings.HasPrefix(org, "param:") && recoverGuarded(cs.fn):
				c.OK(rule, key, c.Pos(cs.in.Pos()), "recover-guarded close helper")
			case strings.Contains(org, "CCache).Get"):
				// task channel: under the task lock, followed by removal from the cache in the same hold
				held := len(li.at[cs.in]) > 0
				removed := false
				r := reach(cs.fn, cs.in, nil, nil)
				for _, rm := range callsInByName(cs.fn, "Remove") {
					if r(rm) && len(li.at[rm]) > 0 {
						removed = true
					}
				}
				if held && removed {
					c.OK(rule, key, c.Pos(cs.in.Pos()), "closed under "+li.at[cs.in].String()+" and unregistered in the same critical section")
				} else {
					c.Bad(rule, key, c.Pos(cs.in.Pos()), "the task channel is closed outside the task lock or stays registered afterwards: a report for the task can be sent on the closed channel (panic)")
				}
			default:
				c.Bad(rule, key, c.Pos(cs.in.Pos()), "close of shared channel "+shortType(org)+" is neither a single deferred close in its owning goroutine nor under the task lock")
			}
		}
	}
	// sends on closable channels
	for _, fn := range fns {
		ord := 0
		check := func(in ssa.Instruction, ch ssa.Value) {
			org := chanOrigin(fn, ch)
			var cl []closeSite
			if strings.HasPrefix(org, "field:") || strings.Contains(org, "CCache).Get") {
				cl = closes[org]
			}
			if strings.HasPrefix(org, "param:") {
				// helper sending on a channel handed in by callers that pass closable fields
				cl = []closeSite{{}}
			}
			if len(cl) == 0 {
				return
			}
			ord++
			key := fmt.Sprintf("%s:send:%s#%d", FuncName(fn), shortType(org), ord)
			sameFn := false
			for _, s := range cl {
				if s.fn == fn {
					sameFn = true
				}
			}
			if !sameFn && gNewFuncs[fn] && fn.Parent() == nil && len(gCallSitesOf[fn]) > 0 {
				// the loop moved into a phase helper, called synchronously only by the function whose defer closes
				// the channel: the close still runs after the helper (and with it every send) has returned
				all := true
				for _, site := range gCallSitesOf[fn] {
					callCl, isCall := site.(*ssa.Call)
					inCloser := false
					if isCall {
						for _, s := range cl {
							if s.fn == callCl.Parent() {
								inCloser = true
							}
						}
					}
					if !inCloser {
						all = false
					}
				}
				sameFn = all
			}
			switch {
			case recoverGuarded(fn):
				c.OK(rule, key, c.Pos(in.Pos()), "recover-guarded send")
			case sameFn:
				c.OK(rule, key, c.Pos(in.Pos()), "send in the function whose defer closes the channel")
			case strings.Contains(org, "CCache).Get") && len(li.at[in]) > 0:
				c.OK(rule, key, c.Pos(in.Pos()), "send under the task lock after the lookup")
			case strings.HasPrefix(org, "param:"):
				c.Bad(rule, key, c.Pos(in.Pos()), "send helper without recover guard on a channel its callers may have closed")
			default:
				c.Bad(rule, key, c.Pos(in.Pos()), "send on "+shortType(org)+", which another goroutine closes, without recover guard or common lock: panics when the owner has stopped")
			}
		}
		allInstrsShallow(fn, func(in ssa.Instruction) {
			switch x := in.(type) {
			case *ssa.Send:
				check(in, x.Chan)
			case *ssa.Select:
				for _, st := range x.States {
					if st.Dir == types.SendOnly {
						check(in, st.Chan)
					}
				}
			}
		})
	}
}

// startedOnlyWithGo: fn is only ever started as a goroutine (no plain call site).
func startedOnlyWithGo(c *Ctx, fn *ssa.Function) bool {
	n := 0
	plain := false
	for g := range c.AllFuncs {
		allInstrsShallow(g, func(in ssa.Instruction) {
			switch x := in.(type) {
			case *ssa.Go:
				if x.Call.StaticCallee() == fn {
					n++
				}
			case *ssa.Call:
				if x.Call.StaticCallee() == fn {
					plain = true
				}
			case *ssa.Defer:
				if x.Call.StaticCallee() == fn {
					plain = true
				}
			}
		})
	}
	return n >= 1 && !plain
}

func checkRouting(c *Ctx) {
	rule := "C17-ROUTE"
	if f := c.MustFn(rule, "fractal", "(*LocalSuperior).submitCollectorMsg"); f != nil {
		key := "submitCollectorMsg:channel-looked-up-by-own-task-id"
		ok := false
		check := func(ch, val ssa.Value) {
			sl := backSlice(ch)
			for v := range sl.vals {
				cl, isCall := v.(*ssa.Call)
				if !isCall || callName(cl) != "Get" {
					continue
				}
				// key = resp.Msg.ID()
				ks := backSlice(callArgs(cl)[0])
				for kv := range ks.vals {
					if inv, isInv := kv.(*ssa.Call); isInv && inv.Call.IsInvoke() && inv.Call.Method.Name() == "ID" {
						if backSlice(inv.Call.Value).hasParam(f, "resp") && backSlice(val).hasParam(f, "resp") {
							ok = true
						}
					}
				}
			}
		}
		allInstrsDeep(f, nil, func(in ssa.Instruction) { // also helpers the reference tree does not have
			switch x := in.(type) {
			case *ssa.Send:
				check(x.Chan, x.X)
			case *ssa.Select:
				for _, st := range x.States {
					if st.Dir == types.SendOnly {
						check(st.Chan, st.Send)
					}
				}
			}
		})
		if ok {
			c.OK(rule, key, c.Pos(f.Pos()), "resp is sent on taskCache.Get(resp.Msg.ID())")
		} else {
			c.Bad(rule, key, c.Pos(f.Pos()), "a report is not sent on the channel registered for the task id it names")
		}
	}
	if f := c.MustFn(rule, "fractal", "(*LocalSuperior).AddTask"); f != nil {
		// the waiter exists before anybody can answer: the task's channel is entered into the task cache
		// (under the task's own id) before the request leaves through Send/Broadcast — a collector that
		// answers from inside its Request* call finds no waiter otherwise and the report is dropped
		// …and the channel handed to the waiter is open: adding a task never removes it again (RemoveTask closes
		// the channel; the waiters read `msg := <-ch; msg.Msg…` and a receive from a closed channel yields nil)
		{
			key := "AddTask:hands-out-an-open-channel"
			closes := func(in ssa.Instruction) bool {
				switch in.(type) {
				case *ssa.Call, *ssa.Defer, *ssa.Go:
				default:
					return false
				}
				return calleeID(in) == "builtin.close" || callName(in) == "RemoveTask"
			}
			if mayDo(f, closes) {
				c.Bad(rule, key, c.Pos(f.Pos()), "AddTask can close the channel it returns (a close, or RemoveTask, is reachable inside it): the waiter's first receive yields a nil message, which it dereferences")
			} else {
				c.OK(rule, key, c.Pos(f.Pos()), "no close and no RemoveTask reachable from AddTask")
			}
		}
		key := "AddTask:registered-before-sent"
		regs := findSteps(f, func(cl *ssa.Call) bool {
			return callName(cl) == "Add" && callRecv(cl) != nil && backSlice(callRecv(cl)).hasField(pkgFractal+".LocalSuperior", "taskCache")
		}, 1)
		var outs []*ssa.Call
		allInstrs(f, func(in ssa.Instruction) {
			if cl, ok := in.(*ssa.Call); ok && (isCall(cl, "(*"+pkgFractal+".baseSuperior).Send") || isCall(cl, "(*"+pkgFractal+".baseSuperior).Broadcast")) {
				outs = append(outs, cl)
			}
		})
		switch {
		case len(regs) == 0 || len(outs) == 0:
			c.Bad(rule, key, c.Pos(f.Pos()), "reason=anchor-missing: taskCache.Add or Send/Broadcast in AddTask")
		default:
			bad := false
			for _, o := range outs {
				dom := false
				for _, r := range regs {
					if instrDominates(r.Site, o) {
						dom = true
					}
				}
				if !dom {
					bad = true
					c.Bad(rule, key, c.Pos(o.Pos()), "the request is sent before the task's channel is registered in the task cache: a report that arrives first finds no waiter and is silently dropped")
				}
			}
			idOK := false
			for _, r := range regs {
				for v := range sliceVia(callArgs(r.Step)[0], r).vals {
					if inv, isInv := v.(*ssa.Call); isInv && inv.Call.IsInvoke() && inv.Call.Method.Name() == "ID" && backSlice(inv.Call.Value).hasParam(f, "req") {
						idOK = true
					}
				}
			}
			if !idOK {
				bad = true
				c.Bad(rule, key, c.Pos(f.Pos()), "the task's channel is not registered under the id of the request that is sent")
			}
			if !bad {
				c.OK(rule, key, c.Pos(regs[0].Site.Pos()), "taskCache.Add(req.ID(), ch) dominates Send and Broadcast")
			}
		}
	}
	{
		// a relay sends reports up through the connection it has now: every WriteReport* call of the relay
		// takes its writer from RemoteSuperior.writer at the time of the call (the field Reborn replaces
		// after a reconnect), never from a copy kept elsewhere — a copy made at construction keeps pointing
		// at the dead connection, tasks arrive over the new one and every report is lost
		key := "relay:reports-through-the-current-writer"
		n := 0
		var bad []string
		for fn := range c.AllFuncs {
			if pkgOf(fn) != pkgFractal {
				continue
			}
			fn := fn
			allInstrsShallow(fn, func(in ssa.Instruction) {
				cl, ok := in.(*ssa.Call)
				if !ok || !cl.Call.IsInvoke() || !strings.HasPrefix(cl.Call.Method.Name(), "WriteReport") {
					return
				}
				if !strings.HasSuffix(cl.Call.Value.Type().String(), "ReportWriter") {
					return
				}
				n++
				t, f, _, isF := fieldOfValue(cl.Call.Value)
				if !isF || f != "writer" || !strings.HasSuffix(t, "RemoteSuperior") {
					bad = append(bad, fmt.Sprintf("%s at %s", fn.Name(), c.Pos(cl.Pos())))
				}
			})
		}
		sort.Strings(bad)
		switch {
		case n == 0:
			c.Bad(rule, key, "", "reason=anchor-missing: WriteReport* calls on a ReportWriter in the fractal package")
		case len(bad) > 0:
			c.Bad(rule, key, "", "a report is written through a ReportWriter that is not read from RemoteSuperior.writer at the time of the call ("+strings.Join(bad, "; ")+"): after a reconnect installs a new writer, reports still go to the dead connection")
		default:
			c.OK(rule, key, "", fmt.Sprintf("%d WriteReport* calls, each on rs.writer read at call time", n))
		}
	}
	if f := c.MustFn(rule, "fractal", "(*LocalSuperior).onTypeMsg"); f != nil {
		key := "onTypeMsg:collector-id-and-message-preserved"
		ok := false
		for _, a := range fieldAccesses(f) {
			if a.Kind == "store" && a.Field == "CollectorID" && backSlice(a.In.(*ssa.Store).Val).hasParam(f, "cid") {
				ok = true
			}
		}
		ok2 := false
		for _, a := range fieldAccesses(f) {
			if a.Kind == "store" && a.Field == "Msg" && backSlice(a.In.(*ssa.Store).Val).hasParam(f, "resp") {
				ok2 = true
			}
		}
		if ok && ok2 {
			c.OK(rule, key, c.Pos(f.Pos()), "CollectorMsg{CollectorID: cid, Msg: resp}")
		} else {
			c.Bad(rule, key, c.Pos(f.Pos()), "the delivered CollectorMsg does not carry the reporting collector's id and the unmodified report")
		}
	}
	if f := c.MustFn(rule, "fractal", "(*baseSuperior).Send"); f != nil {
		key := "Send:only-the-target"
		ok := false
		for _, sr := range callsIn(f, "(*"+pkgFractal+".baseSuperior).sendRequest") {
			cs := backSlice(sr.Call.Args[2])
			for v := range cs.vals {
				if lk, isL := v.(*ssa.Lookup); isL && backSlice(lk.Index).hasParam(f, "cid") && backSlice(lk.X).hasField(pkgFractal+".baseSuperior", "collectors") {
					ok = true
				}
			}
		}
		loops := false
		allInstrs(f, func(in ssa.Instruction) {
			if _, isR := in.(*ssa.Range); isR {
				loops = true
			}
		})
		if ok && !loops {
			c.OK(rule, key, c.Pos(f.Pos()), "request goes to collectors[cid] only")
		} else {
			c.Bad(rule, key, c.Pos(f.Pos()), "a targeted task is not sent to exactly the collector looked up by the target id")
		}
	}
	if f := c.MustFn(rule, "fractal", "(*baseSuperior).Broadcast"); f != nil {
		key := "Broadcast:every-subscribed-collector"
		ok := false
		allInstrs(f, func(in ssa.Instruction) {
			if r, isR := in.(*ssa.Range); isR && backSlice(r.X).hasField(pkgFractal+".baseSuperior", "collectors") {
				ok = true
			}
		})
		held := false
		allInstrs(f, func(in ssa.Instruction) {
			if _, isR := in.(*ssa.Range); isR {
				for k := range (func() lockset {
					return lockset{}
				})() {
					_ = k
				}
			}
		})
		_ = held
		if ok {
			c.OK(rule, key, c.Pos(f.Pos()), "ranges over base.collectors")
		} else {
			c.Bad(rule, key, c.Pos(f.Pos()), "Broadcast does not iterate the subscribed collectors")
		}
	}
	// a late subscriber gets the current task replayed to itself only
	for _, name := range []string{"(*LocalSuperior).Subscribe", "(*RemoteSuperior).Subscribe"} {
		f := c.MustFn(rule, "fractal", name)
		if f == nil {
			continue
		}
		key := strings.NewReplacer("(", "", "*", "", ")", "").Replace(name) + ":replay-only-to-the-new-subscriber"
		bc := 0
		okSend := false
		allInstrs(f, func(in ssa.Instruction) {
			cl, ok := in.(*ssa.Call)
			if !ok {
				return
			}
			if callName(cl) == "Broadcast" {
				bc++
			}
			if callName(cl) == "Send" {
				args := callArgs(cl)
				if len(args) >= 2 {
					for x := range backSlice(args[1]).vals {
						if idc, isC := x.(*ssa.Call); isC && idc.Call.IsInvoke() && idc.Call.Method.Name() == "ID" && backSlice(idc.Call.Value).hasParam(f, "c") {
							okSend = true
						}
					}
				}
			}
		})
		// the current task is read after the collector is registered (otherwise a task switch between the
		// read and the registration is lost for this collector)
		{
			var reg ssa.Instruction
			allInstrs(f, func(in ssa.Instruction) {
				if cl, ok := in.(*ssa.Call); ok && isCall(cl, "(*"+pkgFractal+".baseSuperior).Subscribe") {
					reg = cl
				}
			})
			stale := false
			for _, a := range fieldAccesses(f) {
				if a.Kind == "load" && a.Field == "latestTask" && reg != nil && !reach(f, reg, nil, nil)(a.In) {
					stale = true
				}
			}
			okey := strings.NewReplacer("(", "", "*", "", ")", "").Replace(name) + ":task-read-after-registration"
			if reg == nil {
				c.Bad(rule, okey, c.Pos(f.Pos()), "reason=anchor-missing: baseSuperior.Subscribe call")
			} else if stale {
				c.Bad(rule, okey, c.Pos(f.Pos()), "latestTask is read before the collector is registered: a collector that joins during a task switch is handed the task that was just removed and never receives the new one")
			} else {
				c.OK(rule, okey, c.Pos(reg.Pos()), "latestTask is loaded after baseSuperior.Subscribe")
			}
		}
		switch {
		case bc > 0:
			c.Bad(rule, key, c.Pos(f.Pos()), "subscribing a collector re-broadcasts the current task to every collector already subscribed: each of them receives the task a second time and restarts its lookup")
		case !okSend:
			c.Bad(rule, key, c.Pos(f.Pos()), "the current task is not replayed to the subscribing collector (Send(ctx, c.ID(), task))")
		default:
			c.OK(rule, key, c.Pos(f.Pos()), "Send(ctx, c.ID(), latestTask): only the new subscriber")
		}
	}
	// reports of one connection are handed over in order: the hand-over to the task channel happens in
	// the reporting goroutine itself (no goroutine is spawned per report)
	if f := c.MustFn(rule, "fractal", "(*LocalSuperior).submitCollectorMsg"); f != nil {
		key := "submitCollectorMsg:hand-over-in-the-reporting-goroutine"
		spawns := false
		for _, g := range withClosures(f) {
			allInstrs(g, func(in ssa.Instruction) {
				if _, ok := in.(*ssa.Go); ok {
					spawns = true
				}
			})
		}
		if spawns {
			c.Bad(rule, key, c.Pos(f.Pos()), "a report can be handed to its task channel by a goroutine spawned for it: when the waiter is behind, later reports overtake earlier ones (order per connection is lost) and the caller no longer sees the error")
		} else {
			c.OK(rule, key, c.Pos(f.Pos()), "no goroutine is started on the report path")
		}
	}
	_ = token.ADD
}

// checkCtxPassThrough: a function that is handed a context passes that context (or one derived from
// it) to every context-taking call it makes — not a longer-lived context held in a struct field.
// Otherwise cancelling the caller (stopping a collector, dropping a connection) does not release
// the blocking call and stop is not prompt.
func checkCtxPassThrough(c *Ctx, fns []*ssa.Function) {
	rule := "C17-CTX"
	isCtx := func(t types.Type) bool { return t != nil && t.String() == "context.Context" }
	for _, fn := range fns {
		root := lexicalOutermost(fn)
		var ctxParam *ssa.Parameter
		for _, p := range root.Params {
			if isCtx(p.Type()) {
				ctxParam = p
				break
			}
		}
		if ctxParam == nil {
			continue
		}
		ord := 0
		allInstrsShallow(fn, func(in ssa.Instruction) {
			ci, ok := in.(ssa.CallInstruction)
			if !ok {
				return
			}
			if _, isGo := in.(*ssa.Go); isGo {
				return
			}
			for _, a := range ci.Common().Args {
				if !isCtx(a.Type()) {
					continue
				}
				ord++
				key := fmt.Sprintf("%s:ctx-arg#%d", FuncName(fn), ord)
				sl := backSlice(a)
				if sl.has(ctxParam) {
					c.OK(rule, key, c.Pos(in.Pos()), "passes its own context parameter")
					continue
				}
				// a field context instead of the parameter
				fromField := false
				for v := range sl.vals {
					if _, f, _, ok := fieldOfAddr(v); ok && strings.Contains(strings.ToLower(f), "ctx") {
						fromField = true
					}
				}
				if fromField {
					c.Bad(rule, key, c.Pos(in.Pos()), "the call is bounded by a context held in a struct field although the function was handed a context by its caller: cancelling the caller (collector stop, connection loss) does not release this call, so stopping does not return promptly and later reports queue behind it")
				} else {
					c.OK(rule, key, c.Pos(in.Pos()), "context not taken from a longer-lived field")
				}
			}
		})
	}
}

// checkFrameOwnership: every frame handed to the receive queue owns its buffer: the slice sent is
// allocated afresh between two consecutive sends (no reuse of the previous frame's backing array).
func checkFrameOwnership(c *Ctx) {
	rule := "C17-OWN"
	f := c.MustFn(rule, "fractal/connection", "(*Conn).receiveRoutine")
	if f == nil {
		return
	}
	key := "receiveRoutine:frame-buffer-not-reused"
	n := 0
	bad := ""
	// the receive loop may have been moved into a phase helper the reference tree does not have (a shell
	// that keeps the defers and a loop function): the rule follows the send
	allInstrsNew(f, func(in ssa.Instruction) {
		var ch ssa.Value
		switch x := in.(type) {
		case *ssa.Send:
			ch = x.Chan
		case *ssa.Select:
			for _, st := range x.States {
				if st.Dir == types.SendOnly {
					ch = st.Chan
				}
			}
		}
		if ch != nil && in.Parent() != f && strings.HasSuffix(chanOrigin(in.Parent(), ch), ".recvCh") {
			f = hostFn(f, in)
		}
	})
	check := func(in ssa.Instruction, ch, val ssa.Value) {
		if !strings.HasSuffix(chanOrigin(f, ch), ".recvCh") {
			return
		}
		n++
		var makes []*ssa.MakeSlice
		var allocCalls []*ssa.Call
		other := false
		seen := map[ssa.Value]bool{}
		var rec func(v ssa.Value)
		rec = func(v ssa.Value) {
			if seen[v] {
				return
			}
			seen[v] = true
			switch x := v.(type) {
			case *ssa.MakeSlice:
				makes = append(makes, x)
			case *ssa.Slice:
				rec(x.X)
			case *ssa.Phi:
				for _, e := range x.Edges {
					rec(e)
				}
			case *ssa.UnOp:
				valueOrigins(f, x, func(r ssa.Value) {
					if r != ssa.Value(x) {
						rec(r)
					} else {
						other = true
					}
				})
			case *ssa.Const:
				if !x.IsNil() {
					other = true
				}
			case *ssa.Extract:
				// the frame is read by a helper the reference tree does not have: every value it can hand
				// back in this position is nil or a buffer it makes itself, and the helper is called afresh
				// for every frame (its call is the allocation point in the caller)
				cl, isCall := x.Tuple.(*ssa.Call)
				if !isCall || cl.Call.StaticCallee() == nil || !gNewFuncs[cl.Call.StaticCallee()] || cl.Parent() != f {
					other = true
					return
				}
				h := cl.Call.StaticCallee()
				for _, ret := range returnsOf(h) {
					if x.Index < len(ret.Results) {
						rv := ret.Results[x.Index]
						// named results are spilled to cells: resolve within the helper
						valueOrigins(h, rv, func(r ssa.Value) {
							switch y := r.(type) {
							case *ssa.MakeSlice:
								if y.Parent() != h {
									other = true
								}
							case *ssa.Const:
								if !y.IsNil() {
									other = true
								}
							default:
								other = true
							}
						})
					}
				}
				allocCalls = append(allocCalls, cl)
			default:
				other = true
			}
		}
		rec(val)
		if other || len(makes)+len(allocCalls) == 0 {
			bad = "the frame handed to the receive queue is not a freshly made buffer"
			return
		}
		// from this send round to the next the allocation must be passed again
		again := reach(f, in, nil, func(i2 ssa.Instruction) bool {
			for _, m := range makes {
				if i2 == ssa.Instruction(m) {
					return true
				}
			}
			for _, m := range allocCalls {
				if i2 == ssa.Instruction(m) {
					return true
				}
			}
			return false
		})(in)
		if again || len(makes)+len(allocCalls) > 1 {
			bad = "the buffer of a frame already handed to the receive queue can be reused for the next frame: a queued report is overwritten before it is decoded (reports delivered modified or lost)"
		}
	}
	allInstrs(f, func(in ssa.Instruction) {
		switch x := in.(type) {
		case *ssa.Send:
			check(in, x.Chan, x.X)
		case *ssa.Select:
			for _, st := range x.States {
				if st.Dir == types.SendOnly {
					check(in, st.Chan, st.Send)
				}
			}
		}
	})
	if n == 0 {
		c.Bad(rule, key, c.Pos(f.Pos()), "reason=anchor-missing: no send on recvCh")
	} else if bad != "" {
		c.Bad(rule, key, c.Pos(f.Pos()), bad)
	} else {
		c.OK(rule, key, c.Pos(f.Pos()), "the slice sent on recvCh is made afresh in every round")
	}
}

// checkLatestTaskGuard (C17-LATEST): the "current broadcast task" of a superior is written by the task
// source (AddTask / the relay's request processor), cleared by RemoveTask and read by every subscribing
// collector's goroutine. It is an interface value (two words): all accesses must hold one common lock,
// otherwise a subscriber can read a torn value (panic) and — because registration and the read are not
// one critical section with the write and the broadcast — receive the task twice (once from the replay
// in Subscribe, once from the broadcast) or see a task that was just removed. Decided per superior type:
// the lock class held at most accesses is the guard; every access outside it is reported.
func checkLatestTaskGuard(c *Ctx, fns []*ssa.Function, li *lockInfo) {
	rule := "C17-LATEST"
	type acc struct {
		a  fieldAccess
		fn *ssa.Function
	}
	byType := map[string][]acc{}
	for _, fn := range fns {
		for _, a := range fieldAccessesShallow(fn) {
			if a.Field != "latestTask" || !strings.HasPrefix(a.Type, pkgFractal+".") {
				continue
			}
			if a.Kind != "load" && a.Kind != "store" {
				continue
			}
			if isFreshObject(strip(a.Base)) {
				continue
			}
			byType[a.Type] = append(byType[a.Type], acc{a, fn})
		}
	}
	if len(byType) == 0 {
		c.Bad(rule, "anchor", "", "reason=anchor-missing: no access to a latestTask field in package fractal")
		return
	}
	var types []string
	for t := range byType {
		types = append(types, t)
	}
	sort.Strings(types)
	for _, t := range types {
		accs := byType[t]
		cover := map[string]int{}
		for _, x := range accs {
			seen := map[string]bool{}
			for k := range li.at[x.a.In] {
				if !seen[k.Class] {
					seen[k.Class] = true
					cover[k.Class]++
				}
			}
		}
		guard, best := "", 0
		var classes []string
		for cl := range cover {
			classes = append(classes, cl)
		}
		sort.Strings(classes)
		for _, cl := range classes {
			if cover[cl] > best {
				guard, best = cl, cover[cl]
			}
		}
		ord := map[string]int{}
		for _, x := range accs {
			base := FuncName(x.fn) + ":" + shortType(t) + ".latestTask:" + x.a.Kind
			ord[base]++
			key := fmt.Sprintf("%s#%d", base, ord[base])
			held := false
			for k := range li.at[x.a.In] {
				if guard != "" && k.Class == guard && (x.a.Kind == "load" || k.Mode == 'W') {
					held = true
				}
			}
			if held {
				c.OK(rule, key, c.Pos(x.a.In.Pos()), "accessed with "+shortType(guard)+" held")
				continue
			}
			g := "no lock guards it anywhere"
			if guard != "" {
				g = "its other accesses hold " + shortType(guard)
			}
			c.Bad(rule, key, c.Pos(x.a.In.Pos()), "the current broadcast task ("+shortType(t)+".latestTask, an interface value) is "+map[string]string{"load": "read", "store": "written"}[x.a.Kind]+" here with lockset "+li.at[x.a.In].String()+" while other goroutines write/read it ("+g+"): a collector that subscribes while a task is added or removed reads it unsynchronised — a torn read panics, and registration+replay are not atomic with write+broadcast, so the collector can receive the same task twice")
		}
	}
}
