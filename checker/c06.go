package main

// C06 — plot keys issued once with stable ordinals (structure)
// C05 — signatures verify under the requested key (bindings)

import (
	"fmt"
	"go/token"
	"go/types"
	"os"
	"strings"

	"golang.org/x/tools/go/ssa"
)

func init() {
	register("C06", checkC06)
	register("C05", checkC05)
}

const tManagedAddr = pkgKeystore + ".ManagedAddress"
const tDerivPath = pkgKeystore + ".DerivationPath"

func keystoreLocksets(c *Ctx) *lockInfo {
	scope := map[*ssa.Function]bool{}
	for fn := range c.AllFuncs {
		if pkgOf(fn) == pkgKeystore {
			scope[fn] = true
		}
	}
	return computeLocksets(c, scope, map[string]bool{tAddrMgr + ".mu": true}, func(fn *ssa.Function) bool { return isExportedFunc(fn) })
}

func holds(li *lockInfo, in ssa.Instruction, class string) bool {
	for k := range li.at[in] {
		if k.Class == class {
			return true
		}
	}
	return false
}

// inlineCounterRead: the body of getChildNum written out at its call site.
type inlineCounterRead struct {
	get        *ssa.Call // am.Get(key)
	value      ssa.Value // binary.LittleEndian.Uint32(result)
	polarityOK bool      // the key is the internal child-number name exactly on the `internal` edge
}

func findInlineCounterRead(f *ssa.Function) *inlineCounterRead {
	var out *inlineCounterRead
	allInstrsNew(f, func(in ssa.Instruction) {
		cl, m, ok := bucketInvoke(in)
		if !ok || m != "Get" || len(cl.Call.Args) != 1 {
			return
		}
		ks := backSlice(cl.Call.Args[0])
		if !ks.hasGlobal(pkgKeystore, "internalChildNumName") || !ks.hasGlobal(pkgKeystore, "externalChildNumName") {
			return
		}
		r := &inlineCounterRead{get: cl}
		// the decoded value
		res := resultOf(cl, 0)
		allInstrsNew(f, func(i2 ssa.Instruction) {
			c2, isC := i2.(*ssa.Call)
			if !isC || !strings.HasSuffix(calleeID(c2), "littleEndian).Uint32") {
				return
			}
			if res != nil && backSlice(callArgs(c2)[0]).has(res) {
				r.value = c2
			}
		})
		// polarity: the store/phi edge that selects the internal name lies behind the true edge of a test
		// of parameter `internal`, the external name behind its false edge
		var tests []boolTest
		for _, p := range f.Params {
			if p.Name() == "internal" {
				tests = append(tests, boolTestsOf(f, p)...)
			}
		}
		okIn, okEx := false, false
		seen := map[string]bool{}
		valueOrigins(f, cl.Call.Args[0], func(root ssa.Value) {
			_ = root
		})
		// where each name is chosen: a Store into the key cell, or the predecessor block of a phi edge
		chosenAt := func(name string) []*ssa.BasicBlock {
			var out []*ssa.BasicBlock
			for v := range ks.vals {
				switch x := v.(type) {
				case *ssa.Phi:
					for i, e := range x.Edges {
						if backSlice(e).hasGlobal(pkgKeystore, name) && !seen[name+fmt.Sprint(i)+x.Name()] {
							out = append(out, x.Block().Preds[i])
						}
					}
				}
			}
			allInstrsShallow(cl.Parent(), func(i3 ssa.Instruction) {
				if st, isSt := i3.(*ssa.Store); isSt {
					if u, isU := st.Val.(*ssa.UnOp); isU {
						if g, isG := u.X.(*ssa.Global); isG && g.Name() == name && ks.has(st.Val) {
							out = append(out, st.Block())
						}
					}
				}
			})
			return out
		}
		for _, t := range tests {
			for _, b := range chosenAt("internalChildNumName") {
				if t.TrueSucc == b || t.TrueSucc.Dominates(b) {
					okIn = true
				}
			}
			for _, b := range chosenAt("externalChildNumName") {
				if t.FalseSucc == b || t.FalseSucc.Dominates(b) {
					okEx = true
				}
				// default-then-override: the external name chosen before the test, overridden on the true edge
				if b.Dominates(t.If.Block()) {
					okEx = true
				}
			}
		}
		r.polarityOK = okIn && okEx
		if r.value != nil {
			out = r
		}
	})
	return out
}

func checkC06(c *Ctx) Meta {
	// a key is found again under the address it was stored under: both sides serialise the key at fixed
	// width (the C18 width rules over the keystore and hdkeychain packages as premises)
	c.pushAlias("C18-", "C06-HD-")
	checkC18(c)
	c.popAlias()
	// issued ordinals survive a restart: the store's own rules (C19: bucket paths, depth, prefixes — a read-only
	// bucket that cannot see its sub-buckets reloads a keystore without its keys) and the wallet's transaction
	// and error discipline (C12: a keystore that fails to load fails the wallet, it is not skipped) as premises
	c.pushAlias("C19-", "C06-LDB-")
	checkC19(c)
	c.popAlias()
	c.pushAlias("C12-", "C06-TX-")
	checkC12(c)
	c.popAlias()
	c.Rule("C06-RMW", "in nextAddresses the counter read, the derivation, the counter advance and the key persist form one read-modify-write: a.mu held throughout, getChildNum dominates updateChildNum on the same bucket and branch polarity, the value written is the value read plus unit increments only, each persisted key is stored under the (branch, index) of the very address it belongs to", 5)
	c.Rule("C06-ORDINAL", "the ordinal returned with a new plot key is the persisted index of that same key; a later ordinal lookup returns the index of the entry found under the address derived from the argument", 2)
	c.Rule("C06-LOCK", "issuance and lookup run under the manager lock and inside one db.Update", 3)
	c.Rule("C06-KEEPER", "the keeper names a new plot from both results of one GenerateNewPublicKey call", 1)
	c.Rule("C06-FOUND", "a plot key handed out can be looked up: GenerateNewPublicKey reports success only behind the success edge of the step that enters the new key into the address index (updateManagedAddress), so GetPublicKeyOrdinal and signing find it at once; the keeper compares a file's ordinal with the wallet's ordinal exactly (no narrowing conversion)", 2)
	c.Rule("C06-TXRUN", "an ordinal that is handed out was committed: db.Update returns the error of BeginTx, of the body and of Commit on every path and reports success only after tx.Commit — otherwise the same key and ordinal are issued again by the next request", 5)
	checkTxRunner(c, "C06-TXRUN")
	checkC06Found(c)
	c.Rule("C06-BRANCH", "the external (plot-key) counter and the internal counter never cross: every consumer of a counter (struct field, putLastIndex/updateChildNum argument, exported hdPath) receives only values produced for the same branch (fetchChildNum result, getChildNum flag, field), producers and consumers being labelled from the DB key they read or write", 10)
	checkBranchPolarity(c, "C06-BRANCH")
	// what the loader installs is what was stored under that name (C02-PROV): a reloaded keystore whose
	// two branch keys or counters are exchanged issues, while locked, plot keys from the change branch
	c.Rule("C06-PROV", "the loader installs what it read: counters and branch keys of a reloaded keystore come from the records of their own branch (the C02 loader rule, here as the premise of 'the external and the internal branch never cross' for keys issued after a restart or an import)", 10)
	c.pushAlias("C02-PROV", "C06-PROV")
	c02Prov(c)
	c.popAlias()
	checkKeyConstantsDistinct(c, "C06-BRANCH")
	checkImportLoopPolarity(c, "C06-BRANCH")
	checkCountersFinal(c, "C06-BRANCH")

	li := keystoreLocksets(c)
	if f := c.MustFn("C06-RMW", "poc/wallet/keystore", "(*AddrManager).nextAddresses"); f != nil {
		gets := callsIn(f, pkgKeystore+".getChildNum")
		upds := callsIn(f, pkgKeystore+".updateChildNum")
		// the counter read written out in place (getChildNum folded into its only caller): a Get on the
		// bucket under the child-number key chosen by `internal`, decoded with Uint32
		var inl *inlineCounterRead
		if len(gets) == 0 && len(upds) == 1 {
			inl = findInlineCounterRead(f)
		}
		if (len(gets) != 1 && inl == nil) || len(upds) != 1 {
			c.Bad("C06-RMW", "nextAddresses:anchor", c.Pos(f.Pos()), "reason=anchor-missing: getChildNum/updateChildNum calls")
		} else if inl != nil {
			u := upds[0]
			if holds(li, inl.get, tAddrMgr+".mu") && holds(li, u, tAddrMgr+".mu") && !unlockBetween(f, inl.get, u) {
				c.OK("C06-RMW", "nextAddresses:lock-held-across-read-and-write", c.Pos(inl.get.Pos()), "a.mu held at the counter read and at the counter write, no unlock in between")
			} else {
				c.Bad("C06-RMW", "nextAddresses:lock-held-across-read-and-write", c.Pos(inl.get.Pos()), "the address-manager lock is not held from the counter read to the counter write: two issuers can read the same counter")
			}
			if instrDominates(inl.get, u) && sameOriginValue(f, inl.get.Call.Value, u.Call.Args[0]) && inl.polarityOK && backSlice(u.Call.Args[1]).hasParam(f, "internal") {
				c.OK("C06-RMW", "nextAddresses:read-before-write-same-counter", c.Pos(u.Pos()), "am.Get(<child-number key of `internal`>) dominates updateChildNum(am, internal, …)")
			} else {
				c.Bad("C06-RMW", "nextAddresses:read-before-write-same-counter", c.Pos(u.Pos()), "the counter written is not the counter that was read (different bucket or branch polarity, or written before read)")
			}
			sl := backSlice(u.Call.Args[2])
			badOp := ""
			for x := range sl.vals {
				if bo, ok := x.(*ssa.BinOp); ok {
					switch bo.Op {
					case token.ADD:
						if k, isK := bo.Y.(*ssa.Const); !isK || k.Value == nil || k.Value.ExactString() != "1" {
							badOp = "an addition other than +1"
						}
					case token.SUB, token.MUL, token.QUO, token.REM, token.SHL, token.SHR, token.AND, token.OR, token.XOR:
						badOp = "operator " + bo.Op.String()
					}
				}
				if phi, ok := x.(*ssa.Phi); ok {
					for _, e := range phi.Edges {
						if _, isK := e.(*ssa.Const); isK {
							badOp = "a constant restart value"
						}
					}
				}
			}
			if sl.has(inl.value) && badOp == "" {
				c.OK("C06-RMW", "nextAddresses:written-is-read-plus-unit-steps", c.Pos(u.Pos()), "the counter written derives from the counter read through +1 steps only")
			} else {
				c.Bad("C06-RMW", "nextAddresses:written-is-read-plus-unit-steps", c.Pos(u.Pos()), "the counter written is not the counter read advanced by unit steps ("+badOp+"): indices would be reused or skipped")
			}
			checkIndexRecording(c, f, "C06-RMW", "nextAddresses")
		} else {
			g, u := gets[0], upds[0]
			// lock
			if holds(li, g, tAddrMgr+".mu") && holds(li, u, tAddrMgr+".mu") && !unlockBetween(f, g, u) {
				c.OK("C06-RMW", "nextAddresses:lock-held-across-read-and-write", c.Pos(g.Pos()), "a.mu held at the counter read and at the counter write, no unlock in between")
			} else {
				c.Bad("C06-RMW", "nextAddresses:lock-held-across-read-and-write", c.Pos(g.Pos()), "the address-manager lock is not held from the counter read to the counter write: two issuers can read the same counter")
			}
			// order, same bucket, same polarity
			okOrd := instrDominates(g, u) && sameOriginValue(f, g.Call.Args[0], u.Call.Args[0]) && sameOriginValue(f, g.Call.Args[1], u.Call.Args[1]) && backSlice(g.Call.Args[1]).hasParam(f, "internal")
			if okOrd {
				c.OK("C06-RMW", "nextAddresses:read-before-write-same-counter", c.Pos(u.Pos()), "getChildNum(am, internal) dominates updateChildNum(am, internal, …)")
			} else {
				c.Bad("C06-RMW", "nextAddresses:read-before-write-same-counter", c.Pos(u.Pos()), "the counter written is not the counter that was read (different bucket or branch polarity, or written before read)")
			}
			// value = read + unit increments
			v := u.Call.Args[2]
			sl := backSlice(v)
			okVal := sl.has(resultOf(g, 0))
			badOp := ""
			for x := range sl.vals {
				bo, ok := x.(*ssa.BinOp)
				if !ok {
					continue
				}
				switch bo.Op {
				case token.ADD:
					if k, isK := bo.Y.(*ssa.Const); !isK || k.Value == nil || k.Value.ExactString() != "1" {
						badOp = "an addition other than +1"
					}
				case token.SUB, token.MUL, token.QUO, token.REM, token.SHL, token.SHR, token.AND, token.OR, token.XOR:
					badOp = "operator " + bo.Op.String()
				}
			}
			// no constant / foreign starting value
			for x := range sl.vals {
				if phi, ok := x.(*ssa.Phi); ok {
					for _, e := range phi.Edges {
						if _, isK := e.(*ssa.Const); isK {
							badOp = "a constant restart value"
							if os.Getenv("VERIF_DEBUG") != "" {
								fmt.Printf("DEBUG const phi %s in %s at %s: %v\n", phi.Name(), phi.Parent().Name(), c.Pos(phi.Pos()), phi.String())
							}
						}
					}
				}
			}
			if okVal && badOp == "" {
				c.OK("C06-RMW", "nextAddresses:written-is-read-plus-unit-steps", c.Pos(u.Pos()), "the counter written derives from the counter read through +1 steps only")
			} else {
				c.Bad("C06-RMW", "nextAddresses:written-is-read-plus-unit-steps", c.Pos(u.Pos()), "the counter written is not the counter read advanced by unit steps ("+badOp+"): indices would be reused or skipped")
			}
			// derivation uses the counter value and records it
			checkIndexRecording(c, f, "C06-RMW", "nextAddresses")
		}
		checkPersistOwnPath(c, f, "C06-RMW")
	}
	if f := c.MustFn("C06-ORDINAL", "poc/wallet/keystore", "(*KeystoreManagerForPoC).GenerateNewPublicKey"); f != nil {
		// returned (pubkey, index) derive from the same managed address, which comes from nextAddresses(false, 1)
		key := "GenerateNewPublicKey:ordinal-is-index-of-returned-key"
		ok := false
		why := "the ordinal returned is not derivationPath.Index of the address whose key is returned"
		for _, r := range returnsOf(f) {
			if isNilConst(strip(r.Results[0])) {
				continue
			}
			ps, is := backSlice(r.Results[0]), backSlice(r.Results[1])
			if ps.hasField(tManagedAddr, "pubKey") && is.hasField(tDerivPath, "Index") && is.hasField(tManagedAddr, "derivationPath") {
				// same element
				for v := range ps.vals {
					if ld, isL := v.(*ssa.UnOp); isL {
						if _, isIdx := ld.X.(*ssa.IndexAddr); isIdx && is.has(ld) {
							ok = true
						}
					}
				}
			}
		}
		// the issuing call may sit in an unexported helper of the package (bounded inlining, summary.go)
		var na *ssa.Call
		body := bodyFns(f, exceptExported)
		nas := callsInBody(f, "(*"+tAddrMgr+").nextAddresses")
		if len(nas) > 0 {
			na = nas[len(nas)-1]
		}
		if na == nil {
			ok, why = false, "nextAddresses is not called"
		} else if len(nas) > 1 {
			ok, why = false, "more than one issuing call per request"
		} else {
			if k := constThrough(na.Call.Args[2], body); k == nil || k.Value == nil || k.Value.String() != "false" {
				ok, why = false, "plot keys are not issued on the external branch"
			}
			if k := constThrough(na.Call.Args[3], body); k == nil || k.Value == nil || k.Value.ExactString() != "1" {
				ok, why = false, "more or fewer than one key is issued per request"
			}
		}
		if ok {
			c.OK("C06-ORDINAL", key, c.Pos(f.Pos()), "returns (managedAddr.pubKey, managedAddr.derivationPath.Index) of the one address issued by nextAddresses(external, 1)")
		} else {
			c.Bad("C06-ORDINAL", key, c.Pos(f.Pos()), why)
		}
		// the keystore the key is filed under is the keystore that issued it: the receiver of the index
		// refresh (updateManagedAddress) comes from the very selection (map lookup, range step, call of a
		// selecting helper) the receiver of nextAddresses comes from — a second selection over the keystore
		// map may pick another keystore (map iteration order), and the key is then unknown to its owner
		{
			key2 := "GenerateNewPublicKey:key-filed-under-the-issuing-keystore"
			ums := callsInBody(f, "(*"+tAddrMgr+").updateManagedAddress")
			selOf := func(v ssa.Value) map[ssa.Value]bool {
				out := map[ssa.Value]bool{}
				for x := range backSlice(v).vals {
					switch y := x.(type) {
					case *ssa.Lookup:
						if backSlice(y.X).hasField(tKMC, "managedKeystores") {
							out[x] = true
						}
					case *ssa.Next:
						if rg, isR := y.Iter.(*ssa.Range); isR && backSlice(rg.X).hasField(tKMC, "managedKeystores") {
							out[x] = true
						}
					case *ssa.Call:
						if h := y.Call.StaticCallee(); h != nil && gNewFuncs[h] {
							out[x] = true
						}
					}
				}
				return out
			}
			if na == nil || len(ums) == 0 {
				c.Bad("C06-FOUND", key2, c.Pos(f.Pos()), "reason=anchor-missing: nextAddresses / updateManagedAddress calls")
			} else {
				sn := selOf(callRecv(na))
				okSame := len(sn) > 0
				for _, u := range ums {
					for x := range selOf(callRecv(u)) {
						if !sn[x] {
							okSame = false
						}
					}
				}
				if okSame {
					c.OK("C06-FOUND", key2, c.Pos(ums[0].Pos()), "nextAddresses and updateManagedAddress are called on the keystore of one and the same selection")
				} else {
					c.Bad("C06-FOUND", key2, c.Pos(ums[0].Pos()), "the new key is entered into the address index of a keystore selected separately from the one that issued it: with two keystores the selections can differ (map order), GetPublicKeyOrdinal and signing then do not find the key under its owner")
				}
			}
		}
		// lock + single Update
		var upd *ssa.Call
		var updClosure *ssa.Function
		for _, s := range txSitesBody(f) {
			if s.Write {
				upd = s.Call
				updClosure = s.Closure
			}
		}
		if upd != nil && holds(li, upd, tKMC+".mu") {
			c.OK("C06-LOCK", "GenerateNewPublicKey:under-manager-lock", c.Pos(upd.Pos()), "db.Update runs with kmc.mu held")
		} else {
			c.Bad("C06-LOCK", "GenerateNewPublicKey:under-manager-lock", c.Pos(f.Pos()), "plot keys are issued without the manager lock: concurrent requests interleave with keystore changes")
		}
		inUpd := false
		if na != nil && updClosure != nil {
			for _, g := range bodyFns(updClosure, exceptExported) {
				if na.Parent() == g {
					inUpd = true
				}
			}
		}
		if na != nil && upd != nil && inUpd {
			c.OK("C06-LOCK", "GenerateNewPublicKey:issuance-inside-update", c.Pos(na.Pos()), "nextAddresses runs inside the db.Update closure")
		} else {
			c.Bad("C06-LOCK", "GenerateNewPublicKey:issuance-inside-update", c.Pos(f.Pos()), "the counter read and advance are not inside one db.Update")
		}
	}
	if f := c.MustFn("C06-ORDINAL", "poc/wallet/keystore", "(*KeystoreManagerForPoC).GetPublicKeyOrdinal"); f != nil {
		key := "GetPublicKeyOrdinal:index-of-entry-under-own-address"
		ok := false
		for _, r := range returnsOf(f) {
			// results may be spilled to cells because of the deferred unlock: look at the origins
			isTrue := false
			valueOrigins(f, r.Results[1], func(root ssa.Value) {
				if k, isK := strip(root).(*ssa.Const); isK && k.Value != nil && k.Value.String() == "true" {
					isTrue = true
				}
			})
			if !isTrue {
				continue
			}
			is := backSlice(r.Results[0])
			if !is.hasField(tDerivPath, "Index") {
				continue
			}
			for v := range is.vals {
				if lk, isL := v.(*ssa.Lookup); isL {
					ks := backSlice(lk.Index)
					if ks.hasCallTo(pkgKeystore+".newPoCAddress") && ks.hasParam(f, "pubKey") && backSlice(lk.X).hasField(tAddrMgr, "addrs") {
						ok = true
					}
				}
			}
		}
		if ok {
			c.OK("C06-ORDINAL", key, c.Pos(f.Pos()), "returns addrs[address(pubKey)].derivationPath.Index")
		} else {
			c.Bad("C06-ORDINAL", key, c.Pos(f.Pos()), "the ordinal looked up is not the index of the entry stored under the address of the requested key")
		}
		held := true
		for _, a := range fieldAccesses(f) {
			if a.Field == "managedKeystores" && !holds(li, a.In, tKMC+".mu") {
				held = false
			}
		}
		if held {
			c.OK("C06-LOCK", "GetPublicKeyOrdinal:under-manager-lock", c.Pos(f.Pos()), "lookup under kmc.mu")
		} else {
			c.Bad("C06-LOCK", "GetPublicKeyOrdinal:under-manager-lock", c.Pos(f.Pos()), "ordinal lookup reads the keystore map without the manager lock")
		}
	}
	if f := c.MustFn("C06-KEEPER", "poc/engine/spacekeeper/capacity", "(*SpaceKeeper).generateNewWorkSpaceByPath"); f != nil {
		key := "generateNewWorkSpaceByPath:name-from-one-issuance"
		var gen *ssa.Call
		allInstrs(f, func(in ssa.Instruction) {
			if cl, ok := in.(*ssa.Call); ok && callName(cl) == "GenerateNewPublicKey" {
				gen = cl
			}
		})
		nw := callsIn(f, pkgCapacity+".NewWorkSpace")
		if gen != nil && len(nw) == 1 && backSlice(nw[0].Call.Args[2]).has(resultOf(gen, 1)) && backSlice(nw[0].Call.Args[3]).has(resultOf(gen, 0)) && !backSlice(nw[0].Call.Args[2]).has(resultOf(gen, 0)) {
			c.OK("C06-KEEPER", key, c.Pos(nw[0].Pos()), "NewWorkSpace(ordinal, pubKey) are results #1 and #0 of the same GenerateNewPublicKey call")
		} else {
			c.Bad("C06-KEEPER", key, c.Pos(f.Pos()), "a new plot is not named from the (ordinal, key) pair of one issuance")
		}
	}
	// the lock discipline of the wallet (C14) is a premise of "concurrent requests get distinct keys and
	// a later lookup finds them": run under this property's name
	c.pushAlias("C14-", "C06-LOCK-")
	checkC14(c)
	c.popAlias()

	return Meta{
		Explanation: "Structural conditions for once-only issuance with stable ordinals: the read-modify-write of the child counter under the address-manager lock with unit steps, persistence of each key under its own (branch, index), identity of the returned ordinal with the persisted index of the returned key, the manager lock and the single transaction around issuance, and the keeper naming new plots from one issuance.",
		NotDecided:  "uniqueness across restarts as a value fact (follows from these rules + C02's loader rules + leveldb durability); behaviour under concurrent callers beyond lock discipline.",
		Trusted:     []string{"go/ssa", "C12-B (nextAddresses only reachable from db.Update closures)", "C11-LOAD (keeper refuses files whose ordinal differs from the wallet's)"},
	}
}

func unlockBetween(f *ssa.Function, a, b ssa.Instruction) bool {
	r := reach(f, a, nil, func(in ssa.Instruction) bool {
		if _, isDefer := in.(*ssa.Defer); isDefer {
			return false
		}
		_, _, _, op, ok := lockOp(in)
		return ok && op == "unlock"
	})
	// b unreachable without passing an unlock means an unlock lies between on every path; we want: no
	// path from a to b passes an unlock. Approximation: no non-deferred unlock instruction is reachable
	// from a before b.
	found := false
	allInstrs(f, func(in ssa.Instruction) {
		if _, isDefer := in.(*ssa.Defer); isDefer {
			return
		}
		if _, _, _, op, ok := lockOp(in); ok && op == "unlock" && r(in) && instrDominates(in, b) {
			found = true
		}
	})
	return found
}

// checkIndexRecording: the derivation path recorded for a new address carries the branch and the
// index that were used to derive its key (Child(branch), Child(index)).
func checkIndexRecording(c *Ctx, f *ssa.Function, rule, label string) {
	setBindCtx(f)
	key := label + ":recorded-path-is-derivation-path"
	// Child calls: first level (branch) and second level (index)
	var branchChild, indexChild []*ssa.Call
	for _, cl := range callsInBody(f, "(*"+pkgHD+".ExtendedKey).Child") { // also in a helper the reference does not know
		if backSlice(callRecv(cl)).hasCallTo("(*" + pkgHD + ".ExtendedKey).Child") {
			indexChild = append(indexChild, cl)
		} else {
			branchChild = append(branchChild, cl)
		}
	}
	var idxStores, brStores []*ssa.Store
	for _, a := range fieldAccesses(f) {
		if a.Kind == "store" && a.Type == tDerivPath {
			switch a.Field {
			case "Index":
				idxStores = append(idxStores, a.In.(*ssa.Store))
			case "Branch":
				brStores = append(brStores, a.In.(*ssa.Store))
			}
		}
	}
	if len(indexChild) == 0 || len(idxStores) == 0 || len(brStores) == 0 {
		c.Bad(rule, key, c.Pos(f.Pos()), "reason=anchor-missing: Child(index) call or DerivationPath stores")
		return
	}
	bad := ""
	for _, st := range idxStores {
		e1, ok1 := affine(st.Val)
		match := false
		for _, ic := range indexChild {
			e2, ok2 := affine(callArgs(ic)[0])
			if ok1 && ok2 && affineEqualModuloLoopStep(f, e1, e2) {
				match = true
			}
		}
		if !match && len(parallelChildPhi(st.Val)) > 0 {
			match = true
		}
		if !match {
			bad = "DerivationPath.Index is not the index the key was derived with"
		}
	}
	for _, st := range brStores {
		// the Index store of the same literal, and the Child(index) call it matches
		base := st.Addr.(*ssa.FieldAddr).X
		var ic *ssa.Call
		for _, is := range idxStores {
			if is.Addr.(*ssa.FieldAddr).X != base {
				continue
			}
			e1, ok1 := affine(is.Val)
			for _, cand := range indexChild {
				e2, ok2 := affine(callArgs(cand)[0])
				// dominance is judged in the function both belong to (the loop may have moved into a helper the
				// reference tree does not have as a whole), else at the call sites in f
				domOrSame := func(x, y ssa.Instruction) bool {
					if x.Parent() == y.Parent() {
						return x.Block() == y.Block() || x.Block().Dominates(y.Block())
					}
					px, py := projectPair(x, y)
					return px != nil && py != nil && (px.Block() == py.Block() || px.Block().Dominates(py.Block()))
				}
				if ok1 && ok2 && affineEqualModuloLoopStep(f, e1, e2) && domOrSame(cand, is) {
					if ic == nil || domOrSame(ic, cand) {
						ic = cand // the nearest dominating one
					}
				}
			}
		}
		if ic == nil {
			// the index recorded runs parallel to the key derived (skip loop written as a retry)
			for _, is := range idxStores {
				if is.Addr.(*ssa.FieldAddr).X == base {
					if pc := parallelChildPhi(is.Val); len(pc) > 0 {
						ic = pc[0]
					}
				}
			}
		}
		if ic == nil {
			bad = "no Child(index) call matches the recorded DerivationPath literal"
			continue
		}
		// the branch the receiver of that call was derived on
		match := false
		consts := map[string]bool{}
		for _, bc := range backSlice(callRecv(ic)).callsTo("(*" + pkgHD + ".ExtendedKey).Child") {
			arg := callArgs(bc)[0]
			if sameOriginValue(f, st.Val, arg) {
				match = true
			}
			if k, ok := strip(arg).(*ssa.Const); ok && k.Value != nil {
				consts[k.Value.ExactString()] = true
			}
		}
		if k, ok := strip(st.Val).(*ssa.Const); ok && k.Value != nil && len(consts) == 1 && consts[k.Value.ExactString()] {
			match = true
		}
		if !match {
			bad = "DerivationPath.Branch is not the branch the key was derived on"
		}
	}
	if bad == "" {
		c.OK(rule, key, c.Pos(idxStores[0].Pos()), "DerivationPath{Branch, Index} = the arguments of the Child calls that produced the key")
	} else {
		c.Bad(rule, key, c.Pos(idxStores[0].Pos()), bad)
	}
}

func isConstEq(a, b ssa.Value) bool {
	ka, ok1 := strip(a).(*ssa.Const)
	kb, ok2 := strip(b).(*ssa.Const)
	return ok1 && ok2 && ka.Value != nil && kb.Value != nil && ka.Value.ExactString() == kb.Value.ExactString()
}

// parallelChildPhi: the value v is a phi that runs parallel to a phi of derived keys: in the same block
// there is a phi whose i-th edge is the result of Child(x_i) where x_i equals v's i-th edge, for every
// edge — `k, err := key.Child(n); for err == ErrInvalidChild { n++; k, err = key.Child(n) }` leaves n
// the argument of the call that produced k. Returns those Child calls (nil if the shape does not hold).
func parallelChildPhi(v ssa.Value) []*ssa.Call {
	p, ok := strip(v).(*ssa.Phi)
	if !ok {
		return nil
	}
	for _, in := range p.Block().Instrs {
		kp, isPhi := in.(*ssa.Phi)
		if !isPhi {
			break
		}
		if kp == p || len(kp.Edges) != len(p.Edges) {
			continue
		}
		var calls []*ssa.Call
		okAll := true
		for i, e := range kp.Edges {
			var cl *ssa.Call
			switch x := strip(e).(type) {
			case *ssa.Extract:
				cl, _ = x.Tuple.(*ssa.Call)
			case *ssa.Call:
				cl = x
			}
			if cl == nil || !isCall(cl, "(*"+pkgHD+".ExtendedKey).Child") {
				okAll = false
				break
			}
			a1, ok1 := affine(callArgs(cl)[0])
			a2, ok2 := affine(p.Edges[i])
			if !ok1 || !ok2 || !affineSame(a1, a2) {
				okAll = false
				break
			}
			calls = append(calls, cl)
		}
		if okAll && len(calls) > 0 {
			return calls
		}
	}
	return nil
}

// affineEqualModuloLoopStep: e1 == e2, where a leaf of e1 may be the post-increment of e2's leaf:
// Index = nextIndex' - 1 with nextIndex' = nextIndex + 1 and Child(nextIndex).
func affineEqualModuloLoopStep(f *ssa.Function, e1, e2 affineExpr) bool {
	norm := func(e affineExpr) (map[ssa.Value]int64, int64) {
		m := map[ssa.Value]int64{}
		k := e.k
		for l, c := range e.coef {
			if c == 0 {
				continue
			}
			// unfold a phi whose edges are {x, x+1 …}: take the canonical root (smallest set): leave as is
			m[l] += c
		}
		return m, k
	}
	m1, k1 := norm(e1)
	m2, k2 := norm(e2)
	if k1 == k2 && len(m1) == len(m2) {
		same := true
		for l, c := range m1 {
			if m2[l] != c {
				same = false
			}
		}
		if same {
			return true
		}
	}
	// e1 = phi' - 1, e2 = phi, where phi' = phi(…, phi+1, …): accept when every leaf of e1 is a phi one of
	// whose edges is (leaf of e2) + 1 and k1 == k2 - 1
	if len(m1) == 1 && len(m2) == 1 && k1 == k2-1 {
		var l1, l2 ssa.Value
		for l := range m1 {
			l1 = l
		}
		for l := range m2 {
			l2 = l
		}
		if p, ok := l1.(*ssa.Phi); ok {
			for _, e := range p.Edges {
				if a, okA := affine(e); okA && a.k == 1 && len(a.coef) == 1 && a.coef[l2] == 1 {
					return true
				}
			}
		}
	}
	return false
}

// ---------------------------------------------------------------------------------------------

func checkC05(c *Ctx) Meta {
	// unlocking a keystore completes: after its passphrase was accepted the keystore's keys are restored
	// (the C03 lifetime rule: a successful check is followed by unlocking or by Zero()) — a keystore added
	// while the wallet is unlocked must end up signing
	c.Rule("C05-UNLOCK", "after a keystore accepted the passphrase it is unlocked (its private keys restored) on every path that reports success while the wallet is unlocked (the C03 derived-key rule as a premise of 'whenever the wallet is unlocked a known key signs')", 4)
	c.pushAlias("C03-DERIVED", "C05-UNLOCK")
	checkDerivedKeyLifetime(c)
	c.popAlias()
	// the transaction discipline as a premise (C12: memory is refreshed only after the commit, one
	// transaction per operation, no swallowed error): a key stays signable while its keystore is in the store and the wallet is unlocked: an operation that drops keys from memory before its transaction committed loses them on a failed commit
	c.pushAlias("C12-", "C05-TX-")
	checkC12(c)
	c.popAlias()
	// the scalar handed to the curve code is the derived key at its full width (the C18 width rules over the
	// keystore and hdkeychain packages as premises of 'verifies under the requested key')
	c.pushAlias("C18-", "C05-HD-")
	checkC18(c)
	c.popAlias()
	c.Rule("C05-LOOKUP", "SignHash/SignMessage look the signing key up under the address derived from the requested public key and sign the caller's digest (the hash argument, or HashH of the message)", 2)
	c.Rule("C05-BIND", "the private key cached for an address is re-derived from that address's own (branch, index): the external test selects the external branch key; the recorded path of a new address is the path its key was derived with; every entry is re-derived at unlock; a new key is persisted under its own (branch, index)", 5)
	c.Rule("C05-GATE", "signing happens only while unlocked and only with a non-nil private key; an unknown key fails before signing", 3)
	c.Rule("C05-LOCKSTATE", "the lock state is one state for the whole wallet: keystores are created/imported only under the passphrase the existing keystores accept, so a failed Unlock cannot leave some keystores signing while the wallet reports locked; Unlock tries every keystore with the caller's passphrase and marks the manager unlocked only if none failed", 3)
	checkSamePassphraseGates(c, "C05-LOCKSTATE")
	c.Rule("C05-KEEPER", "the keeper signs with the public key of the workspace looked up by the requested space id", 1)
	c.Rule("C05-ERASE", "locking leaves no usable key behind: the eraser zeroes every private-hierarchy field any function fills and drops the pointers other code tests for nil (the C03 eraser rule, here as the premise of 'requests while locked fail' and of re-derivation after the next unlock)", 7)
	c.Rule("C05-TXRUN", "a key that is handed out was committed: db.Update returns the error of BeginTx, of the body and of Commit on every path and reports success only after tx.Commit — otherwise the key signs now and is unknown after a restart", 5)
	checkTxRunner(c, "C05-TXRUN")
	c.pushAlias("C03-ERASE", "C05-ERASE")
	checkEraser(c)
	c.popAlias()
	checkUnlockAllOrNothing(c, "C05-LOCKSTATE")
	checkParsedKeyWidth(c, "C05-BIND")
	c.Rule("C05-BRANCHPUT", "an imported keystore's issued keys of both branches are persisted: for each of hdPath.InternalChildNum / ExternalChildNum the import routine has a call persisting the re-derived public keys (putEncryptedPubKey, directly or through a new helper) that is not guarded by the other branch's non-zero test", 2)
	checkBranchPersist(c, "C05-BRANCHPUT")
	if f := c.MustFn("C05-LOCKSTATE", "poc/wallet/keystore", "(*KeystoreManagerForPoC).Lock"); f != nil {
		li2 := keystoreLocksets(c)
		key := "Lock:keys-wiped-before-the-manager-lock-is-released"
		n, bad := 0, false
		for _, g := range bodyFns(f, exceptExported) {
			for _, cl := range callsInShallow(g, "(*"+tAddrMgr+").clearPrivKeys") {
				n++
				if !holds(li2, cl, tKMC+".mu") {
					bad = true
				}
			}
		}
		switch {
		case n == 0:
			c.Bad("C05-LOCKSTATE", key, c.Pos(f.Pos()), "reason=anchor-missing: clearPrivKeys call in Lock")
		case bad:
			c.Bad("C05-LOCKSTATE", key, c.Pos(f.Pos()), "Lock reports the wallet locked (and releases the manager lock) before the keystores are wiped: IsLocked() is true while SignHash still signs")
		default:
			c.OK("C05-LOCKSTATE", key, c.Pos(f.Pos()), "every clearPrivKeys call is made with kmc.mu held")
		}
	}
	if f := c.Fn("poc/wallet/keystore", "(*AddrManager).nextAddresses"); f != nil {
		checkPersistOwnPath(c, f, "C05-BIND")
	}
	if f := c.MustFn("C05-BIND", "poc/wallet/keystore", "(*AddrManager).updatePrivKeys"); f != nil {
		// every entry is re-derived at unlock: the loop cannot come back to its head without having stored privKey
		key := "updatePrivKeys:every-entry-rederived"
		var st ssa.Instruction
		for _, a := range fieldAccesses(f) {
			if a.Kind == "store" && a.Type == tManagedAddr && a.Field == "privKey" {
				st = a.In
			}
		}
		var next *ssa.Next
		// the loop and the store may sit in different functions (the loop body moved into a helper that stores
		// the key and reports by error): the rule is evaluated in the function that holds the loop, where a call
		// of a helper that stores the key on every successful return stands for the store (reach)
		allInstrsNew(f, func(in ssa.Instruction) {
			if nx, ok := in.(*ssa.Next); ok {
				if rg, isR := nx.Iter.(*ssa.Range); isR && backSlice(rg.X).hasField(tAddrMgr, "addrs") {
					next = nx
				}
			}
		})
		if next != nil {
			f = hostFn(f, next)
		} else {
			f = hostFn(f, st)
		}
		switch {
		case st == nil || next == nil:
			c.Bad("C05-BIND", key, c.Pos(f.Pos()), "reason=anchor-missing: the loop over a.addrs storing privKey")
		case reach(f, next, nil, func(in ssa.Instruction) bool { return in == st })(next):
			c.Bad("C05-BIND", key, c.Pos(next.Pos()), "an entry can be skipped at unlock (the loop continues without storing its private key): it keeps whatever key object it had — after a lock/unlock cycle that is a zeroed key, and signatures made with it do not verify")
		default:
			c.OK("C05-BIND", key, c.Pos(st.Pos()), "every iteration that continues has stored the entry's re-derived key")
		}
	}
	c.Rule("C05-INDEX", "the address index is keyed by the entry's own address: every insertion into AddrManager.addrs (issuance, reload) uses the address of the very entry inserted; getAddrManager returns the manager in whose index the requested address was found; the address and the public key of an entry are made from one key", 4)
	checkAddrIndex(c)
	li := keystoreLocksets(c)
	_ = li
	for _, name := range []string{"SignHash", "SignMessage"} {
		f := c.MustFn("C05-LOOKUP", "poc/wallet/keystore", "(*KeystoreManagerForPoC)."+name)
		if f == nil {
			continue
		}
		key := name + ":address-from-requested-key-and-callers-digest"
		sp := callsIn(f, "(*"+tAddrMgr+").signPocec")
		// the lookup may sit in a helper the reference tree does not have (summary.go)
		gmLocs := findSteps(f, func(cl *ssa.Call) bool { return isCall(cl, "(*"+tKMC+").getAddrManager") }, 2)
		var gm []*ssa.Call
		for _, l := range gmLocs {
			gm = append(gm, l.Step)
		}
		ok := len(sp) == 1 && len(gm) == 1
		why := "anchor calls missing"
		if ok {
			if viaOK, viaWhy := stepFailsVia(gmLocs[0]); !viaOK {
				c.Bad("C05-GATE", name+":unknown-key-fails-first", c.Pos(gm[0].Pos()), "an unknown key does not fail the lookup helper: "+viaWhy)
			}
			as := backSlice(sp[0].Call.Args[2])
			gs := backSlice(gm[0].Call.Args[1])
			okAddr := as.hasCallTo(pkgKeystore+".newPoCAddress") && as.hasParam(f, "pubKey") && gs.hasCallTo(pkgKeystore+".newPoCAddress") && gs.hasParam(f, "pubKey")
			// the manager that signs is the one found
			okMgr := backSlice(sp[0].Call.Args[0]).has(resultOf(gm[0], 0))
			ds := backSlice(sp[0].Call.Args[1])
			okDigest := false
			if name == "SignHash" {
				okDigest = ds.hasParam(f, "hash") && !ds.hasCallTo("github.com/massnetorg/mass-core/wire.HashH")
			} else {
				okDigest = ds.hasCallTo("github.com/massnetorg/mass-core/wire.HashH") && ds.hasParam(f, "message")
			}
			ok = okAddr && okMgr && okDigest
			why = fmt.Sprintf("address-from-pubKey=%v manager-is-the-one-found=%v digest-is-callers=%v", okAddr, okMgr, okDigest)
			// unknown key fails before signing
			// (the lookup and the signing may sit in different helpers: the success edge is cut at the lookup
			// itself and at every helper call it executes through)
			if u, _ := unreachableWhenCut(f, orCut(errorEdgeCut(f, gmLocs[0].Site, false), errorEdgeCut(f, gm[0], false)), []ssa.Instruction{sp[0]}); u && len(errResults(gmLocs[0].Site)) > 0 {
				c.OK("C05-GATE", name+":unknown-key-fails-first", c.Pos(gm[0].Pos()), "signPocec unreachable unless getAddrManager succeeded")
			} else {
				c.Bad("C05-GATE", name+":unknown-key-fails-first", c.Pos(gm[0].Pos()), "signing is attempted for a key the wallet does not own")
			}
		}
		if ok {
			c.OK("C05-LOOKUP", key, c.Pos(f.Pos()), "getAddrManager(address(pubKey)).signPocec(digest, address(pubKey))")
		} else {
			c.Bad("C05-LOOKUP", key, c.Pos(f.Pos()), "the signature is not produced for the requested key and digest: "+why)
		}
	}
	if f := c.MustFn("C05-GATE", "poc/wallet/keystore", "(*AddrManager).signPocec"); f != nil {
		var sign *ssa.Call
		allInstrs(f, func(in ssa.Instruction) {
			if cl, ok := in.(*ssa.Call); ok && callName(cl) == "Sign" {
				sign = cl
			}
		})
		key := "signPocec:unlocked-and-key-present"
		if sign == nil {
			c.Bad("C05-GATE", key, c.Pos(f.Pos()), "reason=anchor-missing: Sign call")
		} else {
			var ut []boolTest
			for _, a := range fieldAccesses(f) {
				if a.Kind == "load" && a.Type == tAddrMgr && a.Field == "unlocked" {
					ut = append(ut, boolTestsOf(f, a.In.(ssa.Value))...)
				}
			}
			ok1, _ := unreachableWhenCut(f, boolEdgeCut(ut, true), []ssa.Instruction{sign})
			// privKey nil test on the same entry
			var nt []nilTest
			for _, a := range fieldAccesses(f) {
				if a.Kind == "load" && a.Type == tManagedAddr && a.Field == "privKey" {
					nt = append(nt, nilTestsOf(f, a.In.(ssa.Value))...)
				}
			}
			cut := func(from, to *ssa.BasicBlock) bool {
				for _, t := range nt {
					if from == t.If.Block() && to == t.NonNil {
						return true
					}
				}
				return false
			}
			ok2, _ := unreachableWhenCut(f, cut, []ssa.Instruction{sign})
			// the key used is addrs[addr param].privKey and the digest is the hash param
			rs := backSlice(callRecv(sign))
			okKey := rs.hasField(tManagedAddr, "privKey") && rs.hasParam(f, "addr") && rs.hasField(tAddrMgr, "addrs")
			okDig := backSlice(callArgs(sign)[0]).hasParam(f, "hash")
			if len(ut) > 0 && ok1 && len(nt) > 0 && ok2 && okKey && okDig {
				c.OK("C05-GATE", key, c.Pos(sign.Pos()), "a.addrs[addr].privKey.Sign(hash) only behind a.unlocked and privKey != nil")
			} else {
				c.Bad("C05-GATE", key, c.Pos(sign.Pos()), fmt.Sprintf("signing is possible while locked or without the entry's own key (unlocked-gate=%v key-present-gate=%v key-of-addr=%v digest=%v)", len(ut) > 0 && ok1, len(nt) > 0 && ok2, okKey, okDig))
			}
		}
	}
	checkRederiveOwnPath(c, "C05-BIND")
	if f := c.Fn("poc/wallet/keystore", "(*AddrManager).nextAddresses"); f != nil {
		checkIndexRecording(c, f, "C05-BIND", "nextAddresses")
	}
	if f := c.Fn("poc/wallet/keystore", "createManagerKeyScope"); f != nil {
		checkIndexRecording(c, f, "C05-BIND", "createManagerKeyScope")
	}
	if f := c.MustFn("C05-KEEPER", "poc/engine/spacekeeper/capacity", "(*SpaceKeeper).SignHash"); f != nil {
		key := "capacity.SignHash:key-of-requested-space"
		ok := false
		allInstrs(f, func(in ssa.Instruction) {
			if cl, isCall := in.(*ssa.Call); isCall && callName(cl) == "SignMessage" {
				ks := backSlice(callArgs(cl)[0])
				hs := backSlice(callArgs(cl)[1])
				if ks.hasParam(f, "sid") && ks.hasCallTo("(*"+pkgCapacity+".SpaceID).PubKey") && hs.hasParam(f, "hash") {
					ok = true
				}
			}
		})
		if ok {
			c.OK("C05-KEEPER", key, c.Pos(f.Pos()), "wallet.SignMessage(index[all][sid].id.PubKey(), hash)")
		} else {
			c.Bad("C05-KEEPER", key, c.Pos(f.Pos()), "the keeper does not sign the given hash with the key of the workspace named by the space id")
		}
	}
	// the lock discipline of the wallet (C14) is a premise of "a key generated while locked signs after
	// the next unlock" (issuance and unlock are each one critical section): run under this property's name
	// after a restart the address table is rebuilt from the store's prefix scans: the store's own rules
	// (C19: keys, prefixes, iterator buffers not kept) are premises of "signs after restarts"
	c.pushAlias("C19-", "C05-LDB-")
	checkC19(c)
	c.popAlias()
	c.pushAlias("C14-", "C05-LOCKS-")
	checkC14(c)
	c.popAlias()

	return Meta{
		Explanation: "Binding rules: which key a signing request is looked up under, which digest is signed, that the cached private key of an address is re-derived from that address's own branch and index (with the external/internal polarity checked on the branch-selection phi), the unlocked / key-present / known-key gates, and the keeper's choice of key.",
		NotDecided:  "the curve arithmetic; equality of public-side and private-side derivation (C18's undecided part).",
		Trusted:     []string{"go/ssa", "hdkeychain.Child(i) derives child i", "ExternalBranch == 0, InternalBranch == 1 (read from the package constants)"},
	}
}

func fieldBaseOf(v ssa.Value) ssa.Value {
	// v is a load of x.derivationPath.Index: return x
	for {
		switch y := v.(type) {
		case *ssa.UnOp:
			v = y.X
		case *ssa.FieldAddr:
			if n, _ := namedStructOrAnon(y.X.Type()); n != nil && typeFullName(n) == tManagedAddr {
				return y.X
			}
			v = y.X
		case *ssa.Field:
			v = y.X
		default:
			return v
		}
	}
}

// branchPolarity: recv (the branch key a child is derived from) is a phi / cell selected by a test of
// derivationPath.Branch against ExternalBranch; the value chosen on the "== ExternalBranch" edge must
// come from Child(ExternalBranch) and the other from Child(InternalBranch).
func branchPolarity(f *ssa.Function, recv ssa.Value) (bool, string) {
	ext, inn := "0", "1"
	// candidate definitions reaching recv with the block they were assigned in
	type def struct {
		val  ssa.Value
		blk  *ssa.BasicBlock
		join *ssa.BasicBlock // for phi edges: the block of the phi
	}
	var defs []def
	if ld, ok := recv.(*ssa.UnOp); ok {
		for _, st := range rdOf(f).loads[ld] {
			s := st.(*ssa.Store)
			defs = append(defs, def{s.Val, s.Block(), nil})
		}
	}
	if phi, ok := recv.(*ssa.Phi); ok {
		for i, e := range phi.Edges {
			defs = append(defs, def{e, phi.Block().Preds[i], phi.Block()})
		}
	}
	if len(defs) < 2 {
		return false, "the branch key is not selected between two candidates"
	}
	tests := cmpTests(f, func(bo *ssa.BinOp) bool {
		if bo.Op != token.EQL && bo.Op != token.NEQ {
			return false
		}
		k, isK := bo.Y.(*ssa.Const)
		return isK && k.Value != nil && (k.Value.ExactString() == ext || k.Value.ExactString() == inn) && backSlice(bo.X).hasField(tDerivPath, "Branch")
	})
	if len(tests) == 0 {
		return false, "no test of derivationPath.Branch"
	}
	t := tests[0]
	bo := t.If.Cond.(*ssa.BinOp)
	constv := bo.Y.(*ssa.Const).Value.ExactString()
	eqEdge := t.TrueSucc
	neEdge := t.FalseSucc
	if bo.Op == token.NEQ {
		eqEdge, neEdge = neEdge, eqEdge
	}
	childConst := func(v ssa.Value) string {
		out := ""
		valueOrigins(f, v, func(r ssa.Value) {
			var cl *ssa.Call
			switch x := r.(type) {
			case *ssa.Extract:
				cl, _ = x.Tuple.(*ssa.Call)
			case *ssa.Call:
				cl = x
			}
			if cl != nil && isCall(cl, "(*"+pkgHD+".ExtendedKey).Child") {
				if k, ok := strip(callArgs(cl)[0]).(*ssa.Const); ok && k.Value != nil {
					out = k.Value.ExactString()
				}
			}
		})
		return out
	}
	okAll := true
	why := ""
	for _, d := range defs {
		cc := childConst(d.val)
		if cc == "" {
			return false, "a candidate branch key is not Child(constant branch) of the account key"
		}
		var want string
		switch {
		case eqEdge.Dominates(d.blk) || eqEdge == d.blk:
			want = constv
		case neEdge.Dominates(d.blk) || neEdge == d.blk:
			if constv == ext {
				want = inn
			} else {
				want = ext
			}
		case d.blk == t.If.Block() && d.join == eqEdge && eqEdge != neEdge:
			// default-then-override: the value flows straight from the test to the join on the == edge
			want = constv
		case d.blk == t.If.Block() && d.join == neEdge && eqEdge != neEdge:
			// default-then-override: `k := inKey; if branch == External { k = exKey }` — the default reaches the
			// join straight from the test on the != edge
			if constv == ext {
				want = inn
			} else {
				want = ext
			}
		default:
			return false, "candidate not assigned on an edge of the branch test"
		}
		if cc != want {
			okAll = false
			why = "on the edge where Branch is " + want + " the key of branch " + cc + " is used"
		}
	}
	return okAll, why
}

// checkAddrIndex: C05-INDEX.
func checkAddrIndex(c *Ctx) {
	rule := "C05-INDEX"
	n := 0
	for fn := range c.AllFuncs {
		if pkgOf(fn) != pkgKeystore {
			continue
		}
		allInstrsShallow(fn, func(in ssa.Instruction) {
			mu, ok := in.(*ssa.MapUpdate)
			if !ok {
				return
			}
			// maps of string -> *ManagedAddress
			mt, isM := mu.Map.Type().Underlying().(*types.Map)
			if !isM || !strings.HasSuffix(mt.Elem().String(), "keystore.ManagedAddress") {
				return
			}
			n++
			key := fmt.Sprintf("%s:addrs-insert#%d", outermost(fn).Name(), n)
			// key = <value>.address
			okKey := false
			if typ, f, base, isF := fieldOfValue(mu.Key); isF && strings.HasSuffix(typ, "keystore.ManagedAddress") && f == "address" && sameOriginValue(fn, base, mu.Value) {
				okKey = true
			}
			if okKey {
				c.OK(rule, outermost(fn).Name()+":addrs-insert", c.Pos(mu.Pos()), "addrs[entry.address] = entry")
			} else {
				c.Bad(rule, key, c.Pos(mu.Pos()), "an entry is indexed under a key that is not its own address: a signing request for its public key finds another entry's private key or none")
			}
		})
	}
	if n < 2 {
		c.Bad(rule, "anchor:addrs-insertions", "", fmt.Sprintf("reason=anchor-missing: expected the issuance and the reload insertion into the address index, found %d", n))
	}
	if f := c.MustFn(rule, "poc/wallet/keystore", "(*KeystoreManagerForPoC).getAddrManager"); f != nil {
		// the manager returned is the one whose index was probed with the argument
		ok := false
		var probe *ssa.Lookup
		allInstrs(f, func(in ssa.Instruction) {
			if lk, isL := in.(*ssa.Lookup); isL && lk.CommaOk && backSlice(lk.Index).hasParam(f, "addr") && backSlice(lk.X).hasField(tAddrMgr, "addrs") {
				probe = lk
			}
		})
		if probe != nil {
			for _, ret := range returnsOf(f) {
				if isNilConst(strip(ret.Results[0])) {
					continue
				}
				// returned manager and probed manager come from the same iteration of the range
				rs, ps := backSlice(ret.Results[0]), backSlice(probe.X)
				for x := range rs.vals {
					if _, isN := x.(*ssa.Next); isN && ps.has(x) {
						ok = true
					}
				}
				// and only behind the found edge
				found := false
				if refs := probe.Referrers(); refs != nil {
					for _, r := range *refs {
						if ex, isE := r.(*ssa.Extract); isE && ex.Index == 1 {
							for _, t := range boolTestsOf(f, ex) {
								if t.TrueSucc.Dominates(ret.Block()) && len(t.TrueSucc.Preds) == 1 {
									found = true
								}
							}
						}
					}
				}
				ok = ok && found
			}
		}
		if ok {
			c.OK(rule, "getAddrManager:returns-the-manager-that-holds-the-address", c.Pos(f.Pos()), "the manager of the iteration whose addrs[addr] lookup succeeded")
		} else {
			c.Bad(rule, "getAddrManager:returns-the-manager-that-holds-the-address", c.Pos(f.Pos()), "the manager returned is not (only) the one whose index contains the requested address")
		}
	}
	// address and pubKey of a managed address come from the same key
	for _, name := range []string{"newManagedAddressWithoutPrivKey", "newManagedAddress"} {
		f := c.Fn("poc/wallet/keystore", name)
		if f == nil {
			continue
		}
		var addrV, pubV ssa.Value
		for _, a := range fieldAccesses(f) {
			if a.Kind == "store" && strings.HasSuffix(a.Type, "keystore.ManagedAddress") {
				if a.Field == "address" {
					addrV = a.In.(*ssa.Store).Val
				}
				if a.Field == "pubKey" {
					pubV = a.In.(*ssa.Store).Val
				}
			}
		}
		if addrV == nil || pubV == nil {
			continue
		}
		key := name + ":address-of-own-public-key"
		shared := false
		as := backSlice(addrV)
		for x := range backSlice(pubV).vals {
			if p, isP := x.(*ssa.Parameter); isP && as.has(p) && strings.Contains(strings.ToLower(p.Name()), "pub") {
				shared = true
			}
		}
		if shared {
			c.OK(rule, key, c.Pos(f.Pos()), "address and pubKey derive from the same public-key parameter")
		} else {
			c.Bad(rule, key, c.Pos(f.Pos()), "the address of a managed address is not derived from the public key stored in it")
		}
	}
}

// checkPersistOwnPath: each new public key is persisted under the (branch, index) of the very address
// it belongs to (shared by C06-RMW and C05-BIND).
func checkPersistOwnPath(c *Ctx, f *ssa.Function, rule string) {
	setBindCtx(f)
	// persisted under the address's own (branch,index)
	puts := callsInBody(f, pkgKeystore+".putEncryptedPubKey") // also in a helper the reference does not know (summary.go)
	key := "nextAddresses:key-persisted-under-own-path"
	ok := len(puts) == 1
	if ok {
		a := puts[0].Call.Args
		// branch, index and key all come from the same element `info`
		var elems []ssa.Value
		for v := range backSlice(a[3]).vals {
			if ld, isL := v.(*ssa.UnOp); isL {
				if _, isIdx := ld.X.(*ssa.IndexAddr); isIdx {
					elems = append(elems, ld)
				}
			}
		}
		same := false
		for _, e := range elems {
			if backSlice(a[1]).has(e) && backSlice(a[2]).has(e) {
				same = true
			}
		}
		_, fb, _, okb := fieldOfValue(strip(a[1]))
		_, fi, _, oki := fieldOfValue(strip(a[2]))
		exact := okb && oki && fb == "branch" && fi == "index"
		ok = same && exact && backSlice(a[1]).hasField(pkgKeystore+".unlockDeriveInfo", "branch") && backSlice(a[2]).hasField(pkgKeystore+".unlockDeriveInfo", "index") &&
			backSlice(a[3]).hasField(tManagedAddr, "pubKey")
	}
	if ok {
		c.OK(rule, key, c.Pos(puts[0].Pos()), "putEncryptedPubKey(info.branch, info.index, Encrypt(info.managedAddr.pubKey)) of one element")
	} else {
		c.Bad(rule, key, c.Pos(f.Pos()), "a public key is persisted under a (branch, index) that is not its own")
	}
}

// checkC06Found: C06-FOUND.
func checkC06Found(c *Ctx) {
	rule := "C06-FOUND"
	if f := c.MustFn(rule, "poc/wallet/keystore", "(*KeystoreManagerForPoC).GenerateNewPublicKey"); f != nil {
		key := "GenerateNewPublicKey:success-only-after-index-refresh"
		found, ok, refresh, why := failureFails(f, func(cl *ssa.Call) bool { return isCall(cl, "(*"+tAddrMgr+").updateManagedAddress") }, summaryDepth)
		switch {
		case !found:
			c.Bad(rule, key, c.Pos(f.Pos()), "reason=anchor-missing: the step entering the new key into the address index")
		case !ok && why == "the result of the step is not tested":
			c.Bad(rule, key, c.Pos(refresh.Pos()), "the result of the index refresh is not tested")
		case !ok:
			c.Bad(rule, key, c.Pos(refresh.Pos()), "GenerateNewPublicKey can report success although entering the key into the address index failed: the key it returned is unknown to GetPublicKeyOrdinal and to signing until the next restart")
		default:
			c.OK(rule, key, c.Pos(refresh.Pos()), "a failed index refresh fails the request")
		}
	}
	if f := c.MustFn(rule, "poc/engine/spacekeeper/capacity", "generateInitialIndex"); f != nil {
		key := "generateInitialIndex:ordinal-compared-exactly"
		gs := callsIn(f, "("+pkgCapacity+".PoCWallet).GetPublicKeyOrdinal")
		ps := callsIn(f, pkgCapacity+".parseMassDBArgsFromString")
		if len(gs) != 1 || len(ps) != 1 {
			c.Bad(rule, key, c.Pos(f.Pos()), "reason=anchor-missing: GetPublicKeyOrdinal / parseMassDBArgsFromString")
			return
		}
		f = hostFn(f, gs[0])
		ord, idx := resultOf(gs[0], 0), resultOf(ps[0], 0)
		found, lossy := false, ""
		allInstrs(f, func(in ssa.Instruction) {
			bo, ok := in.(*ssa.BinOp)
			if !ok || (bo.Op != token.EQL && bo.Op != token.NEQ) || ord == nil || idx == nil {
				return
			}
			sx, sy := backSlice(bo.X), backSlice(bo.Y)
			if (sx.has(idx) && sy.has(ord)) || (sx.has(ord) && sy.has(idx)) {
				found = true
				if lc := lossyConversion(bo.X); lc != "" {
					lossy = lc
				}
				if lc := lossyConversion(bo.Y); lc != "" {
					lossy = lc
				}
			}
		})
		switch {
		case !found:
			c.Bad(rule, key, c.Pos(f.Pos()), "the ordinal in the file name is never compared with the wallet's ordinal for the key")
		case lossy != "":
			c.Bad(rule, key, c.Pos(f.Pos()), "the ordinal comparison passes an operand through the narrowing conversion "+lossy+": a file whose ordinal differs from the wallet's by a multiple of 2^32 is taken for the key's plot")
		default:
			c.OK(rule, key, c.Pos(f.Pos()), "file ordinal == wallet ordinal, compared without narrowing")
		}
	}
}


// checkRederiveOwnPath: at unlock each address's private key is re-derived from that address's own
// (branch, index): the branch test selects the branch key of the recorded branch (shared by C05 and C18).
func checkRederiveOwnPath(c *Ctx, rule string) {
	if f := c.MustFn(rule, "poc/wallet/keystore", "(*AddrManager).updatePrivKeys"); f != nil {
		key := "updatePrivKeys:key-rederived-from-own-path"
		var st *ssa.Store
		for _, a := range fieldAccesses(f) {
			if a.Kind == "store" && a.Type == tManagedAddr && a.Field == "privKey" {
				st = a.In.(*ssa.Store)
			}
		}
		ok := false
		why := "no store to ManagedAddress.privKey"
		if st != nil {
			sl := backSlice(st.Val)
			// index: Child(mAddr.derivationPath.Index) of the same mAddr that is stored into
			var idxChild *ssa.Call
			for _, cl := range sl.callsTo("(*" + pkgHD + ".ExtendedKey).Child") {
				if backSlice(callArgs(cl)[0]).hasField(tDerivPath, "Index") {
					idxChild = cl
				}
			}
			if idxChild == nil {
				why = "the key is not derived with the entry's own index"
			} else {
				base := st.Addr.(*ssa.FieldAddr).X
				sameEntry := backSlice(callArgs(idxChild)[0]).has(base) || sameOriginValue(f, fieldBaseOf(callArgs(idxChild)[0]), base)
				// branch selection
				recv := callRecv(idxChild)
				host := hostFn(f, idxChild)
				// the branch key handed to a per-entry helper: follow the parameter to the argument at the helper's
				// call site, where the branch is selected
				for depth := 0; depth < 3; depth++ {
					par, isPar := recv.(*ssa.Parameter)
					if !isPar || par.Parent() == nil || !gNewFuncs[par.Parent()] {
						break
					}
					sites := sitesOf(par.Parent())
					pi := -1
					for i, q := range par.Parent().Params {
						if q == par {
							pi = i
						}
					}
					if len(sites) != 1 || pi < 0 || pi >= len(sites[0].Common().Args) {
						break
					}
					recv = sites[0].Common().Args[pi]
					host = sites[0].Parent()
				}
				okBranch, whyB := branchPolarity(host, recv)
				ok = sameEntry && okBranch
				why = fmt.Sprintf("same-entry=%v branch-selection=%v (%s)", sameEntry, okBranch, whyB)
			}
		}
		if ok {
			c.OK(rule, key, c.Pos(st.Pos()), "mAddr.privKey = (Branch==External ? externalBranchKey : internalBranchKey).Child(mAddr.derivationPath.Index)")
		} else {
			c.Bad(rule, key, c.Pos(f.Pos()), "the private key cached for an address is not the key of that address's own derivation path: "+why)
		}
	}
}
