package main

const fExtKey = "poc/wallet/keystore/hdkeychain/extendedkey.go"
const fMnemonic = "poc/wallet/keystore/mnemonic.go"

func init() {
	variants["C18"] = []variant{
		{Name: "String() appends the raw private key without padding", Kill: true, Rule: "C18-WIDTH", File: fExtKey,
			Old: "\t\tserializedBytes = paddedAppend(32, serializedBytes, k.key)\n", New: "\t\tserializedBytes = append(serializedBytes, k.key...)\n"},
		{Name: "mnemonic entropy returned without left padding", Kill: true, Rule: "C18-WIDTH", File: fMnemonic,
			Old: "\tentropy := b.Bytes()\n\tentropy = padByteSlice(entropy, len(mnemonicSlice)/3*4)\n", New: "\tentropy := make([]byte, len(mnemonicSlice)/3*4)\n\tcopy(entropy, b.Bytes())\n"},
		{Name: "11-bit word index read from unpadded bytes", Kill: true, Rule: "C18-WIDTH", File: fMnemonic,
			Old: "\t\twordBytes := padByteSlice(word.Bytes(), 2)\n", New: "\t\twordBytes := make([]byte, 2)\n\t\tcopy(wordBytes, word.Bytes())\n"},
		{Name: "pad helper left-aligns", Kill: true, Rule: "C18-WIDTH", File: fMnemonic,
			Old: "\tcopy(newSlice[offset:], slice)\n", New: "\tcopy(newSlice, slice)\n"},
		{Name: "public child stored with the private flag", Kill: true, Rule: "C18-WIDTH", File: fExtKey,
			Old: "\t\tchildKey = ilNum.Bytes()\n\t\tisPrivate = true\n", New: "\t\tchildKey = ilNum.Bytes()\n"},

		{Name: "private key right-aligned by an inline copy instead of the helper", Kill: false, File: fExtKey,
			Old: "\t\tserializedBytes = paddedAppend(32, serializedBytes, k.key)\n", New: "\t\tpadded := make([]byte, 32)\n\t\tcopy(padded[32-len(k.key):], k.key)\n\t\tserializedBytes = append(serializedBytes, padded...)\n"},
		{Name: "entropy padded through a differently named local", Kill: false, File: fMnemonic,
			Old: "\tentropy := b.Bytes()\n\tentropy = padByteSlice(entropy, len(mnemonicSlice)/3*4)\n", New: "\traw := b.Bytes()\n\tentropy := padByteSlice(raw, len(mnemonicSlice)/3*4)\n"},
		{Name: "mnemonic entropy padded to a width derived from its own length (seed C18-r2c)", Kill: true, Rule: "C18-WIDTH", File: "poc/wallet/keystore/mnemonic.go",
			Old: "\tentropy = padByteSlice(entropy, len(mnemonicSlice)/3*4)\n", New: "\tentropy = padByteSlice(entropy, (len(entropy)+3)/4*4)\n"},
		{Name: "parent fingerprint memoised and shared with the children (seed C18-r2b)", Kill: true, Rule: "C18-OWN", File: "poc/wallet/keystore/hdkeychain/extendedkey.go",
			Old: "\tparentFP := massutil.Hash160(k.pubKeyBytes())[:4]\n", New: "\tif len(k.parentFPMemo) == 0 {\n\t\tk.parentFPMemo = massutil.Hash160(k.pubKeyBytes())[:4]\n\t}\n\tparentFP := k.parentFPMemo\n",
			File2: "poc/wallet/keystore/hdkeychain/extendedkey.go", Old2: "\tpubKey    []byte // This will only be set for extended priv keys\n", New2: "\tpubKey    []byte // This will only be set for extended priv keys\n\tparentFPMemo []byte\n"},
		{Name: "parent fingerprint computed into a local first", Kill: false, File: "poc/wallet/keystore/hdkeychain/extendedkey.go",
			Old: "\tparentFP := massutil.Hash160(k.pubKeyBytes())[:4]\n", New: "\tfpFull := massutil.Hash160(k.pubKeyBytes())\n\tparentFP := fpFull[:4]\n"},
	}
}
