package main

import (
	"go/constant"

	"golang.org/x/tools/go/ssa"
)

// A send on a function-local buffered channel that is the first send that can happen on it never
// blocks (make(chan T, n>=1), result channels). This removes the `result <- x; return result`
// idiom from the may-block summaries without assuming anything about path feasibility.

type execPos struct {
	in    ssa.Instruction // instruction of the root function at which the send executes (or starts, for async)
	async bool            // executes in a goroutine started at `in`
}

func makeChanOf(fn *ssa.Function, v ssa.Value) *ssa.MakeChan {
	var mk *ssa.MakeChan
	n := 0
	valueOrigins(fn, v, func(root ssa.Value) {
		n++
		switch x := root.(type) {
		case *ssa.MakeChan:
			mk = x
		case *ssa.Alloc:
			// captured local: single store of a MakeChan
			cnt := 0
			for _, f := range withClosures(x.Parent()) {
				allInstrs(f, func(in ssa.Instruction) {
					if st, ok := in.(*ssa.Store); ok && rootCell(st.Addr) == ssa.Value(x) {
						cnt++
						if m, ok := st.Val.(*ssa.MakeChan); ok {
							mk = m
						}
					}
				})
			}
			if cnt != 1 {
				mk = nil
			}
		}
	})
	if n != 1 {
		return nil
	}
	return mk
}

func positionsOf(root *ssa.Function, fn *ssa.Function, in ssa.Instruction, depth int) []execPos {
	if fn == root {
		return []execPos{{in, false}}
	}
	if depth > 4 {
		return nil
	}
	var out []execPos
	found := false
	for _, h := range withClosures(root) {
		allInstrs(h, func(i2 ssa.Instruction) {
			ci, ok := i2.(ssa.CallInstruction)
			if !ok {
				return
			}
			hit := false
			if mc, ok := ci.Common().Value.(*ssa.MakeClosure); ok && mc.Fn == fn {
				hit = true
			}
			if !hit && !ci.Common().IsInvoke() && ci.Common().StaticCallee() == nil {
				valueOrigins(h, ci.Common().Value, func(r ssa.Value) {
					if mc, ok := r.(*ssa.MakeClosure); ok && mc.Fn == fn {
						hit = true
					}
					if a, ok := r.(*ssa.Alloc); ok {
						for _, f := range withClosures(a.Parent()) {
							allInstrs(f, func(i3 ssa.Instruction) {
								if st, ok := i3.(*ssa.Store); ok && rootCell(st.Addr) == ssa.Value(a) {
									if mc, ok := st.Val.(*ssa.MakeClosure); ok && mc.Fn == fn {
										hit = true
									}
								}
							})
						}
					}
				})
			}
			if !hit {
				return
			}
			found = true
			_, isGo := i2.(*ssa.Go)
			for _, p := range positionsOf(root, h, i2, depth+1) {
				out = append(out, execPos{p.in, p.async || isGo})
			}
		})
	}
	if !found {
		return nil
	}
	return out
}

func firstSendOnFreshBuffered(op blockingOp) bool {
	send, ok := op.In.(*ssa.Send)
	if !ok {
		return false
	}
	fn := op.Fn
	root := lexicalOutermost(fn)
	mk := makeChanOf(fn, send.Chan)
	if mk == nil || mk.Parent() != root {
		return false
	}
	k, ok := mk.Size.(*ssa.Const)
	if !ok || k.Value == nil {
		return false
	}
	if n, ok := constant.Int64Val(k.Value); !ok || n < 1 {
		return false
	}
	type sendAt struct {
		s   *ssa.Send
		pos []execPos
	}
	var all []sendAt
	for _, f := range withClosures(root) {
		var bad bool
		allInstrs(f, func(in ssa.Instruction) {
			if s, ok := in.(*ssa.Send); ok && makeChanOf(f, s.Chan) == mk {
				ps := positionsOf(root, f, s, 0)
				if ps == nil {
					bad = true
				}
				all = append(all, sendAt{s, ps})
			}
		})
		if bad {
			return false
		}
	}
	for _, me := range all {
		if me.s != send {
			continue
		}
		for _, p := range me.pos {
			if p.async {
				continue
			}
			for _, other := range all {
				for _, q := range other.pos {
					if other.s == send && q == p {
						// the same execution; a loop around it would let it run twice
						if blockReentered(root, p.in) {
							return false
						}
						continue
					}
					if q.in == p.in && !q.async {
						// two sends executed by the same closure call: must be on exclusive paths
						if other.s.Parent() == send.Parent() && (reach(send.Parent(), other.s, nil, nil)(send)) {
							return false
						}
						continue
					}
					if reach(root, q.in, nil, nil)(p.in) {
						return false
					}
				}
			}
		}
	}
	return true
}
