package main

// Effect summaries of same-package helpers, so that a rule anchored at an entry function keeps holding
// when a maintainer moves part of that function into a helper (or inlines one):
//
//   mayDo(H, P)   some instruction of H, of its closures, or of a same-package function it calls
//                 statically (bounded depth) satisfies P
//   mustDo(H, P)  every path from H's entry to a return passes an instruction satisfying P, or a call of
//                 a same-package helper that mustDo P
//   liftMay(P) / liftMust(P)  extend an instruction predicate to calls of helpers with that summary
//
// The bound is the "stated inlining bound" of the design: helpers are followed three calls deep and
// only within the package of the function the rule is anchored at (a callee in another package is an
// API of its own and is named explicitly by the rules that rely on it).

import (
	"go/token"
	"go/types"
	"strings"

	"golang.org/x/tools/go/ssa"
)

const summaryDepth = 3

// helperCallee: the same-package function a call instruction invokes statically (also through a
// closure value created in place), or nil.
func helperCallee(in ssa.Instruction, pkg string) *ssa.Function {
	var cc *ssa.CallCommon
	switch x := in.(type) {
	case *ssa.Call:
		cc = &x.Call
	case *ssa.Defer:
		cc = &x.Call
	default:
		return nil
	}
	f := cc.StaticCallee()
	if f == nil || len(f.Blocks) == 0 {
		return nil
	}
	if pkgOf(f) != pkg {
		return nil
	}
	return f
}

func mayDo(h *ssa.Function, p func(ssa.Instruction) bool) bool {
	return mayDoN(h, p, summaryDepth, map[*ssa.Function]bool{})
}

func mayDoN(h *ssa.Function, p func(ssa.Instruction) bool, depth int, seen map[*ssa.Function]bool) bool {
	if h == nil || seen[h] {
		return false
	}
	seen[h] = true
	pkg := pkgOf(h)
	for _, f := range withClosures(h) {
		for _, b := range f.Blocks {
			for _, in := range b.Instrs {
				if p(in) {
					return true
				}
				if depth > 0 {
					if g := helperCallee(in, pkg); g != nil && mayDoN(g, p, depth-1, seen) {
						return true
					}
				}
			}
		}
	}
	return false
}

func mustDo(h *ssa.Function, p func(ssa.Instruction) bool) bool {
	return mustDoN(h, p, summaryDepth, map[*ssa.Function]bool{})
}

func mustDoN(h *ssa.Function, p func(ssa.Instruction) bool, depth int, visiting map[*ssa.Function]bool) bool {
	if h == nil || len(h.Blocks) == 0 || visiting[h] {
		return false
	}
	visiting[h] = true
	defer delete(visiting, h)
	pkg := pkgOf(h)
	stop := func(in ssa.Instruction) bool {
		if p(in) {
			return true
		}
		if depth > 0 {
			if _, isDefer := in.(*ssa.Defer); isDefer {
				return false // runs at exit; handled below
			}
			if g := helperCallee(in, pkg); g != nil && mustDoN(g, p, depth-1, visiting) {
				return true
			}
		}
		return false
	}
	// a deferred call that satisfies P (or must do it) runs on every return
	deferred := false
	allInstrsShallow(h, func(in ssa.Instruction) {
		d, ok := in.(*ssa.Defer)
		if !ok || d.Block() != h.Blocks[0] {
			return
		}
		if p(in) {
			deferred = true
		} else if depth > 0 {
			if g := helperCallee(in, pkg); g != nil && mustDoN(g, p, depth-1, visiting) {
				deferred = true
			}
		}
	})
	if deferred {
		return true
	}
	r := reach(h, nil, nil, stop)
	rets := returnsOf(h)
	if len(rets) == 0 {
		return false
	}
	for _, ret := range rets {
		if r(ret) && !stop(ret) {
			return false
		}
	}
	return true
}

// liftMay: P, or a call of a same-package helper that may do P.
func liftMay(fn *ssa.Function, p func(ssa.Instruction) bool) func(ssa.Instruction) bool {
	pkg := pkgOf(outermost(fn))
	memo := map[*ssa.Function]bool{}
	return func(in ssa.Instruction) bool {
		if p(in) {
			return true
		}
		g := helperCallee(in, pkg)
		if g == nil {
			return false
		}
		v, ok := memo[g]
		if !ok {
			v = mayDo(g, p)
			memo[g] = v
		}
		return v
	}
}

// liftMust: P, or a call of a same-package helper that must do P on every path to its return.
func liftMust(fn *ssa.Function, p func(ssa.Instruction) bool) func(ssa.Instruction) bool {
	pkg := pkgOf(outermost(fn))
	memo := map[*ssa.Function]bool{}
	return func(in ssa.Instruction) bool {
		if p(in) {
			return true
		}
		if _, isDefer := in.(*ssa.Defer); isDefer {
			return false
		}
		g := helperCallee(in, pkg)
		if g == nil {
			return false
		}
		v, ok := memo[g]
		if !ok {
			v = mustDo(g, p)
			memo[g] = v
		}
		return v
	}
}

// bodyFns: fn, its closures, and the helpers it calls statically that the reference tree does not know
// (new functions, see canon.go; bounded depth), each once. `except` names functions that are entry points or anchors of their own and must not be
// folded into fn's body.
func bodyFns(fn *ssa.Function, except func(*ssa.Function) bool) []*ssa.Function {
	var out []*ssa.Function
	seen := map[*ssa.Function]bool{}
	pkg := pkgOf(outermost(fn))
	var walk func(f *ssa.Function, depth int)
	walk = func(f *ssa.Function, depth int) {
		if seen[f] {
			return
		}
		seen[f] = true
		out = append(out, f)
		for _, a := range f.AnonFuncs {
			walk(a, depth)
		}
		if depth == 0 {
			return
		}
		for _, b := range f.Blocks {
			for _, in := range b.Instrs {
				if g := helperCallee(in, pkg); g != nil && gNewFuncs[g] && (except == nil || !except(g)) {
					walk(g, depth-1)
				}
				if mc, ok := in.(*ssa.MakeClosure); ok {
					if g := boundMethodTarget(mc); g != nil && gNewFuncs[g] && (except == nil || !except(g)) {
						walk(g, depth-1)
					}
				}
			}
		}
	}
	walk(fn, summaryDepth)
	return out
}

// allInstrsDeep visits the instructions of bodyFns(fn).
func allInstrsDeep(fn *ssa.Function, except func(*ssa.Function) bool, f func(ssa.Instruction)) {
	for _, g := range bodyFns(fn, except) {
		allInstrsShallow(g, f)
	}
}

// isExportedMethodOrFunc: an API entry point of its own — never folded into another function's body.
func isExportedFn(f *ssa.Function) bool {
	if f == nil || f.Object() == nil {
		return false
	}
	return f.Object().Exported()
}

func exceptExported(f *ssa.Function) bool { return isExportedFn(f) }

// callsInBody: calls of the named functions in fn, its closures and its unexported same-package helpers.
func callsInBody(fn *ssa.Function, ids ...string) []*ssa.Call {
	var out []*ssa.Call
	for _, g := range bodyFns(fn, exceptExported) {
		out = append(out, callsInShallow(g, ids...)...)
	}
	return out
}

func txSitesBody(fn *ssa.Function) []txSite {
	var out []txSite
	for _, g := range bodyFns(fn, exceptExported) {
		out = append(out, txSites(g)...)
	}
	return out
}

// constThrough resolves v to a constant, following parameters of helpers to the arguments of their call
// sites inside body and free variables of closures to their bindings. All call sites must agree.
func constThrough(v ssa.Value, body []*ssa.Function) *ssa.Const {
	return constThroughN(v, body, 4)
}

func constThroughN(v ssa.Value, body []*ssa.Function, depth int) *ssa.Const {
	v = strip(v)
	switch x := v.(type) {
	case *ssa.Const:
		return x
	case *ssa.Parameter:
		if depth == 0 {
			return nil
		}
		h := x.Parent()
		idx := -1
		for i, p := range h.Params {
			if p == x {
				idx = i
			}
		}
		if idx < 0 {
			return nil
		}
		var res *ssa.Const
		n := 0
		for _, g := range body {
			for _, b := range g.Blocks {
				for _, in := range b.Instrs {
					cl, ok := in.(*ssa.Call)
					if !ok || cl.Call.StaticCallee() != h || idx >= len(cl.Call.Args) {
						continue
					}
					n++
					k := constThroughN(cl.Call.Args[idx], body, depth-1)
					if k == nil {
						return nil
					}
					if res != nil && (res.Value == nil) != (k.Value == nil) {
						return nil
					}
					if res != nil && res.Value != nil && res.Value.ExactString() != k.Value.ExactString() {
						return nil
					}
					res = k
				}
			}
		}
		if n == 0 {
			return nil
		}
		return res
	case *ssa.UnOp:
		// load of a captured variable: the single value stored into its cell
		if x.Op != token.MUL || depth == 0 {
			return nil
		}
		// load of a field of a struct type the reference tree does not have (state that moved from captured
		// variables into a small object): what the functions of this body store into that field
		if fa, isFA := x.X.(*ssa.FieldAddr); isFA {
			if k, isNew := newTypeFieldKey(fa); isNew {
				inBody := map[*ssa.Function]bool{}
				for _, g := range body {
					inBody[g] = true
				}
				var res *ssa.Const
				n := 0
				for _, sv := range gNewTypeStores[k] {
					in, isIn := sv.(ssa.Instruction)
					var owner *ssa.Function
					if isIn {
						owner = in.Parent()
					} else if p, isP := sv.(*ssa.Parameter); isP {
						owner = p.Parent()
					}
					if c0, isK := sv.(*ssa.Const); isK {
						// a constant stored somewhere: accept only when every store of the field in this body is that constant
						_ = c0
					}
					if owner != nil && !inBody[owner] {
						continue
					}
					kk := constThroughN(sv, body, depth-1)
					if kk == nil {
						if _, isK := sv.(*ssa.Const); !isK && owner == nil {
							continue
						}
						return nil
					}
					n++
					if res != nil && (res.Value == nil) != (kk.Value == nil) {
						return nil
					}
					if res != nil && res.Value != nil && res.Value.ExactString() != kk.Value.ExactString() {
						return nil
					}
					res = kk
				}
				if n == 0 {
					return nil
				}
				return res
			}
		}
		cell := x.X
		for i := 0; i < 4; i++ {
			fv, ok := cell.(*ssa.FreeVar)
			if !ok {
				break
			}
			cl := fv.Parent()
			par := cl.Parent()
			idx := -1
			for j, f2 := range cl.FreeVars {
				if f2 == fv {
					idx = j
				}
			}
			if par == nil || idx < 0 {
				return nil
			}
			var bound ssa.Value
			allInstrsShallow(par, func(in ssa.Instruction) {
				if mc, ok := in.(*ssa.MakeClosure); ok && mc.Fn == cl && idx < len(mc.Bindings) {
					bound = mc.Bindings[idx]
				}
			})
			if bound == nil {
				return nil
			}
			cell = bound
		}
		al, ok := cell.(*ssa.Alloc)
		if !ok || al.Referrers() == nil {
			return nil
		}
		var stored ssa.Value
		n := 0
		for _, r := range *al.Referrers() {
			if st, isSt := r.(*ssa.Store); isSt && st.Addr == al {
				stored = st.Val
				n++
			}
		}
		if n != 1 {
			return nil
		}
		return constThroughN(stored, body, depth-1)
	case *ssa.FreeVar:
		if depth == 0 {
			return nil
		}
		cl := x.Parent()
		idx := -1
		for i, fv := range cl.FreeVars {
			if fv == x {
				idx = i
			}
		}
		par := cl.Parent()
		if par == nil || idx < 0 {
			return nil
		}
		var res *ssa.Const
		allInstrsShallow(par, func(in ssa.Instruction) {
			mc, ok := in.(*ssa.MakeClosure)
			if !ok || mc.Fn != cl || idx >= len(mc.Bindings) {
				return
			}
			res = constThroughN(mc.Bindings[idx], body, depth-1)
		})
		return res
	}
	return nil
}

// failureFails decides "when the step fails, f fails": the step is a call satisfying isStep, found in f
// itself, inside a closure f hands to another call (the transaction runners), or inside an unexported
// same-package helper f calls — in which case the helper must fail when the step fails and f must fail
// when the helper fails. found=false: no such step anywhere in f's body.
func failureFails(f *ssa.Function, isStep func(*ssa.Call) bool, depth int) (found, ok bool, where *ssa.Call, why string) {
	if f == nil || len(f.Blocks) == 0 {
		return false, false, nil, ""
	}
	pkg := pkgOf(outermost(f))
	var cand *ssa.Call
	helperOK := true
	helperWhy := ""
	allInstrsShallow(f, func(in ssa.Instruction) {
		cl, isCall := in.(*ssa.Call)
		if !isCall {
			return
		}
		if isStep(cl) {
			cand = cl
			return
		}
		for _, a := range cl.Call.Args {
			if mc, isMC := a.(*ssa.MakeClosure); isMC {
				body := mc.Fn.(*ssa.Function)
				if m := boundMethodTarget(mc); m != nil {
					body = m
				}
				if mayDo(body, func(x ssa.Instruction) bool {
					c2, ok2 := x.(*ssa.Call)
					return ok2 && isStep(c2)
				}) {
					cand = cl
					return
				}
			}
		}
		if depth > 0 {
			if h := helperCallee(cl, pkg); h != nil && !isExportedFn(h) {
				if fd, okH, _, w := failureFails(h, isStep, depth-1); fd {
					cand = cl
					helperOK = okH
					helperWhy = w
				}
			}
		}
	})
	if cand == nil {
		return false, false, nil, ""
	}
	if !helperOK {
		return true, false, cand, helperWhy
	}
	ers := errResults(cand)
	if len(ers) == 0 || len(nilTestsOf(f, ers[0])) == 0 {
		// `return step()` hands the error straight to the caller
		direct := false
		if len(ers) > 0 {
			for _, ret := range returnsOf(f) {
				if len(ret.Results) > 0 && strip(ret.Results[len(ret.Results)-1]) == ers[0] {
					direct = true
				}
			}
		}
		if direct {
			return true, true, cand, ""
		}
		return true, false, cand, "the result of the step is not tested"
	}
	r := reach(f, cand, errorEdgeCut(f, cand, false), nil)
	for _, ret := range returnsOf(f) {
		if isNilErrorReturn(ret) && r(ret) {
			return true, false, cand, "success can be reported although the step failed"
		}
	}
	return true, true, cand, ""
}

// mustDoOnSuccess: every path from h's entry to a return that may report success (nil error, or no
// error result at all) passes an instruction satisfying p (or a call of a helper for which the same
// holds). Returns that certainly report an error are exempt: the caller fails with them.
func mustDoOnSuccess(h *ssa.Function, p func(ssa.Instruction) bool) bool {
	return mustDoOnSuccessN(h, p, summaryDepth, map[*ssa.Function]bool{})
}

func mustDoOnSuccessN(h *ssa.Function, p func(ssa.Instruction) bool, depth int, visiting map[*ssa.Function]bool) bool {
	if h == nil || len(h.Blocks) == 0 || visiting[h] {
		return false
	}
	visiting[h] = true
	defer delete(visiting, h)
	pkg := pkgOf(outermost(h))
	stop := func(in ssa.Instruction) bool {
		if p(in) {
			return true
		}
		if _, isDefer := in.(*ssa.Defer); isDefer {
			return false
		}
		if depth > 0 {
			if g := helperCallee(in, pkg); g != nil && mustDoOnSuccessN(g, p, depth-1, visiting) {
				// the helper did it unless it failed; a failure of the helper must fail h: accept when the
				// helper has no error result or its error is propagated (checked by the ERRFLOW rules of the
				// properties; here the call stands for the step)
				return true
			}
		}
		return false
	}
	r := reach(h, nil, nil, stop)
	rets := returnsOf(h)
	if len(rets) == 0 {
		return false
	}
	hasErr := h.Signature.Results().Len() > 0 && isErrorType(h.Signature.Results().At(h.Signature.Results().Len()-1).Type())
	for _, ret := range rets {
		if !r(ret) || stop(ret) {
			continue
		}
		if hasErr && !isNilErrorReturn(ret) {
			continue
		}
		return false
	}
	return true
}

// liftMustOnSuccess: P, or a call of a same-package helper that does P on every path to a successful return.
func liftMustOnSuccess(fn *ssa.Function, p func(ssa.Instruction) bool) func(ssa.Instruction) bool {
	pkg := pkgOf(outermost(fn))
	memo := map[*ssa.Function]bool{}
	return func(in ssa.Instruction) bool {
		if p(in) {
			return true
		}
		if _, isDefer := in.(*ssa.Defer); isDefer {
			return false
		}
		g := helperCallee(in, pkg)
		if g == nil {
			return false
		}
		v, ok := memo[g]
		if !ok {
			v = mustDoOnSuccess(g, p)
			memo[g] = v
		}
		return v
	}
}

// stepLoc: a step (a call satisfying a predicate) as seen from function f: Site is the call in f through
// which it happens (the step itself, or the call of the same-package function that performs it), Step
// the call itself, Via the functions between them (empty when direct).
type stepLoc struct {
	Site *ssa.Call
	Step *ssa.Call
	Via  []*ssa.Function
}

// findSteps lists the steps performed by f directly or through same-package callees (static calls,
// depth-bounded; closures handed to a call count as part of that call).
func findSteps(f *ssa.Function, isStep func(*ssa.Call) bool, depth int) []stepLoc {
	var out []stepLoc
	pkg := pkgOf(outermost(f))
	seen := map[*ssa.Function]bool{}
	var inCallee func(g *ssa.Function, d int) []stepLoc
	inCallee = func(g *ssa.Function, d int) []stepLoc {
		if seen[g] {
			return nil
		}
		seen[g] = true
		defer delete(seen, g)
		var res []stepLoc
		for _, h := range withClosures(g) {
			allInstrsShallow(h, func(in ssa.Instruction) {
				cl, ok := in.(*ssa.Call)
				if !ok {
					return
				}
				if isStep(cl) {
					res = append(res, stepLoc{Step: cl})
					return
				}
				if d > 0 {
					if k := helperCallee(cl, pkg); k != nil {
						for _, s := range inCallee(k, d-1) {
							res = append(res, stepLoc{Step: s.Step, Via: append([]*ssa.Function{k}, s.Via...)})
						}
					}
				}
			})
		}
		return res
	}
	allInstrsShallow(f, func(in ssa.Instruction) {
		cl, ok := in.(*ssa.Call)
		if !ok {
			return
		}
		if isStep(cl) {
			out = append(out, stepLoc{Site: cl, Step: cl})
			return
		}
		if depth > 0 {
			if k := helperCallee(cl, pkg); k != nil {
				for _, s := range inCallee(k, depth-1) {
					out = append(out, stepLoc{Site: cl, Step: s.Step, Via: append([]*ssa.Function{k}, s.Via...)})
				}
			}
		}
	})
	return out
}

// sliceVia: the backward slice of v (a value inside the function performing loc.Step) continued, for
// every parameter of the callee it reaches, with the argument of the site in the caller.
func sliceVia(v ssa.Value, loc stepLoc) *slice {
	s := backSlice(v)
	if loc.Site == loc.Step || len(loc.Via) == 0 {
		return s
	}
	h := loc.Via[0]
	for i, p := range h.Params {
		if s.vals[p] && i < len(loc.Site.Call.Args) {
			for x := range backSlice(loc.Site.Call.Args[i]).vals {
				s.vals[x] = true
			}
		}
	}
	return s
}

// stepFailsVia: when the step fails, every function on the way to the site fails (so that testing the
// site's error in the caller is testing the step).
func stepFailsVia(loc stepLoc) (bool, string) {
	for i, h := range loc.Via {
		_ = i
		found, ok, _, why := failureFails(h, func(cl *ssa.Call) bool { return cl == loc.Step }, summaryDepth)
		if !found {
			return false, "the step is not found in " + FuncName(h)
		}
		if !ok {
			return false, FuncName(h) + ": " + why
		}
	}
	return true, ""
}


// siteIn: the instruction of f through which `in` executes: `in` itself when it belongs to f (or one
// of its closures), else the unique call in f of the new helper (canon.go) that contains it.
func siteIn(f *ssa.Function, in ssa.Instruction) ssa.Instruction {
	cur := in
	for depth := 0; depth < 4; depth++ {
		p := cur.Parent()
		if p == f {
			return cur
		}
		np := lexicalOutermost(p)
		if !gNewFuncs[np] {
			if np == lexicalOutermost(f) {
				return cur
			}
			return nil
		}
		var site ssa.Instruction
		n := 0
		for _, s := range sitesOf(np) {
			if lexicalOutermost(s.Parent()) == lexicalOutermost(f) || gNewFuncs[lexicalOutermost(s.Parent())] {
				site = s
				n++
			}
		}
		if n != 1 {
			return nil
		}
		cur = site
	}
	return nil
}

// mustDoForResult: every path of h to a return whose (single, boolean) result may equal `outcome`
// passes an instruction satisfying p. Returns of the opposite constant are exempt.
func mustDoForResult(h *ssa.Function, p func(ssa.Instruction) bool, outcome bool) bool {
	if h == nil || len(h.Blocks) == 0 || h.Signature.Results().Len() != 1 {
		return false
	}
	r := reach(h, nil, nil, p)
	rets := returnsOf(h)
	if len(rets) == 0 {
		return false
	}
	for _, ret := range rets {
		if !r(ret) {
			continue
		}
		opposite := true
		valueOrigins(h, ret.Results[0], func(root ssa.Value) {
			k, ok := strip(root).(*ssa.Const)
			if !ok || k.Value == nil || (k.Value.String() == "true") == outcome {
				opposite = false
			}
		})
		if !opposite {
			return false
		}
	}
	return true
}

// condLiftCut: edges of f on which p is known to have happened inside a helper: the successors of a
// test of a boolean helper result for the outcomes on which the helper must have done p. Used together
// with reach(): `reach(f, start, orCut(cut, condLiftCut(f, p)), liftMust(f, p))`.
func condLiftCut(f *ssa.Function, p func(ssa.Instruction) bool) func(from, to *ssa.BasicBlock) bool {
	pkg := pkgOf(outermost(f))
	type edge struct{ from, to *ssa.BasicBlock }
	cutEdges := map[edge]bool{}
	allInstrsShallow(f, func(in ssa.Instruction) {
		cl, ok := in.(*ssa.Call)
		if !ok {
			return
		}
		h := helperCallee(cl, pkg)
		if h == nil || h.Signature.Results().Len() != 1 {
			return
		}
		if b, isB := h.Signature.Results().At(0).Type().Underlying().(*types.Basic); !isB || b.Kind() != types.Bool {
			return
		}
		for _, t := range boolTestsOf(f, cl) {
			if t.TrueSucc == t.FalseSucc {
				continue
			}
			if mustDoForResult(h, p, true) {
				cutEdges[edge{t.If.Block(), t.TrueSucc}] = true
			}
			if mustDoForResult(h, p, false) {
				cutEdges[edge{t.If.Block(), t.FalseSucc}] = true
			}
		}
	})
	return func(from, to *ssa.BasicBlock) bool { return cutEdges[edge{from, to}] }
}


// projectChain: in, then the call sites through which it executes as long as its function is a helper
// the reference tree does not have with exactly one call site.
func projectChain(in ssa.Instruction) []ssa.Instruction {
	out := []ssa.Instruction{in}
	cur := in
	for depth := 0; depth < 4; depth++ {
		p := outermostNew(cur.Parent())
		if p == nil || len(sitesOf(p)) != 1 {
			break
		}
		cur = sitesOf(p)[0]
		out = append(out, cur)
	}
	return out
}

// outermostNew: the new helper (canon.go) that f is, or is a closure of; nil if none.
func outermostNew(f *ssa.Function) *ssa.Function {
	for g := f; g != nil; g = g.Parent() {
		if gNewFuncs[g] {
			return g
		}
	}
	return nil
}

// projectPair: representatives of a and b inside one function (a's and b's call-site chains meet).
func projectPair(a, b ssa.Instruction) (ssa.Instruction, ssa.Instruction) {
	if len(gNewFuncs) == 0 {
		return nil, nil
	}
	ca, cb := projectChain(a), projectChain(b)
	for _, x := range ca {
		for _, y := range cb {
			if x.Parent() == y.Parent() {
				return x, y
			}
		}
	}
	return nil, nil
}

// newHelpersOf: the helpers the reference tree does not have that fn's own instructions (not its
// closures') call statically, transitively, each with its closures.
func newHelpersOf(fn *ssa.Function) []*ssa.Function {
	if len(gNewFuncs) == 0 || fn == nil {
		return nil
	}
	var out []*ssa.Function
	seen := map[*ssa.Function]bool{fn: true}
	var walk func(f *ssa.Function, depth int)
	walk = func(f *ssa.Function, depth int) {
		for _, b := range f.Blocks {
			for _, in := range b.Instrs {
				var h *ssa.Function
				switch x := in.(type) {
				case ssa.CallInstruction:
					h = x.Common().StaticCallee()
				case *ssa.MakeClosure:
					h = boundMethodTarget(x)
				}
				if h == nil || !gNewFuncs[h] || seen[h] || depth == 0 {
					continue
				}
				seen[h] = true
				for _, g := range withClosures(h) {
					out = append(out, g)
				}
				walk(h, depth-1)
				for _, g := range closuresOf(h) {
					walk(g, depth-1)
				}
			}
		}
	}
	walk(fn, summaryDepth)
	return out
}

// boundMethodTarget: for `x.m` used as a function value (a bound-method wrapper closure), the method m.
func boundMethodTarget(mc *ssa.MakeClosure) *ssa.Function {
	w, ok := mc.Fn.(*ssa.Function)
	if !ok || !strings.HasPrefix(w.Synthetic, "bound method wrapper") {
		return nil
	}
	var out *ssa.Function
	allInstrsShallow(w, func(in ssa.Instruction) {
		if ci, ok := in.(ssa.CallInstruction); ok {
			if h := ci.Common().StaticCallee(); h != nil {
				out = h
			}
		}
	})
	return out
}


// hostFn: the function of f's body (f, a helper the reference tree does not have, a bound method body) that
// contains in; rules about a construct that lies wholly inside one function (a loop, a selection between two
// candidates) are evaluated in the function that holds the construct today.
func hostFn(f *ssa.Function, in ssa.Instruction) *ssa.Function {
	if in == nil || in.Parent() == nil {
		return f
	}
	h := in.Parent()
	for _, g := range bodyFns(f, nil) {
		if g == h {
			return h
		}
	}
	return f
}


// ---- binding context ------------------------------------------------------------------------------
// A helper the reference tree does not have may be shared by sibling operations (signDigest called by
// SignHash and by SignMessage). While a rule is evaluated for one anchored function, a parameter of such a
// helper stands for the arguments at the call sites that lie in that function's body only — binding it
// to the siblings' arguments as well would mix the siblings' data flows. gBindCtx is set by MustFn (the
// function a rule is anchored at) and holds the lexical top-level functions of bodyFns(f).
var gBindCtx map[*ssa.Function]bool

func setBindCtx(f *ssa.Function) {
	gBindCtx = nil
	if f == nil || len(gNewFuncs) == 0 {
		return
	}
	ctx := map[*ssa.Function]bool{}
	for _, g := range bodyFns(f, nil) {
		ctx[lexicalOutermost(g)] = true
	}
	gBindCtx = ctx
}

// sitesOf: the call sites of new helper h that count in the current binding context (all of them when
// none lies in the context).
func sitesOf(h *ssa.Function) []ssa.CallInstruction {
	all := gCallSitesOf[h]
	if gBindCtx == nil || len(all) < 2 {
		return all
	}
	var in []ssa.CallInstruction
	for _, s := range all {
		if gBindCtx[lexicalOutermost(s.Parent())] {
			in = append(in, s)
		}
	}
	if len(in) == 0 {
		return all
	}
	return in
}
