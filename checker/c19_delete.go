package main

import (
	"sort"
	"strings"

	"golang.org/x/tools/go/ssa"
)

// checkDeleteOrder (C19-SUBTREE): deleting a bucket removes the whole subtree below it. The delete routine
// finds the sub-buckets of a bucket through the name index (BucketNames iterates the index entries below
// the bucket's path), so within one activation for bucket b the enumeration of b's sub-buckets must not
// be reachable after a descent that unlinks sub-buckets of b from the index: a routine split into
// "unlink everything" followed by "purge everything" finds no sub-bucket in its second phase and leaves
// the k/v of every descendant behind, where a bucket created later under the same name finds them.
// The routine's body is the anchored function with the helpers the reference tree does not have; calls
// that descend (bucket argument obtained from b.Bucket(…)) are the recursion, calls that pass b on are
// phases of the same activation.
func checkDeleteOrder(c *Ctx) {
	rule := "C19-SUBTREE"
	F := c.MustFn(rule, "poc/wallet/db/ldb", "deleteBucket")
	if F == nil {
		return
	}
	idxConst, _ := constVal(c, pkgLDB, "bucketNameBucket")
	var S []*ssa.Function
	inS := map[*ssa.Function]bool{}
	for _, g := range bodyFns(F, nil) {
		if g.Parent() == nil && !inS[g] {
			inS[g] = true
			S = append(S, g)
		}
	}
	isBucketT := func(v ssa.Value) bool { return strings.HasSuffix(v.Type().String(), ".LDBBucket") }
	// helpers of the package the reference tree does not have that work on a bucket belong to the routine
	// as well, also when the anchored function does not call them (a phase split made at the API level)
	{
		var extra []*ssa.Function
		for fn := range gNewFuncs {
			if fn == nil || fn.Parent() != nil || pkgOf(fn) != pkgLDB || inS[fn] || fn.Blocks == nil {
				continue
			}
			for _, p := range fn.Params {
				if isBucketT(p) {
					extra = append(extra, fn)
					break
				}
			}
		}
		sort.Slice(extra, func(i, j int) bool { return FuncName(extra[i]) < FuncName(extra[j]) })
		for _, fn := range extra {
			inS[fn] = true
			S = append(S, fn)
		}
	}
	ownParam := func(g *ssa.Function) *ssa.Parameter {
		for _, p := range g.Params {
			if isBucketT(p) {
				return p
			}
		}
		return nil
	}
	// direct unlink: a Delete on the leveldb transaction whose key is an index key
	directUnlink := func(in ssa.Instruction) bool {
		op, ok := isLevelDBStoreCall(in)
		if !ok || !strings.HasSuffix(op, ").Delete") || strings.HasPrefix(op, "Batch") {
			return false
		}
		args := callArgs(in)
		if len(args) == 0 {
			return false
		}
		for _, j := range backSlice(args[0]).callsTo(pkgLDB + ".joinBucketPath") {
			if len(j.Call.Args) > 0 {
				if s, ok := constString(j.Call.Args[0]); ok && idxConst != "" && (s == idxConst || "\""+s+"\"" == idxConst) {
					return true
				}
				if backSlice(j.Call.Args[0]).hasConstVal(idxConst) {
					return true
				}
			}
		}
		return false
	}
	// mayUnlink: closure over S (recursion included)
	mayUnlink := map[*ssa.Function]bool{}
	for changed := true; changed; {
		changed = false
		for _, g := range S {
			if mayUnlink[g] {
				continue
			}
			allInstrsShallow(g, func(in ssa.Instruction) {
				if directUnlink(in) {
					mayUnlink[g] = true
				}
				if ci, ok := in.(ssa.CallInstruction); ok {
					if h := ci.Common().StaticCallee(); h != nil && inS[h] && mayUnlink[h] {
						mayUnlink[g] = true
					}
				}
			})
			if mayUnlink[g] {
				changed = true
			}
		}
	}
	// how a call of a function of S passes the bucket: "own" (the activation's bucket), "descent" (a
	// sub-bucket obtained from it) or ""
	passes := func(g *ssa.Function, ci ssa.CallInstruction) string {
		own := ownParam(g)
		kind := ""
		for _, a := range ci.Common().Args {
			if !isBucketT(a) {
				continue
			}
			valueOriginsLocal(g, a, func(r ssa.Value) {
				switch x := r.(type) {
				case *ssa.Parameter:
					if own != nil && x == own && kind == "" {
						kind = "own"
					}
				case *ssa.Call:
					if n := callName(x); n == "Bucket" || n == "subBucket" {
						kind = "descent"
					}
				case *ssa.Extract:
					if cl, ok := x.Tuple.(*ssa.Call); ok {
						if n := callName(cl); n == "Bucket" || n == "subBucket" {
							kind = "descent"
						}
					}
				}
			})
		}
		return kind
	}
	type ev struct{ D, E bool }
	var eventsOf func(g *ssa.Function, depth int, path map[*ssa.Function]bool) map[ssa.Instruction]ev
	eventsOf = func(g *ssa.Function, depth int, path map[*ssa.Function]bool) map[ssa.Instruction]ev {
		out := map[ssa.Instruction]ev{}
		own := ownParam(g)
		allInstrsShallow(g, func(in ssa.Instruction) {
			ci, ok := in.(ssa.CallInstruction)
			if !ok {
				return
			}
			if _, isGo := in.(*ssa.Go); isGo {
				return
			}
			// enumeration of the activation's own sub-buckets
			if strings.HasSuffix(calleeID(in), ".LDBBucket).BucketNames") && own != nil {
				isOwn := false
				if r := callRecv(in); r != nil {
					valueOriginsLocal(g, r, func(x ssa.Value) {
						if x == ssa.Value(own) {
							isOwn = true
						}
					})
				}
				if isOwn {
					e := out[in]
					e.E = true
					out[in] = e
				}
				return
			}
			h := ci.Common().StaticCallee()
			if h == nil || !inS[h] {
				return
			}
			switch passes(g, ci) {
			case "descent":
				if mayUnlink[h] {
					e := out[in]
					e.D = true
					out[in] = e
				}
			case "own":
				if depth > 0 && !path[h] && h != g {
					path[h] = true
					sub := eventsOf(h, depth-1, path)
					delete(path, h)
					e := out[in]
					for _, se := range sub {
						e.D = e.D || se.D
						e.E = e.E || se.E
					}
					if e.D || e.E {
						out[in] = e
					}
				}
			}
		})
		return out
	}
	// callers of the routine outside its body (the DeleteBucket API) are looked at as well: two descents
	// into the same sub-bucket are phases of that sub-bucket's activation
	var frames []*ssa.Function
	frames = append(frames, S...)
	for fn := range c.AllFuncs {
		if pkgOf(fn) != pkgLDB || inS[fn] || fn.Parent() != nil || fn.Blocks == nil {
			continue
		}
		calls := false
		allInstrsShallow(fn, func(in ssa.Instruction) {
			if ci, ok := in.(ssa.CallInstruction); ok {
				if h := ci.Common().StaticCallee(); h != nil && inS[h] {
					calls = true
				}
			}
		})
		if calls {
			frames = append(frames, fn)
		}
	}
	sort.Slice(frames[len(S):], func(i, j int) bool { return FuncName(frames[len(S)+i]) < FuncName(frames[len(S)+j]) })
	descentRoot := func(g *ssa.Function, ci ssa.CallInstruction) ssa.Value {
		var root ssa.Value
		for _, a := range ci.Common().Args {
			if !isBucketT(a) {
				continue
			}
			valueOriginsLocal(g, a, func(r ssa.Value) {
				switch x := r.(type) {
				case *ssa.Call:
					if n := callName(x); n == "Bucket" || n == "subBucket" {
						root = x
					}
				case *ssa.Extract:
					if cl, ok := x.Tuple.(*ssa.Call); ok {
						if n := callName(cl); n == "Bucket" || n == "subBucket" {
							root = cl
						}
					}
				}
			})
		}
		return root
	}
	n := 0
	for _, g := range frames {
		// phases of one sub-bucket's activation: an earlier call that unlinks below it, a later call that
		// enumerates it
		{
			type dc struct {
				in   ssa.Instruction
				root ssa.Value
				e    ev
			}
			var dcs []dc
			allInstrsShallow(g, func(in ssa.Instruction) {
				ci, ok := in.(ssa.CallInstruction)
				if !ok {
					return
				}
				h := ci.Common().StaticCallee()
				if h == nil || !inS[h] || passes(g, ci) != "descent" {
					return
				}
				root := descentRoot(g, ci)
				if root == nil {
					return
				}
				var agg ev
				for _, se := range eventsOf(h, 3, map[*ssa.Function]bool{h: true}) {
					agg.D = agg.D || se.D
					agg.E = agg.E || se.E
				}
				dcs = append(dcs, dc{in, root, agg})
			})
			for _, a := range dcs {
				for _, b := range dcs {
					if a.in != b.in && a.root == b.root && a.e.D && b.e.E && reach(g, a.in, nil, nil)(b.in) {
						n++
						c.Bad(rule, FuncName(g)+":sub-bucket-phases-in-order", c.Pos(b.in.Pos()), "a sub-bucket's own sub-buckets are enumerated (second phase) after a first phase already unlinked them from the name index: the second phase finds none and the k/v of every bucket below survive the deletion")
					}
				}
			}
		}
		if !inS[g] {
			continue
		}
		evs := eventsOf(g, 3, map[*ssa.Function]bool{g: true})
		key := FuncName(g) + ":sub-buckets-enumerated-before-any-is-unlinked"
		bad := ""
		for i1, e1 := range evs {
			if !e1.D {
				continue
			}
			r := reach(g, i1, nil, nil)
			for i2, e2 := range evs {
				if e2.E && i2 != i1 && r(i2) {
					bad = c.Pos(i2.Pos())
				}
				if e2.E && i2 == i1 && blockReentered(g, i1) {
					bad = c.Pos(i2.Pos())
				}
			}
		}
		hasAny := false
		for _, e := range evs {
			if e.D || e.E {
				hasAny = true
			}
		}
		if !hasAny {
			continue
		}
		n++
		if bad != "" {
			c.Bad(rule, key, bad, "the sub-buckets of a bucket are enumerated (BucketNames reads the name index) after a descent that already removed sub-buckets from the index: the second phase finds none, so the k/v of every descendant survive the deletion and a bucket created later under the same name sees them")
		} else {
			c.OK(rule, key, c.Pos(g.Pos()), "the enumeration of the bucket's sub-buckets is not reachable after a descent that unlinks sub-buckets")
		}
	}
	if n == 0 {
		c.Bad(rule, "deleteBucket:anchor", c.Pos(F.Pos()), "reason=anchor-missing: no sub-bucket enumeration / descent in the delete routine")
	}
}
