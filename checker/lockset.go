package main

// LOCKSET: must-held locks at every instruction, interprocedural entry locksets by intersection
// over call sites (fixpoint).

import (
	"go/types"
	"sort"
	"strings"

	"golang.org/x/tools/go/ssa"
)

// heldLock identifies a held lock: class = "<pkg>.<Type>.<field>", mode R or W, base = access path
// of the object owning the mutex as seen in the current function ("" when unknown).
type heldLock struct {
	Class string
	Mode  byte // 'W' or 'R'
	Base  string
}

type lockset map[heldLock]bool

func (l lockset) copy() lockset {
	n := lockset{}
	for k := range l {
		n[k] = true
	}
	return n
}

func (l lockset) String() string {
	var s []string
	for k := range l {
		s = append(s, shortType(k.Class)+"("+string(k.Mode)+")"+ifs(k.Base != "", "@"+k.Base, ""))
	}
	sort.Strings(s)
	return "{" + strings.Join(s, ", ") + "}"
}

func ifs(b bool, x, y string) string {
	if b {
		return x
	}
	return y
}

func intersect(a, b lockset) lockset {
	n := lockset{}
	for k := range a {
		if b[k] {
			n[k] = true
		}
	}
	return n
}

func (l lockset) equal(o lockset) bool {
	if len(l) != len(o) {
		return false
	}
	for k := range l {
		if !o[k] {
			return false
		}
	}
	return true
}

// lockOp classifies a call instruction as a lock operation.
// returns class, mode, base path, op ("lock"|"unlock"), ok
func lockOp(in ssa.Instruction) (string, byte, string, string, bool) {
	ci, ok := in.(ssa.CallInstruction)
	if !ok {
		return "", 0, "", "", false
	}
	id := calleeID(in)
	var op string
	var mode byte
	switch id {
	case "(*sync.Mutex).Lock", "(*sync.RWMutex).Lock":
		op, mode = "lock", 'W'
	case "(*sync.RWMutex).RLock":
		op, mode = "lock", 'R'
	case "(*sync.Mutex).Unlock", "(*sync.RWMutex).Unlock":
		op, mode = "unlock", 'W'
	case "(*sync.RWMutex).RUnlock":
		op, mode = "unlock", 'R'
	default:
		return "", 0, "", "", false
	}
	recv := ci.Common().Args[0]
	fa, ok := recv.(*ssa.FieldAddr)
	if !ok {
		// a local or global mutex
		return "local:" + accessPath(recv), mode, "", op, true
	}
	n, st := namedStructOrAnon(fa.X.Type())
	cls := "anon"
	if n != nil {
		cls = typeFullName(n)
	}
	return cls + "." + st.Field(fa.Field).Name(), mode, accessPath(fa.X), op, true
}

type lockInfo struct {
	c      *Ctx
	scope  map[*ssa.Function]bool
	entry  map[*ssa.Function]lockset
	hasEnt map[*ssa.Function]bool
	at     map[ssa.Instruction]lockset
	// perInstance: lock classes whose identity depends on the owning object
	perInstance map[string]bool
	// rootsEmpty: functions whose entry lockset is empty by definition (exported API, goroutines)
	external func(fn *ssa.Function) bool
}

// transferBlock runs the block transfer and optionally records the lockset before each instruction.
func (li *lockInfo) transferBlock(b *ssa.BasicBlock, in lockset, record bool) lockset {
	cur := in.copy()
	for _, ins := range b.Instrs {
		if record {
			li.at[ins] = cur.copy()
		}
		if _, isDefer := ins.(*ssa.Defer); isDefer {
			continue // deferred unlock: lock stays held to function exit
		}
		if _, isGo := ins.(*ssa.Go); isGo {
			continue
		}
		cls, mode, base, op, ok := lockOp(ins)
		if !ok {
			continue
		}
		if op == "lock" {
			cur[heldLock{cls, mode, base}] = true
		} else {
			for k := range cur {
				if k.Class == cls && k.Mode == mode && (k.Base == base || !li.perInstance[cls]) {
					delete(cur, k)
				}
			}
		}
	}
	return cur
}

func (li *lockInfo) analyseFunc(fn *ssa.Function, entry lockset, record bool) {
	if len(fn.Blocks) == 0 {
		return
	}
	in := map[*ssa.BasicBlock]lockset{fn.Blocks[0]: entry.copy()}
	work := []*ssa.BasicBlock{fn.Blocks[0]}
	for len(work) > 0 {
		b := work[0]
		work = work[1:]
		out := li.transferBlock(b, in[b], false)
		for _, s := range b.Succs {
			old, seen := in[s]
			var nw lockset
			if !seen {
				nw = out.copy()
			} else {
				nw = intersect(old, out)
			}
			if !seen || !nw.equal(old) {
				in[s] = nw
				work = append(work, s)
			}
		}
	}
	if record {
		for _, b := range fn.Blocks {
			if st, ok := in[b]; ok {
				li.transferBlock(b, st, true)
			}
		}
	}
}

// translate maps the caller's lockset at a call site into the callee's name space: per-instance
// locks survive only when their base object is passed as an argument (renamed to the parameter),
// or is reachable identically (globals); class-level locks survive as they are.
func (li *lockInfo) translate(ls lockset, site ssa.Instruction, callee *ssa.Function, kind string) lockset {
	out := lockset{}
	var args []ssa.Value
	if ci, ok := site.(ssa.CallInstruction); ok && (kind == "static") {
		args = ci.Common().Args
	}
	for k := range ls {
		if !li.perInstance[k.Class] {
			out[heldLock{k.Class, k.Mode, ""}] = true
			continue
		}
		if k.Base == "" {
			continue
		}
		renamed := false
		for i, a := range args {
			if i < len(callee.Params) && accessPath(a) == k.Base {
				out[heldLock{k.Class, k.Mode, callee.Params[i].Name()}] = true
				renamed = true
			}
		}
		if !renamed && kind != "static" {
			// closure: free variables keep their access paths (rootCell resolution in accessPath)
			out[k] = true
		}
	}
	return out
}

// computeLocksets analyses every function in scope. Entry locksets: external(fn) => empty;
// otherwise the intersection over all call sites in scope (closures passed as arguments inherit the
// lockset at the passing call; `go` and `defer` closures start empty).
func computeLocksets(c *Ctx, scope map[*ssa.Function]bool, perInstance map[string]bool, external func(fn *ssa.Function) bool) *lockInfo {
	li := &lockInfo{c: c, scope: scope, entry: map[*ssa.Function]lockset{}, hasEnt: map[*ssa.Function]bool{}, at: map[ssa.Instruction]lockset{}, perInstance: perInstance, external: external}
	fns := []*ssa.Function{}
	for f := range scope {
		fns = append(fns, f)
	}
	sort.Slice(fns, func(i, j int) bool { return fns[i].String() < fns[j].String() })
	for _, f := range fns {
		if external(f) {
			li.entry[f] = lockset{}
			li.hasEnt[f] = true
		}
	}
	for iter := 0; iter < 20; iter++ {
		changed := false
		// analyse functions with known entry, propagate to callees
		li.at = map[ssa.Instruction]lockset{}
		for _, f := range fns {
			if li.hasEnt[f] {
				li.analyseFunc(f, li.entry[f], true)
			}
		}
		newEntry := map[*ssa.Function]lockset{}
		newHas := map[*ssa.Function]bool{}
		for _, f := range fns {
			if !li.hasEnt[f] {
				continue
			}
			for _, e := range c.Callees(f) {
				if !scope[e.Callee] || external(e.Callee) {
					continue
				}
				var ls lockset
				if _, isMC := e.Site.(*ssa.MakeClosure); isMC && (e.Kind == "closure-call" || e.Kind == "closure-made") {
					// a closure bound to a local variable: its entry lockset is the intersection over the
					// sites that call it (not the lockset where it was created)
					e.Kind = "closure-made"
				}
				if mc, isMC := e.Site.(*ssa.MakeClosure); isMC && e.Kind == "closure-arg" {
					// the closure runs inside the call that receives it: use that call's lockset
					if refs := mc.Referrers(); refs != nil {
						for _, r := range *refs {
							if ci, ok := r.(ssa.CallInstruction); ok {
								for _, a := range ci.Common().Args {
									if a == ssa.Value(mc) {
										e.Site = r
									}
								}
							}
						}
					}
				}
				switch {
				case e.Kind == "static" || e.Kind == "closure-call" || e.Kind == "closure-arg" || e.Kind == "invoke":
					if _, isGo := e.Site.(*ssa.Go); isGo {
						ls = lockset{}
					} else if _, isDefer := e.Site.(*ssa.Defer); isDefer {
						ls = lockset{}
						if dls, ok := li.deferredClosureEntry(f, e.Callee); ok {
							ls = dls
						}
					} else {
						at, ok := li.at[e.Site]
						if !ok {
							continue
						}
						ls = li.translate(at, e.Site, e.Callee, e.Kind)
						// a closure handed to a repository function that invokes its function parameter: the closure
						// runs with what that function holds at the invocation (a lock it takes itself included)
						if e.Kind == "closure-arg" {
							if inner, ok := li.paramInvocationLockset(e.Site, e.Callee); ok {
								ls = inner
							}
						}
					}
				default: // closure-made (stored, go, defer), dynamic
					ls = lockset{}
					if e.Kind == "closure-made" {
						if dls, ok := li.deferredClosureEntry(f, e.Callee); ok {
							ls = dls
						}
					}
					if e.Kind == "closure-made" && len(ls) == 0 {
						// a closure only ever called directly in its parent gets the call sites' locksets
						if sites := directClosureCalls(f, e.Callee); len(sites) > 0 {
							first := true
							for _, s := range sites {
								at, ok := li.at[s]
								if !ok {
									continue
								}
								t := li.translate(at, s, e.Callee, "closure-call")
								if first {
									ls, first = t, false
								} else {
									ls = intersect(ls, t)
								}
							}
						}
					}
				}
				if newHas[e.Callee] {
					newEntry[e.Callee] = intersect(newEntry[e.Callee], ls)
				} else {
					newEntry[e.Callee] = ls
					newHas[e.Callee] = true
				}
			}
		}
		for f, ls := range newEntry {
			if !li.hasEnt[f] || !li.entry[f].equal(ls) {
				li.entry[f] = ls
				li.hasEnt[f] = true
				changed = true
			}
		}
		if !changed {
			break
		}
	}
	// functions never reached from an external root: analyse with empty entry
	for _, f := range fns {
		if !li.hasEnt[f] {
			li.entry[f] = lockset{}
			li.hasEnt[f] = true
			li.analyseFunc(f, lockset{}, true)
		}
	}
	return li
}

// directClosureCalls: call sites in parent (or sibling closures) that call closure cl through the
// local variable it was assigned to.
func directClosureCalls(parent *ssa.Function, cl *ssa.Function) []ssa.Instruction {
	var out []ssa.Instruction
	for _, f := range withClosures(lexicalOutermost(parent)) {
		allInstrsShallow(f, func(in ssa.Instruction) {
			ci, ok := in.(ssa.CallInstruction)
			if !ok || ci.Common().IsInvoke() {
				return
			}
			v := ci.Common().Value
			hit := false
			valueOrigins(f, v, func(root ssa.Value) {
				if mc, ok := root.(*ssa.MakeClosure); ok && mc.Fn == cl {
					hit = true
				}
				// captured variable holding the closure: rootCell's stores
				if a, ok := root.(*ssa.Alloc); ok {
					if refs := a.Referrers(); refs != nil {
						for _, r := range *refs {
							if st, ok := r.(*ssa.Store); ok {
								if mc, ok := st.Val.(*ssa.MakeClosure); ok && mc.Fn == cl {
									hit = true
								}
							}
						}
					}
				}
			})
			if hit {
				if _, isGo := in.(*ssa.Go); !isGo {
					out = append(out, in)
				}
			}
		})
	}
	return out
}

func isExportedFunc(fn *ssa.Function) bool {
	if fn.Parent() != nil {
		return false
	}
	if fn.Object() == nil {
		return false
	}
	if !fn.Object().Exported() {
		return false
	}
	// exported method of an unexported type is not callable from outside the package
	if recv := fn.Signature.Recv(); recv != nil {
		t := recv.Type()
		if p, ok := t.(*types.Pointer); ok {
			t = p.Elem()
		}
		if n, ok := t.(*types.Named); ok && !n.Obj().Exported() {
			return false
		}
	}
	return true
}

// deferredClosureEntry: cl is a closure of parent whose only use is `defer cl()`. Deferred calls
// run in reverse order of registration, so a lock held at the defer statement is still held when
// the closure runs if it is released only by a `defer Unlock` registered earlier (one that
// dominates this defer) and never by an explicit Unlock reachable after the defer statement.
func (li *lockInfo) deferredClosureEntry(parent, cl *ssa.Function) (lockset, bool) {
	var def *ssa.Defer
	only := true
	allInstrsShallow(parent, func(in ssa.Instruction) {
		mc, ok := in.(*ssa.MakeClosure)
		if !ok || mc.Fn != ssa.Value(cl) {
			return
		}
		if refs := mc.Referrers(); refs != nil {
			for _, r := range *refs {
				if d, isD := r.(*ssa.Defer); isD && d.Call.Value == ssa.Value(mc) {
					def = d
				} else {
					only = false
				}
			}
		}
	})
	if def == nil || !only || inCycle(def) {
		return nil, false
	}
	at, ok := li.at[def]
	if !ok {
		return nil, false
	}
	out := lockset{}
	after := reach(parent, def, nil, nil)
	for k := range at {
		earlierDeferredUnlock, explicitUnlockAfter := false, false
		allInstrsShallow(parent, func(in ssa.Instruction) {
			cls, mode, base, op, isLock := lockOp(in)
			if !isLock || op != "unlock" || cls != k.Class || mode != k.Mode || (base != k.Base && li.perInstance[cls]) {
				return
			}
			if d, isD := in.(*ssa.Defer); isD {
				if instrDominates(d, def) {
					earlierDeferredUnlock = true
				} else {
					explicitUnlockAfter = true // registered later: runs before the closure
				}
				return
			}
			if after(in) {
				explicitUnlockAfter = true
			}
		})
		if earlierDeferredUnlock && !explicitUnlockAfter {
			out[k] = true
		}
	}
	return out, true
}


// paramInvocationLockset: site is a call of a scope function G that receives closure cl as an argument;
// returns the intersection of the locksets at G's dynamic calls of the corresponding parameter.
func (li *lockInfo) paramInvocationLockset(site ssa.Instruction, cl *ssa.Function) (lockset, bool) {
	ci, ok := site.(ssa.CallInstruction)
	if !ok {
		return nil, false
	}
	g := ci.Common().StaticCallee()
	if g == nil || !li.scope[g] || len(g.Blocks) == 0 {
		return nil, false
	}
	idx := -1
	for i, a := range ci.Common().Args {
		if mc, isMC := a.(*ssa.MakeClosure); isMC {
			if f, _ := mc.Fn.(*ssa.Function); f == cl || boundMethodTarget(mc) == cl {
				idx = i
			}
		}
		if f, isF := a.(*ssa.Function); isF && f == cl {
			idx = i
		}
	}
	if idx < 0 || idx >= len(g.Params) {
		return nil, false
	}
	var out lockset
	found := false
	for _, h := range withClosures(g) {
		allInstrsShallow(h, func(in ssa.Instruction) {
			c2, isC := in.(*ssa.Call)
			if !isC || c2.Call.IsInvoke() || c2.Call.StaticCallee() != nil {
				return
			}
			// the value called is the parameter (directly, or the captured cell holding it)
			isParam := false
			for v := range backSlice(c2.Call.Value).vals {
				if v == ssa.Value(g.Params[idx]) {
					isParam = true
				}
			}
			if !isParam {
				return
			}
			at, ok := li.at[in]
			if !ok {
				return
			}
			if !found {
				out, found = at.copy(), true
			} else {
				out = intersect(out, at)
			}
		})
	}
	return out, found
}
