package main

const fEngine = "poc/engine/engine.go"
const fCapPlotter = "poc/engine/spacekeeper/capacity/space_plotter.go"

func init() {
	variants["C13"] = []variant{
		{Name: "ProofRW.Close without the closed-flag test", Kill: true, Rule: "C13-CHAN", File: fEngine,
			Old: "\tif !prw.closed {\n\t\tprw.closed = true\n\t\tclose(prw.ch)\n\t}\n", New: "\tprw.closed = true\n\tclose(prw.ch)\n"},
		{Name: "ProofRW.Write sends after releasing the mutex", Kill: true, Rule: "C13-CHAN", File: fEngine,
			Old: "\tprw.l.Lock()\n\tdefer prw.l.Unlock()\n\tif prw.closed {\n\t\treturn ErrProofIOTimeout\n\t}\n\tprw.ch <- wsp\n",
			New: "\tprw.l.Lock()\n\tif prw.closed {\n\t\tprw.l.Unlock()\n\t\treturn ErrProofIOTimeout\n\t}\n\tprw.l.Unlock()\n\tprw.ch <- wsp\n"},
		{Name: "StopPlot closes the stop channel directly again", Kill: true, Rule: "C13-CHAN", File: fMassDBV1,
			Old: "\t\tif stopOnce != nil {\n\t\t\tstopOnce.Do(func() { close(stopPlotCh) })\n\t\t}\n", New: "\t\t_ = stopOnce\n\t\tclose(stopPlotCh)\n"},
		{Name: "OnStop waits for the plotter while holding the state lock", Kill: true, Rule: "C13-BLOCK", File: fCapacity,
			Old: "\tclose(sk.quit)\n\tsk.wg.Wait()\n", New: "\tclose(sk.quit)\n\tsk.stateLock.Lock()\n\tsk.wg.Wait()\n\tsk.stateLock.Unlock()\n"},
		{Name: "keeper code calls OnStop directly (second close of quit)", Kill: true, Rule: "C13-CHAN", File: fCapacity,
			Old: "\tif sk.Started() {\n\t\treturn ErrSpaceKeeperIsRunning\n\t}\n\n\tabsDirs := make([]string, len(dbDirs))", New: "\tif sk.Started() {\n\t\tsk.OnStop()\n\t\treturn ErrSpaceKeeperIsRunning\n\t}\n\n\tabsDirs := make([]string, len(dbDirs))"},
		{Name: "plotter queue Push no longer shadows the unlocked heap method", Kill: true, Rule: "C13-QUEUE", File: fCapPlotter,
			Old: "func (pq *plotterQueue) Push(data interface{}, priority float32) {\n\tpq.Lock()\n\tdefer pq.Unlock()\n\n\tpq.Prque.Push(data, priority)\n}\n", New: ""},
		{Name: "plotter takes the queue mutex before the state lock (lock-order cycle)", Kill: true, Rule: "C13-LOCKORDER", File: fCapPlotter,
			Old: "\t\t// Step 1: safely change state to plotting/mining\n\t\tsk.stateLock.Lock()\n", New: "\t\t// Step 1: safely change state to plotting/mining\n\t\tsk.queue.Lock()\n\t\tsk.stateLock.Lock()\n\t\tsk.queue.Unlock()\n"},
		{Name: "StopWS waits for the plotter's own completion signal under the lock", Kill: true, Rule: "C13-BLOCK", File: fCapacity,
			Old: "\t\tqws.wouldMining = false\n\t\treturn ws.StopPlot()\n", New: "\t\tqws.wouldMining = false\n\t\tsk.wg.Wait()\n\t\treturn ws.StopPlot()\n"},

		{Name: "StopWS releases the state lock while waiting for the plot to stop", Kill: false, File: fCapacity,
			Old: "\t\tqws.wouldMining = false\n\t\treturn ws.StopPlot()\n", New: "\t\tqws.wouldMining = false\n\t\tsk.stateLock.Unlock()\n\t\terr := ws.StopPlot()\n\t\tsk.stateLock.Lock()\n\t\treturn err\n"},
		{Name: "ProofRW.Close with deferred unlock", Kill: false, File: fEngine,
			Old: "\tprw.l.Lock()\n\tif !prw.closed {\n\t\tprw.closed = true\n\t\tclose(prw.ch)\n\t}\n\tprw.l.Unlock()\n", New: "\tprw.l.Lock()\n\tdefer prw.l.Unlock()\n\tif !prw.closed {\n\t\tprw.closed = true\n\t\tclose(prw.ch)\n\t}\n"},
		{Name: "RemoveWS with explicit unlocks instead of defer", Kill: false, File: fCapacity,
			Old: "\tsk.stateLock.Lock()\n\tdefer sk.stateLock.Unlock()\n\n\tvar ok bool\n\tvar ws *WorkSpace\n\tif ws, ok = sk.workSpaceIndex[allState].Get(sid); !ok || !ws.using {\n\t\treturn ErrWorkSpaceDoesNotExist\n\t}\n\n\tsk.queue.Delete(sid)\n\n\tif ws, ok = sk.workSpaceIndex[engine.Registered].Get(sid); !ok {\n\t\tif ws, ok = sk.workSpaceIndex[engine.Ready].Get(sid); !ok {\n\t\t\treturn ErrWorkSpaceIsNotStill\n\t\t}\n\t}\n\n\tsk.disuseWorkSpace(ws)\n\treturn nil",
			New: "\tsk.stateLock.Lock()\n\n\tvar ok bool\n\tvar ws *WorkSpace\n\tif ws, ok = sk.workSpaceIndex[allState].Get(sid); !ok || !ws.using {\n\t\tsk.stateLock.Unlock()\n\t\treturn ErrWorkSpaceDoesNotExist\n\t}\n\n\tsk.queue.Delete(sid)\n\n\tif ws, ok = sk.workSpaceIndex[engine.Registered].Get(sid); !ok {\n\t\tif ws, ok = sk.workSpaceIndex[engine.Ready].Get(sid); !ok {\n\t\t\tsk.stateLock.Unlock()\n\t\t\treturn ErrWorkSpaceIsNotStill\n\t\t}\n\t}\n\n\tsk.disuseWorkSpace(ws)\n\tsk.stateLock.Unlock()\n\treturn nil"},
		{Name: "result channel of MassDBV1.Delete written through a renamed helper", Kill: false, File: fMassDBV1,
			Old: "\tvar sendResult = func(err error) {\n\t\tresult <- err\n\t}\n\n\tif atomic.LoadInt32(&mdb.plotting) != 0 {\n\t\tsendResult(ErrAlreadyPlotting)",
			New: "\tvar sendResult = func(err error) {\n\t\tresult <- err\n\t}\n\tvar reply = sendResult\n\n\tif atomic.LoadInt32(&mdb.plotting) != 0 {\n\t\treply(ErrAlreadyPlotting)"},
		{Name: "one Once for all plot runs (seed C13-r2a)", Kill: true, Rule: "C13-CHAN", File: "poc/engine/massdb/massdb.v1/massdb.v1.go",
			Old: "\tmdb.stopOnce = new(sync.Once)\n", New: ""},
		{Name: "fresh Once created into a local first", Kill: false, File: "poc/engine/massdb/massdb.v1/massdb.v1.go",
			Old: "\tmdb.stopOnce = new(sync.Once)\n", New: "\tonce := new(sync.Once)\n\tmdb.stopOnce = once\n"},
	}
}
