package main

// C04 — no secret is stored, exported or logged in the clear (information-flow rule).

import (
	"fmt"
	"go/token"
	"go/types"
	"regexp"
	"sort"
	"strings"

	"golang.org/x/tools/go/ssa"
)

func init() { register("C04", checkC04) }

// ---- a backward walk with stop hooks ---------------------------------------------------------

// walkBack visits the backward data slice of v like backSlice, but asks pre(x) before descending
// into x: "stop" prunes the walk at x (sanitiser), otherwise the operands of x are visited.
func walkBack(v ssa.Value, pre func(x ssa.Value) (stop bool)) {
	seen := map[ssa.Value]bool{}
	var rec func(x ssa.Value)
	rec = func(x ssa.Value) {
		if x == nil || seen[x] {
			return
		}
		seen[x] = true
		if pre(x) {
			return
		}
		switch y := x.(type) {
		case *ssa.Phi:
			for _, e := range y.Edges {
				rec(e)
			}
		case *ssa.UnOp:
			if y.Op == token.MUL {
				if c := cellOf(y.X); c != nil {
					fn := y.Parent()
					rd := rdOf(fn)
					for _, st := range rd.loads[y] {
						rec(st.(*ssa.Store).Val)
					}
					if rd.fromEntry[y] {
						root := rootCell(c)
						if !seen[root] {
							seen[root] = true
							pre(root)
						}
						if a, ok := root.(*ssa.Alloc); ok && a.Parent() != fn {
							for _, f := range withClosures(a.Parent()) {
								allInstrs(f, func(in ssa.Instruction) {
									if st, ok := in.(*ssa.Store); ok && rootCell(st.Addr) == root {
										rec(st.Val)
									}
								})
							}
						}
					}
					return
				}
			}
			rec(y.X)
		case *ssa.BinOp:
			if b, ok := y.Type().Underlying().(*types.Basic); ok && b.Info()&types.IsBoolean != 0 {
				return // comparisons reveal one bit
			}
			rec(y.X)
			rec(y.Y)
		case *ssa.ChangeType:
			rec(y.X)
		case *ssa.ChangeInterface:
			rec(y.X)
		case *ssa.MakeInterface:
			rec(y.X)
		case *ssa.Convert:
			rec(y.X)
		case *ssa.TypeAssert:
			rec(y.X)
		case *ssa.Extract:
			rec(y.Tuple)
		case *ssa.Call:
			if y.Call.IsInvoke() {
				rec(y.Call.Value)
			} else if _, isFn := y.Call.Value.(*ssa.Function); !isFn {
				if _, isB := y.Call.Value.(*ssa.Builtin); !isB {
					rec(y.Call.Value)
				}
			}
			for _, a := range y.Call.Args {
				rec(a)
			}
		case *ssa.FieldAddr:
			rec(y.X)
		case *ssa.Field:
			rec(y.X)
		case *ssa.IndexAddr:
			rec(y.X)
		case *ssa.Index:
			rec(y.X)
		case *ssa.Lookup:
			rec(y.X)
		case *ssa.Slice:
			rec(y.X)
		case *ssa.Next:
			rec(y.Iter)
		case *ssa.Range:
			rec(y.X)
		case *ssa.MakeClosure:
			for _, b := range y.Bindings {
				rec(b)
			}
		case *ssa.MakeMap:
			if refs := y.Referrers(); refs != nil {
				for _, r := range *refs {
					if mu, ok := r.(*ssa.MapUpdate); ok && mu.Map == ssa.Value(y) {
						rec(mu.Value)
					}
				}
			}
		case *ssa.Alloc:
			if refs := y.Referrers(); refs != nil {
				for _, r := range *refs {
					switch z := r.(type) {
					case *ssa.Store:
						if z.Addr == y {
							rec(z.Val)
						}
					case *ssa.FieldAddr:
						if frefs := z.Referrers(); frefs != nil {
							for _, fr := range *frefs {
								if st, ok := fr.(*ssa.Store); ok && st.Addr == z {
									rec(st.Val)
								}
							}
						}
					case *ssa.IndexAddr:
						if frefs := z.Referrers(); frefs != nil {
							for _, fr := range *frefs {
								if st, ok := fr.(*ssa.Store); ok && st.Addr == z {
									rec(st.Val)
								}
							}
						}
					case *ssa.Call:
						// x.CopyBytes(b), x.Unmarshal(p), copy(x, src): what is written into the object
						args := z.Call.Args
						if len(args) > 1 && args[0] == ssa.Value(y) {
							for _, a := range args[1:] {
								rec(a)
							}
						}
					}
				}
			}
		}
	}
	rec(v)
}

// ---- the policy --------------------------------------------------------------------------------

var (
	reSecretName = regexp.MustCompile(`(?i)pass(phrase|word)?s?$|^(old|new)?(priv|pub)pass|privkey|priv$|^seed$|entropy|mnemonic|keypriv$|^masterhdpriv`)
	reClearName  = regexp.MustCompile(`(?i)enc(rypted)?$|params$|salt|hashed|digest`)
)

func secretName(n string) bool { return reSecretName.MatchString(n) && !reClearName.MatchString(n) }

func carriesBytes(t types.Type) bool {
	switch u := t.Underlying().(type) {
	case *types.Basic:
		return u.Info()&types.IsString != 0
	case *types.Slice, *types.Array, *types.Pointer, *types.Struct, *types.Interface:
		return true
	}
	return false
}

// secretType: a value of this type holds key material or a passphrase whatever its provenance.
func secretType(t types.Type, depth int) (bool, string) {
	if depth > 3 {
		return false, ""
	}
	if p, ok := t.Underlying().(*types.Pointer); ok {
		t = p.Elem()
	}
	n, isN := t.(*types.Named)
	if isN && n.Obj().Pkg() != nil {
		full := n.Obj().Pkg().Path() + "." + n.Obj().Name()
		switch {
		case strings.HasSuffix(full, "/snacl.SecretKey"), strings.HasSuffix(full, "/snacl.CryptoKey"), strings.HasSuffix(full, "/keystore.cryptoKey"),
			strings.HasSuffix(full, "pocec.PrivateKey"), strings.HasSuffix(full, "ecdsa.PrivateKey"):
			return true, n.Obj().Name()
		}
	}
	if st, ok := t.Underlying().(*types.Struct); ok && isN && n.Obj().Pkg() != nil && strings.HasPrefix(n.Obj().Pkg().Path(), repoMod) {
		for i := 0; i < st.NumFields(); i++ {
			f := st.Field(i)
			if secretName(f.Name()) && carriesBytes(f.Type()) {
				return true, n.Obj().Name() + "." + f.Name()
			}
		}
	}
	return false, ""
}

type taintHit struct {
	what string
	pos  token.Pos
}

type taintCtx struct {
	c         *Ctx
	callers   map[*ssa.Function][]*ssa.Call
	fieldMem  map[string][]taintHit
	fieldBusy map[string]bool
	stores    map[string][]*ssa.Store // T.F -> stores in scope
	budget    int
}

func inTaintScope(p string) bool {
	return strings.HasPrefix(p, repoMod+"/poc/wallet") || p == repoMod+"/api" || p == repoMod+"/server" || p == repoMod+"/config" || strings.HasPrefix(p, repoMod+"/cmd") || p == repoMod
}

func newTaintCtx(c *Ctx) *taintCtx {
	t := &taintCtx{c: c, callers: map[*ssa.Function][]*ssa.Call{}, fieldMem: map[string][]taintHit{}, fieldBusy: map[string]bool{}, stores: map[string][]*ssa.Store{}}
	for fn := range c.AllFuncs {
		scope := inTaintScope(pkgOf(fn))
		allInstrsShallow(fn, func(in ssa.Instruction) {
			if cl, ok := in.(*ssa.Call); ok {
				if g := cl.Call.StaticCallee(); g != nil {
					t.callers[g] = append(t.callers[g], cl)
				}
			}
			if st, ok := in.(*ssa.Store); ok && scope {
				if typ, f, _, isF := fieldOfAddr(st.Addr); isF {
					t.stores[typ+"."+f] = append(t.stores[typ+"."+f], st)
				}
			}
		})
	}
	return t
}

// sanitiser: the result of this call does not reveal its (secret) operands.
func (t *taintCtx) sanitiser(cl *ssa.Call) bool {
	name := callName(cl)
	id := calleeID(cl)
	switch name {
	case "Encrypt", "Neuter", "ECPubKey", "SerializeCompressed", "SerializeUncompressed", "PubKey", "Address", "EncodeAddress",
		"IsPrivate", "Depth", "ParentFingerprint", "Name", "Remarks", "IsLocked", "ScriptAddress", "GetBucketMeta", "Paths":
		return true
	case "Marshal":
		return strings.Contains(id, "snacl.SecretKey")
	}
	switch {
	case strings.HasPrefix(id, "crypto/sha256."), strings.HasPrefix(id, "crypto/sha512."), strings.Contains(id, "Hash160"), strings.Contains(id, "pubKeyToAccountID"),
		strings.Contains(id, "newManagedAddress"), strings.Contains(id, "NewAddressPubKeyHash"), strings.Contains(id, "NewAddressWitness"):
		return true
	}
	if b, ok := cl.Call.Value.(*ssa.Builtin); ok && (b.Name() == "len" || b.Name() == "cap") {
		return true
	}
	return false
}

// generator: the call creates secret material.
func generator(cl *ssa.Call) (bool, string) {
	id := calleeID(cl)
	switch {
	case strings.HasSuffix(id, "hdkeychain.NewMaster"), strings.HasSuffix(id, "hdkeychain.GenerateSeed"), strings.HasSuffix(id, "keystore.newCryptoKey"),
		strings.HasSuffix(id, "snacl.GenerateCryptoKey"), strings.HasSuffix(id, "snacl.NewSecretKey"), strings.HasSuffix(id, "keystore.NewSeed"),
		strings.HasSuffix(id, "keystore.NewMnemonic"), strings.HasSuffix(id, "keystore.NewEntropy"), strings.HasSuffix(id, "keystore.EntropyFromMnemonic"):
		return true, shortID(id)
	}
	if g, ok := unwrapGlobalLoad(cl.Call.Value); ok && (g.Name() == "secretKeyGen" || g.Name() == "newCryptoKey") {
		return true, g.Name()
	}
	return false, ""
}

func isNewCryptoKey(cl *ssa.Call) bool {
	if g, ok := unwrapGlobalLoad(cl.Call.Value); ok && g.Name() == "newCryptoKey" {
		return true
	}
	id := calleeID(cl)
	return strings.HasSuffix(id, "keystore.defaultNewCryptoKey") || strings.HasSuffix(id, "snacl.GenerateCryptoKey")
}

// opaqueLib: key libraries whose methods are modelled as "result carries what the operands carry".
func opaqueLib(f *ssa.Function) bool {
	p := pkgOf(f)
	return strings.HasSuffix(p, "/hdkeychain") || strings.HasSuffix(p, "/snacl") || strings.HasSuffix(p, "/zero")
}

func verdictType(t types.Type) bool {
	if isErrorType(t) {
		return true
	}
	if b, ok := t.Underlying().(*types.Basic); ok && (b.Info()&types.IsBoolean != 0 || b.Info()&types.IsNumeric != 0) {
		return true
	}
	return false
}

// secretsIn: the secret sources that reach v (a value of fn). ctx is the stack of call sites through
// which the walk entered fn (so that parameters resolve to the right arguments).
func (t *taintCtx) secretsIn(fn *ssa.Function, v ssa.Value, ctx []*ssa.Call, depth int) []taintHit {
	var hits []taintHit
	if depth > 6 || t.budget > 200000 {
		return nil
	}
	add := func(what string, pos token.Pos) { hits = append(hits, taintHit{what, pos}) }
	// the value handed over is itself a key object / a struct with a passphrase field
	top := v
	if mi, ok := top.(*ssa.MakeInterface); ok {
		top = mi.X
	}
	if depth == 0 && !isErrorType(top.Type()) {
		if ok, why := secretType(top.Type(), 0); ok {
			add("a whole value of type "+why, top.Pos())
		}
	}
	callResult := func(cl *ssa.Call, idx int) (stop bool) {
		res := cl.Call.Signature().Results()
		if idx < res.Len() && verdictType(res.At(idx).Type()) {
			return true
		}
		if ok, what := generator(cl); ok {
			add("result of "+what, cl.Pos())
			return true
		}
		// the text form of a whole request or key object (x.String(), x.GoString()) reveals what printing x would
		if n := callName(cl); (n == "String" || n == "GoString") && callRecv(cl) != nil && len(callArgs(cl)) == 0 {
			if ok, why := secretType(callRecv(cl).Type(), 0); ok {
				add("the text form ("+n+") of a whole value of type "+why, cl.Pos())
				return true
			}
		}
		if t.sanitiser(cl) {
			return true
		}
		if callName(cl) == "Decrypt" && callRecv(cl) != nil {
			if cls := t.keyClass(cl.Parent(), callRecv(cl), 0); cls == "private" || cls == "master-public" {
				add("plaintext decrypted with a "+cls+" key", cl.Pos())
			}
			return true
		}
		var impls []*ssa.Function
		if f := cl.Call.StaticCallee(); f != nil {
			impls = []*ssa.Function{f}
		} else if cl.Call.IsInvoke() {
			impls = t.c.implementations(cl)
		}
		followed := false
		for _, f := range impls {
			if !inTaintScope(pkgOf(f)) || len(f.Blocks) == 0 || opaqueLib(f) {
				continue
			}
			followed = true
			for _, site := range ctx {
				if site == cl {
					return true // recursion
				}
			}
			for _, ret := range returnsOf(f) {
				if idx < len(ret.Results) {
					hits = append(hits, t.secretsIn(f, ret.Results[idx], append(append([]*ssa.Call{}, ctx...), cl), depth+1)...)
				}
			}
		}
		return followed // external callee: descend into receiver and arguments
	}
	walkBack(v, func(x ssa.Value) bool {
		t.budget++
		if isErrorType(x.Type()) {
			return true
		}
		switch y := x.(type) {
		case *ssa.MakeInterface:
			// a key object or a struct with a passphrase field handed to a printer/formatter as interface{}
			if depth == 0 && !isErrorType(y.X.Type()) {
				if ok, why := secretType(y.X.Type(), 0); ok {
					add("a whole value of type "+why+" (printed through interface{})", y.Pos())
					return true
				}
			}
		case *ssa.Extract:
			if cl, ok := y.Tuple.(*ssa.Call); ok {
				if callResult(cl, y.Index) {
					return true
				}
				// external: continue into the call's operands
				return false
			}
		case *ssa.Call:
			return callResult(y, 0)
		case *ssa.Parameter:
			pf := y.Parent()
			// the `req interface{}` of a gRPC interceptor is every request of the API, those with passphrase
			// fields included
			if _, isIface := y.Type().Underlying().(*types.Interface); isIface && pf != nil {
				for _, q := range pf.Params {
					if pt, isP := q.Type().(*types.Pointer); isP {
						if nt, isN := pt.Elem().(*types.Named); isN && nt.Obj().Pkg() != nil && strings.HasSuffix(nt.Obj().Pkg().Path(), "google.golang.org/grpc") &&
							(nt.Obj().Name() == "UnaryServerInfo" || nt.Obj().Name() == "StreamServerInfo") {
							add("the request parameter of a gRPC interceptor (every API request, including those that carry passphrases)", y.Pos())
							return true
						}
					}
				}
			}
			if !carriesBytes(y.Type()) {
				return true
			}
			idx := -1
			for i, p := range pf.Params {
				if p == y {
					idx = i
				}
			}
			if n := len(ctx); n > 0 {
				site := ctx[n-1]
				args := site.Call.Args
				if site.Call.IsInvoke() {
					args = append([]ssa.Value{site.Call.Value}, args...)
				}
				if idx >= 0 && idx < len(args) {
					hits = append(hits, t.secretsIn(site.Parent(), args[idx], ctx[:n-1], depth+1)...)
				}
				return true
			}
			exported := pf.Object() != nil && pf.Object().Exported()
			if secretName(y.Name()) && (exported || len(t.callers[pf]) == 0) {
				add("parameter "+y.Name()+" of "+pf.Name(), y.Pos())
				return true
			}
			for _, site := range t.callers[pf] {
				if idx >= 0 && idx < len(site.Call.Args) && inTaintScope(pkgOf(site.Parent())) {
					hits = append(hits, t.secretsIn(site.Parent(), site.Call.Args[idx], nil, depth+1)...)
				}
			}
			return true
		case *ssa.FieldAddr, *ssa.Field:
			typ, f, _, ok := fieldOfAddrOrValue(x)
			if !ok {
				return false
			}
			var ft types.Type
			if fa, isFA := x.(*ssa.FieldAddr); isFA {
				ft = fa.Type().(*types.Pointer).Elem()
			} else {
				ft = x.Type()
			}
			if !carriesBytes(ft) {
				return true
			}
			if secretName(f) {
				add("field "+shortType(typ)+"."+f, x.Pos())
				return true
			}
			if strings.HasSuffix(typ, "pocec.PrivateKey") || strings.HasSuffix(typ, "ecdsa.PrivateKey") {
				if f == "D" {
					add("the scalar of a private key", x.Pos())
				}
				return true
			}
			if strings.HasPrefix(typ, repoMod) {
				hits = append(hits, t.fieldSecrets(typ, f, depth)...)
				return true
			}
			return false
		case *ssa.UnOp:
			if g, ok := y.X.(*ssa.Global); ok && y.Op == token.MUL {
				if secretName(g.Name()) {
					add("global "+g.Name(), y.Pos())
				}
				return true
			}
		}
		return false
	})
	return hits
}

// fieldSecrets: field-based heap — the secrets stored into T.F anywhere in the analysed packages.
func (t *taintCtx) fieldSecrets(typ, f string, depth int) []taintHit {
	k := typ + "." + f
	if h, ok := t.fieldMem[k]; ok {
		return h
	}
	if t.fieldBusy[k] {
		return nil
	}
	t.fieldBusy[k] = true
	var hits []taintHit
	for _, st := range t.stores[k] {
		for _, h := range t.secretsIn(st.Parent(), st.Val, nil, depth+1) {
			h.what = h.what + " (stored into " + shortType(typ) + "." + f + ")"
			hits = append(hits, h)
		}
	}
	delete(t.fieldBusy, k)
	t.fieldMem[k] = hits
	return hits
}

func fieldOfAddrOrValue(v ssa.Value) (string, string, ssa.Value, bool) {
	if fa, ok := v.(*ssa.FieldAddr); ok {
		return fieldOfAddr(fa)
	}
	if f, ok := v.(*ssa.Field); ok {
		n, st := namedStructOrAnon(f.X.Type())
		if st == nil {
			return "", "", nil, false
		}
		tn := "anon"
		if n != nil {
			tn = typeFullName(n)
		}
		return tn, st.Field(f.Field).Name(), f.X, true
	}
	return "", "", nil, false
}

func classOfName(n string) string {
	l := strings.ToLower(n)
	switch {
	case strings.Contains(l, "priv"):
		return "private"
	case strings.Contains(l, "masterkeypub"), strings.Contains(l, "masterpub"):
		return "master-public"
	case strings.Contains(l, "pub"):
		return "public"
	}
	return ""
}

// keyClass: the hierarchy a key object belongs to: "private" (derived from / protected by the private
// passphrase), "master-public" (the scrypt key of the public passphrase), "public" (the public crypto
// key), "" unknown. Names are consulted only where the repository fixes them (fields, parameters);
// local key objects are classified by how they were made.
func (t *taintCtx) keyClass(fn *ssa.Function, v ssa.Value, depth int) string {
	if depth > 5 {
		return ""
	}
	cls := ""
	join := func(c string) {
		if c != "" && cls == "" {
			cls = c
		}
	}
	passClass := func(f *ssa.Function, pass ssa.Value) string {
		pc := ""
		var rec func(f *ssa.Function, v ssa.Value, d int)
		rec = func(f *ssa.Function, v ssa.Value, d int) {
			walkBack(v, func(x ssa.Value) bool {
				switch y := x.(type) {
				case *ssa.Parameter:
					if c := classOfName(y.Name()); c != "" {
						if pc == "" {
							pc = c
						}
						return true
					}
					if d < 3 {
						for i, p := range y.Parent().Params {
							if p == y {
								for _, site := range t.callers[y.Parent()] {
									if i < len(site.Call.Args) {
										rec(site.Parent(), site.Call.Args[i], d+1)
									}
								}
							}
						}
					}
					return true
				case *ssa.FieldAddr:
					if _, fname, _, ok := fieldOfAddr(y); ok {
						if c := classOfName(fname); c != "" && pc == "" {
							pc = c
						}
						return true
					}
				}
				return false
			})
		}
		rec(f, pass, 0)
		if pc == "public" {
			pc = "master-public"
		}
		return pc
	}
	walkBack(v, func(x ssa.Value) bool {
		if cls != "" {
			return true
		}
		switch y := x.(type) {
		case *ssa.Parameter:
			if c := classOfName(y.Name()); c != "" {
				join(c)
				return true
			}
		case *ssa.FieldAddr:
			if _, fname, _, ok := fieldOfAddr(y); ok {
				if c := classOfName(fname); c != "" {
					join(c)
					return true
				}
			}
		case *ssa.Extract:
			if cl, ok := y.Tuple.(*ssa.Call); ok {
				if g, isG := unwrapGlobalLoad(cl.Call.Value); isG && g.Name() == "secretKeyGen" && len(cl.Call.Args) > 0 {
					join(passClass(cl.Parent(), cl.Call.Args[0]))
					return true
				}
				if isNewCryptoKey(cl) {
					// the class of the master key that encrypts its bytes
					f := cl.Parent()
					allInstrs(f, func(in ssa.Instruction) {
						enc, ok := in.(*ssa.Call)
						if !ok || callName(enc) != "Encrypt" || callRecv(enc) == nil || len(callArgs(enc)) != 1 {
							return
						}
						if backSlice(callArgs(enc)[0]).has(y) && !backSlice(callRecv(enc)).has(y) {
							c := t.keyClass(f, callRecv(enc), depth+1)
							if c == "master-public" {
								c = "public"
							}
							join(c)
						}
					})
					return true
				}
			}
		case *ssa.Alloc:
			// a local key object: filled by unmarshalMasterPrivKey, Unmarshal+DeriveKey(pass) or CopyBytes(plaintext)
			if refs := y.Referrers(); refs != nil {
				for _, r := range *refs {
					cl, ok := r.(*ssa.Call)
					if !ok || len(cl.Call.Args) == 0 || cl.Call.Args[0] != ssa.Value(y) {
						continue
					}
					switch {
					case isCall(cl, idUnmarshalMP):
						join("private")
					case callName(cl) == "DeriveKey" && len(cl.Call.Args) > 1:
						join(passClass(cl.Parent(), cl.Call.Args[1]))
					case callName(cl) == "CopyBytes" && len(cl.Call.Args) > 1:
						walkBack(cl.Call.Args[1], func(z ssa.Value) bool {
							if d, ok := z.(*ssa.Call); ok && callName(d) == "Decrypt" && callRecv(d) != nil {
								c := t.keyClass(d.Parent(), callRecv(d), depth+1)
								if c == "master-public" {
									c = "public"
								}
								join(c)
								return true
							}
							return false
						})
					}
				}
			}
		}
		return false
	})
	return cls
}

// ---- the check --------------------------------------------------------------------------------

func checkC04(c *Ctx) Meta {
	// a key-decrypting key that stays derived after a passphrase check is later used to seal new secrets
	// (a new keystore's crypto key sealed under a zeroed or stale master key is readable without the
	// passphrase): the C03 lifetime rule as a premise
	c.Rule("C04-DERIVED", "a key-decrypting key derived from the private passphrase does not survive an operation that leaves the wallet locked, and is never reused to seal another keystore's secrets (the C03 rule, here as the premise of 'what is stored is sealed under a key only the passphrase yields')", 4)
	c.pushAlias("C03-DERIVED", "C04-DERIVED")
	checkDerivedKeyLifetime(c)
	c.popAlias()
	c.Rule("C04-STORE", "no secret reaches the wallet store in the clear: the value of every Bucket.Put in the keystore package has no secret source (seed, private/extended key, key-encryption key, passphrase) in its backward slice once the slice is cut at Encrypt and at the public-key/hash declassifiers", 18)
	c.Rule("C04-LOG", "no secret reaches the log: no argument of logging.CPrint/VPrint (message, LogFormat values) in the wallet, API, server and command packages is or derives from a secret, including whole request or key objects whose printing reveals a passphrase field", 150)
	c.Rule("C04-EXPORT", "the keystore file and the API responses carry only ciphertext and parameters: every field stored into Keystore/cryptoJSON/hdPath by export, every file write of the API and every response field is free of secret sources", 12)
	c.Rule("C04-ERR", "no secret is formatted into an error: arguments of fmt.Errorf/errors.New/fmt.Sprintf in the wallet packages are free of secret sources", 20)
	c.Rule("C04-ENC", "secrets are encrypted under the hierarchy that protects them: private keys, the seed-derived master key and the private crypto key only under a private-hierarchy key; the public crypto key under the public master key; and an encrypting key is never used after it was zeroed", 12)

	t := newTaintCtx(c)
	var fns []*ssa.Function
	for fn := range c.AllFuncs {
		if inTaintScope(pkgOf(fn)) && len(fn.Blocks) > 0 {
			fns = append(fns, fn)
		}
	}
	sort.Slice(fns, func(i, j int) bool { return FuncName(fns[i]) < FuncName(fns[j]) })
	report := func(rule, key string, at token.Pos, what string, hits []taintHit) {
		if len(hits) == 0 {
			c.OK(rule, key, c.Pos(at), what+": no secret source reaches it")
			return
		}
		seen := map[string]bool{}
		var ws []string
		for _, h := range hits {
			s := h.what + " (" + c.Pos(h.pos) + ")"
			if !seen[s] {
				seen[s] = true
				ws = append(ws, s)
			}
		}
		sort.Strings(ws)
		if len(ws) > 3 {
			ws = ws[:3]
		}
		c.Bad(rule, key, c.Pos(at), what+" receives secret material in the clear: "+strings.Join(ws, "; "))
	}
	for _, fn := range fns {
		ord := map[string]int{}
		k := func(kind string) string {
			ord[kind]++
			return fmt.Sprintf("%s:%s#%d", FuncName(fn), kind, ord[kind])
		}
		inKeystore := strings.HasPrefix(pkgOf(fn), pkgKeystore) || pkgOf(fn) == repoMod+"/poc/wallet"
		allInstrsShallow(fn, func(in ssa.Instruction) {
			// stores into the file structs and into API responses
			if st, ok := in.(*ssa.Store); ok {
				if typ, f, _, isF := fieldOfAddr(st.Addr); isF {
					if keystoreFileTypes[typ] && pkgOf(fn) == pkgKeystore {
						if n, _ := namedStruct(st.Val.Type()); n != nil && keystoreFileTypes[typeFullName(n)] {
							return
						}
						report("C04-EXPORT", k("file-field:"+shortType(typ)+"."+f), st.Pos(), "keystore file field "+f, t.secretsIn(fn, st.Val, nil, 0))
					}
					if strings.HasPrefix(typ, repoMod+"/api/proto.") && strings.HasSuffix(typ, "Response") && pkgOf(fn) == repoMod+"/api" {
						report("C04-EXPORT", k("response:"+shortType(typ)+"."+f), st.Pos(), "API response field "+f, t.secretsIn(fn, st.Val, nil, 0))
					}
				}
				return
			}
			cl, ok := in.(*ssa.Call)
			if !ok {
				return
			}
			if pc, m, isB := bucketInvoke(cl); isB && m == "Put" && strings.HasPrefix(pkgOf(fn), pkgKeystore) {
				report("C04-STORE", k("Put"), pc.Pos(), "the value written to the store", t.secretsIn(fn, pc.Call.Args[1], nil, 0))
				return
			}
			id := calleeID(cl)
			switch {
			case strings.HasSuffix(id, "logging.CPrint"), strings.HasSuffix(id, "logging.VPrint"):
				var hits []taintHit
				for _, a := range cl.Call.Args[1:] {
					hits = append(hits, t.secretsIn(fn, a, nil, 0)...)
				}
				report("C04-LOG", k("log"), cl.Pos(), "a log call", hits)
			case (id == "fmt.Errorf" || id == "errors.New" || id == "fmt.Sprintf" || id == "fmt.Sprint" || id == "fmt.Sprintln") && inKeystore:
				var hits []taintHit
				for _, a := range cl.Call.Args {
					hits = append(hits, t.secretsIn(fn, a, nil, 0)...)
				}
				report("C04-ERR", k("format"), cl.Pos(), "a formatted message/error", hits)
			case pkgOf(fn) == repoMod+"/api" && (strings.HasSuffix(id, "bufio.Writer).WriteString") || strings.HasSuffix(id, "bufio.Writer).Write") || strings.HasSuffix(id, "os.File).Write") || strings.HasSuffix(id, "os.File).WriteString") || id == "os.WriteFile" || id == "io/ioutil.WriteFile"):
				var hits []taintHit
				for _, a := range callArgs(cl) {
					hits = append(hits, t.secretsIn(fn, a, nil, 0)...)
				}
				report("C04-EXPORT", k("file-write"), cl.Pos(), "a file written by the API", hits)
			}
		})
	}
	c04Enc(c, t, fns)
	c.Rule("C04-PRIVNEPUB", "a keystore is never protected by the public passphrase: the private passphrase an imported keystore ends up under is compared with kmc.pubPassphrase after its last assignment (the defaulting of an empty new passphrase to the file's), and it is that very variable that is stored under", 1)
	checkPrivNotPub(c, "C04-PRIVNEPUB")
	c.Rule("C04-REKEY", "after a private passphrase change nothing stays sealed under the revoked passphrase: the change re-encrypts the private crypto key of every keystore (not only the first) inside its transaction", 1)
	checkRekeyAllKeystores(c, "C04-REKEY")
	c.Rule("C04-RAND", "key material is complete: every read of randomness into a key or salt in the snacl/keystore packages is a complete read (io.ReadFull / crypto/rand.Read), never a bare Reader.Read whose short count would leave the tail of the key zero", 3)
	c04Rand(c)
	// the lock discipline of the wallet (C14) is a premise here: the passphrase-inequality checks and the re-key they guard are one critical section; run under this property's name
	c.pushAlias("C14-", "C04-LOCK-")
	checkC14(c)
	c.popAlias()

	return Meta{
		Explanation: "An information-flow policy evaluated on backward slices: sources are named from the repository (passphrase/seed parameters of exported entry points and request fields, key-object types, generator calls, plaintext of private-hierarchy Decrypt), the slice is cut at Encrypt and at the public-key/hash declassifiers, parameters of helpers are resolved at every call site and callee results are followed (bounded depth 5). Sinks: every Bucket.Put value, every log argument, every formatted message, every keystore-file field, API file write and response field. Plus the key-hierarchy rule for every Encrypt of a secret and a use-after-Zero typestate on encrypting keys.",
		NotDecided:  "that ciphertext hides plaintext; bytes leveldb itself writes beyond what Put receives; flows through reflection or the chain library; secrets revealed by error values of external callees (assumed label-free).",
		Assumptions: []string{"error values returned by external callees (scrypt, secretbox, leveldb) do not contain argument bytes", "a value is a passphrase/seed/private key only if it is named so at an exported entry point or request field, is a key object by type, comes from a generator, or is the plaintext of a private-hierarchy Decrypt"},
		Trusted:     []string{"go/ssa", "the declassifier table (Encrypt, Neuter, ECPubKey, Serialize*, hashes, address encoders)"},
	}
}

// ---- ENC -------------------------------------------------------------------------------------

func c04Enc(c *Ctx, t *taintCtx, fns []*ssa.Function) {
	rule := "C04-ENC"
	for _, fn := range fns {
		if !strings.HasPrefix(pkgOf(fn), pkgKeystore) || strings.Contains(pkgOf(fn), "/snacl") {
			continue
		}
		n := 0
		allInstrsShallow(fn, func(in ssa.Instruction) {
			cl, ok := in.(*ssa.Call)
			if !ok || callName(cl) != "Encrypt" || callRecv(cl) == nil {
				return
			}
			args := callArgs(cl)
			if len(args) != 1 {
				return
			}
			hits := t.secretsIn(fn, args[0], nil, 0)
			n++
			key := fmt.Sprintf("%s:Encrypt#%d", FuncName(fn), n)
			cls := t.keyClass(fn, callRecv(cl), 0)
			// what is being encrypted: the public crypto key (a KEK of the public hierarchy) or private material
			// a crypto key's bytes: the public KEK iff that key object is of the public hierarchy
			pubKEK := false
			walkBack(args[0], func(x ssa.Value) bool {
				if b, ok := x.(*ssa.Call); ok && callName(b) == "Bytes" && callRecv(b) != nil {
					if t.keyClass(fn, callRecv(b), 1) == "public" {
						pubKEK = true
					}
					return true
				}
				return false
			})
			switch {
			case len(hits) == 0:
				c.OK(rule, key, c.Pos(cl.Pos()), "public data encrypted under the "+ifs(cls == "", "(unclassified)", cls)+" hierarchy")
			case pubKEK && (cls == "master-public" || cls == "private"):
				c.OK(rule, key, c.Pos(cl.Pos()), "the public crypto key is sealed under the "+cls+" master key")
			case pubKEK:
				c.Bad(rule, key, c.Pos(cl.Pos()), "the public crypto key is encrypted under a key that is not a passphrase-derived master key (class "+ifs(cls == "", "unknown", cls)+")")
			case cls == "private":
				c.OK(rule, key, c.Pos(cl.Pos()), fmt.Sprintf("secret (%s) encrypted under the private hierarchy", hits[0].what))
			case cls == "":
				c.Unk(rule, key, c.Pos(cl.Pos()), fmt.Sprintf("secret (%s) is encrypted under a key whose hierarchy cannot be established", hits[0].what))
			default:
				c.Bad(rule, key, c.Pos(cl.Pos()), fmt.Sprintf("private material (%s) is encrypted under a key of the %s hierarchy: it can be recovered from the store or an exported file with the public passphrase alone", hits[0].what, cls))
			}
			checkUseAfterZero(c, rule, key+":not-zeroed", fn, cl)
		})
	}
	// parameters that carry a key class by name receive keys of that class at every call site
	for _, fn := range fns {
		if pkgOf(fn) != pkgKeystore {
			continue
		}
		for i, p := range fn.Params {
			want := classOfName(p.Name())
			if want == "" || want == "master-public" {
				continue
			}
			{
				tn := p.Type().String()
				if !strings.HasSuffix(tn, "EncryptorDecryptor") && !strings.HasSuffix(tn, "snacl.SecretKey") && !strings.HasSuffix(tn, "keystore.cryptoKey") {
					continue
				}
			}
			for j, site := range t.callers[fn] {
				if i >= len(site.Call.Args) {
					continue
				}
				got := t.keyClass(site.Parent(), site.Call.Args[i], 0)
				key := fmt.Sprintf("%s:param-%s:call#%d-in-%s", fn.Name(), p.Name(), j+1, site.Parent().Name())
				switch {
				case got == want:
					c.OK(rule, key, c.Pos(site.Pos()), "a "+want+"-hierarchy key is passed for "+p.Name())
				case got == "":
					c.Unk(rule, key, c.Pos(site.Pos()), "the hierarchy of the key passed for "+p.Name()+" cannot be established")
				default:
					c.Bad(rule, key, c.Pos(site.Pos()), fmt.Sprintf("a %s-hierarchy key is passed for the parameter %s: what the callee encrypts for the %s hierarchy ends up under the other passphrase", got, p.Name(), want))
				}
			}
		}
	}
}

// zeroes: fn (or a callee in the keystore package) calls Zero() on its parameter idx (directly or deferred).
func zeroesParam(c *Ctx, fn *ssa.Function, idx int, depth int) bool {
	if fn == nil || len(fn.Blocks) == 0 || idx >= len(fn.Params) || depth > 4 {
		return false
	}
	p := fn.Params[idx]
	found := false
	allInstrs(fn, func(in ssa.Instruction) {
		// a deferred Zero() of the parameter runs when fn returns: for the caller the key is zeroed all the same
		if d, isD := in.(*ssa.Defer); isD && callName(d) == "Zero" && callRecv(d) != nil && backSlice(callRecv(d)).has(p) {
			found = true
		}
		cl, ok := in.(*ssa.Call)
		if !ok {
			return
		}
		if callName(cl) == "Zero" && callRecv(cl) != nil && backSlice(callRecv(cl)).has(p) {
			found = true
		}
		if g := cl.Call.StaticCallee(); g != nil && strings.HasPrefix(pkgOf(g), pkgKeystore) {
			for i, a := range cl.Call.Args {
				if a == ssa.Value(p) && zeroesParam(c, g, i, depth+1) {
					found = true
				}
			}
		}
	})
	return found
}

func checkUseAfterZero(c *Ctx, rule, key string, fn *ssa.Function, enc *ssa.Call) {
	recv := callRecv(enc)
	same := func(v ssa.Value) bool { return v == recv || sameOriginValue(fn, v, recv) }
	var bad ssa.Instruction
	allInstrs(fn, func(in ssa.Instruction) {
		cl, ok := in.(*ssa.Call)
		if !ok || cl == enc {
			return
		}
		zeroing := false
		if callName(cl) == "Zero" && callRecv(cl) != nil && same(callRecv(cl)) {
			zeroing = true
		}
		// zero.Bytes(k.Bytes()): Bytes() of the key types returns the key's own array, so wiping the
		// returned slice wipes the key
		if strings.Contains(calleeID(cl), "/zero.") && len(cl.Call.Args) > 0 {
			for x := range backSlice(cl.Call.Args[0]).vals {
				if bc, isC := x.(*ssa.Call); isC && callName(bc) == "Bytes" && callRecv(bc) != nil && same(callRecv(bc)) && bytesAliasesReceiver(c, bc) {
					zeroing = true
				}
			}
		}
		if g := cl.Call.StaticCallee(); g != nil && strings.HasPrefix(pkgOf(g), pkgKeystore) {
			for i, a := range cl.Call.Args {
				if same(a) && zeroesParam(c, g, i, 0) {
					zeroing = true
				}
			}
		}
		if zeroing && reach(fn, cl, nil, nil)(enc) {
			bad = cl
		}
	})
	// the key is a parameter that a caller keeps using: a callee that zeroes it poisons the next use
	if p, ok := recv.(*ssa.Parameter); ok {
		for i, q := range fn.Params {
			if q == p && zeroesParam(c, fn, i, 0) {
				for _, site := range newTaintCtx(c).callers[fn] {
					if blockReentered(site.Parent(), site) {
						bad = site
					}
				}
			}
		}
	}
	if bad != nil {
		c.Bad(rule, key, c.Pos(bad.Pos()), "the encrypting key can have been zeroed before this Encrypt (Zero() on the same key object, directly or in a callee, on a path that leads here — e.g. a shared key zeroed inside a loop over keystores): the data is then sealed under an all-zero key and readable without any passphrase")
	} else {
		c.OK(rule, key, c.Pos(enc.Pos()), "no Zero() of the encrypting key can precede the Encrypt")
	}
}

// bytesAliasesReceiver: every implementation of this Bytes() call returns a slice of the receiver's
// own storage (not a copy).
func bytesAliasesReceiver(c *Ctx, call *ssa.Call) bool {
	impls := c.implementations(call)
	if len(impls) == 0 {
		return false
	}
	for _, f := range impls {
		if len(f.Blocks) == 0 || len(f.Params) == 0 {
			return false
		}
		alias := false
		for _, ret := range returnsOf(f) {
			for _, r := range ret.Results {
				valueOrigins(f, r, func(root ssa.Value) {
					if sl, ok := root.(*ssa.Slice); ok {
						if backSlice(sl.X).has(f.Params[0]) {
							alias = true
						}
					}
				})
			}
		}
		if !alias {
			return false
		}
	}
	return true
}

// c04Rand: C04-RAND.
func c04Rand(c *Ctx) {
	rule := "C04-RAND"
	n := 0
	for fn := range c.AllFuncs {
		p := pkgOf(fn)
		if !strings.HasPrefix(p, pkgKeystore) {
			continue
		}
		ord := 0
		allInstrsShallow(fn, func(in ssa.Instruction) {
			cl, ok := in.(*ssa.Call)
			if !ok {
				return
			}
			id := calleeID(cl)
			isReaderRead := cl.Call.IsInvoke() && cl.Call.Method.Name() == "Read" && strings.HasSuffix(cl.Call.Value.Type().String(), "io.Reader")
			switch {
			case id == "io.ReadFull" || id == "io.ReadAtLeast" || id == "crypto/rand.Read":
				n++
				ord++
				c.OK(rule, fmt.Sprintf("%s:random-read#%d", FuncName(fn), ord), c.Pos(cl.Pos()), shortID(id)+" (complete read or error)")
			case isReaderRead:
				n++
				ord++
				key := fmt.Sprintf("%s:random-read#%d", FuncName(fn), ord)
				// accepted only if the byte count is compared
				cnt := resultOf(cl, 0)
				tested := false
				if cnt != nil {
					for al := range aliasesForward(fn, cnt) {
						if refs := al.Referrers(); refs != nil {
							for _, r := range *refs {
								if bo, isB := r.(*ssa.BinOp); isB && (bo.Op == token.LSS || bo.Op == token.NEQ || bo.Op == token.EQL || bo.Op == token.GEQ) {
									tested = true
								}
							}
						}
					}
				}
				if tested {
					c.OK(rule, key, c.Pos(cl.Pos()), "Reader.Read with its byte count tested")
				} else {
					c.Bad(rule, key, c.Pos(cl.Pos()), "a key or salt is filled with a bare Reader.Read: a short read (allowed by io.Reader) leaves the tail of the key zero while the call reports success — what that key seals can be opened by guessing a few bytes")
				}
			}
		})
	}
	if n < 3 {
		c.Bad(rule, "anchor:random-reads", "", fmt.Sprintf("reason=anchor-missing: only %d reads of randomness found", n))
	}
}

// checkPrivNotPub: the private passphrase a keystore ends up under is never the wallet's public
// passphrase (which a locked wallet keeps in memory and every reader of the configuration knows): in
// ImportKeystore the value compared with kmc.pubPassphrase is the very variable whose value is handed
// to the storing function as the new private passphrase, compared *after* its last assignment (the
// defaulting of an empty new passphrase to the file's passphrase) — a comparison made before the
// defaulting checks the empty slice and lets a file protected by the public passphrase in.
func checkPrivNotPub(c *Ctx, rule string) {
	f := c.MustFn(rule, "poc/wallet/keystore", "(*KeystoreManagerForPoC).ImportKeystore")
	if f == nil {
		return
	}
	key := "ImportKeystore:final-private-passphrase-differs-from-public"
	var cmp *ssa.Call
	var pwArg ssa.Value
	allInstrsNew(f, func(in ssa.Instruction) { // the validation may sit in a phase helper the reference tree does not have
		cl, ok := in.(*ssa.Call)
		if !ok || !(isCall(cl, "bytes.Compare") || isCall(cl, "bytes.Equal")) || len(cl.Call.Args) != 2 {
			return
		}
		for i := 0; i < 2; i++ {
			if backSlice(cl.Call.Args[i]).hasField(tKMC, "pubPassphrase") && !backSlice(cl.Call.Args[1-i]).hasField(tKMC, "pubPassphrase") {
				cmp, pwArg = cl, cl.Call.Args[1-i]
			}
		}
	})
	if cmp == nil {
		c.Bad(rule, key, c.Pos(f.Pos()), "the new private passphrase of an imported keystore is no longer compared with the public passphrase")
		return
	}
	cellOfLoad := func(v ssa.Value) ssa.Value {
		if u, ok := v.(*ssa.UnOp); ok && u.Op == token.MUL {
			return rootCell(u.X)
		}
		return nil
	}
	var under []ssa.Value
	for _, g := range withClosures(f) {
		for _, cl := range callsIn(g, "(*"+tKMC+").allocAddrMgrNamespace") {
			callee := cl.Call.StaticCallee()
			for i, p := range callee.Params {
				if p.Name() == "newPass" && i < len(cl.Call.Args) {
					under = append(under, cl.Call.Args[i])
				}
			}
		}
	}
	if len(under) == 0 {
		c.Bad(rule, key, c.Pos(f.Pos()), "reason=anchor-missing: the call storing the imported keystore under its new private passphrase")
		return
	}
	cc := cellOfLoad(pwArg)
	ok := true
	why := ""
	across := false
	for _, u := range under {
		if u == pwArg {
			continue
		}
		if uc := cellOfLoad(u); uc == nil || cc == nil || uc != cc {
			if instrParent(u) != instrParent(pwArg) && sameOriginSets(u, pwArg) {
				// compared and stored in different phase helpers: exactly the same reaching definitions
				// (a comparison made before the defaulting sees fewer)
				across = true
				continue
			}
			ok = false
			why = "the value compared with the public passphrase is not the variable handed on as the new private passphrase"
		}
	}
	if ok && cc != nil && !across {
		after := reach(f, cmp, nil, nil)
		for _, g := range withClosures(f) {
			g := g
			allInstrs(g, func(in ssa.Instruction) {
				if st, isSt := in.(*ssa.Store); isSt && rootCell(st.Addr) == cc {
					if _, isParam := st.Val.(*ssa.Parameter); isParam && g == f && !after(st) && st.Block() == f.Blocks[0] {
						return // the spill of the parameter at entry
					}
					if g != f || after(st) {
						ok = false
						why = "the new private passphrase is assigned (at " + c.Pos(st.Pos()) + ") after it was compared with the public passphrase: the comparison saw the value before the defaulting to the file's passphrase"
					}
				}
			})
		}
	}
	if ok {
		c.OK(rule, key, c.Pos(cmp.Pos()), "the variable compared with kmc.pubPassphrase is the one stored under, with no assignment after the comparison")
	} else {
		c.Bad(rule, key, c.Pos(cmp.Pos()), why)
	}
}
