package main

const fSuperior = "fractal/superior.go"
const fCollector = "fractal/collector.go"
const fWriter = "fractal/writer.go"
const fReader = "fractal/reader.go"
const fMinerV2 = "poc/engine.v2/pocminer/miner/strategy.go"

func init() {
	variants["C17"] = []variant{
		{Name: "current task handed out by an accessor that takes no lock", Kill: true, Rule: "C17-LATEST", File: fSuperior,
			Old: "func (ls *LocalSuperior) RemoveTask(id uuid.UUID) {\n", New: "func (ls *LocalSuperior) CurrentTask() protocol.Message {\n\treturn ls.latestTask\n}\n\nfunc (ls *LocalSuperior) RemoveTask(id uuid.UUID) {\n"},
		{Name: "RemoveTask clears the current task before it takes the task lock", Kill: true, Rule: "C17-LATEST", File: fSuperior,
			Old: "func (ls *LocalSuperior) RemoveTask(id uuid.UUID) {\n\tls.taskCacheLock.Lock()\n", New: "func (ls *LocalSuperior) RemoveTask(id uuid.UUID) {\n\tif ls.latestTask != nil && ls.latestTask.ID() == id {\n\t\tls.latestTask = nil\n\t}\n\tls.taskCacheLock.Lock()\n"},
		{Name: "report sent while holding the task lock again", Kill: true, Rule: "C17-BLOCK", File: fSuperior,
			Old: "\tv, ok := ls.taskCache.Get(resp.Msg.ID())\n\tls.taskCacheLock.Unlock()\n\tif !ok {", New: "\tv, ok := ls.taskCache.Get(resp.Msg.ID())\n\tdefer ls.taskCacheLock.Unlock()\n\tif !ok {"},
		{Name: "receive routine hands frames over unconditionally again", Kill: true, Rule: "C17-INTR", File: fConn,
			Old: "\t\tselect {\n\t\tcase conn.recvCh <- data:\n\t\tcase <-doneCh:\n\t\t\t// nobody reads any more and the connection is being stopped\n\t\t\tbreak routine\n\t\t}\n", New: "\t\t_ = doneCh\n\t\tconn.recvCh <- data\n"},
		{Name: "recover guard removed from SafeSendChannel", Kill: true, Rule: "C17-CHAN", File: fWriter,
			Old: "func (sender *MessageSender) SafeSendChannel(ctx context.Context, msg protocol.Message) (err error) {\n\tdefer func() {\n\t\tif recover() != nil {\n\t\t\terr = io.ErrClosedPipe\n\t\t}\n\t}()\n", New: "func (sender *MessageSender) SafeSendChannel(ctx context.Context, msg protocol.Message) (err error) {\n\t_ = io.ErrClosedPipe\n"},
		{Name: "task channel closed after releasing the task lock", Kill: true, Rule: "C17-CHAN", File: fSuperior,
			Old: "\tch := v.(chan *CollectorMsg)\n\tclose(ch)\n\tls.taskCache.Remove(id)\n", New: "\tch := v.(chan *CollectorMsg)\n\tls.taskCache.Remove(id)\n\tgo close(ch)\n"},
		{Name: "deferred RemoveTask of the signature task dropped", Kill: true, Rule: "C17-PAIR", File: fMinerV2,
			Old: "\tdefer m.superior.RemoveTask(sigReq.TaskID)\n", New: ""},
		{Name: "proof task removed under the quality task's id", Kill: true, Rule: "C17-PAIR", File: fMinerV2,
			Old: "\tdefer m.superior.RemoveTask(proofReq.TaskID)\n", New: "\tdefer m.superior.RemoveTask(qualityReq.TaskID)\n"},
		{Name: "collector's stop loses the compare-and-swap", Kill: true, Rule: "C17-STOP", File: fCollector,
			Old: "\tif !atomic.CompareAndSwapInt32(&lc.stopping, 0, 1) {\n\t\tlc.wg.Wait()\n\t\treturn\n\t}\n", New: "\tatomic.StoreInt32(&lc.stopping, 1)\n"},
		{Name: "losing stopper returns without waiting", Kill: true, Rule: "C17-STOP", File: fReader,
			Old: "\tif !atomic.CompareAndSwapInt32(&receiver.stopping, 0, 1) {\n\t\treceiver.wg.Wait()\n\t\treturn\n\t}", New: "\tif !atomic.CompareAndSwapInt32(&receiver.stopping, 0, 1) {\n\t\treturn\n\t}"},
		{Name: "request processor started without wg.Add", Kill: true, Rule: "C17-WG", File: fCollector,
			Old: "\tlc.wg.Add(1)\n\tgo lc.requestProcessor()\n", New: "\tgo lc.requestProcessor()\n"},
		{Name: "report delivered on the channel of the latest task", Kill: true, Rule: "C17-ROUTE", File: fSuperior,
			Old: "\tv, ok := ls.taskCache.Get(resp.Msg.ID())\n\tls.taskCacheLock.Unlock()", New: "\tvar v interface{}\n\tok := false\n\tif ls.latestTask != nil {\n\t\tv, ok = ls.taskCache.Get(ls.latestTask.ID())\n\t}\n\tls.taskCacheLock.Unlock()"},
		{Name: "message sender waits for messages without a done arm", Kill: true, Rule: "C17-INTR", File: fWriter,
			Old: "\t\tselect {\n\t\tcase <-doneCh:\n\t\t\tbreak process\n\t\tcase msg = <-sender.messageCh:\n\t\t}", New: "\t\t_ = doneCh\n\t\tmsg = <-sender.messageCh\n\t\tif msg == nil {\n\t\t\tbreak process\n\t\t}"},

		{Name: "collector id stored through a local", Kill: false, File: fSuperior,
			Old: "\treturn ls.submitCollectorMsg(ctx, &CollectorMsg{CollectorID: cid, Msg: resp})", New: "\tout := &CollectorMsg{Msg: resp}\n\tout.CollectorID = cid\n\treturn ls.submitCollectorMsg(ctx, out)"},
		{Name: "done channel of the receiver taken from the context inline", Kill: false, File: fReader,
			Old: "\t\tselect {\n\t\tcase <-doneCh:\n\t\t\tbreak process\n\t\tcase receiver.messageCh <- msg:\n\t\t}", New: "\t\t_ = doneCh\n\t\tselect {\n\t\tcase <-receiver.ctx.Done():\n\t\t\tbreak process\n\t\tcase receiver.messageCh <- msg:\n\t\t}"},
		{Name: "relay re-broadcasts the current task when a collector subscribes (seed C17-r2b)", Kill: true, Rule: "C17-ROUTE", File: "fractal/superior.go",
			Old: "\trs.baseSuperior.Subscribe(ctx, c)\n\tif task := rs.latestTask; task != nil {\n\t\trs.Send(ctx, c.ID(), task)\n", New: "\trs.baseSuperior.Subscribe(ctx, c)\n\tif task := rs.latestTask; task != nil {\n\t\trs.Broadcast(ctx, task)\n"},
		{Name: "subscriber id taken into a local before the replay", Kill: false, File: "fractal/superior.go",
			Old: "\trs.baseSuperior.Subscribe(ctx, c)\n\tif task := rs.latestTask; task != nil {\n\t\trs.Send(ctx, c.ID(), task)\n", New: "\trs.baseSuperior.Subscribe(ctx, c)\n\tif task := rs.latestTask; task != nil {\n\t\tid := c.ID()\n\t\trs.Send(ctx, id, task)\n"},
	}
}

func init() {
	variants["C17"] = append(variants["C17"],
		variant{Name: "relay forwards quality reports under its own long-lived context", Kill: true, Rule: "C17-CTX", File: fSuperior,
			Old: "\treturn rs.writer.WriteReportQualities(ctx, resp.(*protocol.ReportQualities))", New: "\treturn rs.writer.WriteReportQualities(rs.ctx, resp.(*protocol.ReportQualities))"},
		variant{Name: "receive buffer reused across frames", Kill: true, Rule: "C17-OWN", File: fConn,
			Old:   "\t\tdata := make([]byte, size)\n",
			New:   "\t\tif uint32(cap(buf)) < size {\n\t\t\tbuf = make([]byte, size)\n\t\t}\n\t\tdata := buf[:size]\n",
			File2: fConn, Old2: "\tvar msgSizeBytes [4]byte\n\tvar err error\n\tvar doneCh = conn.ctx.Done()\nroutine:", New2: "\tvar msgSizeBytes [4]byte\n\tvar err error\n\tvar buf []byte\n\tvar doneCh = conn.ctx.Done()\nroutine:"},
		variant{Name: "context derived with a timeout from the caller's context", Kill: false, File: fSuperior,
			Old: "\treturn rs.writer.WriteReportProof(ctx, resp.(*protocol.ReportProof))", New: "\ttctx, cancel := context.WithTimeout(ctx, time.Minute)\n\tdefer cancel()\n\treturn rs.writer.WriteReportProof(tctx, resp.(*protocol.ReportProof))"},
	)
}
