package main

import (
	"go/constant"
	"go/token"
	"go/types"
	"strings"

	"golang.org/x/tools/go/ssa"
)

// Delegation rules (<P>-DELEGATE): the layers in front of the space keeper — the gRPC handlers of package api and
// the type-asserting wrapper of package mining — answer a keeper operation with success only after the keeper
// performed it. In the control-flow graph of each wrapper listed below, every path from the entry to a return that
// may report success (nil error) passes through the call of the keeper operation it stands for (directly or
// through a same-package helper that does so on all its successful paths), and — where the operation is an
// action on a workspace — with the action constant the wrapper is named after.
//
// This is a necessary condition of the behaviour the properties describe at the keeper ("a stopped space is not
// plotted until asked again", "configuring selects …"): a fast path in the wrapper that answers from a snapshot
// of the state skips the keeper's transition, un-queueing and selection altogether. It does not say anything
// about what the keeper does with the request (the other rules of the property do).
type delegateSpec struct {
	prop   string
	pkg    string // package suffix of the wrapper
	fn     string // wrapper
	callee string // name of the keeper operation that must be passed through
	action string // engine.ActionType constant the call must carry ("" = none)
	ids    []string // instead of a keeper operation: suffixes of the callee ids that count as the step
}

var delegateTable = []delegateSpec{
	{"C09", "api", "(*Server).PlotCapacitySpace", "ActOnWorkSpace", "Plot", nil},
	{"C09", "api", "(*Server).PlotCapacitySpaces", "ActOnWorkSpaces", "Plot", nil},
	{"C09", "api", "(*Server).MineCapacitySpace", "ActOnWorkSpace", "Mine", nil},
	{"C09", "api", "(*Server).MineCapacitySpaces", "ActOnWorkSpaces", "Mine", nil},
	{"C09", "api", "(*Server).StopCapacitySpace", "ActOnWorkSpace", "Stop", nil},
	{"C09", "api", "(*Server).StopCapacitySpaces", "ActOnWorkSpaces", "Stop", nil},
	{"C15", "api", "(*Server).ConfigureCapacity", "ConfigureBySize", "", nil},
	{"C15", "api", "(*Server).ConfigureCapacityByDirs", "ConfigureByPath", "", nil},
	{"C15", "mining", "(*ConfigurableSpaceKeeperV1).ConfigureByBitLength", "ConfigureByBitLength", "", nil},
	{"C15", "mining", "(*ConfigurableSpaceKeeperV1).ConfigureBySize", "ConfigureBySize", "", nil},
	{"C15", "mining", "(*ConfigurableSpaceKeeperV1).ConfigureByPath", "ConfigureByPath", "", nil},
	{"C15", "mining", "(*ConfigurableSpaceKeeperV1).IsCapacityAvailable", "IsCapacityAvailable", "", nil},
	{"C15", "mining", "(*ConfigurableSpaceKeeperV1).AvailableDiskSize", "AvailableDiskSize", "", nil},
	// the export handler answers success only after the wallet produced the keystore and its bytes were handed
	// to the file (an unbuffered write, or the flush of the buffered writer)
	{"C01", "api", "(*Server).ExportKeystore", "ExportKeystore", "", []string{"PoCWallet).ExportKeystore", "wallet.PoCWallet).ExportKeystore"}},
	{"C01", "api", "(*Server).ExportKeystore", "file-write", "", []string{"bufio.Writer).Flush", "os.File).Write", "os.File).WriteString", "os.WriteFile", "ioutil.WriteFile"}},
}

// keeperOp: a call (static or through an interface) of a method named name whose receiver is a space keeper:
// the capacity package's SpaceKeeper, or an interface of the spacekeeper / mining packages.
func keeperOp(in ssa.Instruction, name string) *ssa.Call {
	cl, ok := in.(*ssa.Call)
	if !ok || callName(cl) != name {
		return nil
	}
	var rt types.Type
	if cl.Call.IsInvoke() {
		rt = cl.Call.Value.Type()
	} else if f := cl.Call.StaticCallee(); f != nil && f.Signature.Recv() != nil {
		rt = f.Signature.Recv().Type()
	}
	if rt == nil {
		return nil
	}
	if p, ok := rt.Underlying().(*types.Pointer); ok {
		rt = p.Elem()
	}
	n, ok := rt.(*types.Named)
	if !ok || n.Obj().Pkg() == nil {
		return nil
	}
	switch n.Obj().Name() {
	case "SpaceKeeper", "SpaceKeeperV1", "SpaceKeeperV2", "ConfigurableSpaceKeeper", "ConfigurableSpaceKeeperV1", "ConfigurableSpaceKeeperV2":
		return cl
	}
	return nil
}

// actionConst: v is the constant `name` of its own (named) type's package.
func actionConst(v ssa.Value, name string) bool {
	k, ok := v.(*ssa.Const)
	if !ok || k.Value == nil {
		return false
	}
	n, ok := k.Type().(*types.Named)
	if !ok || n.Obj().Pkg() == nil || n.Obj().Name() != "ActionType" {
		return false
	}
	obj, ok := n.Obj().Pkg().Scope().Lookup(name).(*types.Const)
	if !ok {
		return false
	}
	return constant.Compare(obj.Val(), token.EQL, k.Value)
}

func runDelegateRule(c *Ctx, prop string) {
	var specs []delegateSpec
	for _, s := range delegateTable {
		if s.prop == prop {
			specs = append(specs, s)
		}
	}
	if len(specs) == 0 {
		return
	}
	rule := prop + "-DELEGATE"
	c.Rule(rule, "the API handlers and the mining wrapper report success only after the layer behind them performed the operation: every path of the wrapper to a return that may carry a nil error passes through the call of the operation it stands for (the keeper operation with the action the handler is named after; the wallet export and the write that hands the bytes to the file)", len(specs))
	for _, s := range specs {
		f := c.MustFn(rule, s.pkg, s.fn)
		if f == nil {
			continue
		}
		key := FuncName(f) + "->" + s.callee
		if s.action != "" {
			key += "(" + s.action + ")"
		}
		pkg := pkgOf(f)
		// the step: the keeper call carrying the action constant; or the call of a same-package helper that
		// receives the constant and passes its parameter on to the keeper call on all successful paths
		var step func(in ssa.Instruction) bool
		step = func(in ssa.Instruction) bool {
			if len(s.ids) > 0 {
				if _, isCall := in.(*ssa.Call); !isCall {
					return false
				}
				id := calleeID(in)
				for _, suf := range s.ids {
					if strings.HasSuffix(id, suf) {
						return true
					}
				}
				return false
			}
			if cl := keeperOp(in, s.callee); cl != nil {
				if s.action == "" {
					return true
				}
				for _, a := range callArgs(cl) {
					if actionConst(a, s.action) {
						return true
					}
				}
				return false
			}
			if s.action == "" {
				return false
			}
			h := helperCallee(in, pkg)
			if h == nil {
				return false
			}
			cl, ok := in.(*ssa.Call)
			if !ok {
				return false
			}
			// which parameter of h receives the constant
			args := cl.Call.Args
			pi := -1
			for i, a := range args {
				if actionConst(a, s.action) {
					pi = i
				}
			}
			if pi < 0 || pi >= len(h.Params) {
				return false
			}
			par := h.Params[pi]
			return mustDoOnSuccess(h, func(in2 ssa.Instruction) bool {
				cl2 := keeperOp(in2, s.callee)
				if cl2 == nil {
					return false
				}
				for _, a := range callArgs(cl2) {
					if a == ssa.Value(par) {
						return true
					}
				}
				return false
			})
		}
		if mustDoOnSuccess(f, step) {
			c.OK(rule, key, c.Pos(f.Pos()), "every successful return is behind "+s.callee)
			continue
		}
		// name the offending return
		r := reach(f, nil, nil, liftMustOnSuccess(f, step))
		pos := f.Pos()
		for _, ret := range returnsOf(f) {
			if r(ret) && isNilErrorReturn(ret) {
				pos = ret.Pos()
				break
			}
		}
		c.Bad(rule, key, c.Pos(pos), "a path from the entry of "+FuncName(f)+" reaches a return that may report success without passing through "+s.callee+" — the wrapper answers for an operation the layer behind it never performed")
	}
}
