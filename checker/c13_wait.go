package main

import (
	"go/token"
	"sort"
	"strings"

	"golang.org/x/tools/go/ssa"
)

// checkStoppableWaits (rule C13-WAIT): the keeper, its plotter and the plot databases wait for time only in
// a way a stop can end. A time.Sleep outside every loop is a bounded pause. A time.Sleep inside a loop is
// accepted only if the loop has an exit that is governed by a counter (bounded number of rounds), by a channel
// operation / select (a stop or quit arm), or by a flag read atomically or through a method (Stopped, Done,
// IsRunning …). A loop that sleeps and leaves only when some outside condition changes (free memory, a file
// appearing) cannot be ended by StopPlot / Stop: the request that waits for the plotter — and with it the
// keeper's stop — blocks for as long as the condition lasts.
//
// The reference tree has no time.Sleep in these packages; the obligations are one per package (the census)
// plus one per sleep found.
func checkStoppableWaits(c *Ctx, rule string, pkgs []string) {
	inPkg := map[string]bool{}
	for _, p := range pkgs {
		inPkg[p] = true
	}
	var fns []*ssa.Function
	for fn := range c.AllFuncs {
		if fn != nil && fn.Blocks != nil && inPkg[pkgOf(outermost(fn))] {
			fns = append(fns, fn)
		}
	}
	sort.Slice(fns, func(i, j int) bool { return FuncName(fns[i]) < FuncName(fns[j]) })
	perPkg := map[string]int{}
	for _, fn := range fns {
		n := 0
		allInstrsShallow(fn, func(in ssa.Instruction) {
			cl, ok := in.(*ssa.Call)
			if !ok || calleeID(cl) != "time.Sleep" {
				return
			}
			n++
			perPkg[pkgOf(outermost(fn))]++
			key := FuncName(fn) + ":sleep#" + itoa(n)
			cyc := cycleOf(cl.Block())
			if cyc == nil {
				c.OK(rule, key, c.Pos(cl.Pos()), "a single bounded pause (not in a loop)")
				return
			}
			why := ""
			for b := range cyc {
				iff, ok := b.Instrs[len(b.Instrs)-1].(*ssa.If)
				if !ok {
					continue
				}
				leaves := false
				for _, s := range b.Succs {
					if !cyc[s] {
						leaves = true
					}
				}
				if !leaves {
					continue
				}
				if w := stopAwareCond(iff.Cond, cyc); w != "" {
					why = w
				}
			}
			// a select / receive inside the loop whose arm leaves the loop is found through the If on its result
			if why != "" {
				c.OK(rule, key, c.Pos(cl.Pos()), "the loop around the pause has an exit governed by "+why)
			} else {
				c.Bad(rule, key, c.Pos(cl.Pos()), "time.Sleep in a loop none of whose exits depends on a counter, a channel or a stop flag: the loop polls an outside condition and a stop request cannot end it (StopPlot / Stop wait for the plotter for as long as the condition lasts)")
			}
		})
	}
	for _, p := range pkgs {
		c.OK(rule, "census:"+strings.TrimPrefix(p, repoMod+"/"), "", itoa(perPkg[p])+" time.Sleep call(s) examined")
	}
}

func itoa(n int) string {
	if n == 0 {
		return "0"
	}
	s := ""
	for n > 0 {
		s = string(rune('0'+n%10)) + s
		n /= 10
	}
	return s
}

// cycleOf: the blocks of the strongly connected component of b (nil when b is not on a cycle).
func cycleOf(b *ssa.BasicBlock) map[*ssa.BasicBlock]bool {
	fwd := map[*ssa.BasicBlock]bool{}
	var walk func(x *ssa.BasicBlock, succ bool, seen map[*ssa.BasicBlock]bool)
	walk = func(x *ssa.BasicBlock, succ bool, seen map[*ssa.BasicBlock]bool) {
		next := x.Succs
		if !succ {
			next = x.Preds
		}
		for _, y := range next {
			if !seen[y] {
				seen[y] = true
				walk(y, succ, seen)
			}
		}
	}
	walk(b, true, fwd)
	if !fwd[b] {
		return nil
	}
	bwd := map[*ssa.BasicBlock]bool{}
	walk(b, false, bwd)
	out := map[*ssa.BasicBlock]bool{}
	for x := range fwd {
		if bwd[x] {
			out[x] = true
		}
	}
	return out
}

// stopAwareCond: what makes the condition of a loop exit independent of the polled outside condition alone.
func stopAwareCond(cond ssa.Value, cyc map[*ssa.BasicBlock]bool) string {
	why := ""
	for v := range backSlice(cond).vals {
		switch x := v.(type) {
		case *ssa.Phi:
			if !cyc[x.Block()] {
				continue
			}
			for _, e := range x.Edges {
				if bo, ok := e.(*ssa.BinOp); ok && (bo.Op == token.ADD || bo.Op == token.SUB) && (bo.X == ssa.Value(x) || bo.Y == ssa.Value(x)) {
					if _, isK := bo.Y.(*ssa.Const); isK {
						why = "a counter"
					}
					if _, isK := bo.X.(*ssa.Const); isK {
						why = "a counter"
					}
				}
			}
		case *ssa.UnOp:
			if x.Op == token.ARROW {
				return "a channel receive"
			}
		case *ssa.Select:
			return "a select"
		case *ssa.Call:
			id := calleeID(x)
			if strings.HasPrefix(id, "sync/atomic.Load") || strings.HasPrefix(id, "(*sync/atomic.") {
				return "an atomically read flag"
			}
			switch callName(x) {
			case "Done", "Err", "Stopped", "IsStopped", "IsRunning", "Started", "Quit":
				return "a stop query (" + callName(x) + ")"
			}
		}
	}
	return why
}
