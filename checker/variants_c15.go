package main

func init() {
	variants["C15"] = []variant{
		{Name: "free-disk check dropped before creating spaces by size", Kill: true, Rule: "C15-REJECT", File: fCapacity,
			Old: "\tif err := sk.checkOSDiskSize(targetSize - currentSize); err != nil {\n\t\treturn nil, currentSize, err\n\t}\n", New: ""},
		{Name: "free-disk check applied to the whole target, not the shortfall", Kill: true, Rule: "C15-REJECT", File: fCapacity,
			Old: "sk.checkOSDiskSize(targetSize - currentSize)", New: "sk.checkOSDiskSize(targetSize)"},
		{Name: "minimum-size rejection removed", Kill: true, Rule: "C15-REJECT", File: fCapacity,
			Old: "\tif targetSize < poc.ProofTypeDefault.PlotSize(usableBitLength()[0]) {\n\t\treturn failureReturn(ErrConfigUnderSizeTarget)\n\t}\n", New: ""},
		{Name: "allow-generate flag ignored for per-path generation", Kill: true, Rule: "C15-REJECT", File: fCapacity,
			Old: "\tif !sk.allowGenerateNewSpace {\n\t\treturn nil, currentSize, ErrWorkSpaceCannotGenerate\n\t}\n\t// check os disk size by path", New: "\t// check os disk size by path"},
		{Name: "per-path configuration creates spaces in the default directory", Kill: true, Rule: "C15-PLACE", File: fCapacity,
			Old: "newWS, err := sk.generateNewWorkSpaceByPath(path, bl)", New: "newWS, err := sk.generateNewWorkSpace(bl)"},
		{Name: "per-path fill counts spaces of every directory", Kill: true, Rule: "C15-PLACE", File: fCapacity,
			Old: "\t\t\tif space.rootDir != path {\n\t\t\t\tcontinue\n\t\t\t}\n", New: ""},
		{Name: "per-path generation checks disk space of the first directory", Kill: true, Rule: "C15-PLACE", File: fCapacity,
			Old: "checkOSDiskSizeByPath(path, targetSize-currentSize)", New: "checkOSDiskSizeByPath(sk.dbDirs[0], targetSize-currentSize)"},
		{Name: "new spaces generated even when the indexed ones suffice", Kill: true, Rule: "C15-REUSE", File: fCapacity,
			Old: "\tresultList, currentSize, finished = fillSpaceListBySize(resultList, sk.getIndexedWorkSpaces(), currentSize, int(targetSize))\n\tif finished {\n\t\treturn successfullyReturn()\n\t}\n",
			New: "\tresultList, currentSize, finished = fillSpaceListBySize(resultList, sk.getIndexedWorkSpaces(), currentSize, int(targetSize))\n\t_ = finished\n"},
		{Name: "generation restarts from zero instead of the filled total", Kill: true, Rule: "C15-REUSE", File: fCapacity,
			Old: "sk.generateFillSpaceListBySize(resultList, currentSize, int(targetSize))", New: "sk.generateFillSpaceListBySize(resultList, 0, int(targetSize))"},
		{Name: "fill lets the total overshoot by one plot", Kill: true, Rule: "C15-BOUND", File: fCapacity,
			Old: "\t\tfor _, space := range srcMap[bl] {\n\t\t\tcurrentSize += int(poc.ProofTypeDefault.PlotSize(bl))\n\t\t\tif currentSize > targetSize {",
			New: "\t\tfor _, space := range srcMap[bl] {\n\t\t\tcurrentSize += int(poc.ProofTypeDefault.PlotSize(bl))\n\t\t\tif currentSize > targetSize+int(poc.ProofTypeDefault.PlotSize(bl)) {"},
		{Name: "smallest usable bit length raised above the chain minimum", Kill: true, Rule: "C15-BOUND", File: fCapacity,
			Old: "\treturn []int{24, 26, 28}\n", New: "\treturn []int{26, 28, 30}\n"},
		{Name: "generation compares the shortfall with a different bit length's size", Kill: true, Rule: "C15-BOUND", File: fCapacity,
			Old: "\t\t\tif targetSize-currentSize < int(poc.ProofTypeDefault.PlotSize(bl)) {\n\t\t\t\t// Current BitLength is too large\n\t\t\t\tbreak out\n\t\t\t}\n\t\t\tcurrentSize += int(poc.ProofTypeDefault.PlotSize(bl))\n\t\t\tnewWS, err := sk.generateNewWorkSpace(bl)",
			New: "\t\t\tif targetSize-currentSize < int(poc.ProofTypeDefault.PlotSize(poc.MinValidDefaultBitLength)) {\n\t\t\t\t// Current BitLength is too large\n\t\t\t\tbreak out\n\t\t\t}\n\t\t\tcurrentSize += int(poc.ProofTypeDefault.PlotSize(bl))\n\t\t\tnewWS, err := sk.generateNewWorkSpace(bl)"},

		{Name: "shortfall computed into a local before the disk check", Kill: false, File: fCapacity,
			Old: "\tif err := sk.checkOSDiskSize(targetSize - currentSize); err != nil {", New: "\trequired := targetSize - currentSize\n\tif err := sk.checkOSDiskSize(required); err != nil {"},
		{Name: "minimum-size test written negated", Kill: false, File: fCapacity,
			Old: "\tif targetSize < poc.ProofTypeDefault.PlotSize(usableBitLength()[0]) {", New: "\tif !(targetSize >= poc.ProofTypeDefault.PlotSize(usableBitLength()[0])) {"},
		{Name: "fill comparison written as add-then-test on a local", Kill: false, File: fCapacity,
			Old: "\t\tfor _, space := range srcMap[bl] {\n\t\t\tcurrentSize += int(poc.ProofTypeDefault.PlotSize(bl))\n\t\t\tif currentSize > targetSize {\n\t\t\t\tcurrentSize -= int(poc.ProofTypeDefault.PlotSize(bl))\n\t\t\t\tcontinue\n\t\t\t}\n\t\t\tdstList = append(dstList, space)",
			New: "\t\tfor _, space := range srcMap[bl] {\n\t\t\tnext := currentSize + int(poc.ProofTypeDefault.PlotSize(bl))\n\t\t\tif next > targetSize {\n\t\t\t\tcontinue\n\t\t\t}\n\t\t\tcurrentSize = next\n\t\t\tdstList = append(dstList, space)"},
	}
}

func init() {
	variants["C15"] = append(variants["C15"],
		variant{Name: "count-based finished flag reflects only the last bit length", Kill: true, Rule: "C15-REUSE", File: fCapacity,
			Old: "\t\tblFinished = currentCount[bl] == count\n\t\tfinished = finished && blFinished\n", New: "\t\tblFinished = currentCount[bl] == count\n\t\tfinished = blFinished\n"},
		variant{Name: "index deletions moved into the helper shared with RemoveWS", Kill: true, Rule: "C15-REUSE", File: fCapacity,
			Old:   "\tsk.workSpaceIndex[ws.state].Delete(sid)\n\tsk.workSpaceIndex[allState].Delete(sid)\n\tsk.disuseWorkSpace(ws)\n",
			New:   "\tsk.disuseWorkSpace(ws)\n",
			File2: fCapacity, Old2: "\tws.using = false\n\tsk.workSpaceList = deleteFromSlice(", New2: "\tws.using = false\n\tsk.workSpaceIndex[ws.state].Delete(ws.id.String())\n\tsk.workSpaceIndex[allState].Delete(ws.id.String())\n\tsk.workSpaceList = deleteFromSlice("},
		variant{Name: "finished accumulated with an if instead of &&", Kill: false, File: fCapacity,
			Old: "\t\tblFinished = currentCount[bl] == count\n\t\tfinished = finished && blFinished\n", New: "\t\tblFinished = currentCount[bl] == count\n\t\tif !blFinished {\n\t\t\tfinished = false\n\t\t}\n"},
	)
}
