package main

import (
	"go/constant"
	"go/token"
	"go/types"
	"sort"
	"strings"

	"golang.org/x/tools/go/ssa"
)

// checkBranchPersist (C05-BRANCHPUT): importing a keystore re-derives the issued keys of both branches
// (hdPath.InternalChildNum internal ones, hdPath.ExternalChildNum external ones) and persists the public
// key of each under (branch, index); after a restart only persisted keys are known, so only they can be
// signed for. For each of the two counters there must be a persisting call (putEncryptedPubKey, directly
// or through a helper the reference tree does not have) in createManagerKeyScope that runs whenever this
// counter is non-zero: a call that is not guarded by a "counter != 0" test of the other counter (one pass after
// both branches, or a pass guarded by this counter's own test only). A tree whose only persisting call is
// guarded by the other branch's counter drops a whole branch when the other one is empty (seed C05-r9a).
func checkBranchPersist(c *Ctx, rule string) {
	F := c.MustFn(rule, "poc/wallet/keystore", "createManagerKeyScope")
	if F == nil {
		return
	}
	counters := []string{"InternalChildNum", "ExternalChildNum"}
	// the counter a value reads, "" if none
	var counterOf func(v ssa.Value, depth int) string
	counterOf = func(v ssa.Value, depth int) string {
		if depth > 4 {
			return ""
		}
		fieldName := func(x ssa.Value, idx int) string { return structFieldName(x.Type(), idx) }
		switch x := v.(type) {
		case *ssa.UnOp:
			if x.Op == token.MUL {
				if fa, ok := x.X.(*ssa.FieldAddr); ok {
					return fieldName(fa.X, fa.Field)
				}
			}
			return counterOf(x.X, depth+1)
		case *ssa.Field:
			return fieldName(x.X, x.Field)
		case *ssa.Convert:
			return counterOf(x.X, depth+1)
		case *ssa.ChangeType:
			return counterOf(x.X, depth+1)
		}
		return ""
	}
	isZero := func(v ssa.Value) bool {
		k, ok := v.(*ssa.Const)
		if !ok || k.Value == nil || k.Value.Kind() != constant.Int {
			return false
		}
		n, exact := constant.Int64Val(k.Value)
		return exact && n == 0
	}
	// guards: block → counters whose non-zero test guards it
	type guard struct {
		succ *ssa.BasicBlock
		ctr  string
	}
	var guards []guard
	for _, b := range F.Blocks {
		if len(b.Instrs) == 0 {
			continue
		}
		ifi, ok := b.Instrs[len(b.Instrs)-1].(*ssa.If)
		if !ok || len(b.Succs) != 2 {
			continue
		}
		bo, ok := ifi.Cond.(*ssa.BinOp)
		if !ok {
			continue
		}
		var ctr string
		switch {
		case isZero(bo.Y):
			ctr = counterOf(bo.X, 0)
		case isZero(bo.X):
			ctr = counterOf(bo.Y, 0)
		}
		known := false
		for _, n := range counters {
			known = known || n == ctr
		}
		if !known {
			continue
		}
		switch bo.Op {
		case token.NEQ, token.GTR, token.LSS:
			guards = append(guards, guard{b.Succs[0], ctr})
		case token.EQL, token.LEQ, token.GEQ:
			guards = append(guards, guard{b.Succs[1], ctr})
		}
	}
	persists := func(h *ssa.Function) bool {
		found := false
		for _, g := range bodyFns(h, nil) {
			allInstrsShallow(g, func(in ssa.Instruction) {
				if strings.HasSuffix(calleeID(in), "poc/wallet/keystore.putEncryptedPubKey") {
					found = true
				}
			})
		}
		return found
	}
	type site struct {
		in  ssa.Instruction
		ctr map[string]bool
	}
	var sites []site
	allInstrsShallow(F, func(in ssa.Instruction) {
		ci, ok := in.(ssa.CallInstruction)
		if !ok {
			return
		}
		direct := strings.HasSuffix(calleeID(in), "poc/wallet/keystore.putEncryptedPubKey")
		if !direct {
			h := ci.Common().StaticCallee()
			if h == nil || !gNewFuncs[h] || !persists(h) {
				return
			}
		}
		s := site{in, map[string]bool{}}
		for _, g := range guards {
			if len(g.succ.Preds) == 1 && g.succ.Dominates(in.Block()) {
				s.ctr[g.ctr] = true
			}
		}
		sites = append(sites, s)
	})
	if len(sites) == 0 {
		c.Bad(rule, "createManagerKeyScope:anchor", c.Pos(F.Pos()), "reason=anchor-missing: no call persisting a public key (putEncryptedPubKey) in the import routine")
		return
	}
	for _, ctr := range counters {
		key := "createManagerKeyScope:persists-when-" + ctr + "-is-nonzero"
		ok := false
		var pos []string
		for _, s := range sites {
			pos = append(pos, c.Pos(s.in.Pos()))
			other := false
			for n := range s.ctr {
				other = other || n != ctr
			}
			if !other {
				ok = true
			}
		}
		sort.Strings(pos)
		if ok {
			c.OK(rule, key, pos[0], "a persisting call runs whenever this counter is non-zero (not guarded by the other counter's test)")
		} else {
			c.Bad(rule, key, pos[0], "every call that persists the re-derived public keys is guarded by the other branch's counter: an imported keystore whose other branch is empty gets this branch's keys derived and counted but not stored — after the import (and any restart) the wallet cannot sign for keys it issued")
		}
	}
}

// structFieldName: the name of field idx of the struct t is (or points to), "" otherwise.
func structFieldName(t types.Type, idx int) string {
	if p, ok := t.Underlying().(*types.Pointer); ok {
		t = p.Elem()
	}
	st, ok := t.Underlying().(*types.Struct)
	if !ok || idx < 0 || idx >= st.NumFields() {
		return ""
	}
	return st.Field(idx).Name()
}
