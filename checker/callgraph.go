package main

// A repo-specific call graph: static callees, interface dispatch to every repo (and mass-core)
// implementation (CHA), closures, and function values resolved by signature among address-taken
// functions. The thorough tier intersects dynamic edges with VTA's.

import (
	"go/types"
	"strings"

	"golang.org/x/tools/go/callgraph"
	"golang.org/x/tools/go/callgraph/cha"
	"golang.org/x/tools/go/callgraph/vta"
	"golang.org/x/tools/go/ssa"
	"golang.org/x/tools/go/ssa/ssautil"
)

type callEdge struct {
	Site   ssa.Instruction
	Callee *ssa.Function
	Kind   string // static | invoke | closure-call | closure-arg | closure-made | dynamic
	ArgOf  string // for closure-arg: callee id of the call receiving the closure
}

type cgCache struct {
	edges     map[*ssa.Function][]callEdge
	addrTaken map[*ssa.Function]bool
	vta       *callgraph.Graph
}

func (c *Ctx) initCG() {
	if c.cg != nil {
		return
	}
	c.cg = &cgCache{edges: map[*ssa.Function][]callEdge{}, addrTaken: map[*ssa.Function]bool{}}
	for fn := range c.AllFuncs {
		allInstrsShallow(fn, func(in ssa.Instruction) {
			var ops []*ssa.Value
			ops = in.Operands(ops)
			ci, isCall := in.(ssa.CallInstruction)
			for _, op := range ops {
				if op == nil || *op == nil {
					continue
				}
				if f, ok := (*op).(*ssa.Function); ok {
					if isCall && ci.Common().Value == f && !ci.Common().IsInvoke() {
						// direct call target, unless also passed as an argument
						cnt := 0
						for _, a := range ci.Common().Args {
							if a == f {
								cnt++
							}
						}
						if cnt == 0 {
							continue
						}
					}
					c.cg.addrTaken[f] = true
				}
			}
		})
	}
	// package-level initialisers (var secretKeyGen = defaultNewSecretKey) live in init functions,
	// which are in AllFuncs as synthetic package initialisers only if they have Pkg set: include them.
	for path, p := range c.SSA {
		if !strings.HasPrefix(path, repoMod) {
			continue
		}
		if init := p.Func("init"); init != nil {
			allInstrsShallow(init, func(in ssa.Instruction) {
				var ops []*ssa.Value
				for _, op := range in.Operands(ops) {
					if op != nil && *op != nil {
						if f, ok := (*op).(*ssa.Function); ok {
							c.cg.addrTaken[f] = true
						}
					}
				}
			})
		}
	}
}

// UseVTA switches dynamic-call resolution to the whole-program VTA graph (thorough tier).
func (c *Ctx) UseVTA() {
	c.initCG()
	all := ssautil.AllFunctions(c.Prog)
	c.cg.vta = vta.CallGraph(all, cha.CallGraph(c.Prog))
	c.cg.edges = map[*ssa.Function][]callEdge{}
}

func (c *Ctx) Callees(fn *ssa.Function) []callEdge {
	c.initCG()
	if e, ok := c.cg.edges[fn]; ok {
		return e
	}
	var out []callEdge
	if fn.Blocks == nil {
		c.cg.edges[fn] = nil
		return nil
	}
	var vtaOut map[ssa.Instruction][]*ssa.Function
	if c.cg.vta != nil {
		vtaOut = map[ssa.Instruction][]*ssa.Function{}
		if n := c.cg.vta.Nodes[fn]; n != nil {
			for _, e := range n.Out {
				if e.Site != nil {
					vtaOut[e.Site] = append(vtaOut[e.Site], e.Callee.Func)
				}
			}
		}
	}
	allInstrsShallow(fn, func(in ssa.Instruction) {
		if mc, ok := in.(*ssa.MakeClosure); ok {
			cl := mc.Fn.(*ssa.Function)
			if m := boundMethodTarget(mc); m != nil {
				cl = m // `x.m` used as a function value: the callee is the method, not its synthetic wrapper
			}
			kind := "closure-made"
			argOf := ""
			if refs := mc.Referrers(); refs != nil {
				onlyArgs := len(*refs) > 0
				for _, r := range *refs {
					if ci, ok := r.(ssa.CallInstruction); ok {
						if ci.Common().Value == mc {
							kind = "closure-call"
							continue
						}
						isArg := false
						for _, a := range ci.Common().Args {
							if a == mc {
								isArg = true
							}
						}
						if isArg {
							if _, isGo := r.(*ssa.Go); isGo {
								onlyArgs = false
								continue
							}
							argOf = calleeID(r)
							continue
						}
					}
					onlyArgs = false
				}
				if onlyArgs && argOf != "" && kind != "closure-call" {
					kind = "closure-arg"
				}
			}
			out = append(out, callEdge{Site: in, Callee: cl, Kind: kind, ArgOf: argOf})
			return
		}
		ci, ok := in.(ssa.CallInstruction)
		if !ok {
			return
		}
		cc := ci.Common()
		for _, a := range cc.Args {
			if f, ok := a.(*ssa.Function); ok {
				out = append(out, callEdge{Site: in, Callee: f, Kind: "closure-arg", ArgOf: calleeID(in)})
			}
		}
		if f := cc.StaticCallee(); f != nil {
			out = append(out, callEdge{Site: in, Callee: f, Kind: "static"})
			return
		}
		if cc.IsInvoke() {
			if vtaOut != nil {
				for _, f := range vtaOut[in] {
					out = append(out, callEdge{Site: in, Callee: f, Kind: "invoke"})
				}
				return
			}
			for _, f := range c.implementations(ci) {
				out = append(out, callEdge{Site: in, Callee: f, Kind: "invoke"})
			}
			return
		}
		if _, isB := cc.Value.(*ssa.Builtin); isB {
			return
		}
		// dynamic call through a function value
		if _, isParam := cc.Value.(*ssa.Parameter); isParam {
			// the callee is whatever the callers passed: modelled (context-sensitively) by the
			// closure-arg edges at the call sites that pass the function value.
			return
		}
		if vtaOut != nil {
			for _, f := range vtaOut[in] {
				out = append(out, callEdge{Site: in, Callee: f, Kind: "dynamic"})
			}
			return
		}
		sig, _ := cc.Value.Type().Underlying().(*types.Signature)
		// a parameter or free variable called: resolved through closures bound at the call sites; here
		// approximate by every address-taken function and closure of identical signature.
		if sig != nil {
			for f := range c.cg.addrTaken {
				if types.Identical(f.Signature, sig) {
					out = append(out, callEdge{Site: in, Callee: f, Kind: "dynamic"})
				}
			}
			for f := range c.AllFuncs {
				if f.Parent() != nil && types.Identical(f.Signature, sig) {
					out = append(out, callEdge{Site: in, Callee: f, Kind: "dynamic"})
				}
			}
		}
	})
	c.cg.edges[fn] = out
	return out
}

// Reachable computes the functions reachable from roots following edges accepted by follow.
// The returned map gives, for each reached function, the edge through which it was first reached
// (for path reporting).
func (c *Ctx) Reachable(roots []*ssa.Function, follow func(from *ssa.Function, e callEdge) bool) map[*ssa.Function]*reachVia {
	seen := map[*ssa.Function]*reachVia{}
	var work []*ssa.Function
	for _, r := range roots {
		if r != nil && seen[r] == nil {
			seen[r] = &reachVia{}
			work = append(work, r)
		}
	}
	for len(work) > 0 {
		f := work[0]
		work = work[1:]
		for _, e := range c.Callees(f) {
			if e.Callee == nil {
				continue
			}
			if follow != nil && !follow(f, e) {
				continue
			}
			if seen[e.Callee] == nil {
				seen[e.Callee] = &reachVia{From: f, Edge: e}
				work = append(work, e.Callee)
			}
		}
	}
	return seen
}

type reachVia struct {
	From *ssa.Function
	Edge callEdge
}

func pathTo(seen map[*ssa.Function]*reachVia, f *ssa.Function) string {
	var parts []string
	for f != nil {
		parts = append([]string{FuncName(f)}, parts...)
		v := seen[f]
		if v == nil || v.From == nil {
			break
		}
		f = v.From
	}
	return strings.Join(parts, " -> ")
}

func inRepo(f *ssa.Function) bool {
	return f != nil && f.Pkg != nil && strings.HasPrefix(f.Pkg.Pkg.Path(), repoMod)
}

func inPkg(f *ssa.Function, suffix string) bool {
	for f != nil && f.Pkg == nil && f.Parent() != nil {
		f = f.Parent()
	}
	return f != nil && f.Pkg != nil && f.Pkg.Pkg.Path() == repoMod+"/"+suffix
}

func pkgOf(f *ssa.Function) string {
	for f != nil && f.Pkg == nil && f.Parent() != nil {
		f = f.Parent()
	}
	if f == nil || f.Pkg == nil {
		return ""
	}
	return f.Pkg.Pkg.Path()
}
