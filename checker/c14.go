package main

// C14 — data-race freedom's structural half: pairwise locksets on the wallet's shared fields.

import (
	"fmt"
	"go/token"
	"go/types"
	"sort"
	"strings"

	"golang.org/x/tools/go/ssa"
)

func init() { register("C14", checkC14) }

type guardAccess struct {
	fa    fieldAccess
	fn    *ssa.Function
	locks map[string]bool // effective protecting lock classes
	all   lockset
}

// ownerPath maps the base path of an access to the path of the object that owns the protecting
// per-instance mutex: a.acctInfo.x and a.branchInfo.y are owned by a.
func ownerPath(base ssa.Value) string {
	p := accessPath(base)
	for _, suf := range []string{".acctInfo", ".branchInfo"} {
		p = strings.TrimSuffix(p, suf)
	}
	return p
}

type guardCfg struct {
	rule        string
	scopePkgs   []string
	sharedTypes map[string]bool
	perInstance map[string]bool   // lock classes with per-object identity
	instanceOf  map[string]string // field's struct type -> per-instance lock class that can protect it
	exemptField func(t, f string) bool
	keyPrefix   string
}

func runGuard(c *Ctx, cfg guardCfg) (nFields, nPairs int) {
	scope := map[*ssa.Function]bool{}
	for fn := range c.AllFuncs {
		for _, p := range cfg.scopePkgs {
			if pkgOf(fn) == p {
				scope[fn] = true
			}
		}
	}
	li := computeLocksets(c, scope, cfg.perInstance, func(fn *ssa.Function) bool { return isExportedFunc(fn) })
	byField := map[string][]guardAccess{}
	fns := []*ssa.Function{}
	for f := range scope {
		fns = append(fns, f)
	}
	sort.Slice(fns, func(i, j int) bool { return fns[i].String() < fns[j].String() })
	for _, fn := range fns {
		accs := fieldAccessesShallow(fn)
		// a copy of a whole shared object (`v := *p`, a call of a value-receiver method through a pointer)
		// reads every one of its fields at that point
		allInstrsShallow(fn, func(in ssa.Instruction) {
			u, ok := in.(*ssa.UnOp)
			if !ok || u.Op != token.MUL {
				return
			}
			nt, isN := u.Type().(*types.Named)
			if !isN || nt.Obj().Pkg() == nil {
				return
			}
			tname := nt.Obj().Pkg().Path() + "." + nt.Obj().Name()
			st, isS := nt.Underlying().(*types.Struct)
			if !isS || !cfg.sharedTypes[tname] {
				return
			}
			for i := 0; i < st.NumFields(); i++ {
				accs = append(accs, fieldAccess{In: in, Type: tname, Field: st.Field(i).Name(), Kind: "load", Base: u.X})
			}
		})
		for _, a := range accs {
			if !cfg.sharedTypes[a.Type] {
				continue
			}
			if isFreshObject(a.Base) {
				continue
			}
			if cfg.exemptField != nil && cfg.exemptField(a.Type, a.Field) {
				continue
			}
			ls := li.at[a.In]
			eff := map[string]bool{}
			own := ownerPath(a.Base)
			for k := range ls {
				if cfg.perInstance[k.Class] {
					if cfg.instanceOf[a.Type] == k.Class && k.Base != "" && k.Base == own {
						eff[k.Class] = true
					}
					continue
				}
				if a.Write && k.Mode == 'R' {
					continue // a read lock does not make a store exclusive
				}
				eff[k.Class] = true
			}
			byField[a.Type+"."+a.Field] = append(byField[a.Type+"."+a.Field], guardAccess{fa: a, fn: fn, locks: eff, all: ls})
		}
	}
	fields := []string{}
	for f := range byField {
		fields = append(fields, f)
	}
	sort.Strings(fields)
	for _, f := range fields {
		accs := byField[f]
		var stores []guardAccess
		for _, a := range accs {
			if a.fa.Write {
				stores = append(stores, a)
			}
		}
		if len(stores) == 0 {
			continue // immutable after construction
		}
		nFields++
		// group by (store function, other function)
		type pairKey struct{ s, o string }
		badPairs := map[pairKey]string{}
		okPairs := map[pairKey]bool{}
		for _, s := range stores {
			for _, o := range accs {
				if s.fa.In == o.fa.In {
					continue
				}
				nPairs++
				shared := false
				for l := range s.locks {
					if o.locks[l] {
						shared = true
					}
				}
				pk := pairKey{FuncName(s.fn), FuncName(o.fn)}
				if shared {
					okPairs[pk] = true
					continue
				}
				if _, dup := badPairs[pk]; !dup {
					badPairs[pk] = fmt.Sprintf("%s of %s in %s at %s holds %s; %s in %s at %s holds %s — no common lock", s.fa.Kind, shortType(f), FuncName(s.fn), c.Pos(s.fa.In.Pos()), s.all, o.fa.Kind, FuncName(o.fn), c.Pos(o.fa.In.Pos()), o.all)
				}
			}
		}
		if len(badPairs) == 0 {
			c.OK(cfg.rule, cfg.keyPrefix+shortType(f), c.Pos(stores[0].fa.In.Pos()), fmt.Sprintf("%d stores, %d accesses: every store shares a lock with every other access", len(stores), len(accs)))
			continue
		}
		keys := []pairKey{}
		for k := range badPairs {
			keys = append(keys, k)
		}
		sort.Slice(keys, func(i, j int) bool { return keys[i].s+keys[i].o < keys[j].s+keys[j].o })
		for _, k := range keys {
			c.Bad(cfg.rule, cfg.keyPrefix+shortType(f)+":"+k.s+"|"+k.o, "", badPairs[k])
		}
	}
	return
}

func checkC14(c *Ctx) Meta {
	c.Rule("C14-GUARD", "for every field of KeystoreManagerForPoC / AddrManager / accountInfo / branchInfo that is stored to after construction, every store shares a held lock with every other access of that field (kmc.mu class-level; a.mu per instance: the lock's owner object must be the accessed object)", 10)
	nF, nP := runGuard(c, guardCfg{
		rule:        "C14-GUARD",
		scopePkgs:   []string{pkgKeystore},
		sharedTypes: map[string]bool{tKMC: true, tAddrMgr: true, tAcctInfo: true, tBranchInfo: true},
		perInstance: map[string]bool{tAddrMgr + ".mu": true},
		instanceOf:  map[string]string{tAddrMgr: tAddrMgr + ".mu", tAcctInfo: tAddrMgr + ".mu", tBranchInfo: tAddrMgr + ".mu"},
		exemptField: func(t, f string) bool { return f == "mu" },
	})
	c.Note("fields stored after construction: %d; store/access pairs examined: %d", nF, nP)
	// lock identity: the per-instance argument above is only valid if a lock-carrying object is never
	// copied by value (the copy gets its own mutex but shares the maps and pointers)
	c.Rule("C14-COPY", "objects of the lock-carrying shared types (KeystoreManagerForPoC, AddrManager) and managed addresses (whose private key is written under the manager lock) are never copied by value anywhere in the repository", 1)
	c.Rule("C14-PAIR", "every lock taken explicitly in the wallet is released on every path (deferred, or an Unlock before each return); manager methods never call other lock-taking manager methods (no stale snapshots between two critical sections, no self-deadlock)", 30)
	checkLockPairing(c, "C14-PAIR", []string{pkgKeystore})
	c.Rule("C14-SPAWN", "the wallet starts no goroutine that writes shared object state without a lock: every `go` statement in the wallet packages starts a function that writes no field of an object it did not allocate, or takes a mutex (the lock-discipline argument of this property is per call; the reference tree has no goroutine inside the wallet)", 1)
	checkWalletSpawns(c, "C14-SPAWN", copyRulePkgs["C14"])
	c.Rule("C14-LOCKSTATE", "the lock state changes only by Lock and by a successful Unlock: Unlock marks the manager unlocked only if no keystore failed, and a failed Unlock does not run the eraser (the C05 / C03 all-or-nothing rule as a premise of 'every history has a sequential explanation': a failed call has no effect)", 1)
	checkUnlockAllOrNothing(c, "C14-LOCKSTATE")
	checkNoNestedPublicCalls(c, "C14-PAIR")
	// …nor a managed address: its private key is written under its manager's lock at every lock/unlock,
	// and a copy (a value-receiver accessor, `v := *ma`) reads that field with no lock at all
	lockCarrying := map[string]bool{tKMC: true, tAddrMgr: true, tManagedAddr: true}
	nCopy := 0
	var cfns []*ssa.Function
	for fn := range c.AllFuncs {
		cfns = append(cfns, fn)
	}
	sort.Slice(cfns, func(i, j int) bool { return cfns[i].String() < cfns[j].String() })
	for _, fn := range cfns {
		allInstrsShallow(fn, func(in ssa.Instruction) {
			v, ok := in.(ssa.Value)
			if !ok {
				return
			}
			n, isNamed := v.Type().(*types.Named)
			if !isNamed || !lockCarrying[typeFullName(n)] {
				return
			}
			switch in.(type) {
			case *ssa.UnOp, *ssa.Call, *ssa.Phi, *ssa.Extract, *ssa.Field, *ssa.Lookup, *ssa.Index, *ssa.TypeAssert:
				nCopy++
				c.Bad("C14-COPY", FuncName(fn)+":copies:"+shortType(typeFullName(n)), c.Pos(in.Pos()), "a "+shortType(typeFullName(n))+" is copied by value: a manager's copy carries its own mutex while sharing the address map and key objects with the original (holders of the copy and of the original exclude nobody); copying a managed address (a value-receiver accessor, `v := *ma`) reads its private-key field with no lock while lock/unlock write it")
			}
		})
	}
	if nCopy == 0 {
		c.OK("C14-COPY", "no-value-copies", "", fmt.Sprintf("%d functions scanned, no value of a lock-carrying type is loaded, returned or passed by value", len(cfns)))
	}
	c.Rule("C14-SNAPSHOT", "what an operation reads under the lock is the state itself: the two branch counters read in one transaction are the external and the internal counter (shared polarity rule of C06/C01) — an export taken between issuance requests then matches a state the wallet was actually in, as the one-at-a-time order requires", 10)
	if len(c.aliases) == 0 { // only as C14's own rule (the properties that alias C14's lock rules have the polarity rule themselves)
		checkBranchPolarity(c, "C14-SNAPSHOT")
		checkRemarkCleared(c, "C14-SNAPSHOT") // and what a remark change shows in memory is what it left in the store
	} else {
		delete(c.Rules, c.alias("C14-SNAPSHOT"))
		delete(c.Floors, c.alias("C14-SNAPSHOT"))
	}

	return Meta{
		Explanation: "Decides only the lock-discipline half of 'free of data races': computed must-held locksets (forward dataflow per function, entry locksets by intersection over call sites to a fixpoint, closures passed to db.Update/View inherit the call site's lockset) and the pairwise rule store-vs-any-access on the shared wallet types. A violation names the two sites and both locksets.",
		NotDecided:  "linearizability; races on pointees mutated through method calls on a loaded pointer (snacl.SecretKey.Zero/DeriveKey, ManagedAddress fields, which escape to callers by design); races inside mass-core or leveldb.",
		Trusted:     []string{"go/ssa", "sync.Mutex semantics", "objects under construction (composite literals in loadAddrManager / NewKeystoreManagerForPoC) are not yet shared"},
	}
}
