package main

const fGateway = "api/gateway.go"
const fAPIUtil = "api/util.go"
const fAPIServer = "api/server.go"

func init() {
	variants["C20"] = []variant{
		{Name: "gateway served without the access-control wrapper", Kill: true, Rule: "C20-GATE", File: fGateway,
			Old: "\thandle := accessControlHandler(concurrentRequestHandler(maxBytesHandler(mux)), isAllowedAddress)", New: "\thandle := concurrentRequestHandler(maxBytesHandler(mux))\n\t_ = isAllowedAddress"},
		{Name: "wrapper lets GET requests through without a decision", Kill: true, Rule: "C20-GATE", File: fGateway,
			Old: "\t\tif !isAllowedAddress(req.RemoteAddr) {", New: "\t\tif !isAllowedAddress(req.RemoteAddr) && req.Method != \"GET\" {"},
		{Name: "wrapper decides on a client-supplied header", Kill: true, Rule: "C20-GATE", File: fGateway,
			Old: "\t\tif !isAllowedAddress(req.RemoteAddr) {", New: "\t\tif !isAllowedAddress(req.Header.Get(\"X-Forwarded-For\")) {"},
		{Name: "gRPC listens on all interfaces", Kill: true, Rule: "C20-GATE", File: fAPIServer,
			Old: "GRPCListenAddress = \"127.0.0.1\"", New: "GRPCListenAddress = \"0.0.0.0\""},
		{Name: "172.16 LAN rule widened to /8", Kill: true, Rule: "C20-ALLOW", File: fGateway,
			Old: "net.ParseIP(\"172.16.0.0\"), Mask: net.CIDRMask(12, 32)", New: "net.ParseIP(\"172.16.0.0\"), Mask: net.CIDRMask(8, 32)"},
		{Name: "unresolvable remote address is allowed", Kill: true, Rule: "C20-ALLOW", File: fGateway,
			Old: "logging.LogFormat{\"request_addr\": addr, \"err\": err})\n\t\t\treturn false", New: "logging.LogFormat{\"request_addr\": addr, \"err\": err})\n\t\t\treturn true"},
		{Name: "LAN keys swapped (prefix 10 enables 192.168)", Kill: true, Rule: "C20-ALLOW", File: fGateway,
			Old: "map[string]net.IPNet{\"10\": rfc1918_10, \"192\": rfc1918_192,", New: "map[string]net.IPNet{\"10\": rfc1918_192, \"192\": rfc1918_10,"},
		{Name: "binding target appends size before proof type", Kill: true, Rule: "C20-TARGET", File: fAPIUtil,
			Old: "byte(proofType), byte(bitLength))", New: "byte(bitLength), byte(proofType))"},
		{Name: "v2 binding target computed from the farmer key instead of the plot id", Kill: true, Rule: "C20-TARGET", File: "api/spaces.v2.go",
			Old: "getBindingTarget(wsi.PlotID.Bytes(), poc.ProofTypeChia", New: "getBindingTarget(wsi.PublicKey.SerializeCompressed(), poc.ProofTypeChia"},
		{Name: "v1 binding target uses the chia proof type", Kill: true, Rule: "C20-TARGET", File: "api/spaces.v1.go",
			Old: "getBindingTarget(pkBytes, poc.ProofTypeDefault, wsi.BitLength)", New: "getBindingTarget(pkBytes, poc.ProofTypeChia, wsi.BitLength)"},
		{Name: "fractional part parsed through float64", Kill: true, Rule: "C20-EXACT", File: fAPIUtil,
			Old: "\tf, err := strconv.ParseInt(sFrac, 10, 64)\n", New: "\tff, err := strconv.ParseFloat(\"0.\"+sFrac, 64)\n\tf := int64(ff * 1e8)\n"},

		{Name: "getBindingTarget delegates to the chain library", Kill: false, File: fAPIUtil,
			Old: "\thash := append(massutil.Hash160(pub), byte(proofType), byte(bitLength))\n\ttarget, err := massutil.NewAddressBindingTarget(hash, config.ChainParams)\n\tif err != nil {\n\t\treturn \"\", err\n\t}\n\treturn target.EncodeAddress(), nil",
			New: "\t_ = config.ChainParams\n\treturn massutil.GetBindingTarget(pub, proofType, bitLength)"},
		{Name: "wrapper written allow-first", Kill: false, File: fGateway,
			Old: "\t\tif !isAllowedAddress(req.RemoteAddr) {\n\t\t\tlogging.CPrint(logging.WARN, \"api received request from forbidden address\", logging.LogFormat{\"remote_addr\": req.RemoteAddr, \"url_path\": req.URL.Path})\n\t\t\truntime.OtherErrorHandler(w, req, http.StatusText(http.StatusForbidden), http.StatusForbidden)\n\t\t\treturn\n\t\t}\n\t\th.ServeHTTP(w, req)",
			New: "\t\tif isAllowedAddress(req.RemoteAddr) {\n\t\t\th.ServeHTTP(w, req)\n\t\t\treturn\n\t\t}\n\t\tlogging.CPrint(logging.WARN, \"api received request from forbidden address\", logging.LogFormat{\"remote_addr\": req.RemoteAddr, \"url_path\": req.URL.Path})\n\t\truntime.OtherErrorHandler(w, req, http.StatusText(http.StatusForbidden), http.StatusForbidden)"},
		{Name: "request ip rendered once into a local", Kill: false, File: fGateway,
			Old: "\t\tif tcpAddr.IP.String() == \"127.0.0.1\" || tcpAddr.IP.String() == \"::1\" {", New: "\t\tremote := tcpAddr.IP.String()\n\t\tif remote == \"127.0.0.1\" || remote == \"::1\" {"},
		{Name: "binding targets memoised by key only (seed C20-r2b)", Kill: true, Rule: "C20-TARGET", File: "api/util.go",
			Old: "func getBindingTarget(pub []byte, proofType poc.ProofType, bitLength int) (string, error) {\n", New: "var bindingTargets = map[string]string{}\n\nfunc getBindingTarget(pub []byte, proofType poc.ProofType, bitLength int) (string, error) {\n\tif encoded, ok := bindingTargets[string(pub)]; ok {\n\t\treturn encoded, nil\n\t}\n"},
		{Name: "binding target encoded into a local before returning", Kill: false, File: "api/util.go",
			Old: "\treturn target.EncodeAddress(), nil\n}", New: "\tencoded := target.EncodeAddress()\n\treturn encoded, nil\n}"},
	}
}
