package main

import (
	"encoding/json"
	"flag"
	"fmt"
	"os"
	"runtime/debug"
	"sort"
)

type propFunc func(c *Ctx) Meta

var props = map[string]propFunc{}

func register(id string, f propFunc) { props[id] = f }

func main() {
	prop := flag.String("prop", "", "property id (C01..C20)")
	tier := flag.String("tier", "quick", "quick|thorough")
	repo := flag.String("repo", "/repo", "repository root")
	verif := flag.String("verif", "/verif", "verif root (evidence, known findings)")
	overlay := flag.String("overlay", "", "JSON file {abs file: new content} applied as a type-checker overlay (self-validation)")
	noEvidence := flag.Bool("no-evidence", false, "do not write evidence (used by the self-validation children)")
	list := flag.Bool("list", false, "list implemented properties")
	selftest := flag.Bool("selftest", false, "run the overlay self-validation variants of -prop and exit")
	genRef := flag.Bool("gen-reference", false, "write <verif>/reference_symbols.json from the tree at -repo (the reference for rename canonicalisation) and exit")
	flag.Parse()
	if *genRef {
		c, err := Load(*repo, nil)
		if err != nil {
			fmt.Printf("BROKEN: %v\n", err)
			os.Exit(2)
		}
		if err := writeReference(c, *verif); err != nil {
			fmt.Printf("BROKEN: %v\n", err)
			os.Exit(2)
		}
		fmt.Println("reference symbols written to", referenceFile(*verif))
		return
	}
	if *list {
		ids := []string{}
		for id := range props {
			ids = append(ids, id)
		}
		sort.Strings(ids)
		for _, id := range ids {
			fmt.Println(id)
		}
		return
	}
	if env := os.Getenv("VERIF_TIER"); env != "" && !isFlagSet("tier") {
		*tier = env
	}
	f, ok := props[*prop]
	if !ok {
		fmt.Printf("BROKEN: unknown property %q\n", *prop)
		os.Exit(2)
	}
	if *selftest {
		os.Exit(runSelfTest(*prop, *repo, *verif))
	}
	var ov map[string][]byte
	if *overlay != "" {
		b, err := os.ReadFile(*overlay)
		if err != nil {
			fmt.Printf("BROKEN: %v\n", err)
			os.Exit(2)
		}
		var m map[string]string
		if err := json.Unmarshal(b, &m); err != nil {
			fmt.Printf("BROKEN: %v\n", err)
			os.Exit(2)
		}
		ov = map[string][]byte{}
		for k, v := range m {
			ov[k] = []byte(v)
		}
	}
	st := 0
	if *tier == "thorough" && ov == nil {
		// thorough = quick rules with the VTA call graph (done in run) + checker self-validation
		st = runSelfTest(*prop, *repo, *verif)
	}
	code := run(*prop, *tier, *repo, *verif, ov, f, *noEvidence)
	if code == 0 && st != 0 {
		code = st
	}
	os.Exit(code)
}

func isFlagSet(name string) bool {
	set := false
	flag.Visit(func(f *flag.Flag) {
		if f.Name == name {
			set = true
		}
	})
	return set
}

func run(prop, tier, repo, verif string, ov map[string][]byte, f propFunc, noEvidence bool) (code int) {
	defer func() {
		if r := recover(); r != nil {
			fmt.Printf("BROKEN: analysis panic: %v\n%s\n", r, debug.Stack())
			code = 2
		}
	}()
	c, err := LoadCanonical(repo, verif, ov)
	if err != nil {
		if ov != nil {
			fmt.Printf("VARIANT-DOES-NOT-COMPILE: %v\n", err)
			return 3
		}
		fmt.Printf("BROKEN: %v\n", err)
		return 2
	}
	c.Prop = prop
	c.Tier = tier
	if tier == "thorough" {
		c.UseVTA()
	}
	meta := f(c)
	runCopyRule(c, prop)
	runDelegateRule(c, prop)
	runPoolRule(c, prop)
	if noEvidence {
		verifTmp, _ := os.MkdirTemp("", "verifchk-variant")
		defer os.RemoveAll(verifTmp)
		// known findings still apply to variants
		if b, err := os.ReadFile(verif + "/known_findings.json"); err == nil {
			os.WriteFile(verifTmp+"/known_findings.json", b, 0o644)
		}
		return c.Finish(verifTmp, meta, nil)
	}
	extra := map[string]interface{}{}
	if tier == "thorough" {
		extra["self_validation"] = lastSelfTest
		extra["self_validation_rule"] = "each variant is one exact-once textual substitution applied through a type-checker overlay; kill variants must be reported by the named rule, silent (behaviour-preserving) variants must not be reported"
		extra["call_graph"] = "VTA over CHA (whole program)"
	} else {
		extra["call_graph"] = "static callees + CHA over repository types + signature-matched function values"
	}
	return c.Finish(verif, meta, extra)
}
