package main

const fAPIWallets = "api/wallets.go"

func init() {
	variants["C04"] = []variant{
		{Name: "account private key encrypted under the public crypto key", Kill: true, Rule: "C04-ENC", File: fMgr,
			Old: "\tacctPrivEnc, err := cryptoKeyPriv.Encrypt([]byte(acctKeyPriv.String()))\n", New: "\tacctPrivEnc, err := cryptoKeyPub.Encrypt([]byte(acctKeyPriv.String()))\n"},
		{Name: "create passes the crypto keys in the wrong order", Kill: true, Rule: "C04-ENC", File: fMgr,
			Old: "\tacctBucketMeta, err := createManagerKeyScope(kmBucket, rootKey,\n\t\tcryptoKeyPub, cryptoKeyPriv, hdPath, net)\n", New: "\tacctBucketMeta, err := createManagerKeyScope(kmBucket, rootKey,\n\t\tcryptoKeyPriv, cryptoKeyPub, hdPath, net)\n"},
		{Name: "private crypto key sealed under the public master key", Kill: true, Rule: "C04-ENC", File: fMgr,
			Old: "\tcryptoKeyPrivEnc, err := masterKeyPriv.Encrypt(cryptoKeyPriv.Bytes())\n\tif err != nil {\n\t\treturn nil, fmt.Errorf(\"failed to encrypt crypto private key: %v\", err)\n\t}\n",
			New: "\tcryptoKeyPrivEnc, err := masterKeyPub.Encrypt(cryptoKeyPriv.Bytes())\n\tif err != nil {\n\t\treturn nil, fmt.Errorf(\"failed to encrypt crypto private key: %v\", err)\n\t}\n"},
		{Name: "shared new master key zeroed inside the per-keystore helper (seed C04-a)", Kill: true, Rule: "C04-ENC", File: fAddrMgr,
			Old: "\terr = putCryptoKeys(amBucket, nil, cPrivKeyEncNew)\n\tif err != nil {\n\t\treturn err\n\t}\n\n\treturn nil\n}",
			New: "\terr = putCryptoKeys(amBucket, nil, cPrivKeyEncNew)\n\tif err != nil {\n\t\treturn err\n\t}\n\tif !a.unlocked {\n\t\tnewMasterPrivKey.Zero()\n\t}\n\n\treturn nil\n}"},
		{Name: "master HD key stored without encryption", Kill: true, Rule: "C04-STORE", File: fMgr,
			Old: "\terr = putMasterHDKeys(acctBucket, masterHDPrivKeyEnc, masterHDPubKeyEnc)\n\tif err != nil {\n\t\treturn nil, err\n\t}\n\n\t// Save the encrypted crypto keys to the database.\n\terr = putCryptoKeys(acctBucket, cryptoKeyPubEnc, cryptoKeyPrivEnc)\n\tif err != nil {\n\t\treturn nil, err\n\t}\n\n\treturn acctBucketMeta, nil",
			New: "\t_ = masterHDPrivKeyEnc\n\terr = putMasterHDKeys(acctBucket, []byte(rootKey.String()), masterHDPubKeyEnc)\n\tif err != nil {\n\t\treturn nil, err\n\t}\n\n\t// Save the encrypted crypto keys to the database.\n\terr = putCryptoKeys(acctBucket, cryptoKeyPubEnc, cryptoKeyPrivEnc)\n\tif err != nil {\n\t\treturn nil, err\n\t}\n\n\treturn acctBucketMeta, nil"},
		{Name: "remark slot reused to remember the passphrase hint", Kill: true, Rule: "C04-STORE", File: fMgr,
			Old: "\tif len(remark) > 0 {\n\t\terr = putRemark(acctBucket, []byte(remark))\n", New: "\tif len(remark) > 0 {\n\t\terr = putRemark(acctBucket, append([]byte(remark), privPassphrase[:2]...))\n"},
		{Name: "export includes the decrypted crypto key for convenience", Kill: true, Rule: "C04-EXPORT", File: fAddrMgr,
			Old: "\texKey, err := export(amBucket, a.hdScope)\n\tif err != nil {", New: "\texKey, err := export(amBucket, a.hdScope)\n\tif err == nil && a.unlocked {\n\t\texKey.Crypto.CryptoKeyPrivEnc = hex.EncodeToString(a.cryptoKeyPriv.Bytes())\n\t}\n\tif err != nil {"},
		{Name: "failed import logs the whole request (seed C04-b)", Kill: true, Rule: "C04-LOG", File: fAPIWallets,
			Old: "\t\tlogging.CPrint(logging.ERROR, \"failed to import keystore\", logging.LogFormat{\"error\": err})\n", New: "\t\tlogging.CPrint(logging.ERROR, \"failed to import keystore\", logging.LogFormat{\"error\": err, \"request\": in})\n"},
		{Name: "wrong passphrase is logged with the passphrase tried", Kill: true, Rule: "C04-LOG", File: fMgr,
			Old: "\t\t\t\tlogging.CPrint(logging.ERROR, \"password wrong\",\n\t\t\t\t\tlogging.LogFormat{\n\t\t\t\t\t\t\"error\": err,\n\t\t\t\t\t})\n",
			New: "\t\t\t\tlogging.CPrint(logging.ERROR, \"password wrong\",\n\t\t\t\t\tlogging.LogFormat{\n\t\t\t\t\t\t\"error\": err,\n\t\t\t\t\t\t\"tried\": string(privPassphrase),\n\t\t\t\t\t})\n"},
		{Name: "unlock debug line prints the account key", Kill: true, Rule: "C04-LOG", File: fAddrMgr,
			Old: "\ta.acctInfo.acctKeyPriv = acctKeyExPriv\n", New: "\ta.acctInfo.acctKeyPriv = acctKeyExPriv\n\tlogging.CPrint(logging.DEBUG, \"account key ready\", logging.LogFormat{\"key\": acctKeyExPriv.String()})\n"},
		{Name: "API unlock logs the passphrase length and value on failure", Kill: true, Rule: "C04-LOG", File: fAPIWallets,
			Old: "\t\tlogging.CPrint(logging.ERROR, \"api unlock wallet failed\", logging.LogFormat{\"err\": err})\n", New: "\t\tlogging.CPrint(logging.ERROR, \"api unlock wallet failed\", logging.LogFormat{\"err\": err, \"pass\": in.Passphrase})\n"},
		{Name: "decrypt failure reports the key it used", Kill: true, Rule: "C04-ERR", File: fMgr,
			Old: "\tcryptoKeyPrivEnc, err := masterKeyPriv.Encrypt(cryptoKeyPriv.Bytes())\n\tif err != nil {\n\t\treturn nil, fmt.Errorf(\"failed to encrypt crypto private key: %v\", err)\n\t}\n",
			New: "\tcryptoKeyPrivEnc, err := masterKeyPriv.Encrypt(cryptoKeyPriv.Bytes())\n\tif err != nil {\n\t\treturn nil, fmt.Errorf(\"failed to encrypt crypto private key %x: %v\", cryptoKeyPriv.Bytes(), err)\n\t}\n"},

		{Name: "log of the public key of a new address", Kill: false, File: fAddrMgr,
			Old: "\t\tpubKeyBytes := info.managedAddr.pubKey.SerializeCompressed()\n\t\tpubKeyEnc, err := a.cryptoKeyPub.Encrypt(pubKeyBytes)\n", New: "\t\tpubKeyBytes := info.managedAddr.pubKey.SerializeCompressed()\n\t\tlogging.CPrint(logging.DEBUG, \"new public key\", logging.LogFormat{\"pub\": hex.EncodeToString(pubKeyBytes)})\n\t\tpubKeyEnc, err := a.cryptoKeyPub.Encrypt(pubKeyBytes)\n"},
		{Name: "import logs the wallet id and remark", Kill: false, File: fAPIWallets,
			Old: "\treturn &pb.ImportKeystoreResponse{\n\t\tStatus:   true,\n", New: "\tlogging.CPrint(logging.INFO, \"keystore imported\", logging.LogFormat{\"id\": accountID, \"remark\": remark, \"path\": in.ImportPath})\n\treturn &pb.ImportKeystoreResponse{\n\t\tStatus:   true,\n"},
		{Name: "new master key zeroed by a defer in the caller only", Kill: false, File: fMgr,
			Old: "\tdefer func() {\n\t\tif !kmc.unlocked {\n\t\t\tnewMasterPrivKey.Zero()\n\t\t}\n\t}()\n", New: "\tdefer newMasterPrivKey.Zero()\n"},
	}
}
