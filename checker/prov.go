package main

// PROV: backward may-derive slices on SSA, and access paths for object identity.

import (
	"fmt"
	"go/token"
	"go/types"
	"strings"

	"golang.org/x/tools/go/ssa"
)

type slice struct {
	vals map[ssa.Value]bool
}

// backSlice computes every SSA value that v may derive from inside its function (and, through
// free variables, the enclosing functions): operands of arithmetic, conversions, phis, call
// arguments and receivers (a call result may derive from any argument), reaching stores of
// local cells, field addresses and their bases, index/slice operands, map lookups.
func backSlice(v ssa.Value) *slice {
	s := &slice{vals: map[ssa.Value]bool{}}
	var rec func(x ssa.Value)
	rec = func(x ssa.Value) {
		if x == nil || s.vals[x] {
			return
		}
		s.vals[x] = true
		switch y := x.(type) {
		case *ssa.Phi:
			for _, e := range y.Edges {
				rec(e)
			}
		case *ssa.UnOp:
			if y.Op == token.MUL {
				if fa, isFA := y.X.(*ssa.FieldAddr); isFA && len(gNewTypes) > 0 {
					if k, isNew := newTypeFieldKey(fa); isNew {
						for _, v := range gNewTypeStores[k] {
							rec(v)
						}
					}
				}
				if c := cellOf(y.X); c != nil {
					fn := y.Parent()
					rd := rdOf(fn)
					for _, st := range rd.loads[y] {
						rec(st.(*ssa.Store).Val)
					}
					// a struct loaded as a whole: it may have been filled field by field
					if _, isStruct := y.Type().Underlying().(*types.Struct); isStruct {
						if a, isA := rootCell(c).(*ssa.Alloc); isA && a.Parent() == fn {
							rec(a)
						}
					}
					if rd.fromEntry[y] {
						root := rootCell(c)
						s.vals[root] = true
						// stores in the function owning the cell (flow-insensitive)
						if a, ok := root.(*ssa.Alloc); ok && a.Parent() != fn {
							for _, f := range withClosures(a.Parent()) {
								allInstrsShallow(f, func(in ssa.Instruction) {
									if st, ok := in.(*ssa.Store); ok && rootCell(st.Addr) == root {
										rec(st.Val)
									}
								})
							}
						}
					}
					return
				}
			}
			rec(y.X)
		case *ssa.BinOp:
			rec(y.X)
			rec(y.Y)
		case *ssa.ChangeType:
			rec(y.X)
		case *ssa.ChangeInterface:
			rec(y.X)
		case *ssa.MakeInterface:
			rec(y.X)
		case *ssa.Convert:
			rec(y.X)
		case *ssa.TypeAssert:
			rec(y.X)
		case *ssa.Extract:
			// result i of a helper the reference tree does not have: what the helper returns there
			if cl, ok := y.Tuple.(*ssa.Call); ok {
				if h := cl.Call.StaticCallee(); h != nil && gNewFuncs[h] {
					for _, ret := range returnsOf(h) {
						if y.Index < len(ret.Results) {
							rec(ret.Results[y.Index])
						}
					}
					// precise: the arguments enter through the helper's parameters (bound below), not wholesale
					s.vals[cl] = true
					return
				}
			}
			rec(y.Tuple)
		case *ssa.Call:
			if h := y.Call.StaticCallee(); h != nil && gNewFuncs[h] && h.Signature.Results().Len() == 1 {
				for _, ret := range returnsOf(h) {
					if len(ret.Results) == 1 {
						rec(ret.Results[0])
					}
				}
				return
			}
			if !y.Call.IsInvoke() {
				if _, isFn := y.Call.Value.(*ssa.Function); !isFn {
					rec(y.Call.Value)
				}
			} else {
				rec(y.Call.Value)
			}
			for _, a := range y.Call.Args {
				rec(a)
			}
		case *ssa.FieldAddr:
			rec(y.X)
		case *ssa.Field:
			rec(y.X)
		case *ssa.IndexAddr:
			rec(y.X)
			rec(y.Index)
		case *ssa.Index:
			rec(y.X)
			rec(y.Index)
		case *ssa.Lookup:
			rec(y.X)
			rec(y.Index)
		case *ssa.Slice:
			rec(y.X)
			rec(y.Low)
			rec(y.High)
		case *ssa.MakeSlice:
			rec(y.Len)
		case *ssa.Next:
			rec(y.Iter)
		case *ssa.Range:
			rec(y.X)
		case *ssa.MakeClosure:
			for _, b := range y.Bindings {
				rec(b)
			}
		case *ssa.MakeMap:
			// contents: every key/value stored into this map value
			if refs := y.Referrers(); refs != nil {
				for _, r := range *refs {
					if mu, ok := r.(*ssa.MapUpdate); ok && mu.Map == ssa.Value(y) {
						rec(mu.Key)
						rec(mu.Value)
					}
				}
			}
		case *ssa.Parameter:
			// parameter of a helper the reference tree does not have: bound to its call sites' arguments
			if h := y.Parent(); h != nil && gNewFuncs[h] {
				idx := -1
				for i, p := range h.Params {
					if p == y {
						idx = i
					}
				}
				for _, site := range sitesOf(h) {
					if args := site.Common().Args; idx >= 0 && idx < len(args) {
						rec(args[idx])
					}
				}
			}
		case *ssa.Alloc:
			// a struct/array built in place: values stored into it (any field)
			if refs := y.Referrers(); refs != nil {
				for _, r := range *refs {
					switch z := r.(type) {
					case *ssa.Store:
						if z.Addr == y {
							rec(z.Val)
						}
					case *ssa.FieldAddr:
						if frefs := z.Referrers(); frefs != nil {
							for _, fr := range *frefs {
								if st, ok := fr.(*ssa.Store); ok && st.Addr == z {
									rec(st.Val)
								}
							}
						}
					case *ssa.IndexAddr:
						if frefs := z.Referrers(); frefs != nil {
							for _, fr := range *frefs {
								if st, ok := fr.(*ssa.Store); ok && st.Addr == z {
									rec(st.Val)
								}
							}
						}
					}
				}
			}
		}
	}
	rec(v)
	return s
}

func (s *slice) has(v ssa.Value) bool { return s.vals[v] }

// hasParam: slice contains the parameter with this name of function fn.
func (s *slice) hasParam(fn *ssa.Function, name string) bool {
	for _, p := range fn.Params {
		if p.Name() == name && s.vals[p] {
			return true
		}
	}
	return false
}

// hasCallTo: slice contains a call whose callee id equals one of ids.
func (s *slice) hasCallTo(ids ...string) bool {
	for v := range s.vals {
		if c, ok := v.(*ssa.Call); ok && isCallAny(c, ids...) {
			return true
		}
	}
	return false
}

func (s *slice) callsTo(id string) []*ssa.Call {
	var out []*ssa.Call
	for v := range s.vals {
		if c, ok := v.(*ssa.Call); ok && isCall(c, id) {
			out = append(out, c)
		}
	}
	return out
}

// hasField: slice contains an access to field `field` of type `typ` (full name).
func (s *slice) hasField(typ, field string) bool {
	for v := range s.vals {
		if t, f, _, ok := fieldOfAddr(v); ok && t == typ && f == field {
			return true
		}
	}
	return false
}

// hasFieldNamed: slice contains an access to a field with this name (of any struct type).
func (s *slice) hasFieldNamed(field string) bool {
	for v := range s.vals {
		if _, f, _, ok := fieldOfAddr(v); ok && f == field {
			return true
		}
		if _, f, _, ok := fieldOfValue(v); ok && f == field {
			return true
		}
	}
	return false
}

func (s *slice) hasGlobal(pkg, name string) bool {
	for v := range s.vals {
		if g, ok := v.(*ssa.Global); ok && g.Name() == name && g.Pkg.Pkg.Path() == pkg {
			return true
		}
	}
	return false
}

// hasConst: slice contains a named constant? SSA folds constants, so match on value+type.
func (s *slice) hasConstVal(val string) bool {
	for v := range s.vals {
		if c, ok := v.(*ssa.Const); ok && c.Value != nil && c.Value.ExactString() == val {
			return true
		}
	}
	return false
}

// accessPath renders where a value lives: "param.field.field" following loads, FieldAddr/Field and
// single-origin phis; "" if it is not a pure access path.
var gAccessDepth int

func accessPath(v ssa.Value) string {
	switch x := v.(type) {
	case *ssa.Parameter:
		// a parameter of a helper the reference tree does not have lives where the arguments of its call
		// sites (in the current binding context) live, when they all live in the same place
		if h := x.Parent(); h != nil && h.Parent() == nil && gNewFuncs[h] && gAccessDepth < 4 {
			idx := -1
			for i, q := range h.Params {
				if q == x {
					idx = i
				}
			}
			path, n := "", 0
			gAccessDepth++
			for _, cs := range sitesOf(h) {
				args := cs.Common().Args
				if cs.Common().StaticCallee() != h || idx < 0 || idx >= len(args) {
					path, n = "", -1
					break
				}
				q := accessPath(args[idx])
				if q == "" || (n > 0 && q != path) {
					path, n = "", -1
					break
				}
				path = q
				n++
			}
			gAccessDepth--
			if n > 0 && path != "" {
				return path
			}
		}
		return x.Name()
	case *ssa.FreeVar:
		r := rootCell(x)
		if r != v {
			return accessPath(r)
		}
		return x.Name()
	case *ssa.Alloc:
		// a local variable cell: name from comment; if it has exactly one store, follow it
		var only ssa.Value
		n := 0
		if refs := x.Referrers(); refs != nil {
			for _, r := range *refs {
				if st, ok := r.(*ssa.Store); ok && st.Addr == x {
					n++
					only = st.Val
				}
			}
		}
		if n == 1 {
			if p := accessPath(only); p != "" {
				return p
			}
		}
		return "local:" + x.Comment
	case *ssa.UnOp:
		if x.Op == token.MUL {
			return accessPath(x.X)
		}
	case *ssa.FieldAddr:
		base := accessPath(x.X)
		if base == "" {
			return ""
		}
		_, st := namedStructOrAnon(x.X.Type())
		if st == nil {
			return ""
		}
		return base + "." + st.Field(x.Field).Name()
	case *ssa.Field:
		base := accessPath(x.X)
		if base == "" {
			return ""
		}
		_, st := namedStructOrAnon(x.X.Type())
		if st == nil {
			return ""
		}
		return base + "." + st.Field(x.Field).Name()
	case *ssa.ChangeType:
		return accessPath(x.X)
	case *ssa.MakeInterface:
		return accessPath(x.X)
	case *ssa.ChangeInterface:
		return accessPath(x.X)
	case *ssa.Phi:
		p := ""
		for _, e := range x.Edges {
			q := accessPath(e)
			if q == "" || (p != "" && q != p) {
				return ""
			}
			p = q
		}
		return p
	case *ssa.Global:
		return "global:" + x.Name()
	case *ssa.Extract:
		// a result of a call of a helper the reference tree does not have (the object a phase helper hands
		// back): named by the call, so that two uses of the same result are the same place
		if cl, ok := x.Tuple.(*ssa.Call); ok {
			if h := cl.Call.StaticCallee(); h != nil && gNewFuncs[h] && cl.Parent() != nil {
				return fmt.Sprintf("result:%s:%s#%d", cl.Parent().Name(), cl.Name(), x.Index)
			}
		}
	}
	return ""
}

func namedStructOrAnon(t types.Type) (*types.Named, *types.Struct) {
	if p, ok := t.Underlying().(*types.Pointer); ok {
		t = p.Elem()
	}
	n, _ := t.(*types.Named)
	s, _ := t.Underlying().(*types.Struct)
	return n, s
}

// trimPath drops embedded-struct hops so that hmA.HashMap.data == hmA.data.
func trimPath(p string, embedded ...string) string {
	for _, e := range embedded {
		p = strings.ReplaceAll(p, "."+e+".", ".")
	}
	return p
}

// ctrlSlice: backSlice extended with control dependence at phis: the conditions of the branches
// that decide which incoming edge of a phi is taken (immediate dominator's terminator and the
// terminators of the blocks between it and the phi's predecessors, one level).
func ctrlSlice(v ssa.Value) *slice {
	s := backSlice(v)
	changed := true
	for changed {
		changed = false
		for x := range s.vals {
			phi, ok := x.(*ssa.Phi)
			if !ok {
				continue
			}
			b := phi.Block()
			seen := map[*ssa.BasicBlock]bool{}
			var walk func(p *ssa.BasicBlock, depth int)
			walk = func(p *ssa.BasicBlock, depth int) {
				if p == nil || seen[p] || depth > 6 {
					return
				}
				seen[p] = true
				if len(p.Instrs) > 0 {
					if ifi, ok := p.Instrs[len(p.Instrs)-1].(*ssa.If); ok {
						for k := range backSlice(ifi.Cond).vals {
							if !s.vals[k] {
								s.vals[k] = true
								changed = true
							}
						}
					}
				}
				if p == b.Idom() {
					return
				}
				for _, q := range p.Preds {
					if b.Idom() != nil && b.Idom().Dominates(q) {
						walk(q, depth+1)
					}
				}
			}
			for _, p := range b.Preds {
				walk(p, 0)
			}
		}
	}
	return s
}

// affine expresses v as sum(coef[leaf]*leaf) + k over integer adds/subs/conversions; leaves are
// whatever is not an add, sub or conversion. ok=false when a multiplication etc. is involved in a way
// that cannot be represented.
type affineExpr struct {
	coef map[ssa.Value]int64
	k    int64
}

func affine(v ssa.Value) (affineExpr, bool) {
	switch x := v.(type) {
	case *ssa.Const:
		if x.Value != nil {
			if n, exact := constInt(x); exact {
				return affineExpr{coef: map[ssa.Value]int64{}, k: n}, true
			}
		}
	case *ssa.Convert:
		return affine(x.X)
	case *ssa.ChangeType:
		return affine(x.X)
	case *ssa.Parameter:
		// a parameter of a helper the reference tree does not have, called from one place: the argument
		if h := x.Parent(); h != nil && h.Parent() == nil && gNewFuncs[h] && len(sitesOf(h)) == 1 {
			if cs := sitesOf(h)[0]; cs.Common().StaticCallee() == h {
				for i, q := range h.Params {
					if q == x && i < len(cs.Common().Args) {
						return affine(cs.Common().Args[i])
					}
				}
			}
		}
	case *ssa.Extract:
		// result of a helper the reference tree does not have: the one expression all its successful
		// returns agree on (in terms of the helper's own values)
		if cl, ok := x.Tuple.(*ssa.Call); ok {
			if h := cl.Call.StaticCallee(); h != nil && gNewFuncs[h] {
				var got *affineExpr
				same := true
				for _, ret := range returnsOf(h) {
					if x.Index >= len(ret.Results) {
						continue
					}
					if last := ret.Results[len(ret.Results)-1]; isErrorType(last.Type()) && !isNilErrorReturn(ret) {
						continue // a failing return: the caller does not use the value
					}
					e, ok := affine(ret.Results[x.Index])
					if !ok {
						same = false
						break
					}
					if got == nil {
						got = &e
					} else if !affineSame(*got, e) {
						same = false
					}
				}
				if got != nil && same {
					return *got, true
				}
			}
		}
	case *ssa.BinOp:
		if x.Op == token.ADD || x.Op == token.SUB {
			a, ok1 := affine(x.X)
			b, ok2 := affine(x.Y)
			if !ok1 || !ok2 {
				return affineExpr{}, false
			}
			out := affineExpr{coef: map[ssa.Value]int64{}, k: a.k}
			for l, c := range a.coef {
				out.coef[l] += c
			}
			sign := int64(1)
			if x.Op == token.SUB {
				sign = -1
			}
			out.k += sign * b.k
			for l, c := range b.coef {
				out.coef[l] += sign * c
			}
			return out, true
		}
	}
	return affineExpr{coef: map[ssa.Value]int64{v: 1}}, true
}

func affineSame(a, b affineExpr) bool {
	if a.k != b.k {
		return false
	}
	for l, c := range a.coef {
		if c != 0 && b.coef[l] != c {
			return false
		}
	}
	for l, c := range b.coef {
		if c != 0 && a.coef[l] != c {
			return false
		}
	}
	return true
}

func constInt(k *ssa.Const) (int64, bool) {
	if k.Value == nil {
		return 0, false
	}
	s := k.Value.ExactString()
	var n int64
	_, err := fmt.Sscanf(s, "%d", &n)
	return n, err == nil
}
