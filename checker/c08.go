package main

// C08 — miner submits only winning, correctly signed blocks at the earliest slot (skeleton).

import (
	"fmt"
	"go/token"
	"go/types"
	"sort"
	"strings"

	"golang.org/x/tools/go/ssa"
)

func init() { register("C08", checkC08) }

const pkgMiner = repoMod + "/poc/engine/pocminer/miner"

func checkC08(c *Ctx) Meta {
	c.Rule("C08-FILTER", "the proof of the returned template is an element of getBindingProofs(getValidProofs(GetProofs(SFMining, template challenge))); the two filters keep only Error==nil / PassBinding", 3)
	c.Rule("C08-TARGET", "a template is returned only on the true edge of bestQuality.Cmp(GetTarget(template timestamp)) > 0; qualities are VerifiedQuality of each proof with its own key hash, the template challenge and the work slot; best index and best quality move together", 4)
	c.Rule("C08-SLOT", "slot counter and template timestamp advance together; each slot evaluation passes the quit test and the stale test; evaluation is bounded by now + allowAhead", 4)
	checkV2EarliestSlot(c, "C08-SLOT")
	checkNoCopiedReceiver(c, "C08-SLOT", []string{pkgMiner, repoMod + "/poc/engine.v2/pocminer/miner", pkgCapacity, pkgSkchia})
	c.Rule("C08-SIGN", "the PoC hash is computed after the header is final (only Signature is stored afterwards) and signed by the keeper with the winning space's id; header key, proof, timestamp, target and challenge come from the winning proof and the template", 7)
	c.Rule("C08-SUBMIT", "ProcessBlock runs only after time.Now().After(header timestamp); a height is recorded as mined only after acceptance; a recorded height is never solved again; the mined-height map is touched only by the generator goroutine's functions", 4)

	f := c.MustFn("C08-FILTER", "poc/engine/pocminer/miner", "(*PoCMiner).syncGetBestProof")
	if f != nil {
		checkBestProof(c, f)
	}
	if g := c.MustFn("C08-FILTER", "poc/engine/pocminer/miner", "getBindingProofs"); g != nil {
		key := "getBindingProofs:keeps-only-PassBinding"
		var tests []boolTest
		for _, cl := range fieldCallsIn(g, "PassBinding") {
			if backSlice(cl.Call.Value).hasParam(g, "template") {
				tests = append(tests, boolTestsOf(g, cl)...)
			}
		}
		var apps []ssa.Instruction
		allInstrs(g, func(in ssa.Instruction) {
			if calleeID(in) == "builtin.append" {
				apps = append(apps, in)
			}
		})
		if ok, _ := unreachableWhenCut(g, boolEdgeCut(tests, true), apps); len(tests) > 0 && len(apps) > 0 && ok {
			c.OK("C08-FILTER", key, c.Pos(g.Pos()), "append only behind template.PassBinding(proof)")
		} else if pred, elem := predicateFilterForm(g); pred != nil && predicateIs(pred, func(v ssa.Value) bool {
			cl, isCall := v.(*ssa.Call)
			if !isCall || len(cl.Call.Args) == 0 {
				return false
			}
			// PassBinding is a func-typed field of the template
			_, fname, _, isF := fieldOfValue(cl.Call.Value)
			if !(isF && fname == "PassBinding") && callName(cl) != "PassBinding" {
				return false
			}
			a0 := cl.Call.Args[len(cl.Call.Args)-1]
			if mi, isMI := a0.(*ssa.MakeInterface); isMI {
				a0 = mi.X
			}
			return a0 == ssa.Value(elem) || sameOriginValue(pred, a0, ssa.Value(elem))
		}) {
			c.OK("C08-FILTER", key, c.Pos(g.Pos()), "a generic filter keeps an element only where its predicate says so, and the predicate is template.PassBinding(element)")
		} else {
			c.Bad("C08-FILTER", key, c.Pos(g.Pos()), "a proof is kept on a path where PassBinding is not known to be true")
		}
	}
	if g := c.MustFn("C08-FILTER", "poc/engine/pocminer/miner", "getValidProofs"); g != nil {
		checkValidFilter(c, "C08-FILTER", g)
	}
	if g := c.MustFn("C08-TARGET", "poc/engine/pocminer/miner", "getQualities"); g != nil {
		key := "getQualities:verified-quality-of-own-proof"
		ok := false
		for _, cl := range callsInByName(g, "VerifiedQuality") {
			a := callArgs(cl)
			recv := callRecv(cl)
			// receiver: proof.Proof ; key hash: PubKeyHash(proof.PublicKey) of the same element; challenge, filter, slot, height params
			rs, ks := backSlice(recv), backSlice(a[0])
			sameElem := false
			for v := range rs.vals {
				if _, isIdx := v.(*ssa.IndexAddr); isIdx && ks.has(v) {
					sameElem = true
				}
				if ld, isLd := v.(*ssa.UnOp); isLd && ks.has(ld) {
					if _, isIdx := ld.X.(*ssa.IndexAddr); isIdx {
						sameElem = true
					}
				}
			}
			if rs.hasField(pkgEngine+".WorkSpaceProof", "Proof") && ks.hasField(pkgEngine+".WorkSpaceProof", "PublicKey") && ks.hasCallTo("github.com/massnetorg/mass-core/poc/pocutil.PubKeyHash") && sameElem &&
				backSlice(a[1]).hasParam(g, "challenge") && backSlice(a[3]).hasParam(g, "slot") && backSlice(a[4]).hasParam(g, "height") {
				ok = true
			}
		}
		// errors propagate (an unverifiable proof aborts): the caller picks proofs[bestProofIndex] by the index of
		// the best quality, so the result must stay index-aligned with proofs — a failed verification may not be
		// skipped and the loop carried on to a successful return
		for _, cl := range callsInByName(g, "VerifiedQuality") {
			key2 := "getQualities:unverifiable-proof-aborts"
			h := cl.Parent()
			r := reach(h, cl, errorEdgeCut(h, cl, false), nil)
			var bad *ssa.Return
			for _, ret := range returnsOf(h) {
				if r(ret) && isNilErrorReturn(ret) {
					bad = ret
				}
			}
			if bad == nil {
				c.OK("C08-TARGET", key2, c.Pos(cl.Pos()), "no successful return is reachable from the failure edge of VerifiedQuality: qualities[i] belongs to proofs[i]")
			} else {
				c.Bad("C08-TARGET", key2, c.Pos(bad.Pos()), "after a proof fails VerifiedQuality the function can still return successfully: the qualities handed back no longer line up with the proofs by index, and the caller picks proofs[bestProofIndex] of another space")
			}
		}
		if ok {
			c.OK("C08-TARGET", key, c.Pos(g.Pos()), "quality[i] = proofs[i].Proof.VerifiedQuality(PubKeyHash(proofs[i].PublicKey), challenge, filter, slot, height)")
		} else {
			c.Bad("C08-TARGET", key, c.Pos(g.Pos()), "the quality of a proof is not computed from that proof, its own key hash, the challenge and the slot")
		}
	}
	checkStaleMonitor(c)
	if s := c.MustFn("C08-SIGN", "poc/engine/pocminer/miner", "(*PoCMiner).solveBlock"); s != nil {
		checkSolveBlock(c, s)
	}
	if a := c.MustFn("C08-SIGN", "poc/engine/pocminer/miner", "assembleFullBlock"); a != nil {
		checkAssemble(c, a)
	}
	if sb := c.MustFn("C08-SUBMIT", "poc/engine/pocminer/miner", "(*PoCMiner).submitBlock"); sb != nil {
		checkSubmit(c, sb)
	}
	// an accepted block is always recorded: after ProcessBlock accepted the block every return has passed
	// the insertion into minedHeight (whatever happens to the broadcast hand-over)
	if sb := c.Fn("poc/engine/pocminer/miner", "(*PoCMiner).submitBlock"); sb != nil {
		key := "submitBlock:accepted-height-always-recorded"
		var pb *ssa.Call
		allInstrs(sb, func(in ssa.Instruction) {
			if cl, ok := in.(*ssa.Call); ok && cl.Call.IsInvoke() && cl.Call.Method.Name() == "ProcessBlock" {
				pb = cl
			}
		})
		var ins ssa.Instruction
		allInstrs(sb, func(in ssa.Instruction) {
			if mu, ok := in.(*ssa.MapUpdate); ok {
				if _, f, _, isF := fieldOfValue(mu.Map); isF && f == "minedHeight" {
					ins = mu
				}
			}
		})
		if pb == nil || ins == nil {
			c.Bad("C08-SUBMIT", key, c.Pos(sb.Pos()), "reason=anchor-missing: ProcessBlock call / minedHeight insertion")
		} else {
			orphan := resultOf(pb, 0)
			var ot []boolTest
			if orphan != nil {
				ot = boolTestsOf(sb, orphan)
			}
			cut := orCut(errorEdgeCut(sb, pb, true), boolEdgeCut(ot, true))
			r := reach(sb, pb, cut, func(in ssa.Instruction) bool { return in == ins })
			bad := false
			for _, ret := range returnsOf(sb) {
				if r(ret) {
					bad = true
				}
			}
			if bad {
				c.Bad("C08-SUBMIT", key, c.Pos(pb.Pos()), "after the chain accepted the block the function can return without recording its height (e.g. when the broadcast hand-over is skipped): the same height is mined again when a reorganisation offers it")
			} else {
				c.OK("C08-SUBMIT", key, c.Pos(ins.Pos()), "every return after acceptance has passed minedHeight[height] = {}")
			}
		}
	}
	c.Rule("C08-OFFER", "every mining space is asked: closures handed to `go` or to the worker pool inside a loop do not capture the loop variable (shared across iterations under this module's Go version), so each worker proves its own space", 1)
	checkLoopVarCapture(c, "C08-OFFER", []string{pkgCapacity, pkgMiner, pkgSkchia})
	// WMC: minedHeight
	{
		key := "minedHeight:only-generator-functions"
		allowed := map[string]bool{"solveBlock": true, "submitBlock": true, "NewPoCMiner": true}
		var bad []string
		n := 0
		for fn := range c.AllFuncs {
			for _, a := range fieldAccessesShallow(fn) {
				if a.Type == pkgMiner+".PoCMiner" && a.Field == "minedHeight" {
					n++
					if !allowed[outermost(fn).Name()] {
						bad = append(bad, FuncName(fn)+" at "+c.Pos(a.In.Pos()))
					}
				}
			}
		}
		// and solveBlock/submitBlock are called only from generateBlocks
		for fn := range c.AllFuncs {
			allInstrsShallow(fn, func(in ssa.Instruction) {
				if callee := staticCallee(in); callee != nil && pkgOf(callee) == pkgMiner && (callee.Name() == "solveBlock" || callee.Name() == "submitBlock") {
					if outermost(fn).Name() != "generateBlocks" {
						bad = append(bad, callee.Name()+" called from "+FuncName(fn))
					}
				}
			})
		}
		// entries are never removed or the map replaced after construction
		forgets := false
		for fn := range c.AllFuncs {
			for _, a := range fieldAccessesShallow(fn) {
				if a.Type == pkgMiner+".PoCMiner" && a.Field == "minedHeight" && (a.Kind == "mapdelete" || (a.Kind == "store" && outermost(fn).Name() != "NewPoCMiner")) {
					forgets = true
					c.Bad("C08-SUBMIT", "minedHeight:grows-only", c.Pos(a.In.Pos()), "a height already mined is removed from the double-mining set: after a reorganisation that offers it again the miner mines the same height a second time")
				}
			}
		}
		if !forgets {
			c.OK("C08-SUBMIT", "minedHeight:grows-only", "", "no delete or replacement of minedHeight outside the constructor")
		}
		if len(bad) > 0 || n == 0 {
			c.Bad("C08-SUBMIT", key, "", "the double-mining map is touched outside the generator goroutine (unsynchronised map): "+strings.Join(bad, "; "))
		} else {
			c.OK("C08-SUBMIT", key, "", fmt.Sprintf("%d accesses, all in solveBlock/submitBlock (called only from generateBlocks) or the constructor", n))
		}
	}
	return Meta{
		Explanation: "Structural skeleton of one mining round on every CFG path of syncGetBestProof, solveBlock, assembleFullBlock and submitBlock: which filters the winning proof passed, which test dominates returning a template, that slot and timestamp advance together, the quit/stale/look-ahead gates of every slot evaluation, the order of header completion, PoC hash and signature, and the timestamp wait, acceptance and double-mining gates around ProcessBlock.",
		NotDecided:  "that the maximum is the maximum and the slot the earliest (values/time), timing of the wait loop; the engine.v2 miner is outside the property's anchors.",
		Trusted:     []string{"go/ssa", "mass-core blockchain.PoCTemplate (GetTarget, PassBinding, GetCoinbase) and VerifiedQuality as given"},
	}
}

func checkBestProof(c *Ctx, f *ssa.Function) {
	setBindCtx(f)
	// the returned template
	var tmpl *ssa.Alloc
	allInstrsNew(f, func(in ssa.Instruction) {
		if a, ok := in.(*ssa.Alloc); ok && a.Heap && strings.HasSuffix(a.Type().String(), ".ProofTemplate") {
			tmpl = a
		}
	})
	if tmpl == nil {
		c.Bad("C08-FILTER", "syncGetBestProof:anchor", c.Pos(f.Pos()), "reason=anchor-missing: no ProofTemplate constructed")
		return
	}
	// the slot loop may sit in a phase helper the reference tree does not have: the round's rules are
	// evaluated in the function that builds the template (values still trace back through its parameters)
	f0 := f
	f = hostFn(f0, tmpl)
	var proofStore, timeStore *ssa.Store
	for _, a := range fieldAccesses(f) {
		if a.Kind == "store" && a.Base == ssa.Value(tmpl) {
			switch a.Field {
			case "proof":
				proofStore = a.In.(*ssa.Store)
			case "time":
				timeStore = a.In.(*ssa.Store)
			}
		}
	}
	// FILTER chain
	{
		key := "syncGetBestProof:proof-passed-both-filters"
		ok := false
		why := "the template's proof is not taken from the filtered list"
		if proofStore != nil {
			sl := backSlice(proofStore.Val)
			for _, b := range sl.callsTo(pkgMiner + ".getBindingProofs") {
				bs := backSlice(b.Call.Args[0])
				for _, v := range bs.callsTo(pkgMiner + ".getValidProofs") {
					vs := backSlice(v.Call.Args[0])
					for x := range vs.vals {
						if gp, isCall := x.(*ssa.Call); isCall && callName(gp) == "GetProofs" {
							args := callArgs(gp)
							k, isK := strip(args[1]).(*ssa.Const)
							if isK && k.Value != nil && k.Value.ExactString() == "8" && backSlice(args[2]).hasField("github.com/massnetorg/mass-core/blockchain.PoCTemplate", "Challenge") {
								ok = true
							} else {
								why = "GetProofs is not asked for the mining spaces with the template's challenge"
							}
						}
					}
				}
				// the binding filter is applied against the same template
				if bs1 := backSlice(b.Call.Args[1]); !bs1.hasParam(f, "pocTemplate") && !bs1.hasParam(f0, "pocTemplate") {
					ok = false
					why = "binding is checked against a different template"
				}
			}
		}
		if ok {
			c.OK("C08-FILTER", key, c.Pos(proofStore.Pos()), "template.proof ∈ getBindingProofs(getValidProofs(GetProofs(SFMining, template.Challenge)), template)")
		} else {
			c.Bad("C08-FILTER", key, c.Pos(f.Pos()), why)
		}
	}
	// TARGET gate
	var gq []*ssa.Call
	{
		key := "syncGetBestProof:template-only-above-target"
		tests := cmpTests(f, func(bo *ssa.BinOp) bool {
			if bo.Op != token.GTR {
				return false
			}
			k, isK := bo.Y.(*ssa.Const)
			if !isK || k.Value == nil || k.Value.ExactString() != "0" {
				return false
			}
			cmp, isCall := bo.X.(*ssa.Call)
			if !isCall || calleeID(cmp) != "(*math/big.Int).Cmp" {
				return false
			}
			return backSlice(cmp.Call.Args[1]).hasFieldCall("GetTarget") &&
				backSlice(cmp.Call.Args[1]).hasField("github.com/massnetorg/mass-core/blockchain.PoCTemplate", "Timestamp")
		})
		// the compared quality comes from getQualities of the filtered proofs at the work slot
		gq = callsIn(f, pkgMiner+".getQualities")
		okQ := false
		for _, t := range tests {
			cmp := t.If.Cond.(*ssa.BinOp).X.(*ssa.Call)
			for _, q := range gq {
				if backSlice(cmp.Call.Args[0]).has(resultOf(q, 0)) {
					okQ = true
				}
			}
		}
		ok, _ := unreachableWhenCut(f, boolEdgeCut(tests, true), []ssa.Instruction{tmpl})
		if len(tests) > 0 && ok && okQ {
			c.OK("C08-TARGET", key, c.Pos(tests[0].If.Pos()), "ProofTemplate constructed only behind bestQuality.Cmp(GetTarget(template.Timestamp)) > 0, bestQuality from getQualities")
		} else {
			c.Bad("C08-TARGET", key, c.Pos(f.Pos()), fmt.Sprintf("a template can be returned without its best quality exceeding the target at the template timestamp (gate=%v quality-from-getQualities=%v)", len(tests) > 0 && ok, okQ))
		}
	}
	// the target compared is the target of the slot being tried: after every advance of the template
	// timestamp the target is evaluated again before the next comparison
	{
		key := "syncGetBestProof:target-re-evaluated-for-every-slot"
		gts := map[ssa.Instruction]bool{}
		for _, g := range fieldCallsIn(f, "GetTarget") {
			gts[g] = true
		}
		var cmps []ssa.Instruction
		allInstrs(f, func(in ssa.Instruction) {
			if cl, ok := in.(*ssa.Call); ok && calleeID(cl) == "(*math/big.Int).Cmp" && backSlice(cl.Call.Args[1]).hasFieldCall("GetTarget") {
				cmps = append(cmps, cl)
			}
		})
		stale := ""
		nst := 0
		for _, a := range fieldAccesses(f) {
			if a.Kind != "store" || a.Field != "Timestamp" || !strings.HasSuffix(a.Type, "blockchain.PoCTemplate") {
				continue
			}
			nst++
			r := reach(f, a.In, nil, func(in ssa.Instruction) bool { return gts[in] })
			for _, cmp := range cmps {
				if r(cmp) {
					stale = c.Pos(cmp.Pos()) + " "
				}
			}
		}
		switch {
		case len(cmps) == 0 || nst == 0:
			c.Bad("C08-TARGET", key, c.Pos(f.Pos()), "reason=anchor-missing: target comparison / timestamp advance")
		case stale != "":
			c.Bad("C08-TARGET", key, stale, "after the template timestamp advances to the next slot the comparison can use a target computed for an earlier slot: a block is returned whose quality does not exceed the target at its own timestamp (or the earliest eligible slot is missed)")
		default:
			c.OK("C08-TARGET", key, c.Pos(cmps[0].Pos()), "every path from a timestamp advance to the comparison passes GetTarget again")
		}
	}
	// getQualities arguments
	{
		key := "syncGetBestProof:qualities-of-filtered-proofs-at-work-slot"
		ok := len(gq) == 1
		if ok {
			a := gq[0].Call.Args
			ok = backSlice(a[0]).hasCallTo(pkgMiner+".getBindingProofs") &&
				backSlice(a[1]).hasField("github.com/massnetorg/mass-core/blockchain.PoCTemplate", "Challenge") &&
				backSlice(a[4]).hasField("github.com/massnetorg/mass-core/blockchain.PoCTemplate", "Height")
			// slot argument is the work slot cell (the one atomically incremented)
			slotOK := false
			for _, inc := range callsIn(f, "sync/atomic.AddUint64") {
				if backSlice(a[3]).has(inc.Call.Args[0]) || sameCell(a[3], inc.Call.Args[0]) {
					slotOK = true
				}
			}
			ok = ok && slotOK
		}
		if ok {
			c.OK("C08-TARGET", key, c.Pos(gq[0].Pos()), "getQualities(filtered proofs, template challenge, …, workSlot, template height)")
		} else {
			c.Bad("C08-TARGET", key, c.Pos(f.Pos()), "qualities are not computed for the filtered proofs with the template's challenge at the current work slot")
		}
	}
	// the best accumulator is per slot: between one slot's qualities and the target comparison the
	// accumulator is reset, so a quality found for an earlier slot can never be compared with a later
	// slot's target
	if len(gq) == 1 {
		key := "syncGetBestProof:best-reset-every-slot"
		var cmpRecv ssa.Value
		var cmpIn ssa.Instruction
		for _, t := range cmpTests(f, func(bo *ssa.BinOp) bool {
			cmp, isCall := bo.X.(*ssa.Call)
			return bo.Op == token.GTR && isCall && calleeID(cmp) == "(*math/big.Int).Cmp" && backSlice(cmp.Call.Args[1]).hasFieldCall("GetTarget")
		}) {
			cmpIn = t.If
			cmpRecv = t.If.Cond.(*ssa.BinOp).X.(*ssa.Call).Call.Args[0]
		}
		isReset := func(in ssa.Instruction) bool {
			switch x := in.(type) {
			case *ssa.Call:
				id := calleeID(x)
				if id == "math/big.NewInt" && cmpRecv != nil {
					if k, ok := strip(x.Call.Args[0]).(*ssa.Const); ok && k.Value != nil && k.Value.ExactString() == "0" && backSlice(cmpRecv).has(x) && blockReentered(f, x) {
						return true // bestQuality = big.NewInt(0) inside the slot loop
					}
				}
				if (id == "(*math/big.Int).SetUint64" || id == "(*math/big.Int).SetInt64") && cmpRecv != nil {
					if k, ok := strip(x.Call.Args[1]).(*ssa.Const); ok && k.Value != nil && k.Value.ExactString() == "0" {
						return sharesCell(f, x.Call.Args[0], cmpRecv)
					}
				}
			case *ssa.Store:
				// bestQuality = big.NewInt(0) / new(big.Int)
				if cmpRecv != nil && sharesCellAddr(f, x.Addr, cmpRecv) {
					for v := range backSlice(x.Val).vals {
						if cl, ok := v.(*ssa.Call); ok && calleeID(cl) == "math/big.NewInt" {
							if k, ok := strip(cl.Call.Args[0]).(*ssa.Const); ok && k.Value.ExactString() == "0" {
								return true
							}
						}
					}
				}
			}
			return false
		}
		if cmpIn == nil {
			c.Bad("C08-TARGET", key, c.Pos(f.Pos()), "reason=anchor-missing: target comparison")
		} else if reach(f, gq[0], nil, isReset)(cmpIn) {
			c.Bad("C08-TARGET", key, c.Pos(gq[0].Pos()), "the best quality is not reset between a slot's qualities and the comparison with that slot's target: the best quality of an earlier slot can win a later slot whose own qualities are all below its target")
		} else {
			c.OK("C08-TARGET", key, c.Pos(gq[0].Pos()), "every path from a slot's getQualities to the target comparison passes a reset of the best accumulator")
		}
	}
	// best index and quality together
	{
		key := "syncGetBestProof:best-index-follows-best-quality"
		ok := false
		if proofStore != nil {
			// proofs[bestProofIndex]: the index cell is stored in the same block as bestQuality is replaced
			var idxCells []ssa.Value
			for v := range backSlice(proofStore.Val).vals {
				if ia, isIA := v.(*ssa.IndexAddr); isIA {
					valueOrigins(f, ia.Index, func(r ssa.Value) {})
					idxCells = append(idxCells, ia.Index)
				}
			}
			for _, idx := range idxCells {
				// find phi/stores defining idx inside the loop in a block that also defines the best quality
				for v := range backSlice(idx).vals {
					phi, isPhi := v.(*ssa.Phi)
					if !isPhi {
						continue
					}
					for i, e := range phi.Edges {
						_ = i
						if _, isPhi2 := e.(*ssa.Phi); isPhi2 {
							continue
						}
						// e is the loop index assigned under the `quality.Cmp(best) > 0` test
						for _, t := range cmpTests(phi.Parent(), func(bo *ssa.BinOp) bool {
							cmp, isCall := bo.X.(*ssa.Call)
							return bo.Op == token.GTR && isCall && calleeID(cmp) == "(*math/big.Int).Cmp"
						}) {
							if t.TrueSucc.Dominates(phi.Block()) || len(t.TrueSucc.Succs) > 0 && t.TrueSucc.Succs[0] == phi.Block() {
								ok = true
							}
						}
					}
				}
			}
		}
		if ok {
			c.OK("C08-TARGET", key, c.Pos(f.Pos()), "the index of the returned proof is updated on the edge where a better quality was found")
		} else {
			c.Bad("C08-TARGET", key, c.Pos(f.Pos()), "the proof returned is not the one whose quality was found best")
		}
	}
	// SLOT: increment and timestamp together; time of template
	{
		key := "syncGetBestProof:slot-and-timestamp-advance-together"
		incs := callsIn(f, "sync/atomic.AddUint64")
		var tsStores []*ssa.Store
		for _, a := range fieldAccesses(f) {
			if a.Kind == "store" && a.Field == "Timestamp" && strings.HasSuffix(a.Type, "blockchain.PoCTemplate") {
				tsStores = append(tsStores, a.In.(*ssa.Store))
			}
		}
		ok := len(incs) == 1 && len(tsStores) == 1 && incs[0].Block() == tsStores[0].Block()
		if ok {
			// timestamp advances by exactly one slot: Add(pocSlot * time.Second)
			sl := backSlice(tsStores[0].Val)
			ok = sl.hasCallTo("(time.Time).Add") && sl.hasField("github.com/massnetorg/mass-core/blockchain.PoCTemplate", "Timestamp")
			if k, isK := incs[0].Call.Args[1].(*ssa.Const); !isK || k.Value.ExactString() != "1" {
				ok = false
			}
		}
		okTime := timeStore != nil && backSlice(timeStore.Val).hasField("github.com/massnetorg/mass-core/blockchain.PoCTemplate", "Timestamp")
		if ok && okTime {
			c.OK("C08-SLOT", key, c.Pos(incs[0].Pos()), "workSlot += 1 and Timestamp = Timestamp.Add(slot) in one block; template.time = template timestamp")
		} else {
			c.Bad("C08-SLOT", key, c.Pos(f.Pos()), "the slot counter and the template timestamp do not advance together (or the returned time is not the template timestamp): quality and target would be evaluated for different slots")
		}
	}
	if len(gq) == 1 {
		q := gq[0]
		// quit gate: every round to getQualities passes a select with a quit arm
		isQuitSelect := func(in ssa.Instruction) bool {
			sel, ok := in.(*ssa.Select)
			if !ok {
				return false
			}
			for _, st := range sel.States {
				if st.Dir == types.RecvOnly && (backSlice(st.Chan).hasParam(f, "quit") || backSlice(st.Chan).hasParam(f0, "quit")) {
					return true
				}
			}
			return false
		}
		isStaleCall := func(in ssa.Instruction) bool {
			cl, ok := in.(*ssa.Call)
			if !ok || cl.Call.StaticCallee() != nil || cl.Call.IsInvoke() {
				return false
			}
			// call of the staled closure (result #1 of runStaleMonitor)
			hit := false
			for v := range backSlice(cl.Call.Value).vals {
				if ex, ok := v.(*ssa.Extract); ok && ex.Index == 1 {
					if rc, ok := ex.Tuple.(*ssa.Call); ok && isCall(rc, pkgMiner+".runStaleMonitor") {
						hit = true
					}
				}
			}
			return hit
		}
		for _, spec := range []struct {
			key  string
			stop func(ssa.Instruction) bool
			what string
		}{
			{"syncGetBestProof:quit-tested-every-slot", isQuitSelect, "the quit channel"},
			{"syncGetBestProof:stale-tested-every-slot", isStaleCall, "the stale monitor"},
		} {
			// the test may sit in a boolean helper (summary.go): a call of a helper that always consults it,
			// or the outcome edge of a helper that consulted it before answering that way
			stop, cut := liftMust(f, spec.stop), condLiftCut(f, spec.stop)
			again := reach(f, q, cut, stop)(q)
			first := reach(f, nil, cut, stop)(q)
			if again || first {
				c.Bad("C08-SLOT", spec.key, c.Pos(q.Pos()), "a slot can be evaluated without consulting "+spec.what+" since the previous evaluation: the round is not abandoned promptly")
			} else {
				c.OK("C08-SLOT", spec.key, c.Pos(q.Pos()), "every path to a slot evaluation passes "+spec.what)
			}
		}
		// a stale result leads to return
		// look-ahead bound
		{
			key := "syncGetBestProof:bounded-by-now-plus-allowAhead"
			ah, _ := constVal(c, pkgMiner, "allowAhead")
			tests := cmpTests(f, func(bo *ssa.BinOp) bool {
				sx, sy := backSlice(bo.X), backSlice(bo.Y)
				now := func(s *slice) bool { return s.hasCallTo("time.Now") && s.hasConstVal(ah) }
				return (now(sx) && !now(sy)) || (now(sy) && !now(sx))
			})
			ok := false
			for _, t := range tests {
				for _, cutTrue := range []bool{true, false} {
					if u, _ := unreachableWhenCut(f, boolEdgeCut([]boolTest{t}, cutTrue), []ssa.Instruction{q}); u {
						ok = true
					}
				}
			}
			if ok {
				c.OK("C08-SLOT", key, c.Pos(q.Pos()), "slot evaluation is guarded by a comparison with now-slot + allowAhead")
			} else {
				c.Bad("C08-SLOT", key, c.Pos(q.Pos()), "slots are evaluated without the look-ahead bound (now + allowAhead)")
			}
		}
	}
}

func sameCell(a, b ssa.Value) bool {
	// a is a load of cell b
	if u, ok := a.(*ssa.UnOp); ok && u.Op == token.MUL {
		return u.X == b
	}
	return false
}

func checkSolveBlock(c *Ctx, s *ssa.Function) {
	setBindCtx(s)
	asm := callsIn(s, pkgMiner+".assembleFullBlock")
	var pocHash, sign *ssa.Call
	allInstrsNew(s, func(in ssa.Instruction) { // hashing and signing may sit in a helper the reference tree does not have
		if cl, ok := in.(*ssa.Call); ok {
			if callName(cl) == "PoCHash" {
				pocHash = cl
			}
			if callName(cl) == "SignHash" {
				sign = cl
			}
		}
	})
	var best *ssa.Call
	allInstrs(s, func(in ssa.Instruction) {
		if cl, ok := in.(*ssa.Call); ok && !cl.Call.IsInvoke() && cl.Call.StaticCallee() == nil {
			if _, fld, _, ok := fieldOfValue(cl.Call.Value); ok && fld == "getBestProof" {
				best = cl
			}
		}
	})
	if len(asm) != 1 || pocHash == nil || sign == nil || best == nil {
		c.Bad("C08-SIGN", "solveBlock:anchor", c.Pos(s.Pos()), "reason=anchor-missing: assembleFullBlock / PoCHash / SignHash / getBestProof calls")
		return
	}
	{
		key := "solveBlock:hash-after-header-final"
		ok := instrDominates(asm[0], pocHash) && backSlice(callRecv(pocHash)).has(resultOf(asm[0], 0))
		// no header store other than Signature reachable after PoCHash
		r := reach(s, pocHash, nil, nil)
		bad := ""
		for _, a := range fieldAccesses(s) {
			if a.Kind != "store" || !strings.HasSuffix(a.Type, "wire.BlockHeader") {
				continue
			}
			if r(a.In) && a.Field != "Signature" {
				bad = a.Field
			}
		}
		if ok && bad == "" {
			c.OK("C08-SIGN", key, c.Pos(pocHash.Pos()), "PoCHash() of the assembled block; only Header.Signature is stored afterwards")
		} else {
			c.Bad("C08-SIGN", key, c.Pos(pocHash.Pos()), "the PoC hash is computed before the header is final (field "+bad+" is stored afterwards / hash not of the assembled block): the signature would not cover the submitted header")
		}
	}
	{
		key := "solveBlock:signed-by-winning-space"
		a := callArgs(sign)
		ok := backSlice(a[0]).hasField(pkgEngine+".WorkSpaceProof", "SpaceID") && backSlice(a[0]).has(resultOf(best, 0)) && backSlice(a[1]).has(resultOf(pocHash, 0))
		stored := false
		for _, fa := range fieldAccesses(s) {
			if fa.Kind == "store" && fa.Field == "Signature" && backSlice(fa.In.(*ssa.Store).Val).has(resultOf(sign, 0)) {
				stored = true
			}
		}
		// the assembled block uses the same winning proof
		okAsm := backSlice(asm[0].Call.Args[2]).has(resultOf(best, 0))
		if ok && stored && okAsm {
			c.OK("C08-SIGN", key, c.Pos(sign.Pos()), "Header.Signature = SpaceKeeper.SignHash(winning proof's SpaceID, PoC hash); the block is assembled from the same winning proof")
		} else {
			c.Bad("C08-SIGN", key, c.Pos(sign.Pos()), "the header is not signed by the winning space over the header's PoC hash")
		}
	}
	{
		key := "solveBlock:mined-height-not-solved-again"
		var tests []boolTest
		allInstrsNew(s, func(in ssa.Instruction) {
			if lk, ok := in.(*ssa.Lookup); ok && lk.CommaOk {
				if _, f, _, ok := fieldOfValue(lk.X); ok && f == "minedHeight" {
					if refs := lk.Referrers(); refs != nil {
						for _, r := range *refs {
							ex, ok := r.(*ssa.Extract)
							if !ok || ex.Index != 1 {
								continue
							}
							if lk.Parent() == s {
								tests = append(tests, boolTestsOf(s, ex)...)
								continue
							}
							// the membership test sits in a boolean helper (`hasMined`) that answers with the
							// lookup's ok: the tests of the helper's result in solveBlock are the tests
							h := lk.Parent()
							faithful := h.Signature.Results().Len() == 1 && len(returnsOf(h)) > 0
							for _, ret := range returnsOf(h) {
								same := false
								valueOrigins(h, ret.Results[0], func(rv ssa.Value) {
									if rv == ssa.Value(ex) {
										same = true
									}
								})
								if !same {
									faithful = false
								}
							}
							if faithful {
								for _, cs := range sitesOf(h) {
									if cl, isC := cs.(*ssa.Call); isC && cl.Parent() == s {
										tests = append(tests, boolTestsOf(s, cl)...)
									}
								}
							}
						}
					}
				}
			}
		})
		if ok, _ := unreachableWhenCut(s, boolEdgeCut(tests, false), []ssa.Instruction{best}); len(tests) > 0 && ok {
			c.OK("C08-SUBMIT", key, c.Pos(best.Pos()), "getBestProof unreachable when the template height is in minedHeight")
		} else {
			c.Bad("C08-SUBMIT", key, c.Pos(best.Pos()), "a height already mined successfully can be solved again")
		}
	}
}

func checkAssemble(c *Ctx, a *ssa.Function) {
	setBindCtx(a)
	want := map[string]func(s *slice) bool{
		"Timestamp": func(s *slice) bool { return s.hasField(pkgMiner+".ProofTemplate", "time") },
		"Target": func(s *slice) bool {
			return s.hasFieldCall("GetTarget") && s.hasField(pkgMiner+".ProofTemplate", "time")
		},
		"Challenge": func(s *slice) bool {
			return s.hasField("github.com/massnetorg/mass-core/blockchain.PoCTemplate", "Challenge")
		},
		"PubKey": func(s *slice) bool {
			return s.hasField(pkgEngine+".WorkSpaceProof", "PublicKey") && s.hasField(pkgMiner+".ProofTemplate", "proof")
		},
		"Proof": func(s *slice) bool {
			return s.hasField(pkgEngine+".WorkSpaceProof", "Proof") && s.hasField(pkgMiner+".ProofTemplate", "proof")
		},
	}
	got := map[string]bool{}
	for _, fa := range fieldAccesses(a) {
		if fa.Kind != "store" || !strings.HasSuffix(fa.Type, "wire.BlockHeader") {
			continue
		}
		if chk, ok := want[fa.Field]; ok {
			if chk(backSlice(fa.In.(*ssa.Store).Val)) {
				got[fa.Field] = true
			} else {
				c.Bad("C08-SIGN", "assembleFullBlock:Header."+fa.Field, c.Pos(fa.In.Pos()), "Header."+fa.Field+" is not taken from the winning proof / the template")
				got[fa.Field] = true
			}
		}
	}
	for f := range want {
		if !got[f] {
			c.Bad("C08-SIGN", "assembleFullBlock:Header."+f, c.Pos(a.Pos()), "Header."+f+" is never set from the winning proof / the template")
		} else {
			c.OK("C08-SIGN", "assembleFullBlock:Header."+f, c.Pos(a.Pos()), "set from the winning proof / template")
		}
	}
}

func checkSubmit(c *Ctx, sb *ssa.Function) {
	setBindCtx(sb)
	var pb *ssa.Call
	allInstrs(sb, func(in ssa.Instruction) {
		if cl, ok := in.(*ssa.Call); ok && callName(cl) == "ProcessBlock" {
			pb = cl
		}
	})
	if pb == nil {
		c.Bad("C08-SUBMIT", "submitBlock:anchor", c.Pos(sb.Pos()), "reason=anchor-missing: ProcessBlock call")
		return
	}
	{
		key := "submitBlock:not-before-timestamp"
		var tests []boolTest
		waitedInHelper := false
		for _, cl := range callsIn(sb, "(time.Time).After") {
			if backSlice(cl.Call.Args[0]).hasCallTo("time.Now") && backSlice(cl.Call.Args[1]).hasField("github.com/massnetorg/mass-core/wire.BlockHeader", "Timestamp") && backSlice(cl.Call.Args[1]).hasParam(sb, "block") {
				if h := cl.Parent(); h != sb && h.Parent() == nil && gNewFuncs[h] {
					// the wait loop sits in a helper the reference tree does not have: the helper returns only
					// behind After() == true, and ProcessBlock is reached only through the helper's call
					ht := boolTestsOf(h, cl)
					var rets []ssa.Instruction
					for _, r := range returnsOf(h) {
						rets = append(rets, r)
					}
					okH, _ := unreachableWhenCut(h, boolEdgeCut(ht, true), rets)
					for _, cs := range sitesOf(h) {
						site, isC := cs.(*ssa.Call)
						if !isC || site.Parent() != sb || !okH || len(ht) == 0 {
							continue
						}
						if !reach(sb, nil, nil, func(in ssa.Instruction) bool { return in == ssa.Instruction(site) })(pb) {
							waitedInHelper = true
						}
					}
					continue
				}
				tests = append(tests, boolTestsOf(sb, cl)...)
			}
		}
		if waitedInHelper {
			c.OK("C08-SUBMIT", key, c.Pos(pb.Pos()), "ProcessBlock only after the wait helper returned, which it does only behind time.Now().After(block header timestamp)")
		} else if ok, _ := unreachableWhenCut(sb, boolEdgeCut(tests, true), []ssa.Instruction{pb}); len(tests) > 0 && ok {
			c.OK("C08-SUBMIT", key, c.Pos(pb.Pos()), "ProcessBlock only after time.Now().After(block header timestamp)")
		} else {
			c.Bad("C08-SUBMIT", key, c.Pos(pb.Pos()), "the block can be submitted before its timestamp")
		}
		if !backSlice(callArgs(pb)[0]).hasParam(sb, "block") {
			c.Bad("C08-SUBMIT", key, c.Pos(pb.Pos()), "the block submitted is not the block whose timestamp was awaited")
		}
	}
	{
		key := "submitBlock:mined-height-recorded-after-acceptance"
		var upd []ssa.Instruction
		allInstrs(sb, func(in ssa.Instruction) {
			if mu, ok := in.(*ssa.MapUpdate); ok {
				if _, f, _, ok := fieldOfValue(mu.Map); ok && f == "minedHeight" {
					upd = append(upd, in)
				}
			}
		})
		orphan := resultOf(pb, 0)
		var ot []boolTest
		if orphan != nil {
			ot = boolTestsOf(sb, orphan)
		}
		ok1, _ := unreachableWhenCut(sb, errorEdgeCut(sb, pb, false), upd)
		ok2, _ := unreachableWhenCut(sb, boolEdgeCut(ot, false), upd)
		if len(upd) > 0 && ok1 && ok2 && len(ot) > 0 {
			c.OK("C08-SUBMIT", key, c.Pos(upd[0].Pos()), "minedHeight[height] set only behind ProcessBlock err == nil and !isOrphan")
		} else {
			c.Bad("C08-SUBMIT", key, c.Pos(sb.Pos()), "a height is recorded as mined although the block was rejected or orphaned (the height would never be mined again), or is never recorded")
		}
	}
}

// fieldFuncCall: the call goes through a function-valued struct field (PoCTemplate.GetTarget etc.);
// returns the field name.
func fieldFuncCall(cl *ssa.Call) string {
	if cl.Call.IsInvoke() || cl.Call.StaticCallee() != nil {
		return ""
	}
	if _, f, _, ok := fieldOfValue(cl.Call.Value); ok {
		return f
	}
	return ""
}

func (s *slice) hasFieldCall(field string) bool {
	for v := range s.vals {
		if cl, ok := v.(*ssa.Call); ok && fieldFuncCall(cl) == field {
			return true
		}
	}
	return false
}

func fieldCallsIn(fn *ssa.Function, field string) []*ssa.Call {
	var out []*ssa.Call
	allInstrs(fn, func(in ssa.Instruction) {
		if cl, ok := in.(*ssa.Call); ok && fieldFuncCall(cl) == field {
			out = append(out, cl)
		}
	})
	return out
}

// sharesCell: a and b are loads of the same local cell (or the same SSA value).
func sharesCell(fn *ssa.Function, a, b ssa.Value) bool {
	if a == b {
		return true
	}
	la, ok1 := a.(*ssa.UnOp)
	lb, ok2 := b.(*ssa.UnOp)
	if ok1 && ok2 && la.X == lb.X {
		return true
	}
	// phi-connected values of one variable
	return backSlice(a).has(b) || backSlice(b).has(a) || sameOriginValue(fn, a, b)
}

func sharesCellAddr(fn *ssa.Function, addr ssa.Value, b ssa.Value) bool {
	lb, ok := b.(*ssa.UnOp)
	return ok && lb.X == addr
}

// checkStaleMonitor: the stale monitor waits for blocks at exactly the height of the node it was
// armed for (the template's parent), so a better sibling at that height wakes it.
func checkStaleMonitor(c *Ctx) {
	f := c.MustFn("C08-SLOT", "poc/engine/pocminer/miner", "runStaleMonitor")
	if f == nil {
		return
	}
	key := "runStaleMonitor:waits-at-parent-height"
	n := 0
	bad := ""
	for _, fn := range withClosures(f) {
		allInstrs(fn, func(in ssa.Instruction) {
			cl, ok := in.(*ssa.Call)
			if !ok || callName(cl) != "BlockWaiter" {
				return
			}
			n++
			arg := strip(callArgs(cl)[0])
			_, fld, base, isF := fieldOfValue(arg)
			if !isF || fld != "Height" {
				bad = "BlockWaiter is not armed with the node's own Height (an arithmetic expression of it): a better sibling at the parent's height never wakes the monitor"
				return
			}
			// the node is the best node that was compared with the template's parent hash
			if !backSlice(base).hasCallTo("("+pkgMiner+".Chain).BestBlockNode") && !isParamOrFree(base) {
				bad = "BlockWaiter is armed for a node other than the chain's best node"
			}
		})
	}
	// armed only if best node == template parent
	okGate := false
	for _, cl := range callsInByName(f, "IsEqual") {
		if backSlice(callArgs(cl)[0]).hasParam(f, "previousHash") || backSlice(callRecv(cl)).hasParam(f, "previousHash") {
			okGate = true
		}
	}
	if n == 0 {
		c.Bad("C08-SLOT", key, c.Pos(f.Pos()), "reason=anchor-missing: BlockWaiter calls")
	} else if bad != "" || !okGate {
		if bad == "" {
			bad = "the monitor is armed without checking that the best node is the template's parent"
		}
		c.Bad("C08-SLOT", key, c.Pos(f.Pos()), bad)
	} else {
		c.OK("C08-SLOT", key, c.Pos(f.Pos()), fmt.Sprintf("%d BlockWaiter calls, each armed with exactly node.Height of the best node, after the parent-hash check", n))
	}
}

func isParamOrFree(v ssa.Value) bool {
	for {
		switch x := v.(type) {
		case *ssa.Parameter, *ssa.FreeVar:
			return true
		case *ssa.UnOp:
			v = x.X
		default:
			return false
		}
	}
}

// checkLoopVarCapture: a closure created inside a loop and run asynchronously (go statement, worker
// pool Submit, time.AfterFunc) must not capture a variable that lives across iterations and is assigned
// inside the loop (the range / for variable under pre-1.22 semantics): by the time the closure runs the
// variable holds a later element.
func checkLoopVarCapture(c *Ctx, rule string, pkgs []string) {
	inPkgs := map[string]bool{}
	for _, p := range pkgs {
		inPkgs[p] = true
	}
	n := 0
	var fns []*ssa.Function
	for fn := range c.AllFuncs {
		if inPkgs[pkgOf(fn)] && len(fn.Blocks) > 0 {
			fns = append(fns, fn)
		}
	}
	sort.Slice(fns, func(i, j int) bool { return FuncName(fns[i]) < FuncName(fns[j]) })
	for _, fn := range fns {
		ord := 0
		allInstrsShallow(fn, func(in ssa.Instruction) {
			mc, ok := in.(*ssa.MakeClosure)
			if !ok || !blockReentered(fn, mc) {
				return
			}
			// asynchronous use?
			async := ""
			if refs := mc.Referrers(); refs != nil {
				for _, r := range *refs {
					switch x := r.(type) {
					case *ssa.Go:
						async = "go statement"
					case *ssa.Call:
						nm := callName(x)
						if nm == "Submit" || nm == "AfterFunc" || nm == "Go" {
							async = nm
						}
					}
				}
			}
			if async == "" {
				return
			}
			n++
			ord++
			key := fmt.Sprintf("%s:async-closure#%d", FuncName(fn), ord)
			bad := ""
			for _, b := range mc.Bindings {
				a, isA := b.(*ssa.Alloc)
				if !isA {
					continue
				}
				// allocated once outside the loop, assigned inside it
				if blockReentered(fn, a) {
					continue // a fresh variable per iteration
				}
				assignedInLoop := false
				if refs := a.Referrers(); refs != nil {
					for _, r := range *refs {
						if st, isSt := r.(*ssa.Store); isSt && st.Addr == ssa.Value(a) && blockReentered(fn, st) {
							// the store is inside the same loop as the closure creation
							if reach(fn, st, nil, nil)(mc) && reach(fn, mc, nil, nil)(st) {
								assignedInLoop = true
							}
						}
					}
				}
				// a struct shared by all iterations whose fields are set per iteration (`job.ws = ws; submit(job.run)`)
				if refs := a.Referrers(); refs != nil && !assignedInLoop {
					for _, r := range *refs {
						fa, isFA := r.(*ssa.FieldAddr)
						if !isFA || fa.Referrers() == nil {
							continue
						}
						for _, r2 := range *fa.Referrers() {
							if st, isSt := r2.(*ssa.Store); isSt && st.Addr == ssa.Value(fa) && blockReentered(fn, st) {
								if reach(fn, st, nil, nil)(mc) && reach(fn, mc, nil, nil)(st) {
									assignedInLoop = true
								}
							}
						}
					}
				}
				if assignedInLoop {
					bad = a.Comment
					if bad == "" {
						bad = "a struct made before the loop"
					}
				}
			}
			if bad != "" {
				c.Bad(rule, key, c.Pos(mc.Pos()), "the closure run through "+async+" captures the loop variable `"+bad+"`, which is shared by all iterations: workers started late see a later element, so some elements are processed twice and others never")
			} else {
				c.OK(rule, key, c.Pos(mc.Pos()), "closure run through "+async+" captures only per-iteration values")
			}
		})
	}
	if n == 0 {
		c.Bad(rule, "anchor:async-closures", "", "reason=anchor-missing: no asynchronous closure created in a loop was found in the packages examined")
	}
}

// checkV2EarliestSlot: the cluster miner (engine v2) keeps, among the eligible qualities reported by its
// collectors, the one of the earliest slot and, within a slot, the best quality: an eligible report of a
// strictly earlier slot replaces the current best whatever its quality. Structurally: the true edge of
// `report.Slot < bestSlot` reaches the update of the best (the store of the work slot) without passing a
// quality comparison; and a same-slot report updates only behind `quality > best`.
func checkV2EarliestSlot(c *Ctx, rule string) {
	const pkgMinerV2 = repoMod + "/poc/engine.v2/pocminer/miner"
	var f *ssa.Function
	var upd *ssa.Call
	for fn := range c.AllFuncs {
		if pkgOf(fn) != pkgMinerV2 {
			continue
		}
		for _, cl := range callsInShallow(fn, "sync/atomic.StoreUint64") {
			if backSlice(cl.Call.Args[1]).hasFieldNamed("Slot") {
				f, upd = fn, cl
			}
		}
	}
	key := "v2.getBestProof:earlier-slot-always-wins"
	if f == nil {
		c.Bad(rule, key, "", "reason=anchor-missing: the update of the best reported quality (store of the work slot) in the cluster miner")
		return
	}
	isQualityCmp := func(in ssa.Instruction) bool {
		cl, ok := in.(*ssa.Call)
		return ok && isCall(cl, "(*math/big.Int).Cmp")
	}
	var lss []boolTest
	allInstrs(f, func(in ssa.Instruction) {
		bo, ok := in.(*ssa.BinOp)
		if !ok || bo.Op != token.LSS {
			return
		}
		if _, isK := bo.Y.(*ssa.Const); isK {
			return
		}
		if backSlice(bo.X).hasFieldNamed("Slot") {
			lss = append(lss, boolTestsOf(f, bo)...)
		}
	})
	if len(lss) == 0 {
		c.Bad(rule, key, c.Pos(upd.Pos()), "no test `reported slot < best slot` guards the update of the best quality: a report for an earlier slot with a numerically lower quality does not replace a later-slot best, so the miner does not settle on the earliest eligible slot")
		return
	}
	ok := false
	for _, t := range lss {
		r := reach(f, t.If, func(from, to *ssa.BasicBlock) bool { return from == t.If.Block() && to != t.TrueSucc }, isQualityCmp)
		if r(upd) {
			ok = true
		}
	}
	if ok {
		c.OK(rule, key, c.Pos(upd.Pos()), "the true edge of `slot < bestSlot` reaches the update without a quality comparison")
	} else {
		c.Bad(rule, key, c.Pos(upd.Pos()), "an eligible report of a strictly earlier slot replaces the best only if its quality is also higher: the miner can settle on a later slot than the earliest eligible one")
	}
}

// checkNoCopiedReceiver: a function value made from a method (`x.m`) binds its receiver when it is made.
// If m has a value receiver the function value carries a *copy* of x as it was then; when other methods
// of the same type (pointer receivers) or other code write x's fields afterwards — the stale monitor
// raising its flag — the function value never sees it. No method value in the packages examined binds a
// struct by value whose fields are written anywhere else.
func checkNoCopiedReceiver(c *Ctx, rule string, pkgs []string) {
	inPkgs := map[string]bool{}
	for _, p := range pkgs {
		inPkgs[p] = true
	}
	n := 0
	var bad []string
	for fn := range c.AllFuncs {
		if !inPkgs[pkgOf(fn)] {
			continue
		}
		fn := fn
		allInstrsShallow(fn, func(in ssa.Instruction) {
			mc, ok := in.(*ssa.MakeClosure)
			if !ok {
				return
			}
			m := boundMethodTarget(mc)
			if m == nil || len(mc.Bindings) == 0 {
				return
			}
			n++
			bt := mc.Bindings[0].Type()
			if _, isPtr := bt.Underlying().(*types.Pointer); isPtr {
				return
			}
			named, isNamed := bt.(*types.Named)
			if !isNamed {
				return
			}
			if _, isStruct := named.Underlying().(*types.Struct); !isStruct {
				return
			}
			tname := named.Obj().Pkg().Path() + "." + named.Obj().Name()
			// is any field of that type written (plain or atomic) by some function?
			written := ""
			for g := range c.AllFuncs {
				if pkgOf(g) != named.Obj().Pkg().Path() {
					continue
				}
				for _, a := range fieldAccessesShallow(g) {
					if a.Type == tname && a.Write && !isFreshObject(a.Base) {
						written = a.Field + " in " + g.Name()
					}
				}
			}
			if written != "" {
				bad = append(bad, fmt.Sprintf("%s: method value %s.%s at %s binds a copy of the %s (field %s is written later)", fn.Name(), named.Obj().Name(), m.Name(), c.Pos(mc.Pos()), named.Obj().Name(), written))
			}
		})
	}
	sort.Strings(bad)
	key := "method-values-bind-shared-objects"
	if len(bad) > 0 {
		c.Bad(rule, key, "", strings.Join(bad, "; ")+": the function value reads the copy made when it was created, so a flag raised afterwards (a better chain tip arrived) is never seen and the round is not abandoned")
	} else {
		c.OK(rule, key, "", fmt.Sprintf("%d method values examined, none binds a mutable struct by value", n))
	}
}

// predicateFilterForm: g filters through a helper the reference tree does not have, handing it a predicate:
// g calls H(…, K) where K is a function literal (or function) returning bool, and inside H every append lies
// behind the true edge of a call of H's function parameter. Returns K and K's element parameter (the first
// parameter of K), or nil.
func predicateFilterForm(g *ssa.Function) (*ssa.Function, *ssa.Parameter) {
	var outK *ssa.Function
	allInstrsShallow(g, func(in ssa.Instruction) {
		cl, ok := in.(*ssa.Call)
		if !ok {
			return
		}
		h := cl.Call.StaticCallee()
		if h == nil || !gNewFuncs[h] || len(h.Blocks) == 0 {
			return
		}
		for i, a := range cl.Call.Args {
			var k *ssa.Function
			switch x := a.(type) {
			case *ssa.MakeClosure:
				k, _ = x.Fn.(*ssa.Function)
			case *ssa.Function:
				k = x
			}
			if k == nil || len(k.Params) == 0 || k.Signature.Results().Len() != 1 || i >= len(h.Params) {
				continue
			}
			if b, isB := k.Signature.Results().At(0).Type().Underlying().(*types.Basic); !isB || b.Info()&types.IsBoolean == 0 {
				continue
			}
			par := h.Params[i]
			var tests []boolTest
			var apps []ssa.Instruction
			allInstrsShallow(h, func(in2 ssa.Instruction) {
				if c2, isC := in2.(*ssa.Call); isC {
					if c2.Call.Value == ssa.Value(par) {
						tests = append(tests, boolTestsOf(h, c2)...)
					}
					if calleeID(c2) == "builtin.append" {
						apps = append(apps, c2)
					}
				}
			})
			if len(tests) == 0 || len(apps) == 0 {
				continue
			}
			if ok, _ := unreachableWhenCut(h, boolEdgeCut(tests, true), apps); ok {
				outK = k
			}
		}
	})
	if outK == nil {
		return nil, nil
	}
	return outK, outK.Params[0]
}

// predicateIs: every return of the predicate k hands back the test itself (is(v)), the constant false, or the
// constant true on a path that lies behind the true edge of the test.
func predicateIs(k *ssa.Function, is func(v ssa.Value) bool) bool {
	rets := returnsOf(k)
	if len(rets) == 0 {
		return false
	}
	var tests []boolTest
	allInstrsShallow(k, func(in ssa.Instruction) {
		if v, ok := in.(ssa.Value); ok && is(v) {
			tests = append(tests, boolTestsOf(k, v)...)
		}
	})
	for _, ret := range rets {
		if len(ret.Results) != 1 {
			return false
		}
		okRet := false
		valueOrigins(k, ret.Results[0], func(r ssa.Value) {})
		switch x := ret.Results[0].(type) {
		case *ssa.Const:
			if x.Value != nil && x.Value.String() == "false" {
				okRet = true
			} else if len(tests) > 0 {
				if ok, _ := unreachableWhenCut(k, boolEdgeCut(tests, true), []ssa.Instruction{ret}); ok {
					okRet = true
				}
			}
		default:
			okRet = is(ret.Results[0])
		}
		if !okRet {
			return false
		}
	}
	return true
}
