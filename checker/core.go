package main

// Core of the checker: loading /repo's working tree (optionally through an overlay), building
// SSA, obligation bookkeeping, known findings, evidence and the VIOLATION protocol.

import (
	"encoding/json"
	"fmt"
	"go/token"
	"go/types"
	"os"
	"path/filepath"
	"sort"
	"strings"
	"time"

	"golang.org/x/tools/go/packages"
	"golang.org/x/tools/go/ssa"
	"golang.org/x/tools/go/ssa/ssautil"
)

const repoMod = "massnet.org/mass"

type Status int

const (
	Discharged Status = iota
	Violated
	Undecided
)

func (s Status) String() string {
	switch s {
	case Discharged:
		return "discharged"
	case Violated:
		return "violated"
	}
	return "undecided"
}

// Obligation is one instance of a rule, keyed by rule + function + construct (never a line).
type Obligation struct {
	Rule      string `json:"rule"`
	Key       string `json:"key"`
	Status    string `json:"status"`
	Pos       string `json:"pos,omitempty"`
	Detail    string `json:"detail,omitempty"`
	Known     bool   `json:"known_finding,omitempty"`
	Nontrival bool   `json:"needed_path_or_flow_argument"`
	st        Status
}

type Ctx struct {
	Prop      string
	Tier      string
	RepoDir   string
	Fset      *token.FileSet
	Pkgs      []*packages.Package
	PkgByID   map[string]*packages.Package
	Prog      *ssa.Program
	SSA       map[string]*ssa.Package // by package path
	AllFuncs  map[*ssa.Function]bool  // every function with a body in repo packages (incl. closures)
	aliases   [][2]string // stack of active rule-id renamings (from-prefix, to-prefix), innermost last
	Obls      []*Obligation
	oblIndex  map[string]*Obligation
	Notes     []string
	Rules     map[string]string // rule id -> rule text
	Floors    map[string]int    // rule id -> minimum obligation count
	start     time.Time
	CallSites int
	cg        *cgCache
	Renamed   []string // symbols analysed under their reference names (canon.go)
	refSyms   map[string]*refPkg
	curSyms   *curSyms
	overlay   map[string][]byte
}

func goEnv() []string {
	env := []string{}
	for _, e := range os.Environ() {
		if strings.HasPrefix(e, "GOFLAGS=") || strings.HasPrefix(e, "GOWORK=") || strings.HasPrefix(e, "GOPROXY=") ||
			strings.HasPrefix(e, "GOSUMDB=") || strings.HasPrefix(e, "GOTOOLCHAIN=") || strings.HasPrefix(e, "GOOS=") || strings.HasPrefix(e, "GOARCH=") {
			continue
		}
		env = append(env, e)
	}
	return append(env, "GOFLAGS=-mod=mod", "GOPROXY=off", "GOSUMDB=off", "GOWORK=off", "GOTOOLCHAIN=local")
}

// Load type-checks the whole repository from its working tree and builds SSA for it.
// overlay maps absolute file names to replacement contents (self-validation variants).
func Load(repo string, overlay map[string][]byte) (*Ctx, error) {
	c := &Ctx{RepoDir: repo, start: time.Now(), oblIndex: map[string]*Obligation{}, Rules: map[string]string{}, Floors: map[string]int{}}
	c.Fset = token.NewFileSet()
	cfg := &packages.Config{
		Mode:    packages.LoadAllSyntax,
		Dir:     repo,
		Env:     goEnv(),
		Fset:    c.Fset,
		Overlay: overlay,
		Tests:   false,
	}
	pkgs, err := packages.Load(cfg, "./...")
	if err != nil {
		return nil, fmt.Errorf("packages.Load: %v", err)
	}
	if len(pkgs) < 30 {
		return nil, fmt.Errorf("only %d packages loaded from %s (expected >= 30)", len(pkgs), repo)
	}
	c.PkgByID = map[string]*packages.Package{}
	var errs []string
	packages.Visit(pkgs, nil, func(p *packages.Package) {
		c.PkgByID[p.PkgPath] = p
		if strings.HasPrefix(p.PkgPath, repoMod) {
			for _, e := range p.Errors {
				errs = append(errs, e.Error())
			}
		}
	})
	if len(errs) > 0 {
		return nil, fmt.Errorf("type errors in repository packages: %s", strings.Join(errs, "; "))
	}
	c.Pkgs = pkgs
	prog, _ := ssautil.AllPackages(pkgs, ssa.InstantiateGenerics)
	c.Prog = prog
	c.SSA = map[string]*ssa.Package{}
	for _, p := range prog.AllPackages() {
		c.SSA[p.Pkg.Path()] = p
	}
	prog.Build()
	c.AllFuncs = map[*ssa.Function]bool{}
	for fn := range ssautil.AllFunctions(prog) {
		if fn.Pkg != nil && strings.HasPrefix(fn.Pkg.Pkg.Path(), repoMod) && fn.Blocks != nil {
			c.AllFuncs[fn] = true
		}
	}
	// closures of repo functions are included by AllFunctions; count call sites
	for fn := range c.AllFuncs {
		for _, b := range fn.Blocks {
			for _, in := range b.Instrs {
				if _, ok := in.(ssa.CallInstruction); ok {
					c.CallSites++
				}
			}
		}
	}
	return c, nil
}

// ---------------------------------------------------------------------------------------------
// symbol lookup

// Fn finds a function by package path suffix and name:
//
//	Fn("poc/wallet/keystore", "export")
//	Fn("poc/wallet/keystore", "(*AddrManager).exportKeystore")
//
// Returns nil if absent (callers report anchor-missing).
func (c *Ctx) fnExact(pkgSuffix, name string) *ssa.Function {
	p := c.SSA[repoMod+"/"+pkgSuffix]
	if pkgSuffix == "" {
		p = c.SSA[repoMod]
	}
	if p == nil {
		p = c.SSA[pkgSuffix] // full path (dependencies)
	}
	if p == nil {
		return nil
	}
	if strings.HasPrefix(name, "(") {
		// method
		end := strings.Index(name, ")")
		recv := name[1:end]
		mname := name[end+2:]
		ptr := strings.HasPrefix(recv, "*")
		recv = strings.TrimPrefix(recv, "*")
		tobj := p.Pkg.Scope().Lookup(recv)
		if tobj == nil {
			return nil
		}
		var t types.Type = tobj.Type()
		if ptr {
			t = types.NewPointer(t)
		}
		sel := c.Prog.MethodSets.MethodSet(t).Lookup(p.Pkg, mname)
		if sel == nil {
			return nil
		}
		return c.Prog.MethodValue(sel)
	}
	return p.Func(name)
}

// FnOrAbsorber is Fn; when the function is gone but the reference tree had it, the function that
// absorbed it (it was inlined into its caller, or merged with a sibling into a new function): the
// tightest function of the same package whose body mentions everything the reference body mentioned
// (callees, package-level objects, most string literals and fields). Rules that look for constructs
// inside the named function then look inside the absorber. Nothing is returned for a function that was
// really removed (its calls and checks are nowhere), so the anchor stays missing for those.
func (c *Ctx) Fn(pkgSuffix, name string) *ssa.Function { return c.FnOrAbsorber(pkgSuffix, name) }

func (c *Ctx) FnOrAbsorber(pkgSuffix, name string) *ssa.Function {
	if f := c.fnExact(pkgSuffix, name); f != nil {
		return f
	}
	if !strings.HasPrefix(name, "(") {
		// a free function that became a method of its first parameter's type (canon.go)
		path := repoMod + "/" + pkgSuffix
		if pkgSuffix == "" {
			path = repoMod
		}
		if gFuncAsMethod[path+"."+name] {
			var found *ssa.Function
			n := 0
			for fn := range c.AllFuncs {
				if fn.Parent() == nil && fn.Name() == name && pkgOf(fn) == path && fn.Signature.Recv() != nil && fn.Blocks != nil {
					found = fn
					n++
				}
			}
			if n == 1 {
				return found
			}
		}
	}
	if c.refSyms == nil {
		return nil
	}
	path := repoMod + "/" + pkgSuffix
	if pkgSuffix == "" {
		path = repoMod
	}
	rp := c.refSyms[path]
	if rp == nil {
		return nil
	}
	rf := rp.Funcs[name]
	if rf == nil {
		return nil
	}
	var must, soft []string
	for _, ft := range rf.Feat {
		switch {
		case strings.HasPrefix(ft, "c:"), strings.HasPrefix(ft, "g:"):
			// a callee or global that is itself gone cannot be required
			must = append(must, ft)
		default:
			soft = append(soft, ft)
		}
	}
	if len(must)+len(soft) < 3 || len(must) == 0 {
		return nil
	}
	if c.curSyms == nil {
		c.curSyms = extractSymbols(c, c.overlay)
	}
	cp := c.curSyms.pkgs[path]
	if cp == nil {
		return nil
	}
	// features that exist nowhere in the package any more are not required (renamed away or removed with
	// the function itself, e.g. a recursive self-call)
	everywhere := map[string]bool{}
	for _, f := range cp.Funcs {
		for _, ft := range f.Feat {
			everywhere[ft] = true
		}
	}
	best, bestN := "", 1<<30
	for k, f := range cp.Funcs {
		have := map[string]bool{}
		for _, ft := range f.Feat {
			have[ft] = true
		}
		ok := true
		nMust := 0
		for _, ft := range must {
			if !everywhere[ft] {
				continue
			}
			nMust++
			if !have[ft] {
				ok = false
				break
			}
		}
		if !ok || nMust == 0 {
			continue
		}
		hit := 0
		for _, ft := range soft {
			if have[ft] {
				hit++
			}
		}
		if len(soft) > 0 && hit*5 < len(soft)*4 {
			continue
		}
		if len(f.Feat) < bestN || (len(f.Feat) == bestN && k < best) {
			best, bestN = k, len(f.Feat)
		}
	}
	if best == "" {
		return nil
	}
	g := c.fnExact(pkgSuffix, best)
	if g != nil {
		c.noteOnce("anchor " + shortPkg(path) + "." + name + " is gone; its body is found in " + best + " (inlined or merged) — rules anchored at it look there")
	}
	return g
}

func (c *Ctx) noteOnce(s string) {
	for _, n := range c.Notes {
		if n == s {
			return
		}
	}
	c.Notes = append(c.Notes, s)
}

// MustFn is Fn that records an anchor-missing violation when the symbol is gone.
func (c *Ctx) MustFn(rule, pkgSuffix, name string) *ssa.Function {
	f := c.FnOrAbsorber(pkgSuffix, name)
	setBindCtx(f)
	if f == nil || f.Blocks == nil {
		c.Add(rule, "anchor:"+pkgSuffix+"."+name, Violated, "", "reason=anchor-missing: function "+pkgSuffix+"."+name+" not found in the current tree (rule table names it)", false)
		return nil
	}
	return f
}

func (c *Ctx) Pos(p token.Pos) string {
	if !p.IsValid() {
		return ""
	}
	pp := c.Fset.Position(p)
	f := pp.Filename
	if rel, err := filepath.Rel(c.RepoDir, f); err == nil && !strings.HasPrefix(rel, "..") {
		f = rel
	}
	return fmt.Sprintf("%s:%d", f, pp.Line)
}

// FuncName is a stable printable name: pkgsuffix.(*T).m or pkgsuffix.f$1
func FuncName(f *ssa.Function) string {
	if f == nil {
		return "<nil>"
	}
	s := f.String()
	s = strings.ReplaceAll(s, repoMod+"/", "")
	s = strings.ReplaceAll(s, "github.com/massnetorg/mass-core/", "mass-core/")
	return s
}

// ---------------------------------------------------------------------------------------------
// obligations

// alias: while aliasFrom is set, rule ids starting with it are renamed (a property's check can run
// another property's rules as its own premises, under its own rule ids and floors).
func (c *Ctx) alias(id string) string {
	for i := len(c.aliases) - 1; i >= 0; i-- {
		if a := c.aliases[i]; strings.HasPrefix(id, a[0]) {
			id = a[1] + strings.TrimPrefix(id, a[0])
		}
	}
	return id
}

// pushAlias / popAlias bracket a call of another property's rule functions: rule ids starting with
// `from` are recorded as `to`+rest. Brackets nest (the innermost renaming applies first).
func (c *Ctx) pushAlias(from, to string) { c.aliases = append(c.aliases, [2]string{from, to}) }
func (c *Ctx) popAlias() {
	if n := len(c.aliases); n > 0 {
		c.aliases = c.aliases[:n-1]
	}
}

func (c *Ctx) Rule(id, text string, floor int) {
	id = c.alias(id)
	c.Rules[id] = text
	c.Floors[id] = floor
}

func (c *Ctx) Add(rule, key string, st Status, pos, detail string, nontrivial bool) *Obligation {
	rule = c.alias(rule)
	full := rule + "|" + key
	if o, ok := c.oblIndex[full]; ok {
		// keep the worst status
		if st > o.st || (st == Violated && o.st != Violated) {
			if st == Violated || (st == Undecided && o.st == Discharged) {
				o.st = st
				o.Status = st.String()
				o.Pos = pos
				o.Detail = detail
			}
		}
		return o
	}
	o := &Obligation{Rule: rule, Key: key, st: st, Status: st.String(), Pos: pos, Detail: detail, Nontrival: nontrivial}
	c.Obls = append(c.Obls, o)
	c.oblIndex[full] = o
	return o
}

func (c *Ctx) OK(rule, key, pos, detail string) *Obligation {
	return c.Add(rule, key, Discharged, pos, detail, true)
}
func (c *Ctx) Bad(rule, key, pos, detail string) *Obligation {
	return c.Add(rule, key, Violated, pos, detail, true)
}
func (c *Ctx) Unk(rule, key, pos, detail string) *Obligation {
	return c.Add(rule, key, Undecided, pos, detail, true)
}
func (c *Ctx) Note(format string, a ...interface{}) {
	c.Notes = append(c.Notes, fmt.Sprintf(format, a...))
}

// ---------------------------------------------------------------------------------------------
// known findings

type KnownFinding struct {
	Property string `json:"property"`
	Rule     string `json:"rule"`
	Key      string `json:"key"`
	Status   string `json:"status"` // known | fixed
	Commit   string `json:"commit,omitempty"`
	What     string `json:"what"`
}

func loadKnown(path string) ([]KnownFinding, error) {
	b, err := os.ReadFile(path)
	if err != nil {
		if os.IsNotExist(err) {
			return nil, nil
		}
		return nil, err
	}
	var k struct {
		Findings []KnownFinding `json:"findings"`
	}
	if err := json.Unmarshal(b, &k); err != nil {
		return nil, err
	}
	return k.Findings, nil
}

// ---------------------------------------------------------------------------------------------
// finishing a run

type Evidence struct {
	PropertyID  string                 `json:"property_id"`
	Tier        string                 `json:"tier"`
	Seed        int                    `json:"seed"`
	Level       string                 `json:"level"`
	Coverage    map[string]interface{} `json:"coverage"`
	Assumptions []string               `json:"assumptions"`
	WallS       float64                `json:"wall_s"`
	Violations  int                    `json:"violations"`
}

type Meta struct {
	Explanation string
	NotDecided  string
	Trusted     []string
	Assumptions []string
}

// Finish evaluates floors and known findings, writes evidence and replay files, prints the
// protocol lines and returns the process exit code.
func (c *Ctx) Finish(verifDir string, meta Meta, extra map[string]interface{}) int {
	known, kerr := loadKnown(filepath.Join(verifDir, "known_findings.json"))
	if kerr != nil {
		fmt.Printf("BROKEN: cannot read known_findings.json: %v\n", kerr)
		return 2
	}
	// floors
	counts := map[string]int{}
	for _, o := range c.Obls {
		counts[o.Rule]++
	}
	rules := []string{}
	for r := range c.Rules {
		rules = append(rules, r)
	}
	sort.Strings(rules)
	for _, r := range rules {
		// vacuity guard: the number of instances confirmed by hand on the reference tree may shrink when a
		// maintainer merges duplicated code (three copies of a block become one helper), so the alarm
		// threshold is 60 % of the confirmed count, not the count itself; an instance that really
		// disappears is reported by the rule's own per-construct anchors
		thr := (c.Floors[r]*6 + 9) / 10
		if c.Floors[r] > 0 && thr < 1 {
			thr = 1
		}
		if counts[r] < thr {
			c.Add(r, "floor", Violated, "", fmt.Sprintf("reason=below-floor: rule matched %d constructs, %d were confirmed by hand on the reference tree (alarm threshold %d) — the rule's anchors no longer match the code", counts[r], c.Floors[r], thr), false)
		}
	}
	sort.SliceStable(c.Obls, func(i, j int) bool {
		if c.Obls[i].Rule != c.Obls[j].Rule {
			return c.Obls[i].Rule < c.Obls[j].Rule
		}
		return c.Obls[i].Key < c.Obls[j].Key
	})
	nViol, nKnown, nDis, nNontriv := 0, 0, 0, 0
	distinct := map[string]bool{}
	var violated []*Obligation
	usedKnown := map[int]bool{}
	for _, o := range c.Obls {
		if o.Nontrival {
			distinct[o.Rule+"|"+o.Key] = true
		}
		switch o.st {
		case Discharged:
			nDis++
		default:
			isKnown := false
			if o.st == Violated {
				for i, k := range known {
					if k.Status == "known" && k.Property == c.Prop && k.Rule == o.Rule && k.Key == o.Key {
						isKnown = true
						usedKnown[i] = true
						fmt.Printf("KNOWN-FINDING: property=%s %s [rule=%s key=%s at %s]\n", c.Prop, k.What, o.Rule, o.Key, o.Pos)
					}
				}
			}
			if isKnown {
				o.Known = true
				nKnown++
			} else {
				nViol++
				violated = append(violated, o)
			}
		}
	}
	nNontriv = len(distinct)
	_ = nNontriv
	if os.Getenv("VERIF_VERBOSE") != "" {
		for _, o := range c.Obls {
			fmt.Printf("  . %s rule=%s key=%s at %s: %s\n", o.Status, o.Rule, o.Key, o.Pos, o.Detail)
		}
	}
	os.MkdirAll(filepath.Join(verifDir, "evidence", "replay"), 0o755)
	replay := filepath.Join(verifDir, "evidence", "replay", c.Prop+".json")
	if nViol > 0 {
		rb, _ := json.MarshalIndent(map[string]interface{}{"property": c.Prop, "tier": c.Tier, "violated_obligations": violated,
			"how_to_replay": "verifchk -prop " + c.Prop + " -tier " + c.Tier + " re-runs the same rules on the same constructs of /repo's working tree"}, "", " ")
		os.WriteFile(replay, rb, 0o644)
		for _, o := range violated {
			fmt.Printf("  %s rule=%s key=%s at %s: %s\n", strings.ToUpper(o.Status), o.Rule, o.Key, o.Pos, o.Detail)
		}
		fmt.Printf("VIOLATION property=%s replay=%s\n", c.Prop, replay)
	} else {
		os.Remove(replay)
	}
	// samples: a few obligations of each rule, violated first
	samples := []interface{}{}
	perRule := map[string]int{}
	for _, o := range c.Obls {
		if o.st != Discharged {
			samples = append(samples, o)
		}
	}
	for _, o := range c.Obls {
		if o.st == Discharged && perRule[o.Rule] < 3 && o.Nontrival {
			perRule[o.Rule]++
			samples = append(samples, o)
		}
	}
	if len(samples) == 0 {
		for i, o := range c.Obls {
			if i < 3 {
				samples = append(samples, o)
			}
		}
	}
	ruleList := []map[string]interface{}{}
	for _, r := range rules {
		ruleList = append(ruleList, map[string]interface{}{"id": r, "text": c.Rules[r], "obligations": counts[r], "floor": c.Floors[r]})
	}
	cov := map[string]interface{}{
		"explanation":         meta.Explanation,
		"not_decided":         meta.NotDecided,
		"rules":               ruleList,
		"packages_loaded":     len(c.PkgByID),
		"repo_packages":       len(c.Pkgs),
		"functions_analysed":  len(c.AllFuncs),
		"call_sites":          c.CallSites,
		"obligations":         len(c.Obls),
		"discharged":          nDis,
		"known_findings":      nKnown,
		"evaluations":         len(c.Obls),
		"distinct_nontrivial": len(distinct),
		"rule":                "one obligation per rule+function+construct; non-trivial = needed a CFG path, lockset or value-flow argument (not discharged by mere existence of a symbol)",
		"samples":             samples,
		"trusted_base":        meta.Trusted,
		"checker_cmd":         "/verif/bin/verifchk -prop " + c.Prop + " -tier " + c.Tier,
		"notes":               c.Notes,
		"exhaustive":          false,
	}
	for k, v := range extra {
		cov[k] = v
	}
	if meta.Assumptions == nil {
		meta.Assumptions = []string{}
	}
	if meta.Trusted == nil {
		meta.Trusted = []string{}
		cov["trusted_base"] = meta.Trusted
	}
	ev := Evidence{PropertyID: c.Prop, Tier: c.Tier, Seed: seedFromEnv(), Level: "other", Coverage: cov,
		Assumptions: meta.Assumptions, WallS: time.Since(c.start).Seconds(), Violations: nViol}
	eb, _ := json.MarshalIndent(ev, "", " ")
	os.WriteFile(filepath.Join(verifDir, "evidence", c.Prop+".json"), eb, 0o644)
	fmt.Printf("%s tier=%s: %d obligations, %d discharged, %d known findings, %d violated/undecided; %d repo functions, %d call sites; %.1fs\n",
		c.Prop, c.Tier, len(c.Obls), nDis, nKnown, nViol, len(c.AllFuncs), c.CallSites, time.Since(c.start).Seconds())
	if nViol > 0 {
		return 1
	}
	return 0
}

func seedFromEnv() int {
	var n int
	fmt.Sscanf(os.Getenv("VERIF_SEED"), "%d", &n)
	return n
}
