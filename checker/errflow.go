package main

// ERRFLOW: an error produced by a call of class K inside a scope reaches the scope's return on
// every path where it is non-nil.

import (
	"fmt"
	"go/token"
	"go/types"
	"sort"
	"strings"

	"golang.org/x/tools/go/ssa"
)

// errflowAllowNoErrorResult: a function without an error result (found/ok style) may return its
// failure value on the error branch.
var errflowAllowNoErrorResult = false

type errflowCfg struct {
	rule   string
	scope  []*ssa.Function
	classK func(fn *ssa.Function, call *ssa.Call) bool
	// strict: the branch taken when the error is non-nil must never rejoin normal flow
	strict func(fn *ssa.Function, call *ssa.Call) bool
	// valueConversion: callee ids for which `v, _ := callee(); if v == nil { return <non-nil error> }`
	// is accepted (the callee returns a nil value with every error; verified by nilValueOnError)
	valueConversion map[string]bool
	// keyOf builds the construct part of the obligation key
	keyOf func(fn *ssa.Function, call *ssa.Call, ordinal int) string
	// except: obligation keys exempted, each with its one-line reason
	except map[string]string
}

// provablyNonNilError: v (an error-typed operand of a Return executed on a path where error e is
// known non-nil) is certainly non-nil.
func provablyNonNilError(fn *ssa.Function, v ssa.Value, eAliases map[ssa.Value]bool) (bool, string) {
	ok := true
	why := ""
	valueOrigins(fn, v, func(root ssa.Value) {
		if eAliases[root] {
			return
		}
		switch r := root.(type) {
		case *ssa.Const:
			if r.IsNil() {
				ok = false
				why = "returns the constant nil"
			}
			return
		case *ssa.Call:
			id := calleeID(r)
			if id == "errors.New" || id == "fmt.Errorf" || id == "github.com/massnetorg/mass-core/errors.New" {
				return
			}
			if grpcStatusError(r) {
				return // status.New(k != OK, …).Err(): non-nil by the library's contract
			}
			// a local failure helper that logs and hands the error back
			if g := r.Call.StaticCallee(); g != nil && (g.Parent() != nil || gNewFuncs[g]) {
				for i, a := range r.Call.Args {
					isAl := false
					valueOrigins(fn, a, func(ar ssa.Value) {
						if eAliases[ar] {
							isAl = true
						}
					})
					if isAl && returnsItsParam(g, i) {
						return
					}
				}
			}
			// conversion helper taking the error as an argument
			for _, a := range r.Call.Args {
				conv := false
				valueOrigins(fn, a, func(ar ssa.Value) {
					if eAliases[ar] {
						conv = true
					}
				})
				if conv {
					return
				}
			}
			// variadic conversion: fmt.Errorf("%v", err) packs err into a slice
			ok = false
			why = "returns the result of " + id + ", not provably non-nil"
			return
		case *ssa.UnOp:
			if r.Op == token.MUL {
				if g, isG := r.X.(*ssa.Global); isG {
					if strings.HasPrefix(g.Name(), "Err") || strings.HasPrefix(g.Name(), "err") {
						return
					}
				}
			}
			ok = false
			why = "returns " + r.String() + " which may be nil"
		case *ssa.Alloc:
			// value a captured variable had before this function's own stores
			ok = false
			why = "returns captured variable " + r.Comment + " whose value comes from outside this path (may be nil)"
		case *ssa.FreeVar:
			ok = false
			why = "returns captured variable " + r.Name() + " whose value comes from outside this path (may be nil)"
		case *ssa.Extract:
			// `return fail(err)` with a local failure helper returning (zero, err)
			if cl, isC := r.Tuple.(*ssa.Call); isC {
				if g := cl.Call.StaticCallee(); g != nil && (g.Parent() != nil || gNewFuncs[g]) && r.Index == g.Signature.Results().Len()-1 {
					for i, a := range cl.Call.Args {
						isAl := false
						valueOrigins(fn, a, func(ar ssa.Value) {
							if eAliases[ar] {
								isAl = true
							}
						})
						if isAl && returnsItsParam(g, i) {
							return
						}
					}
				}
			}
			ok = false
			why = "returns a different call's error result (" + r.Tuple.String() + ")"
		case *ssa.MakeInterface:
			return
		default:
			ok = false
			why = fmt.Sprintf("returns %s (%T) which may be nil", root.Name(), root)
		}
	})
	return ok, why
}

// dominatedRegion returns the blocks dominated by b.
func dominatedRegion(fn *ssa.Function, b *ssa.BasicBlock) map[*ssa.BasicBlock]bool {
	out := map[*ssa.BasicBlock]bool{}
	for _, x := range fn.Blocks {
		if b.Dominates(x) {
			out[x] = true
		}
	}
	return out
}

// checkErrorBranch verifies the branch taken when e != nil (entered through edge from->nonNil).
// Every Return in the region must return a provably non-nil error; with strict, the region must not
// flow back into blocks outside it. Returns (ok, detail).
func checkErrorBranch(fn *ssa.Function, t nilTest, eAliases map[ssa.Value]bool, strict bool) (bool, string) {
	b := t.NonNil
	// the branch block must be exclusive to the error edge; otherwise analyse from the edge by cut:
	if len(b.Preds) != 1 {
		// e.g. `if err != nil { log }; return err` collapses; treat region = {b} reached also from
		// the nil path: then returning e itself is fine (nil on the nil path, non-nil here).
		okAll := true
		why := ""
		sawReturn := false
		reachable := reach(fn, t.If, func(from, to *ssa.BasicBlock) bool { return from == t.If.Block() && to != b }, nil)
		for _, r := range returnsOf(fn) {
			if !reachable(r) {
				continue
			}
			sawReturn = true
			if len(r.Results) == 0 {
				continue
			}
			last := r.Results[len(r.Results)-1]
			if !isErrorType(last.Type()) {
				continue
			}
			// only returns that cannot be reached avoiding... keep simple: require all
			if good, w := provablyNonNilErrorOrAlias(fn, last, eAliases); !good {
				okAll = false
				why = w
			}
		}
		if !sawReturn {
			return false, "error branch reaches no return"
		}
		return okAll, why
	}
	region := dominatedRegion(fn, b)
	sawReturn := false
	for _, r := range returnsOf(fn) {
		if !region[r.Block()] {
			continue
		}
		sawReturn = true
		if len(r.Results) == 0 {
			return false, "error branch returns no error value"
		}
		last := r.Results[len(r.Results)-1]
		if !isErrorType(last.Type()) {
			// named results / functions without error result: cannot carry the error
			if errflowAllowNoErrorResult {
				continue
			}
			return false, "error branch returns from a function without error result"
		}
		if cellKnownNonNil(fn, last, r) {
			continue
		}
		// the value returned is the very value this test found non-nil (a phi merging several errors,
		// judged once at the end): non-nil whatever it merges
		if t.Compared != nil && strip(last) == strip(t.Compared) {
			continue
		}
		if good, w := provablyNonNilError(fn, last, eAliases); !good {
			return false, "on the branch where the error is non-nil the function " + w
		}
	}
	leaks := false
	for x := range region {
		for _, s := range x.Succs {
			if !region[s] {
				leaks = true
			}
		}
	}
	if leaks && leakReturnsTheError(fn, region, eAliases) {
		return true, ""
	}
	if leaks && leakReachesLaterTest(fn, region, eAliases) {
		return true, ""
	}
	if strict && leaks {
		return false, "error branch rejoins normal flow (the error is logged or ignored and execution continues)"
	}
	if !sawReturn && !leaks {
		// region ends in panic or infinite loop
		return true, ""
	}
	if !sawReturn && leaks && strict {
		return false, "error branch never returns"
	}
	return true, ""
}

// leakReturnsTheError: `if err != nil { log }; return err` — the error branch rejoins the normal flow,
// but every block it rejoins does nothing except return the very error that was tested (so the
// function still fails exactly when the call failed).
func leakReturnsTheError(fn *ssa.Function, region map[*ssa.BasicBlock]bool, eAliases map[ssa.Value]bool) bool {
	for x := range region {
		for _, s := range x.Succs {
			if region[s] {
				continue
			}
			var ret *ssa.Return
			for _, in := range s.Instrs {
				switch y := in.(type) {
				case *ssa.Return:
					ret = y
				case *ssa.Call, *ssa.Store, *ssa.MapUpdate, *ssa.Send, *ssa.Go, *ssa.Defer, *ssa.If, *ssa.Jump, *ssa.RunDefers:
					if _, isRD := in.(*ssa.RunDefers); isRD {
						continue
					}
					// results spilled to local cells because of a deferred call (`*res = x; rundefers; return *res`)
					if st, isSt := in.(*ssa.Store); isSt {
						if a, isA := st.Addr.(*ssa.Alloc); isA && a.Parent() == fn {
							continue
						}
					}
					return false
				}
			}
			if ret == nil || len(ret.Results) == 0 {
				return false
			}
			last := ret.Results[len(ret.Results)-1]
			if !isErrorType(last.Type()) {
				return false
			}
			all, any := true, false
			valueOrigins(fn, last, func(root ssa.Value) {
				any = true
				if !eAliases[root] {
					all = false
				}
			})
			if !all || !any {
				return false
			}
		}
	}
	return true
}

// errflowIsStep: set by runErrflow to the class-K predicate of the rule being run (a further step of
// the operation: a storage call, a keystore helper).
var errflowIsStep func(fn *ssa.Function, call *ssa.Call) bool

// leakReachesLaterTest: the "one err variable, judged at the end" style —
//
//	err = step(); if err != nil { log }      // rejoins
//	…                                        // nothing but logging
//	if err != nil { return err }             // the same error, through a phi
//
// accepted when every block the error branch rejoins leads, without another step of the operation on
// the way, to a nil test of a value that merges the error (a phi alias) whose non-nil branch returns a
// provably non-nil error and does not rejoin.
func leakReachesLaterTest(fn *ssa.Function, region map[*ssa.BasicBlock]bool, eAliases map[ssa.Value]bool) bool {
	// later tests: nil tests of phi aliases located outside the region
	var later []nilTest
	for v := range eAliases {
		if _, isPhi := v.(*ssa.Phi); !isPhi {
			continue
		}
		for _, t := range nilTestsOf(fn, v) {
			if !region[t.If.Block()] {
				later = append(later, t)
			}
		}
	}
	if len(later) == 0 {
		return false
	}
	isLater := func(b *ssa.BasicBlock) *nilTest {
		for i := range later {
			if later[i].If.Block() == b {
				return &later[i]
			}
		}
		return nil
	}
	for x := range region {
		for _, s := range x.Succs {
			if region[s] {
				continue
			}
			// walk from s to a later test; no step, no return, no loop back on the way
			seen := map[*ssa.BasicBlock]bool{}
			work := []*ssa.BasicBlock{s}
			for len(work) > 0 {
				b := work[len(work)-1]
				work = work[:len(work)-1]
				if seen[b] {
					continue
				}
				seen[b] = true
				if region[b] {
					return false
				}
				for _, in := range b.Instrs {
					switch y := in.(type) {
					case *ssa.Return:
						return false
					case *ssa.Call:
						if errflowIsStep != nil && errflowIsStep(fn, y) {
							return false
						}
					}
				}
				if t := isLater(b); t != nil {
					// the non-nil branch of the later test must fail for good
					r2 := dominatedRegion(fn, t.NonNil)
					if len(t.NonNil.Preds) != 1 {
						return false
					}
					okRet := false
					for _, r := range returnsOf(fn) {
						if !r2[r.Block()] || len(r.Results) == 0 {
							continue
						}
						last := r.Results[len(r.Results)-1]
						if t.Compared != nil && strip(last) == strip(t.Compared) {
							okRet = true
							continue
						}
						if good, _ := provablyNonNilError(fn, last, eAliases); !good && !cellKnownNonNil(fn, last, r) {
							return false
						}
						okRet = true
					}
					for y := range r2 {
						for _, s2 := range y.Succs {
							if !r2[s2] {
								return false
							}
						}
					}
					if !okRet {
						return false
					}
					continue
				}
				if len(b.Succs) == 0 {
					return false
				}
				work = append(work, b.Succs...)
			}
		}
	}
	return true
}

func provablyNonNilErrorOrAlias(fn *ssa.Function, v ssa.Value, eAliases map[ssa.Value]bool) (bool, string) {
	return provablyNonNilError(fn, v, eAliases)
}

// flowsToReturn: e (or alias) is directly an operand of a Return (e.g. `return f()`), or of a
// store to a named result.
func flowsToReturn(fn *ssa.Function, eAliases map[ssa.Value]bool) bool {
	for _, r := range returnsOf(fn) {
		for _, res := range r.Results {
			hit := false
			valueOrigins(fn, res, func(root ssa.Value) {
				if eAliases[root] {
					hit = true
				}
			})
			if hit {
				return true
			}
		}
	}
	return false
}

// nilValueOnError verifies for function f (value result 0, error result last) that every return
// whose error may be non-nil returns a nil value, and every return of a possibly non-nil value
// returns nil error — i.e. "v == nil" is implied by "err != nil".
func nilValueOnError(f *ssa.Function) bool {
	if f == nil || f.Blocks == nil {
		return false
	}
	for _, r := range returnsOf(f) {
		if len(r.Results) < 2 {
			return false
		}
		v, e := r.Results[0], r.Results[len(r.Results)-1]
		if isNilConst(strip(e)) {
			continue
		}
		if !isNilConst(strip(v)) {
			return false
		}
	}
	return true
}

func runErrflow(c *Ctx, cfg errflowCfg) {
	errflowIsStep = cfg.classK
	defer func() { errflowIsStep = nil }()
	for _, fn := range cfg.scope {
		ord := map[string]int{}
		for _, b := range fn.Blocks {
			for _, in := range b.Instrs {
				// bare go/defer of error-returning class-K calls are drops as well
				if d, ok := in.(*ssa.Defer); ok {
					_ = d
					continue
				}
				call, ok := in.(*ssa.Call)
				if !ok {
					continue
				}
				sig := call.Call.Signature()
				res := sig.Results()
				if res.Len() == 0 || !isErrorType(res.At(res.Len()-1).Type()) {
					continue
				}
				if !cfg.classK(fn, call) {
					continue
				}
				id := calleeID(call)
				short := shortID(id)
				ord[short]++
				key := FuncName(fn) + ":" + short + "#" + fmt.Sprint(ord[short])
				if cfg.keyOf != nil {
					key = cfg.keyOf(fn, call, ord[short])
				}
				if why, ok := cfg.except[key]; ok {
					c.OK(cfg.rule, key, c.Pos(call.Pos()), "exception (one named site): "+why)
					continue
				}
				strict := cfg.strict != nil && cfg.strict(fn, call)
				errs := errResults(call)
				pos := c.Pos(call.Pos())
				if len(errs) == 0 {
					// error result not even extracted: `v, _ := f()` or bare call
					if cfg.valueConversion[id] && res.Len() >= 2 {
						if okc, why := checkValueConversion(c, fn, call); okc {
							c.OK(cfg.rule, key, pos, "error of "+short+" is discarded but converted through the nil value: the nil branch returns a non-nil error")
						} else {
							c.Bad(cfg.rule, key, pos, "error of "+short+" is discarded (`_`) and "+why)
						}
						continue
					}
					c.Bad(cfg.rule, key, pos, "error result of "+short+" is discarded (bare call or `_`)")
					continue
				}
				for _, e := range errs {
					al := aliasesForward(fn, e)
					tests := nilTestsOf(fn, e)
					if len(tests) == 0 {
						if flowsToReturn(fn, al) {
							c.OK(cfg.rule, key, pos, "error of "+short+" is returned directly")
							continue
						}
						if passedToClosureResult(fn, al) {
							c.OK(cfg.rule, key, pos, "error of "+short+" is handed to a local failure helper")
							continue
						}
						if cfg.valueConversion[id] && res.Len() >= 2 {
							if okc, why := checkValueConversion(c, fn, call); okc {
								c.OK(cfg.rule, key, pos, "error of "+short+" is not tested but converted through the nil value: the nil branch returns a non-nil error")
							} else {
								c.Bad(cfg.rule, key, pos, "error of "+short+" is never tested and "+why)
							}
							continue
						}
						c.Bad(cfg.rule, key, pos, "error result of "+short+" is never tested nor returned (assigned and overwritten or ignored)")
						continue
					}
					if strict {
						if at, dropped := errorDroppedOnSomePath(fn, call, e); dropped {
							c.Bad(cfg.rule, key, pos, "error of "+short+" is tested on some paths but on a path through "+at+" it is overwritten or the function returns without it having been looked at: that failure is reported as success")
							continue
						}
					}
					allOK := true
					detail := ""
					for _, t := range tests {
						if good, why := checkErrorBranch(fn, t, al, strict); !good {
							allOK = false
							detail = why
						}
					}
					if allOK {
						c.OK(cfg.rule, key, pos, fmt.Sprintf("error of %s tested at %d site(s); every non-nil branch returns a provably non-nil error", short, len(tests)))
					} else {
						c.Bad(cfg.rule, key, pos, "error of "+short+": "+detail)
					}
				}
			}
		}
	}
}

func passedToClosureResult(fn *ssa.Function, al map[ssa.Value]bool) bool {
	return false
}

// returnsItsParam: g (a local closure, or a helper the reference tree does not have) hands its idx-th
// parameter back as its last result on every return — `fail := func(err error) error { log; return err }`.
func returnsItsParam(g *ssa.Function, idx int) bool {
	if g == nil || len(g.Blocks) == 0 || idx < 0 || idx >= len(g.Params) {
		return false
	}
	rets := returnsOf(g)
	if len(rets) == 0 {
		return false
	}
	for _, r := range rets {
		if len(r.Results) == 0 {
			return false
		}
		ok := true
		n := 0
		valueOrigins(g, r.Results[len(r.Results)-1], func(root ssa.Value) {
			n++
			if root != ssa.Value(g.Params[idx]) {
				ok = false
			}
		})
		if !ok || n == 0 {
			return false
		}
	}
	return true
}

// checkValueConversion: `v, _ := callee(...)`; every nil test of v must, on the nil edge, return a
// provably non-nil error (strictly), and the callee(s) must return nil value with every error.
func checkValueConversion(c *Ctx, fn *ssa.Function, call *ssa.Call) (bool, string) {
	v := resultOf(call, 0)
	if v == nil {
		return false, "the value result is unused too"
	}
	// callee implementations
	for _, impl := range c.implementations(call) {
		if !nilValueOnError(impl) {
			return false, "callee " + FuncName(impl) + " may return a non-nil value together with an error"
		}
	}
	tests := nilTestsOf(fn, v)
	if len(tests) == 0 {
		return false, "the value is never compared with nil"
	}
	for _, t := range tests {
		// on the nil edge (value nil <= possibly error) the function must return a non-nil error
		region := dominatedRegion(fn, t.NilSucc)
		if len(t.NilSucc.Preds) != 1 {
			return false, "the nil branch is shared with normal flow"
		}
		saw := false
		for _, r := range returnsOf(fn) {
			if !region[r.Block()] {
				continue
			}
			saw = true
			last := r.Results[len(r.Results)-1]
			if !isErrorType(last.Type()) {
				return false, "nil branch does not return an error"
			}
			if good, w := provablyNonNilError(fn, last, map[ssa.Value]bool{}); !good {
				return false, "on the nil-value branch the function " + w
			}
		}
		for x := range region {
			for _, s := range x.Succs {
				if !region[s] {
					return false, "the nil-value branch continues normally, so a failed read is indistinguishable from an absent key"
				}
			}
		}
		if !saw {
			return false, "the nil-value branch never returns"
		}
	}
	return true, ""
}

// implementations returns the possible concrete callees of a call: the static callee, or for an
// interface method call every repo type implementing the interface.
func (c *Ctx) implementations(call ssa.CallInstruction) []*ssa.Function {
	cc := call.Common()
	if f := cc.StaticCallee(); f != nil {
		return []*ssa.Function{f}
	}
	if !cc.IsInvoke() {
		return nil
	}
	iface, ok := cc.Value.Type().Underlying().(*types.Interface)
	if !ok {
		return nil
	}
	var out []*ssa.Function
	for path, p := range c.SSA {
		if !strings.HasPrefix(path, repoMod) {
			continue
		}
		for _, m := range p.Members {
			t, ok := m.(*ssa.Type)
			if !ok {
				continue
			}
			for _, T := range []types.Type{t.Type(), types.NewPointer(t.Type())} {
				if _, isI := T.Underlying().(*types.Interface); isI {
					continue
				}
				if types.Implements(T, iface) {
					sel := c.Prog.MethodSets.MethodSet(T).Lookup(cc.Method.Pkg(), cc.Method.Name())
					if sel != nil {
						if f := c.Prog.MethodValue(sel); f != nil {
							// prefer the declared (non-wrapper) function
							out = append(out, f)
						}
					}
					break
				}
			}
		}
	}
	return out
}

func shortID(id string) string {
	id = strings.ReplaceAll(id, repoMod+"/", "")
	id = strings.ReplaceAll(id, "github.com/massnetorg/mass-core/", "mass-core/")
	id = strings.ReplaceAll(id, "github.com/syndtr/goleveldb/", "")
	return id
}

// errorDroppedOnSomePath: path-sensitive liveness of one error value. Starting after the call, the
// error is tracked through phi edges, local variable cells (store / load / overwrite) and interface
// conversions; a path is satisfied when the error is compared, returned, passed to a call or stored
// into a variable that escapes to a closure. A path that reaches a return, or loses every name and
// cell holding the error (overwritten), without such a use drops the error.
func errorDroppedOnSomePath(fn *ssa.Function, call *ssa.Call, e ssa.Value) (string, bool) {
	escaping := func(cell ssa.Value) bool {
		a, ok := cell.(*ssa.Alloc)
		if !ok {
			return true // fields, globals, captured variables: someone else may look at it
		}
		if refs := a.Referrers(); refs != nil {
			for _, r := range *refs {
				switch r.(type) {
				case *ssa.MakeClosure:
					return true
				case *ssa.Store, *ssa.UnOp:
				default:
					if _, isDbg := r.(*ssa.DebugRef); !isDbg {
						if st, isSt := r.(*ssa.Store); !isSt || st.Addr != ssa.Value(a) {
							return true
						}
					}
				}
			}
		}
		return false
	}
	type state struct {
		b     *ssa.BasicBlock
		start int
		names map[ssa.Value]bool
		cells map[ssa.Value]bool
	}
	keyOf := func(st state) string {
		var ks []string
		for v := range st.names {
			ks = append(ks, "n"+v.Name())
		}
		for v := range st.cells {
			ks = append(ks, "c"+v.Name())
		}
		sort.Strings(ks)
		return fmt.Sprintf("%d|%d|%s", st.b.Index, st.start, strings.Join(ks, ","))
	}
	startIdx := 0
	for i, in := range call.Block().Instrs {
		if in == ssa.Instruction(call) {
			startIdx = i + 1
		}
	}
	init := state{call.Block(), startIdx, map[ssa.Value]bool{e: true}, map[ssa.Value]bool{}}
	// e may be an Extract placed after the call: names are values, position does not matter
	seen := map[string]bool{}
	work := []state{init}
	steps := 0
	for len(work) > 0 {
		st := work[len(work)-1]
		work = work[:len(work)-1]
		k := keyOf(st)
		if seen[k] {
			continue
		}
		seen[k] = true
		steps++
		if steps > 4000 {
			return "", false // give up quietly: the existing rules still apply
		}
		names, cells := map[ssa.Value]bool{}, map[ssa.Value]bool{}
		for v := range st.names {
			names[v] = true
		}
		for v := range st.cells {
			cells[v] = true
		}
		satisfied := false
		for i := st.start; i < len(st.b.Instrs) && !satisfied; i++ {
			in := st.b.Instrs[i]
			switch x := in.(type) {
			case *ssa.Phi, *ssa.DebugRef:
				continue
			case *ssa.Store:
				if names[x.Val] {
					if escaping(x.Addr) {
						satisfied = true
					} else {
						cells[x.Addr] = true
					}
				} else if cells[x.Addr] {
					delete(cells, x.Addr)
				}
				continue
			case *ssa.UnOp:
				if x.Op == token.MUL && cells[x.X] {
					names[x] = true
				}
				continue
			case *ssa.MakeInterface:
				if names[x.X] {
					names[x] = true
				}
				continue
			case *ssa.ChangeInterface:
				if names[x.X] {
					names[x] = true
				}
				continue
			case *ssa.Extract:
				continue
			case *ssa.Return:
				for _, r := range x.Results {
					if names[r] {
						satisfied = true
					}
				}
				if !satisfied {
					return "the return at line " + fmt.Sprint(fn.Prog.Fset.Position(x.Pos()).Line), true
				}
				continue
			}
			for _, op := range in.Operands(nil) {
				if op != nil && *op != nil && names[*op] {
					satisfied = true
				}
			}
		}
		if satisfied {
			continue
		}
		if len(names) == 0 && len(cells) == 0 {
			return "block " + fmt.Sprint(st.b.Index) + " (overwritten)", true
		}
		if len(st.b.Succs) == 0 {
			continue // panic/exit blocks
		}
		for _, s := range st.b.Succs {
			pi := -1
			for i, p := range s.Preds {
				if p == st.b {
					pi = i
				}
			}
			nn := map[ssa.Value]bool{}
			for v := range names {
				// an SSA value stays available where its definition dominates
				if vi, ok := v.(ssa.Instruction); ok && vi.Block() != nil && vi.Block().Dominates(s) {
					nn[v] = true
				}
			}
			for _, in := range s.Instrs {
				ph, ok := in.(*ssa.Phi)
				if !ok {
					break
				}
				if pi >= 0 && pi < len(ph.Edges) && names[ph.Edges[pi]] {
					nn[ph] = true
				}
			}
			nc := map[ssa.Value]bool{}
			for v := range cells {
				nc[v] = true
			}
			if len(nn) == 0 && len(nc) == 0 {
				return "the edge into block " + fmt.Sprint(s.Index) + " (value no longer held by any variable)", true
			}
			work = append(work, state{s, 0, nn, nc})
		}
	}
	return "", false
}
