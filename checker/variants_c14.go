package main

func init() {
	variants["C14"] = []variant{
		{Name: "ListKeystoreNames without the manager lock", Kill: true, Rule: "C14-GUARD", File: fMgr,
			Old: "func (kmc *KeystoreManagerForPoC) ListKeystoreNames() []string {\n\tkmc.mu.Lock()\n\tdefer kmc.mu.Unlock()\n", New: "func (kmc *KeystoreManagerForPoC) ListKeystoreNames() []string {\n"},
		{Name: "NextAddresses writes a.addrs directly (manager lock only)", Kill: true, Rule: "C14-GUARD", File: fMgr,
			Old: "\t\t\treturn nil, err\n\t\t}\n\t\treturn managedAddresses, nil\n", New: "\t\t\treturn nil, err\n\t\t}\n\t\tfor _, ma := range managedAddresses {\n\t\t\taddrManager.addrs[ma.address] = ma\n\t\t}\n\t\treturn managedAddresses, nil\n"},
		{Name: "updateManagedAddress without a.mu again", Kill: true, Rule: "C14-GUARD", File: fAddrMgr,
			Old: "managedAddresses []*ManagedAddress) error {\n\ta.mu.Lock()\n\tdefer a.mu.Unlock()\n", New: "managedAddresses []*ManagedAddress) error {\n"},
		{Name: "GenerateNewPublicKey without the manager lock again", Kill: true, Rule: "C14-GUARD", File: fMgr,
			Old: "GenerateNewPublicKey() (*pocec.PublicKey, uint32, error) {\n\tkmc.mu.Lock()\n\tdefer kmc.mu.Unlock()\n", New: "GenerateNewPublicKey() (*pocec.PublicKey, uint32, error) {\n"},
		{Name: "new unlocked accessor of the next external index", Kill: true, Rule: "C14-GUARD", File: fAddrMgr,
			Old: "func (a *AddrManager) Name() string {", New: "func (a *AddrManager) NextIndexV() uint32 {\n\treturn a.branchInfo.nextExternalIndex\n}\n\nfunc (a *AddrManager) Name() string {"},
		{Name: "ChangeRemark stores the remark under the wrong keystore's lock", Kill: true, Rule: "C14-GUARD", File: fMgr,
			Old: "\t\taddrManager.mu.Lock()\n\t\taddrManager.remark = newRemark\n\t\taddrManager.mu.Unlock()\n",
			New: "\t\tfor _, other := range kmc.managedKeystores {\n\t\t\tother.mu.Lock()\n\t\t\taddrManager.remark = newRemark\n\t\t\tother.mu.Unlock()\n\t\t\tbreak\n\t\t}\n"},
		{Name: "Unlock releases the manager lock before publishing the flag", Kill: true, Rule: "C14-GUARD", File: fMgr,
			Old: "\tkmc.unlocked = true\n\treturn nil\n}", New: "\tkmc.mu.Unlock()\n\tkmc.unlocked = true\n\tkmc.mu.Lock()\n\treturn nil\n}"},

		{Name: "Lock clears the flag in a defer registered before the mutex is taken (runs after the unlock)", Kill: true, Rule: "C14-GUARD", File: fMgr,
			Old: "func (kmc *KeystoreManagerForPoC) Lock() {\n\tkmc.mu.Lock()\n\tdefer kmc.mu.Unlock()\n\n\tfor _, addrManager := range kmc.managedKeystores {\n\t\taddrManager.clearPrivKeys()\n\t}\n\tkmc.unlocked = false\n}",
			New: "func (kmc *KeystoreManagerForPoC) Lock() {\n\tdefer func() {\n\t\tkmc.unlocked = false\n\t}()\n\tkmc.mu.Lock()\n\tdefer kmc.mu.Unlock()\n\n\tfor _, addrManager := range kmc.managedKeystores {\n\t\taddrManager.clearPrivKeys()\n\t}\n}"},
		{Name: "Lock clears the flag in a defer registered after the deferred unlock (runs under the lock)", Kill: false, File: fMgr,
			Old: "func (kmc *KeystoreManagerForPoC) Lock() {\n\tkmc.mu.Lock()\n\tdefer kmc.mu.Unlock()\n\n\tfor _, addrManager := range kmc.managedKeystores {\n\t\taddrManager.clearPrivKeys()\n\t}\n\tkmc.unlocked = false\n}",
			New: "func (kmc *KeystoreManagerForPoC) Lock() {\n\tkmc.mu.Lock()\n\tdefer kmc.mu.Unlock()\n\tdefer func() {\n\t\tkmc.unlocked = false\n\t}()\n\n\tfor _, addrManager := range kmc.managedKeystores {\n\t\taddrManager.clearPrivKeys()\n\t}\n}"},
		{Name: "Remarks with explicit unlock instead of defer", Kill: false, File: fAddrMgr,
			Old: "\ta.mu.Lock()\n\tdefer a.mu.Unlock()\n\treturn a.remark", New: "\ta.mu.Lock()\n\tr := a.remark\n\ta.mu.Unlock()\n\treturn r"},
		{Name: "ListAddresses additionally called under the manager lock", Kill: false, File: fMgr,
			Old: "\tlist := make([]string, 0)\n\tfor id := range kmc.managedKeystores {\n\t\tlist = append(list, id)\n", New: "\tlist := make([]string, 0)\n\tfor id, am := range kmc.managedKeystores {\n\t\t_ = am.ListAddresses()\n\t\tlist = append(list, id)\n"},
		{Name: "remark refresh extracted into a locked helper", Kill: false, File: fMgr,
			Old:   "\t\taddrManager.mu.Lock()\n\t\taddrManager.remark = newRemark\n\t\taddrManager.mu.Unlock()\n",
			New:   "\t\taddrManager.setRemarkV(newRemark)\n",
			File2: fMgr, Old2: "func (kmc *KeystoreManagerForPoC) ChangeRemark(", New2: "func (a *AddrManager) setRemarkV(r string) {\n\ta.mu.Lock()\n\tdefer a.mu.Unlock()\n\ta.remark = r\n}\n\nfunc (kmc *KeystoreManagerForPoC) ChangeRemark("},
	}
}
