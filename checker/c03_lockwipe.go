package main

import (
	"strings"

	"golang.org/x/tools/go/ssa"
)

// checkLockWipesUnconditionally (C03-LOCKWIPE): Lock wipes every keystore whatever the manager's own
// `unlocked` flag says. The flag is set only at the end of a fully successful Unlock; an Unlock that
// fails part-way leaves the keystores it already processed holding their secrets while the flag is still
// false, and Lock is the only thing that cleans that up. No clearPrivKeys call of Lock may therefore be
// control-dependent on a test of the flag (an "already locked, nothing to wipe" early return — seed
// C03-r9a — or a wipe wrapped into `if kmc.unlocked { … }`).
func checkLockWipesUnconditionally(c *Ctx, rule string) {
	F := c.MustFn(rule, "poc/wallet/keystore", "(*KeystoreManagerForPoC).Lock")
	if F == nil {
		return
	}
	key := "Lock:wipe-not-conditional-on-the-unlocked-flag"
	readsFlag := func(v ssa.Value) bool {
		for d := 0; d < 4 && v != nil; d++ {
			u, ok := v.(*ssa.UnOp)
			if !ok {
				return false
			}
			if fa, ok := u.X.(*ssa.FieldAddr); ok {
				return structFieldName(fa.X.Type(), fa.Field) == "unlocked" && strings.HasSuffix(fa.X.Type().String(), ".KeystoreManagerForPoC")
			}
			v = u.X // !flag
		}
		return false
	}
	var wipes []ssa.Instruction
	for _, g := range append([]*ssa.Function{F}, newHelpersOf(F)...) {
		allInstrsShallow(g, func(in ssa.Instruction) {
			if g == F && strings.HasSuffix(calleeID(in), ".clearPrivKeys") {
				wipes = append(wipes, in)
			} else if g == F {
				if ci, ok := in.(ssa.CallInstruction); ok {
					if h := ci.Common().StaticCallee(); h != nil && gNewFuncs[h] && len(callsInShallow(h, "(*"+tAddrMgr+").clearPrivKeys")) > 0 {
						wipes = append(wipes, in)
					}
				}
			}
		})
	}
	if len(wipes) == 0 {
		c.Bad(rule, key, c.Pos(F.Pos()), "reason=anchor-missing: clearPrivKeys call in Lock")
		return
	}
	for _, b := range F.Blocks {
		if len(b.Instrs) == 0 || len(b.Succs) != 2 {
			continue
		}
		ifi, ok := b.Instrs[len(b.Instrs)-1].(*ssa.If)
		if !ok || !readsFlag(ifi.Cond) {
			continue
		}
		for _, s := range b.Succs {
			if len(s.Preds) != 1 {
				continue
			}
			for _, w := range wipes {
				if s.Dominates(w.Block()) {
					c.Bad(rule, key, c.Pos(ifi.Cond.Pos()), "Lock wipes the keystores only on one side of a test of the manager's unlocked flag: after an Unlock that failed part-way (flag still false, some keystores already unlocked) Lock returns without wiping — private keys, the key-decrypting key and the passphrase hash stay in memory while the wallet reports locked")
					return
				}
			}
		}
	}
	c.OK(rule, key, c.Pos(wipes[0].Pos()), "no clearPrivKeys call of Lock is control-dependent on the unlocked flag")
}
