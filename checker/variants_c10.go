package main

const fPlot = "poc/engine/massdb/massdb.v1/plot.go"
const fHashMap = "poc/engine/massdb/massdb.v1/hashmap.go"
const fMassDBV1 = "poc/engine/massdb/massdb.v1/massdb.v1.go"
const fCapWS = "poc/engine/spacekeeper/capacity/workspace.go"
const fMinerStrategy = "poc/engine/pocminer/miner/strategy.go"

func init() {
	variants["C10"] = []variant{
		{Name: "data Sync before the checkpoint deleted (pass A)", Kill: true, Rule: "C10-ORDER", File: fPlot,
			Old: "\t\tif err := hmA.data.Sync(); err != nil { // write pre-plot data first\n\t\t\treturn err\n\t\t}\n", New: ""},
		{Name: "pass B syncs map A's file instead of its own", Kill: true, Rule: "C10-ORDER", File: fPlot,
			Old: "if err := hmB.data.Sync(); err != nil { // write plot data first", New: "if err := hmA.data.Sync(); err != nil { // write plot data first"},
		{Name: "checkpoint Sync error ignored again", Kill: true, Rule: "C10-ERR", File: fPlot,
			Old: "\t\tif err := hmB.data.Sync(); err != nil { // then update checkpoint\n\t\t\treturn err\n\t\t}\n", New: "\t\thmB.data.Sync() // then update checkpoint\n"},
		{Name: "UpdateCheckpoint drops the WriteAt error again", Kill: true, Rule: "C10-ERR", File: fHashMap,
			Old: "\t_, err := hm.data.WriteAt(checkpointByte[:], PosCheckpoint)\n\treturn err\n", New: "\thm.data.WriteAt(checkpointByte[:], PosCheckpoint)\n\treturn nil\n"},
		{Name: "map A removed before plotWork ran", Kill: true, Rule: "C10-REMOVE", File: fPlot,
			Old: "\tif err = mdb.plotWork(cache); err != nil {", New: "\tos.Remove(mdb.filePathA)\n\tif err = mdb.plotWork(cache); err != nil {"},
		{Name: "map A removed although plotWork failed", Kill: true, Rule: "C10-REMOVE", File: fPlot,
			Old: "\t\tlogging.CPrint(logging.ERROR, \"plot fail\",", New: "\t\tos.Remove(mdb.filePathA)\n\t\tlogging.CPrint(logging.ERROR, \"plot fail\","},
		{Name: "window written at the stored checkpoint's offset, not the window's", Kill: true, Rule: "C10-ORDER", File: fPlot,
			Old: "int64(hmB.offset)+int64(startPoint)*int64(recordSize)*4", New: "int64(hmB.offset)+int64(checkpoint)*int64(recordSize)*4"},
		{Name: "final checkpoint of pass B skipped", Kill: true, Rule: "C10-ORDER", File: fPlot,
			Old: "\thmB.checkpoint = half\n\tif err := hmB.UpdateCheckpoint(); err != nil {\n\t\treturn err\n\t}\n\treturn hmB.data.Sync()", New: "\treturn hmB.data.Sync()"},
		{Name: "early success return inside the window loop", Kill: true, Rule: "C10-ORDER", File: fPlot,
			Old: "\t\tendPoint := startPoint + calcWindowSize() // slide windows defined by [start, end)\n\t\tdoubleStartPoint", New: "\t\tendPoint := startPoint + calcWindowSize() // slide windows defined by [start, end)\n\t\tif endPoint == startPoint {\n\t\t\treturn nil\n\t\t}\n\t\tdoubleStartPoint"},
		{Name: "HashMapB reports plotted from any non-zero checkpoint", Kill: true, Rule: "C10-READY", File: fHashMap,
			Old: "\treturn checkpoint >= hm.volume/2, checkpoint", New: "\treturn checkpoint > 0, checkpoint"},
		{Name: "workspace Ready derived from the pre-plot flag", Kill: true, Rule: "C10-READY", File: fCapWS,
			Old: "if _, plotted, _ := mdb.Progress(); plotted {", New: "if plotted, _, _ := mdb.Progress(); plotted {"},
		{Name: "OpenDB loads map A only when B is final", Kill: true, Rule: "C10-READY", File: fMassDBV1,
			Old: "if plotted, _ := hmB.Progress(); !plotted {", New: "if plotted, _ := hmB.Progress(); plotted {"},
		{Name: "MassDBV1.Progress reports plotted from map A's flag", Kill: true, Rule: "C10-READY", File: fMassDBV1,
			Old: "plotted, progB := mdb.HashMapB.Progress()", New: "_, progB := mdb.HashMapB.Progress()\n\t\tplotted := prePlotted"},

		{Name: "logging moved between the two syncs", Kill: false, File: fPlot,
			Old: "\t\thmA.checkpoint = startPoint + 1\n", New: "\t\tlogging.CPrint(logging.DEBUG, \"window durable\", logging.LogFormat{\"start_point\": startPoint})\n\t\thmA.checkpoint = startPoint + 1\n"},
		{Name: "final Sync as statement plus return nil", Kill: false, File: fPlot,
			Old: "\treturn hmA.data.Sync()\n", New: "\tif err := hmA.data.Sync(); err != nil {\n\t\treturn err\n\t}\n\treturn nil\n"},
		{Name: "Sync extracted into a HashMap helper", Kill: false, File: fPlot,
			Old:   "\t\tif err := hmA.data.Sync(); err != nil { // write pre-plot data first",
			New:   "\t\tif err := hmA.syncV(); err != nil { // write pre-plot data first",
			File2: fHashMap, Old2: "func (hm *HashMap) Close() error {", New2: "func (hm *HashMap) syncV() error {\n\treturn hm.data.Sync()\n}\n\nfunc (hm *HashMap) Close() error {"},
		{Name: "window size computed into a local before use", Kill: false, File: fPlot,
			Old: "\t\tendPoint := startPoint + calcWindowSize() // slide windows defined by [start, end)\n\t\tlogging.CPrint(logging.DEBUG, \"assign hashMapA",
			New: "\t\twsz := calcWindowSize()\n\t\tendPoint := startPoint + wsz // slide windows defined by [start, end)\n\t\tlogging.CPrint(logging.DEBUG, \"assign hashMapA"},
		{Name: "plotter tests wouldMining before completeness (seed C10-r2c)", Kill: true, Rule: "C10-KEEPER", File: fCapPlotter,
			Old: "\t\tif ws.Progress() < 100 {\n\t\t\tchangeState(engine.Plotting, engine.Registered)\n\t\t} else {\n\t\t\tif qws.wouldMining {\n\t\t\t\tchangeState(engine.Plotting, engine.Mining)\n\t\t\t} else {\n\t\t\t\tchangeState(engine.Plotting, engine.Ready)\n\t\t\t}\n\t\t}\n",
			New: "\t\tswitch {\n\t\tcase qws.wouldMining:\n\t\t\tchangeState(engine.Plotting, engine.Mining)\n\t\tcase ws.Progress() < 100:\n\t\t\tchangeState(engine.Plotting, engine.Registered)\n\t\tdefault:\n\t\t\tchangeState(engine.Plotting, engine.Ready)\n\t\t}\n"},
	}
	variants["C07"] = []variant{
		{Name: "GetProof skips the verification result when filter is off", Kill: true, Rule: "C07-VERIFY", File: fMassDBV1,
			Old: "\terr = poc.VerifyProof(proof, mdb.pubKeyHash, challenge, filter)\n\tif err != nil {", New: "\terr = poc.VerifyProof(proof, mdb.pubKeyHash, challenge, filter)\n\tif err != nil && filter {"},
		{Name: "GetProof verifies against the challenge-independent zero hash", Kill: true, Rule: "C07-VERIFY", File: fMassDBV1,
			Old: "poc.VerifyProof(proof, mdb.pubKeyHash, challenge, filter)", New: "poc.VerifyProof(proof, mdb.pubKeyHash, pocutil.Hash{}, filter)"},
		{Name: "GetProof returns a fresh proof object, not the verified one", Kill: true, Rule: "C07-VERIFY", File: fMassDBV1,
			Old: "\treturn proof, nil\n}\n\nfunc (mdb *MassDBV1) Progress()", New: "\treturn &poc.DefaultProof{X: xp, XPrime: x, BL: bl}, nil\n}\n\nfunc (mdb *MassDBV1) Progress()"},
		{Name: "record pair read with Read again (short reads ignored)", Kill: true, Rule: "C07-READ", File: fPlot,
			Old: "if _, err := io.ReadFull(bufRdA, bs); err != nil {", New: "if _, err := bufRdA.Read(bs); err != nil && err != io.EOF {"},
		{Name: "miner keeps the proofs that failed", Kill: true, Rule: "C07-FORWARD", File: fMinerStrategy,
			Old: "\t\tif proofs[i].Error == nil {", New: "\t\tif proofs[i].Error != nil {"},

		{Name: "CutHash computed into a local first", Kill: false, File: fMassDBV1,
			Old: "\tx, xp, err := mdb.HashMapB.Get(pocutil.CutHash(challenge, bl))", New: "\tz := pocutil.CutHash(challenge, bl)\n\tx, xp, err := mdb.HashMapB.Get(z)"},
		{Name: "key hash recomputed from the DB's own public key", Kill: false, File: fMassDBV1,
			Old: "poc.VerifyProof(proof, mdb.pubKeyHash, challenge, filter)", New: "poc.VerifyProof(proof, pocutil.PubKeyHash(mdb.pubKey), challenge, filter)"},
		{Name: "ReadFull byte count kept and compared", Kill: false, File: fPlot,
			Old: "if _, err := io.ReadFull(bufRdA, bs); err != nil {", New: "if n, err := io.ReadFull(bufRdA, bs); err != nil || n != len(bs) {"},
		{Name: "second pass skips the pairs below the window start (seed C07-r2b)", Kill: true, Rule: "C07-SCAN", File: "poc/engine/massdb/massdb.v1/plot.go",
			Old: "\t\tif _, err := hmA.data.Seek(int64(hmA.offset), 0); err != nil {\n", New: "\t\tif _, err := hmA.data.Seek(int64(hmA.offset)+int64(startPoint)*int64(recordSize)*2, 0); err != nil {\n",
			File2: "poc/engine/massdb/massdb.v1/plot.go", Old2: "\t\tfor y := pocutil.PoCValue(0); y < half; y++ {\n\t\t\tif _, err := io.ReadFull(bufRdA, bs); err != nil {", New2: "\t\tfor y := startPoint; y < half; y++ {\n\t\t\tif _, err := io.ReadFull(bufRdA, bs); err != nil {"},
		{Name: "HashMapB.Get returns slices of a scratch buffer held on the map (seed C07-r2c)", Kill: true, Rule: "C07-OWN", File: "poc/engine/massdb/massdb.v1/hashmap.go",
			Old: "type HashMapB struct {\n\tHashMap\n}", New: "type HashMapB struct {\n\tHashMap\n\tscratch [16]byte\n}",
			File2: "poc/engine/massdb/massdb.v1/hashmap.go", Old2: "func (hm *HashMapB) Get(key pocutil.PoCValue) ([]byte, []byte, error) {\n\tvar recordSize = hm.recordSize\n\tvar proof [16]byte\n", New2: "func (hm *HashMapB) Get(key pocutil.PoCValue) ([]byte, []byte, error) {\n\tvar recordSize = hm.recordSize\n\tvar proof = hm.scratch[:]\n"},
		{Name: "HashMapB.Get allocates its buffer with make", Kill: false, File: "poc/engine/massdb/massdb.v1/hashmap.go",
			Old: "func (hm *HashMapB) Get(key pocutil.PoCValue) ([]byte, []byte, error) {\n\tvar recordSize = hm.recordSize\n\tvar proof [16]byte\n", New: "func (hm *HashMapB) Get(key pocutil.PoCValue) ([]byte, []byte, error) {\n\tvar recordSize = hm.recordSize\n\tvar proof = make([]byte, 16)\n"},
		{Name: "HashMapB.Get returns appended copies", Kill: false, File: "poc/engine/massdb/massdb.v1/hashmap.go",
			Old: "\treturn proof[:recordSize], proof[recordSize : recordSize*2], nil\n}\n\nfunc (hm *HashMapB) Set", New: "\treturn append([]byte(nil), proof[:recordSize]...), append([]byte(nil), proof[recordSize:recordSize*2]...), nil\n}\n\nfunc (hm *HashMapB) Set"},
	}
}

func init() {
	variants["C10"] = append(variants["C10"],
		variant{Name: "pass B checkpoint recorded one past the window end", Kill: true, Rule: "C10-ORDER", File: fPlot,
			Old: "\t\thmB.checkpoint = startPoint + 1\n", New: "\t\thmB.checkpoint = endPoint + 1\n"},
		variant{Name: "pass B checkpoint recorded at the window end", Kill: false, File: fPlot,
			Old: "\t\thmB.checkpoint = startPoint + 1\n", New: "\t\thmB.checkpoint = endPoint\n"},
		variant{Name: "stop seen during the window flush reported as success", Kill: true, Rule: "C10-STOP", File: "poc/engine/massdb/massdb.v1/cache.go",
			Old: "\t\t\t\treturn int(count), ErrStopPlotting\n", New: "\t\t\t\treturn int(count), err\n"},
		variant{Name: "cache re-created only when the window size changes", Kill: true, Rule: "C10-FRESH", File: fPlot,
			Old: "\tcache.Update(requiredMem)\n", New: "\tif uint64(cache.Len()) != requiredMem {\n\t\tcache.Update(requiredMem)\n\t}\n"},
		variant{Name: "MemCache.Update skips reallocation for an equal size", Kill: true, Rule: "C10-FRESH", File: "poc/engine/massdb/massdb.v1/cache.go",
			Old: "func (cache *MemCache) Update(size uint64) {\n", New: "func (cache *MemCache) Update(size uint64) {\n\tif uint64(cache.size) == size {\n\t\treturn\n\t}\n"},
	)
	variants["C07"] = append(variants["C07"],
		variant{Name: "MemCache.Update skips reallocation for an equal size", Kill: true, Rule: "C07-FRESH", File: "poc/engine/massdb/massdb.v1/cache.go",
			Old: "func (cache *MemCache) Update(size uint64) {\n", New: "func (cache *MemCache) Update(size uint64) {\n\tif uint64(cache.size) == size {\n\t\treturn\n\t}\n"},
	)
}

func init() {
	variants["C07"] = append(variants["C07"],
		variant{Name: "pre-plot pass maps the boundary value y == half to the upper branch's slot", Kill: true, Rule: "C07-SIBLING", File: fPlot,
			Old: "\t\t\tif y < half {\n\t\t\t\ty = y * 2\n", New: "\t\t\tif y <= half {\n\t\t\t\ty = y * 2\n"},
		variant{Name: "slot mapping written with the branches exchanged", Kill: false, File: fPlot,
			Old: "\t\t\tif y < half {\n\t\t\t\ty = y * 2\n\t\t\t} else {\n\t\t\t\ty = pocutil.FlipValue(y, bl)*2 + 1\n\t\t\t}", New: "\t\t\tif !(y < half) {\n\t\t\t\ty = pocutil.FlipValue(y, bl)*2 + 1\n\t\t\t} else {\n\t\t\t\ty = y * 2\n\t\t\t}"},
	)
}
