package main

// Field access extraction: which instructions read or write field f of named struct type T,
// including writes into the map / slice held by the field.

import (
	"go/token"
	"go/types"
	"strings"

	"golang.org/x/tools/go/ssa"
)

type fieldAccess struct {
	In    ssa.Instruction
	Type  string // package-qualified named type, e.g. massnet.org/mass/poc/wallet/keystore.AddrManager
	Field string
	Kind  string // store | load | mapupdate | mapdelete | mapread | copyinto | addr
	Write bool
	Base  ssa.Value // the struct pointer/value the field belongs to
}

func namedStruct(t types.Type) (*types.Named, *types.Struct) {
	if p, ok := t.Underlying().(*types.Pointer); ok {
		t = p.Elem()
	}
	n, ok := t.(*types.Named)
	if !ok {
		return nil, nil
	}
	s, ok := n.Underlying().(*types.Struct)
	if !ok {
		return nil, nil
	}
	return n, s
}

func typeFullName(n *types.Named) string {
	if n.Obj().Pkg() == nil {
		return n.Obj().Name()
	}
	return n.Obj().Pkg().Path() + "." + n.Obj().Name()
}

// fieldOfAddr: if v is (a load of) a FieldAddr / Field, return type, field and base.
func fieldOfAddr(v ssa.Value) (string, string, ssa.Value, bool) {
	switch x := v.(type) {
	case *ssa.FieldAddr:
		n, s := namedStruct(x.X.Type())
		if n == nil {
			return "", "", nil, false
		}
		return typeFullName(n), s.Field(x.Field).Name(), x.X, true
	case *ssa.Field:
		n, s := namedStruct(x.X.Type())
		if n == nil {
			return "", "", nil, false
		}
		return typeFullName(n), s.Field(x.Field).Name(), x.X, true
	}
	return "", "", nil, false
}

// fieldOfValue: v is the *contents* of a field (a load of FieldAddr, or a Field of a struct value).
func fieldOfValue(v ssa.Value) (string, string, ssa.Value, bool) {
	switch x := v.(type) {
	case *ssa.UnOp:
		if x.Op == token.MUL {
			if fa, ok := x.X.(*ssa.FieldAddr); ok {
				return fieldOfAddr(fa)
			}
		}
	case *ssa.Field:
		return fieldOfAddr(x)
	case *ssa.Slice:
		// a[:] of an array field
		if fa, ok := x.X.(*ssa.FieldAddr); ok {
			return fieldOfAddr(fa)
		}
		return fieldOfValue(x.X)
	}
	return "", "", nil, false
}

// fieldAccesses: the accesses in fn and in the helpers fn calls that the reference tree does not have.
func fieldAccesses(fn *ssa.Function) []fieldAccess {
	out := fieldAccessesShallow(fn)
	for _, h := range newHelpersOf(fn) {
		out = append(out, fieldAccessesShallow(h)...)
	}
	return out
}

func fieldAccessesShallow(fn *ssa.Function) []fieldAccess {
	var out []fieldAccess
	add := func(in ssa.Instruction, t, f string, base ssa.Value, kind string, w bool) {
		out = append(out, fieldAccess{In: in, Type: t, Field: f, Kind: kind, Write: w, Base: base})
	}
	allInstrsShallow(fn, func(in ssa.Instruction) {
		switch x := in.(type) {
		case *ssa.Store:
			if t, f, b, ok := fieldOfAddr(x.Addr); ok {
				add(in, t, f, b, "store", true)
			}
			// store through index of an array field: a.salt[i] = ..
			if ia, ok := x.Addr.(*ssa.IndexAddr); ok {
				if t, f, b, ok := fieldOfValue(ia.X); ok {
					add(in, t, f, b, "store", true)
				} else if t, f, b, ok := fieldOfAddr(ia.X); ok {
					add(in, t, f, b, "store", true)
				}
			}
		case *ssa.UnOp:
			if x.Op == token.MUL {
				if t, f, b, ok := fieldOfAddr(x.X); ok {
					add(in, t, f, b, "load", false)
				}
			}
		case *ssa.Field:
			if t, f, b, ok := fieldOfAddr(x); ok {
				add(in, t, f, b, "load", false)
			}
		case *ssa.MapUpdate:
			if t, f, b, ok := fieldOfValue(x.Map); ok {
				add(in, t, f, b, "mapupdate", true)
			}
		case *ssa.Lookup:
			if t, f, b, ok := fieldOfValue(x.X); ok {
				add(in, t, f, b, "mapread", false)
			}
		case *ssa.Range:
			if t, f, b, ok := fieldOfValue(x.X); ok {
				add(in, t, f, b, "mapread", false)
			}
		case ssa.CallInstruction:
			cc := x.Common()
			// the address of a field handed to a callee (zero.Bytea64(&a.hash), rand.Read(a.salt[:])):
			// the callee may write through it
			for _, a := range cc.Args {
				// a slice of an array field handed to a callee (`f(x.buf[:])`): the callee may fill it
				if sl, isSl := a.(*ssa.Slice); isSl {
					if fa, isFA := sl.X.(*ssa.FieldAddr); isFA && !isSyncType(fa.Type()) {
						if t, f, b, ok := fieldOfAddr(fa); ok {
							if g := cc.StaticCallee(); g != nil && len(g.Blocks) > 0 && strings.HasPrefix(pkgOf(g), repoMod) && !paramMayBeWritten(g, argIndexOf(cc, sl), 2) {
								continue
							}
							if bi, isB := cc.Value.(*ssa.Builtin); isB && (bi.Name() == "len" || bi.Name() == "cap" || bi.Name() == "append" || bi.Name() == "copy") {
								continue // builtins are classified below (copy into) or only read
							}
							if readOnlyOfArgs(cc) {
								continue
							}
							add(in, t, f, b, "addrarg", true)
						}
					}
				}
				if fa, ok := a.(*ssa.FieldAddr); ok {
					if isSyncType(fa.Type()) {
						continue
					}
					if t, f, b, ok := fieldOfAddr(fa); ok {
						// a repository callee that provably only reads through the pointer is a reader
						if g := cc.StaticCallee(); g != nil && len(g.Blocks) > 0 && strings.HasPrefix(pkgOf(g), repoMod) && !paramMayBeWritten(g, argIndexOf(cc, fa), 2) {
							continue
						}
						add(in, t, f, b, "addrarg", true)
					}
				}
			}
			if bi, ok := cc.Value.(*ssa.Builtin); ok {
				switch bi.Name() {
				case "delete":
					if t, f, b, ok := fieldOfValue(cc.Args[0]); ok {
						add(in, t, f, b, "mapdelete", true)
					}
				case "copy":
					if t, f, b, ok := fieldOfValue(cc.Args[0]); ok {
						add(in, t, f, b, "copyinto", true)
					}
				}
			}
		}
	})
	return out
}

// isFreshObject: base is an object allocated in this very function (a constructor building a
// not-yet-published value).
func isFreshObject(base ssa.Value) bool {
	switch b := base.(type) {
	case *ssa.Alloc:
		return true
	case *ssa.Call:
		// the result of a constructor the reference tree does not have, every return of which is an
		// object allocated in that call
		if h := b.Call.StaticCallee(); h != nil && gNewFuncs[h] && len(h.Blocks) > 0 {
			all, any := true, false
			for _, r := range returnsOf(h) {
				if len(r.Results) == 0 {
					all = false
					continue
				}
				if a, ok := strip(r.Results[0]).(*ssa.Alloc); ok && a.Heap {
					any = true
				} else {
					all = false
				}
			}
			return all && any
		}
	case *ssa.UnOp:
		// load of a local cell holding a fresh object is not attempted
		_ = b
	}
	return false
}

func isSyncType(t types.Type) bool {
	if p, ok := t.Underlying().(*types.Pointer); ok {
		t = p.Elem()
	}
	if n, ok := t.(*types.Named); ok && n.Obj().Pkg() != nil {
		p := n.Obj().Pkg().Path()
		return p == "sync" || p == "sync/atomic"
	}
	return false
}


func argIndexOf(cc *ssa.CallCommon, v ssa.Value) int {
	for i, a := range cc.Args {
		if a == v {
			return i
		}
	}
	return -1
}

// paramMayBeWritten: the function may store through its idx-th parameter (a pointer): a store whose
// address derives from it, copy() into it, or handing it (or an address derived from it) to a call that
// may write (unknown callees: assumed to write). Reading loads, slicing it as the source of append or
// copy, and comparisons are not writes.
func paramMayBeWritten(g *ssa.Function, idx int, depth int) bool {
	if idx < 0 || idx >= len(g.Params) {
		return true
	}
	derived := map[ssa.Value]bool{g.Params[idx]: true}
	changed := true
	for changed {
		changed = false
		allInstrsShallow(g, func(in ssa.Instruction) {
			v, ok := in.(ssa.Value)
			if !ok || derived[v] {
				return
			}
			switch x := in.(type) {
			case *ssa.FieldAddr:
				if derived[x.X] {
					derived[v], changed = true, true
				}
			case *ssa.IndexAddr:
				if derived[x.X] {
					derived[v], changed = true, true
				}
			case *ssa.Slice:
				if derived[x.X] {
					derived[v], changed = true, true
				}
			case *ssa.Phi:
				for _, e := range x.Edges {
					if derived[e] {
						derived[v], changed = true, true
					}
				}
			case *ssa.ChangeType:
				if derived[x.X] {
					derived[v], changed = true, true
				}
			}
		})
	}
	written := false
	allInstrsShallow(g, func(in ssa.Instruction) {
		switch x := in.(type) {
		case *ssa.Store:
			if derived[x.Addr] {
				written = true
			}
			if derived[x.Val] {
				written = true // escapes into memory
			}
		case *ssa.MapUpdate:
			if derived[x.Value] || derived[x.Key] {
				written = true
			}
		case *ssa.MakeClosure:
			for _, b := range x.Bindings {
				if derived[b] {
					written = true
				}
			}
		case *ssa.Return:
			for _, r := range x.Results {
				if derived[r] {
					written = true // handed back to the caller
				}
			}
		case ssa.CallInstruction:
			cc := x.Common()
			if bi, ok := cc.Value.(*ssa.Builtin); ok {
				switch bi.Name() {
				case "copy":
					if len(cc.Args) > 0 && derived[cc.Args[0]] {
						written = true
					}
				case "append":
					// append(p[:], …): p's array has len == cap, a new array is allocated; as later source operands p is only read
					if len(cc.Args) > 0 && derived[cc.Args[0]] {
						if sl, isSl := cc.Args[0].(*ssa.Slice); !isSl || sl.High != nil || sl.Max != nil {
							// append(p, …) with p the slice parameter itself: in a helper the reference tree does
							// not have, whose every call site passes a full slice a[:] of an array (len == cap),
							// the append allocates as well
							full := cc.Args[0] == ssa.Value(g.Params[idx]) && gNewFuncs[g] && len(gCallSitesOf[g]) > 0
							if full {
								for _, cs := range gCallSitesOf[g] {
									args := cs.Common().Args
									if cs.Common().StaticCallee() != g || idx >= len(args) {
										full = false
										break
									}
									asl, ok := args[idx].(*ssa.Slice)
									if !ok || asl.Low != nil || asl.High != nil || asl.Max != nil {
										full = false
										break
									}
									if pt, isP := asl.X.Type().Underlying().(*types.Pointer); !isP {
										full = false
									} else if _, isArr := pt.Elem().Underlying().(*types.Array); !isArr {
										full = false
									}
								}
							}
							if !full {
								written = true
							}
						}
					}
				case "len", "cap":
				default:
					for _, a := range cc.Args {
						if derived[a] {
							written = true
						}
					}
				}
				return
			}
			for i, a := range cc.Args {
				if !derived[a] {
					continue
				}
				h := cc.StaticCallee()
				if h == nil || len(h.Blocks) == 0 || depth == 0 || paramMayBeWritten(h, i, depth-1) {
					written = true
				}
			}
			if cc.IsInvoke() && derived[cc.Value] {
				written = true
			}
		}
	})
	return written
}


// readOnlyOfArgs: callees known not to write the byte slices they are given: comparisons, digests,
// encoders, formatters, and Write-shaped methods (io.Writer's contract: Write must not modify the
// slice data); everything else outside the repository is assumed to write.
func readOnlyOfArgs(cc *ssa.CallCommon) bool {
	if cc.IsInvoke() {
		switch cc.Method.Name() {
		case "Write", "WriteAt", "WriteString":
			return true
		}
		return false
	}
	f := cc.StaticCallee()
	if f == nil {
		return false
	}
	id := f.String()
	switch {
	case strings.HasPrefix(id, "bytes.Equal"), strings.HasPrefix(id, "bytes.Compare"), strings.HasPrefix(id, "bytes.HasPrefix"), strings.HasPrefix(id, "bytes.HasSuffix"), strings.HasPrefix(id, "bytes.Contains"), strings.HasPrefix(id, "bytes.Index"):
		return true
	case strings.HasPrefix(id, "crypto/sha512.Sum"), strings.HasPrefix(id, "crypto/sha256.Sum"), id == "crypto/subtle.ConstantTimeCompare":
		return true
	case strings.HasPrefix(id, "encoding/hex.Encode"), strings.HasPrefix(id, "fmt."):
		return true
	case strings.HasPrefix(id, "(encoding/binary.") && strings.Contains(id, ").Uint"):
		return true
	case strings.HasSuffix(id, ").Write") || strings.HasSuffix(id, ").WriteAt"):
		return true
	}
	return false
}
