package main

const fLDB = "poc/wallet/db/ldb/leveldb.go"

func init() {
	variants["C19"] = []variant{
		{Name: "write bucket's subBucket skips name validation", Kill: true, Rule: "C19-NAME", File: fLDB,
			Old: "func (b *LDBBucket) subBucket(name string) (*LDBBucket, error) {\n\tif !isValidBucketName(name) {\n\t\treturn nil, db.ErrInvalidBucketName\n\t}\n", New: "func (b *LDBBucket) subBucket(name string) (*LDBBucket, error) {\n"},
		{Name: "bucket names may contain the separator", Kill: true, Rule: "C19-NAME", File: fLDB,
			Old: " && strings.Index(name, bucketPathSep) < 0", New: ""},
		{Name: "paths joined with a different separator than names are checked for", Kill: true, Rule: "C19-NAME", File: fLDB,
			Old: "\treturn strings.Join(arr, bucketPathSep)\n", New: "\treturn strings.Join(arr, \"-\")\n"},
		{Name: "Clear scans the bare path without the separator", Kill: true, Rule: "C19-PREFIX", File: fLDB,
			Old: "\tbatch := new(leveldb.Batch)\n\tprefix := []byte(joinBucketPath(b.path, \"\"))", New: "\tbatch := new(leveldb.Batch)\n\tprefix := []byte(b.path)"},
		{Name: "Put stores under path+key without the key constructor", Kill: true, Rule: "C19-KEY", File: fLDB,
			Old: "\tkey, err := b.innerKey(key, false)\n\tif err != nil {\n\t\treturn err\n\t}\n\treturn b.tx.tr.Put(key, value, nil)", New: "\tif len(key) == 0 {\n\t\treturn db.ErrIllegalKey\n\t}\n\treturn b.tx.tr.Put(append([]byte(b.path), key...), value, nil)"},
		{Name: "read-only bucket's Put writes to the database", Kill: true, Rule: "C19-TX", File: fLDB,
			Old: "func (b *LDBReadBucket) Put(key, value []byte) error {\n\treturn db.ErrNotSupported", New: "func (b *LDBReadBucket) Put(key, value []byte) error {\n\tk, _ := b.innerKey(key, false)\n\treturn b.ldb.Put(k, value, nil)"},
		{Name: "Rollback does not discard the leveldb transaction", Kill: true, Rule: "C19-TX", File: fLDB,
			Old: "\ttx.tr.Discard()\n\treturn nil\n", New: "\treturn nil\n"},
		{Name: "Commit swallows the leveldb error", Kill: true, Rule: "C19-TX", File: fLDB,
			Old: "\treturn tx.tr.Commit()\n", New: "\ttx.tr.Commit()\n\treturn nil\n"},
		{Name: "read-only bucket builds keys one byte longer than the write bucket", Kill: true, Rule: "C19-SIBLING", File: fLDB,
			Old: "func (b *LDBReadBucket) innerKey(key []byte, asPrefix bool) ([]byte, error) {\n\tkl := len(key)\n\tif !asPrefix && kl == 0 {\n\t\treturn nil, db.ErrIllegalKey\n\t}\n\tbuf := make([]byte, b.pathLen+kl+1)",
			New: "func (b *LDBReadBucket) innerKey(key []byte, asPrefix bool) ([]byte, error) {\n\tkl := len(key)\n\tif !asPrefix && kl == 0 {\n\t\treturn nil, db.ErrIllegalKey\n\t}\n\tbuf := make([]byte, b.pathLen+kl+2)"},
		{Name: "db.Update ignores the Commit result", Kill: true, Rule: "C19-UPDATE", File: fDB,
			Old: "\treturn tx.Commit()\n", New: "\ttx.Commit()\n\treturn nil\n"},
		{Name: "DeleteBucket deletes index entry by raw name", Kill: true, Rule: "C19-KEY", File: fLDB,
			Old: "\treturn b.tx.tr.Delete([]byte(key), nil)\n}", New: "\treturn b.tx.tr.Delete([]byte(b.name), nil)\n}"},

		{Name: "separator test written with strings.Contains", Kill: false, File: fLDB,
			Old: "strings.Index(name, bucketPathSep) < 0", New: "!strings.Contains(name, bucketPathSep)"},
		{Name: "Put with the inner key in a separately named local", Kill: false, File: fLDB,
			Old: "\tkey, err := b.innerKey(key, false)\n\tif err != nil {\n\t\treturn err\n\t}\n\treturn b.tx.tr.Put(key, value, nil)", New: "\tik, err := b.innerKey(key, false)\n\tif err != nil {\n\t\treturn err\n\t}\n\terr = b.tx.tr.Put(ik, value, nil)\n\treturn err"},
		{Name: "Clear without the debug logging", Kill: false, File: fLDB,
			Old: "\tlogging.VPrint(logging.DEBUG, \"clear bucket item\",\n\t\tlogging.LogFormat{\n\t\t\t\"key\":    string(iter.Key()),\n\t\t\t\"bucket\": b.path,\n\t\t\t\"num\":    batch.Len(),\n\t\t})\n", New: ""},
		{Name: "write transaction looks top-level buckets up in the committed state (seed C19-r2c)", Kill: true, Rule: "C19-TX", File: "poc/wallet/db/ldb/leveldb.go",
			Old: "\treturn &LDBTransaction{\n\t\ttr: tr,\n\t}, nil\n}\n\n// LDBTransaction ...\ntype LDBTransaction struct {\n\ttr *leveldb.Transaction\n}\n\n// TopLevelBucket ...\nfunc (tx *LDBTransaction) TopLevelBucket(name string) db.Bucket {\n\tbucketPath := joinBucketPath(topLevelBucketDepth, name)\n\n\tkey := []byte(joinBucketPath(bucketNameBucket, bucketPath))\n\t_, err := tx.tr.Get(key, nil) // value == name\n",
			New: "\treturn &LDBTransaction{\n\t\tldb: l.LDb,\n\t\ttr:  tr,\n\t}, nil\n}\n\n// LDBTransaction ...\ntype LDBTransaction struct {\n\tldb *leveldb.DB\n\ttr  *leveldb.Transaction\n}\n\n// TopLevelBucket ...\nfunc (tx *LDBTransaction) TopLevelBucket(name string) db.Bucket {\n\tbucketPath := joinBucketPath(topLevelBucketDepth, name)\n\n\tkey := []byte(joinBucketPath(bucketNameBucket, bucketPath))\n\t_, err := tx.ldb.Get(key, nil) // value == name\n"},
	}
}

func init() {
	variants["C19"] = append(variants["C19"],
		variant{Name: "write-transaction FetchBucket resolves buckets that do not exist", Kill: true, Rule: "C19-EXIST", File: fLDB,
			Old: "\tpath := joinBucketPath(meta.Paths()...)\n\tkey := []byte(joinBucketPath(bucketNameBucket, path))\n\t_, err := tx.tr.Get(key, nil) // value == name\n\tif err != nil {", New: "\tpath := joinBucketPath(meta.Paths()...)\n\tkey := []byte(joinBucketPath(bucketNameBucket, path))\n\t_, err := tx.tr.Get(key, nil) // value == name\n\tif err != nil && err != leveldb.ErrNotFound {"},
		variant{Name: "read bucket's Bucket() ignores a name mismatch only", Kill: false, File: fLDB,
			Old: "\tvalue, err := b.ldb.Get(key, nil) // value == name\n\tif err != nil || string(value) != name {\n\t\treturn nil\n\t}", New: "\tvalue, err := b.ldb.Get(key, nil) // value == name\n\tif err != nil {\n\t\treturn nil\n\t}\n\tif string(value) != name {\n\t\treturn nil\n\t}"},
	)
}

func init() {
	variants["C19"] = append(variants["C19"],
		variant{Name: "deleteBucket collects each nested bucket's entries in a batch of its own that nobody writes (seed C02-r9a)", Kill: true, Rule: "C19-BATCH", File: fLDB,
			Old: "\t\terr = deleteBucket(sub.(*LDBBucket), batch)\n", New: "\t\tsubBatch := new(leveldb.Batch)\n\t\terr = deleteBucket(sub.(*LDBBucket), subBatch)\n"},
		variant{Name: "Clear writes a fresh batch instead of the one it filled", Kill: true, Rule: "C19-BATCH", File: fLDB,
			Old: "\t\t\t\"num\":    batch.Len(),\n\t\t})\n\n\treturn b.tx.tr.Write(batch, nil)", New: "\t\t\t\"num\":    batch.Len(),\n\t\t})\n\n\treturn b.tx.tr.Write(new(leveldb.Batch), nil)"},
		variant{Name: "deleteBucket writes each nested bucket's own batch after the descent", Kill: false, File: fLDB,
			Old: "\t\terr = deleteBucket(sub.(*LDBBucket), batch)\n\t\tif err != nil {\n\t\t\treturn err\n\t\t}\n", New: "\t\tsubBatch := new(leveldb.Batch)\n\t\terr = deleteBucket(sub.(*LDBBucket), subBatch)\n\t\tif err != nil {\n\t\t\treturn err\n\t\t}\n\t\tif err = b.tx.tr.Write(subBatch, nil); err != nil {\n\t\t\treturn err\n\t\t}\n"},
		variant{Name: "DeleteBucket's batch comes from a constructor helper and is written by a flush helper", Kill: false, File: fLDB,
			Old: "\tbatch := new(leveldb.Batch)\n\terr := deleteBucket(sub.(*LDBBucket), batch)\n\tif err != nil {\n\t\treturn err\n\t}\n\treturn b.tx.tr.Write(batch, nil)\n}\n", New: "\tbatch := newDeleteBatch()\n\terr := deleteBucket(sub.(*LDBBucket), batch)\n\tif err != nil {\n\t\treturn err\n\t}\n\treturn b.flush(batch)\n}\n\nfunc newDeleteBatch() *leveldb.Batch { return new(leveldb.Batch) }\n\nfunc (b *LDBBucket) flush(batch *leveldb.Batch) error { return b.tx.tr.Write(batch, nil) }\n"},
	)
}
