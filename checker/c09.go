package main

// C09 — workspace lifecycle follows the documented state machine (structure).

import (
	"fmt"
	"go/constant"
	"go/token"
	"go/types"
	"os"
	"sort"
	"strings"

	"golang.org/x/tools/go/ssa"
)

func init() { register("C09", checkC09) }

// stateRef: how a state value is given at a site: "k:N" constant, "p:NAME" parameter, "dyn"
func stateRef(v ssa.Value) string {
	v = strip(v)
	switch x := v.(type) {
	case *ssa.Const:
		if x.Value != nil {
			return "k:" + x.Value.ExactString()
		}
	case *ssa.Parameter:
		return "p:" + x.Name()
	case *ssa.FreeVar:
		return "p:" + x.Name()
	}
	return "dyn"
}

func wsIndexRef(v ssa.Value) string {
	ld, ok := v.(*ssa.UnOp)
	if !ok {
		return ""
	}
	ia, ok := ld.X.(*ssa.IndexAddr)
	if !ok {
		return ""
	}
	if _, f, _, ok := fieldOfValue(ia.X); !ok || f != "workSpaceIndex" {
		return ""
	}
	return stateRef(ia.Index)
}

type stateEffect struct {
	In    ssa.Instruction
	Kind  string // del | set | store
	State string
}

func stateEffects(fn *ssa.Function, pkg string) []stateEffect {
	var out []stateEffect
	allInstrs(fn, func(in ssa.Instruction) {
		switch x := in.(type) {
		case *ssa.Call:
			id := calleeID(x)
			if id == "(*"+pkg+".WorkSpaceMap).Set" || id == "(*"+pkg+".WorkSpaceMap).Delete" {
				ref := wsIndexRef(callRecv(x))
				if ref == "" {
					ref = "unknown-map"
				}
				k := "set"
				if strings.HasSuffix(id, "Delete") {
					k = "del"
				}
				out = append(out, stateEffect{in, k, ref})
			}
		case *ssa.Store:
			if t, f, b, ok := fieldOfAddr(x.Addr); ok && t == pkg+".WorkSpace" && f == "state" {
				if isFreshObject(b) {
					// an initial state chosen between constants before the object is built: one init per constant
					if phi, isPhi := strip(x.Val).(*ssa.Phi); isPhi {
						all := true
						for _, e := range phi.Edges {
							if _, isK := strip(e).(*ssa.Const); !isK {
								all = false
							}
						}
						if all {
							for _, e := range phi.Edges {
								out = append(out, stateEffect{in, "init", stateRef(e)})
							}
							return
						}
					}
					// …or by a helper the reference tree does not have, every return of which is a state constant
					if cl, isCall := strip(x.Val).(*ssa.Call); isCall {
						if h := cl.Call.StaticCallee(); h != nil && gNewFuncs[h] && len(h.Blocks) > 0 {
							var ks []ssa.Value
							all := len(returnsOf(h)) > 0
							for _, ret := range returnsOf(h) {
								if len(ret.Results) != 1 {
									all = false
									break
								}
								if _, isK := strip(ret.Results[0]).(*ssa.Const); !isK {
									all = false
									break
								}
								ks = append(ks, ret.Results[0])
							}
							if all {
								for _, k := range ks {
									out = append(out, stateEffect{in, "init", stateRef(k)})
								}
								return
							}
						}
					}
					out = append(out, stateEffect{in, "init", stateRef(x.Val)})
				} else {
					out = append(out, stateEffect{in, "store", stateRef(x.Val)})
				}
			}
		}
	})
	return out
}

type transition struct {
	Fn    string
	From  string
	To    string
	Guard string // index whose membership success dominates it, or ""
}

func (t transition) String() string {
	g := ""
	if t.Guard != "" {
		g = " [guard index[" + t.Guard + "]]"
	}
	return fmt.Sprintf("%s: %s->%s%s", t.Fn, t.From, t.To, g)
}

var stateNames = map[string]string{"k:0": "registered", "k:1": "plotting", "k:2": "ready", "k:3": "mining", "k:4": "all"}

func sname(s string) string {
	if n, ok := stateNames[s]; ok {
		return n
	}
	return s
}

// guardOf: the state index whose Get-success edge dominates instruction in (within fn)
func guardOf(fn *ssa.Function, pkg string, in ssa.Instruction, want string) bool {
	for _, c := range callsIn(fn, "(*"+pkg+".WorkSpaceMap).Get") {
		if wsIndexRef(callRecv(c)) != want {
			continue
		}
		ok := resultOf(c, 1)
		if ok == nil {
			continue
		}
		for _, t := range boolTestsOf(fn, ok) {
			if len(t.TrueSucc.Preds) == 1 && t.TrueSucc.Dominates(in.Block()) {
				return true
			}
		}
	}
	return false
}

func checkC09(c *Ctx) Meta {
	c.Rule("C09-CONST", "state constants are Registered=0, Plotting=1, Ready=2, Mining=3 (allState=4) and SFMining=1<<Mining, in both engines", 2)
	c.Rule("C09-TRANS", "the set of state transitions that exist in the keeper code equals the documented table; each transition moves the field and both indexes together (delete old, set new, store new) and the guarded ones lie behind a membership test of the old state's index", 14)
	c.Rule("C09-GUARD", "every store to WorkSpace.state/using, every workSpaceIndex Set/Delete and every store to workSpaceList by code that can run concurrently with the API holds stateLock for writing (constructors and pre-start configuration excepted)", 10)
	c.Rule("C09-QUEUE", "stop, remove and delete clear the space from the plotter queue before any state effect", 6)
	c.Rule("C09-PLOTTER", "ws.Plot() is called only from the plotter; `go spacePlotter()` has exactly one site, in OnStart, which has no caller in the repository", 4)
	c.Rule("C09-STEP3", "after a plot run the plotter moves the space to ready or mining only when the plot is complete: both transitions lie behind the false edge of `ws.Progress() < 100`, evaluated after ws.Plot() returned, on the space that was plotted; mining additionally behind wouldMining, ready behind its negation", 4)
	c.Rule("C09-ITEM", "a request that arrives while a space is being plotted redirects the plot in flight: the item whose wouldMining PlotWS/MineWS/StopWS write is the very object the plotter reads (PoppedItem returns the stored pointer, not a copy)", 2)
	c.Rule("C09-LIST", "bulk actions iterate a snapshot: no loop over the configured list (or over a helper result that may alias it) can reach an in-place modification of that list's backing array", 8)
	c.Rule("C09-OFFER", "the miner asks for SFMining only; GetProofs hands to the proof workers only elements of getWsByFlags(workSpaceList, flags); getWsByFlags keeps a space only when the state set derived from the flags contains its state field; Info reports the same field", 4)

	for _, spec := range []struct{ pkg, eng, label string }{{pkgCapacity, pkgEngine, "capacity"}, {pkgSkchia, pkgEngineV2, "skchia"}} {
		checkStateConsts(c, spec.eng, spec.pkg, spec.label)
		checkTransitions(c, spec.pkg, spec.label)
		checkStateGuard(c, spec.pkg, spec.label)
		checkQueueCleared(c, spec.pkg, spec.label)
		checkSinglePlotter(c, spec.pkg, spec.label)
		checkQueueDeleteAll(c, spec.pkg, spec.label)
		checkOnStopWaits(c, spec.pkg, spec.label)
		checkStep3(c, "C09-STEP3", spec.pkg, spec.label)
		checkPoppedItem(c, spec.pkg, spec.label)
		checkListAliasing(c, spec.pkg, spec.label)
		checkListedOnce(c, spec.pkg, spec.label)
	}
	checkOffered(c)
	c.Rule("C09-OPEN", "registered vs ready on open follows the recorded progress: readiness is derived from map B's checkpoint (HashMapB.Progress compares checkpoint with volume; MassDBV1.Progress forwards that flag; NewWorkSpace stores Ready only under it; OpenDB loads map A unless B's checkpoint is final) — a space whose second pass is unfinished comes up registered, never ready (the C10-READY rules, here as the entry point of the state machine)", 4)
	checkReadyRules(c, "C09-OPEN")
	checkMapALoadedByProgressOnly(c, "C09-OPEN")
	checkRemoveAfterPasses(c, "C09-OPEN") // a stopped plot keeps map A, so its progress stays below 100 and the plotter returns the space to registered
	return Meta{
		Explanation: "Extracts every writer of WorkSpace.state and of the per-state indexes from the SSA of both keepers, reconstructs the transitions (old index deleted, new index set, field stored; guard = the index whose membership test dominates the site) and compares the set with the documented table frozen from engine.go; checks the write lock at every state effect of concurrently runnable code, queue clearing before effects, the single plotter, and the flag filter feeding the miner.",
		NotDecided:  "liveness ('a plotting space eventually becomes ready'), that the popped queue item is the plotting space at all times, linearisation of unlocked state reads by proof queries (a momentarily stale filter is within the property).",
		Trusted:     []string{"go/ssa", "documented transition table (engine.go:171-212) as frozen in the checker", "keeper is single-threaded before Start (Configure*/ResetDBDirs refuse when started)"},
	}
}

func constVal(c *Ctx, pkgPath, name string) (string, bool) {
	p := c.SSA[pkgPath]
	if p == nil {
		return "", false
	}
	obj := p.Pkg.Scope().Lookup(name)
	k, ok := obj.(*types.Const)
	if !ok {
		return "", false
	}
	return k.Val().ExactString(), true
}

func checkStateConsts(c *Ctx, eng, pkg, label string) {
	want := map[string]string{"Registered": "0", "Plotting": "1", "Ready": "2", "Mining": "3", "SFRegistered": "1", "SFPlotting": "2", "SFReady": "4", "SFMining": "8"}
	bad := []string{}
	names := []string{}
	for n := range want {
		names = append(names, n)
	}
	sort.Strings(names)
	for _, n := range names {
		v, ok := constVal(c, eng, n)
		if !ok || v != want[n] {
			bad = append(bad, fmt.Sprintf("%s=%s (want %s)", n, v, want[n]))
		}
	}
	if v, ok := constVal(c, pkg, "allState"); !ok || v != "4" {
		bad = append(bad, "allState="+v)
	}
	if len(bad) > 0 {
		c.Bad("C09-CONST", label+":state-constants", "", "state constants differ from the values the rule tables are frozen for: "+strings.Join(bad, ", "))
	} else {
		c.Add("C09-CONST", label+":state-constants", Discharged, "", "Registered..Mining = 0..3, allState = 4, SF flags = 1<<state", false)
	}
}

var c09TransRule = "C09-TRANS"

func checkTransitions(c *Ctx, pkg, label string) {
	rule := c09TransRule
	var found []transition
	type helper struct {
		fn       *ssa.Function
		from, to string // param names
	}
	var helpers []helper
	fns := []*ssa.Function{}
	for fn := range c.AllFuncs {
		if pkgOf(fn) == pkg {
			fns = append(fns, fn)
		}
	}
	sort.Slice(fns, func(i, j int) bool { return fns[i].String() < fns[j].String() })
	inits := map[string]bool{}
	for _, fn := range fns {
		effs := stateEffects(fn, pkg)
		if len(effs) == 0 {
			continue
		}
		// group by basic block
		byBlock := map[*ssa.BasicBlock][]stateEffect{}
		var blocks []*ssa.BasicBlock
		for _, e := range effs {
			if e.Kind == "init" {
				inits[label+":"+fn.Name()+":"+sname(e.State)] = true
				continue
			}
			if _, ok := byBlock[e.In.Block()]; !ok {
				blocks = append(blocks, e.In.Block())
			}
			byBlock[e.In.Block()] = append(byBlock[e.In.Block()], e)
		}
		for _, b := range blocks {
			es := byBlock[b]
			var dels, sets, stores []stateEffect
			for _, e := range es {
				switch e.Kind {
				case "del":
					dels = append(dels, e)
				case "set":
					sets = append(sets, e)
				case "store":
					stores = append(stores, e)
				}
			}
			name := fn.Name()
			pos := c.Pos(es[0].In.Pos())
			switch {
			case len(dels) == 1 && len(sets) == 1 && len(stores) == 1:
				if sets[0].State != stores[0].State {
					c.Bad(rule, label+":"+FuncName(fn)+":inconsistent-triple", pos, fmt.Sprintf("index[%s] is set but the state field is stored as %s: field and index disagree", sname(sets[0].State), sname(stores[0].State)))
					continue
				}
				if strings.HasPrefix(dels[0].State, "p:") && strings.HasPrefix(sets[0].State, "p:") {
					helpers = append(helpers, helper{fn, strings.TrimPrefix(dels[0].State, "p:"), strings.TrimPrefix(sets[0].State, "p:")})
					continue
				}
				if !strings.HasPrefix(dels[0].State, "k:") || !strings.HasPrefix(sets[0].State, "k:") {
					c.Bad(rule, label+":"+FuncName(fn)+":non-constant-transition", pos, "transition with non-constant states "+dels[0].State+"->"+sets[0].State)
					continue
				}
				g := ""
				if guardOf(fn, pkg, dels[0].In, dels[0].State) {
					g = sname(dels[0].State)
				}
				found = append(found, transition{name, sname(dels[0].State), sname(sets[0].State), g})
			case len(dels) == 2 && len(sets) == 0 && len(stores) == 0:
				// removal: index[ws.state] and index[all]
				st := []string{dels[0].State, dels[1].State}
				sort.Strings(st)
				if st[0] == "dyn" && st[1] == "k:4" {
					found = append(found, transition{name, "ws.state", "(removed)", ""})
				} else {
					c.Bad(rule, label+":"+FuncName(fn)+":partial-removal", pos, "removal deletes "+st[0]+" and "+st[1]+", expected index[ws.state] and index[all]")
				}
			case len(dels) == 0 && len(sets) == 2 && len(stores) == 0:
				st := []string{sets[0].State, sets[1].State}
				sort.Strings(st)
				if st[0] == "dyn" && st[1] == "k:4" {
					found = append(found, transition{name, "(new)", "ws.state", ""})
				} else {
					c.Bad(rule, label+":"+FuncName(fn)+":partial-insert", pos, "insertion sets "+st[0]+" and "+st[1]+", expected index[all] and index[ws.state]")
				}
			default:
				c.Bad(rule, label+":"+FuncName(fn)+":broken-triple", pos, fmt.Sprintf("state effects do not come as a triple (delete old index, set new index, store field): %d deletes, %d sets, %d stores in one step — field and indexes can disagree", len(dels), len(sets), len(stores)))
			}
		}
	}
	// helper call sites
	for _, h := range helpers {
		var pi, pj = -1, -1
		params := h.fn.Params
		for i, p := range params {
			if p.Name() == h.from {
				pi = i
			}
			if p.Name() == h.to {
				pj = i
			}
		}
		if pi < 0 || pj < 0 {
			c.Bad(rule, label+":"+FuncName(h.fn)+":helper-shape", c.Pos(h.fn.Pos()), "transition helper does not take old and new state as parameters")
			continue
		}
		for _, f := range fns {
			allInstrsShallow(f, func(in ssa.Instruction) {
				cl, ok := in.(*ssa.Call)
				if !ok {
					return
				}
				hit := false
				for _, callee := range (&c13ctx{c: c}).calleesOf(cl) {
					if callee == h.fn {
						hit = true
					}
				}
				if !hit {
					return
				}
				args := cl.Call.Args
				from, to := stateRef(args[pi]), stateRef(args[pj])
				if !strings.HasPrefix(from, "k:") || !strings.HasPrefix(to, "k:") {
					c.Bad(rule, label+":"+FuncName(f)+":non-constant-transition", c.Pos(cl.Pos()), "transition helper called with non-constant states")
					return
				}
				g := ""
				if guardOf(f, pkg, cl, from) {
					g = sname(from)
				}
				found = append(found, transition{outermost(f).Name(), sname(from), sname(to), g})
			})
		}
	}
	// compare with the documented table
	want := map[string]bool{
		"MineWS: ready->mining [guard index[ready]]":                   true,
		"StopWS: mining->ready [guard index[mining]]":                  true,
		"spacePlotter: registered->plotting [guard index[registered]]": true,
		"spacePlotter: ready->mining [guard index[ready]]":             true,
		"spacePlotter: plotting->registered":                           true,
		"spacePlotter: plotting->mining":                               true,
		"spacePlotter: plotting->ready":                                true,
		"DeleteWS: ws.state->(removed)":                                true,
		"addWorkSpaceToIndex: (new)->ws.state":                         true,
	}
	got := map[string]transition{}
	for _, t := range found {
		got[t.String()] = t
	}
	keys := []string{}
	for k := range got {
		keys = append(keys, k)
	}
	sort.Strings(keys)
	for _, k := range keys {
		if want[k] {
			c.OK(rule, label+":"+k, "", "documented transition present with consistent field/index update")
		} else {
			t := got[k]
			// an undocumented transition, or a documented one whose guard is missing
			c.Bad(rule, label+":"+k, "", "transition "+k+" exists in the code but is not in the documented table ("+t.From+"->"+t.To+" by "+t.Fn+")")
		}
	}
	wk := []string{}
	for k := range want {
		wk = append(wk, k)
	}
	sort.Strings(wk)
	for _, k := range wk {
		if _, ok := got[k]; !ok {
			c.Bad(rule, label+":"+k, "", "documented transition "+k+" no longer exists in the code in that form (missing, unguarded, or moved)")
		}
	}
	// mineWS/plotter "ready->mining only if wouldMining": the plotter's ready->mining call is control dependent on qws.wouldMining
	checkWouldMining(c, pkg, label)
	// initial states
	wantInit := map[string]bool{}
	if label == "capacity" {
		wantInit[label+":NewWorkSpace:registered"], wantInit[label+":NewWorkSpace:ready"] = true, true
	} else {
		wantInit[label+":NewWorkSpace:ready"] = true
	}
	ik := []string{}
	for k := range inits {
		ik = append(ik, k)
	}
	sort.Strings(ik)
	for _, k := range ik {
		if wantInit[k] {
			c.OK(rule, "init:"+k, "", "documented initial state")
		} else {
			c.Bad(rule, "init:"+k, "", "a workspace is constructed in an undocumented initial state: "+k)
		}
	}
	for k := range wantInit {
		if !inits[k] {
			c.Bad(rule, "init:"+k, "", "documented initial state no longer assigned at construction: "+k)
		}
	}
}

func checkWouldMining(c *Ctx, pkg, label string) {
	rule := c09TransRule
	short := strings.TrimPrefix(pkg, repoMod+"/")
	sp := c.MustFn(rule, short, "(*SpaceKeeper).spacePlotter")
	if sp == nil {
		return
	}
	key := label + ":spacePlotter:ready->mining-only-if-wouldMining"
	ok := false
	bad := false
	for _, f := range bodyFns(sp, nil) { // the plotter, its closures, and phase helpers / job methods the reference tree does not have
		f := f
		allInstrsShallow(f, func(in ssa.Instruction) {
			cl, isCall := in.(*ssa.Call)
			if !isCall || len(cl.Call.Args) < 2 {
				return
			}
			if stateRef(cl.Call.Args[len(cl.Call.Args)-2]) != "k:2" || stateRef(cl.Call.Args[len(cl.Call.Args)-1]) != "k:3" {
				return
			}
			// dominated by true edge of a load of queuedWorkSpace.wouldMining
			dom := false
			for _, a := range fieldAccessesShallow(f) {
				if a.Kind == "load" && a.Field == "wouldMining" {
					for _, t := range boolTestsOf(f, a.In.(ssa.Value)) {
						if len(t.TrueSucc.Preds) == 1 && t.TrueSucc.Dominates(cl.Block()) {
							dom = true
						}
					}
				}
			}
			if dom {
				ok = true
			} else {
				bad = true
			}
		})
	}
	if ok && !bad {
		c.OK(rule, key, "", "the plotter's ready->mining step is behind qws.wouldMining")
	} else {
		c.Bad(rule, key, c.Pos(sp.Pos()), "the plotter moves a ready space to mining without the wouldMining request (a stopped space would be mined again)")
	}
}

// concurrentFuncs: functions of pkg reachable from the keeper API (except pre-start configuration)
// and from the plotter goroutine.
func concurrentFuncs(c *Ctx, pkg string) map[*ssa.Function]*reachVia {
	short := strings.TrimPrefix(pkg, repoMod+"/")
	var roots []*ssa.Function
	for _, f := range exportedFuncs(c, pkg) {
		n := f.Name()
		if strings.HasPrefix(n, "Configure") || n == "ResetDBDirs" || strings.HasPrefix(n, "NewSpaceKeeper") || n == "IsCapacityAvailable" || n == "NewWorkSpace" {
			continue
		}
		roots = append(roots, f)
	}
	if sp := c.Fn(short, "(*SpaceKeeper).spacePlotter"); sp != nil {
		roots = append(roots, sp)
	}
	return c.Reachable(roots, func(from *ssa.Function, e callEdge) bool { return pkgOf(e.Callee) == pkg })
}

func checkStateGuard(c *Ctx, pkg, label string) {
	rule := "C09-GUARD"
	scope := map[*ssa.Function]bool{}
	for fn := range c.AllFuncs {
		if pkgOf(fn) == pkg {
			scope[fn] = true
		}
	}
	li := computeLocksets(c, scope, map[string]bool{}, func(fn *ssa.Function) bool { return isExportedFunc(fn) })
	conc := concurrentFuncs(c, pkg)
	lockClass := pkg + ".SpaceKeeper.stateLock"
	heldW := func(in ssa.Instruction) bool {
		for k := range li.at[in] {
			if k.Class == lockClass && k.Mode == 'W' {
				return true
			}
		}
		return false
	}
	fns := []*ssa.Function{}
	for f := range conc {
		fns = append(fns, f)
	}
	sort.Slice(fns, func(i, j int) bool { return fns[i].String() < fns[j].String() })
	n := 0
	for _, fn := range fns {
		var sites []struct {
			in   ssa.Instruction
			what string
		}
		for _, e := range stateEffects(fn, pkg) {
			if e.Kind == "init" {
				continue
			}
			sites = append(sites, struct {
				in   ssa.Instruction
				what string
			}{e.In, e.Kind + " index/state " + sname(e.State)})
		}
		for _, a := range fieldAccessesShallow(fn) {
			if !a.Write || isFreshObject(a.Base) {
				continue
			}
			if (a.Type == pkg+".WorkSpace" && a.Field == "using") || (a.Type == pkg+".SpaceKeeper" && a.Field == "workSpaceList") {
				sites = append(sites, struct {
					in   ssa.Instruction
					what string
				}{a.In, "store to " + shortType(a.Type) + "." + a.Field})
			}
		}
		if len(sites) == 0 {
			continue
		}
		bad := ""
		for _, s := range sites {
			n++
			if !heldW(s.in) {
				bad = fmt.Sprintf("%s at %s executes with lockset %s, without stateLock held for writing (reachable concurrently via %s)", s.what, c.Pos(s.in.Pos()), li.at[s.in], pathTo(conc, fn))
			}
		}
		key := label + ":" + FuncName(fn)
		if bad != "" {
			c.Bad(rule, key, "", bad)
		} else {
			c.OK(rule, key, c.Pos(fn.Pos()), fmt.Sprintf("%d state effects, all under stateLock(W)", len(sites)))
		}
	}
	_ = n
	// reads: a state query answers from one consistent snapshot — in every keeper method that takes
	// stateLock for reading (the queries), each read of a space's state (a direct load, ws.Info(),
	// ws.State(), the flag filter getWsByFlags) happens with the lock still held. A query that filters
	// under the lock but reads the states after releasing it reports a space under a flag it no longer has
	// (e.g. two spaces `plotting`).
	held := func(in ssa.Instruction) bool {
		for k := range li.at[in] {
			if k.Class == lockClass {
				return true
			}
		}
		return false
	}
	nReads := 0
	var badReads []string
	for _, fn := range fns {
		if fn.Parent() != nil || fn.Signature.Recv() == nil || !strings.HasSuffix(fn.Signature.Recv().Type().String(), ".SpaceKeeper") {
			continue
		}
		takesR := false
		allInstrsShallow(fn, func(in ssa.Instruction) {
			if cls, mode, _, op, ok := lockOp(in); ok && op == "lock" && cls == lockClass && mode == 'R' {
				takesR = true
			}
		})
		if !takesR {
			continue
		}
		for _, g := range withClosures(fn) {
			for _, a := range fieldAccesses(g) {
				if a.Kind == "load" && a.Type == pkg+".WorkSpace" && a.Field == "state" {
					nReads++
					if !held(a.In) {
						badReads = append(badReads, fmt.Sprintf("%s reads WorkSpace.state at %s", fn.Name(), c.Pos(a.In.Pos())))
					}
				}
			}
			allInstrs(g, func(in ssa.Instruction) {
				id := calleeID(in)
				if id == "(*"+pkg+".WorkSpace).Info" || id == "(*"+pkg+".WorkSpace).State" || id == pkg+".getWsByFlags" {
					nReads++
					if !held(in) {
						badReads = append(badReads, fmt.Sprintf("%s calls %s at %s", fn.Name(), shortID(id), c.Pos(in.Pos())))
					}
				}
			})
		}
	}
	key := label + ":queries-read-state-under-stateLock"
	if len(badReads) > 0 {
		c.Bad(rule, key, "", strings.Join(badReads, "; ")+" after the read lock was released: the plotter can change the state in between, so the answer mixes two moments (a space listed under a flag it no longer has)")
	} else if nReads > 0 {
		c.OK(rule, key, "", fmt.Sprintf("%d state reads in read-locked queries, all with stateLock held", nReads))
	} else {
		c.Bad(rule, key, "", "reason=anchor-missing: no read-locked query reading workspace states")
	}
}

func checkQueueCleared(c *Ctx, pkg, label string) {
	rule := "C09-QUEUE"
	short := strings.TrimPrefix(pkg, repoMod+"/")
	for _, m := range []string{"StopWS", "RemoveWS", "DeleteWS"} {
		f := c.MustFn(rule, short, "(*SpaceKeeper)."+m)
		if f == nil {
			continue
		}
		key := label + "." + m + ":queue-cleared-first"
		isQD := func(cl *ssa.Call) bool { return isCall(cl, "(*"+pkg+".plotterQueue).Delete") }
		locs := findSteps(f, isQD, 1)
		if len(locs) != 1 {
			c.Bad(rule, key, c.Pos(f.Pos()), "the space is not removed from the plotter queue (queue.Delete) exactly once")
			continue
		}
		loc := locs[0]
		qd := []*ssa.Call{loc.Site}
		// the sid deleted is the function's sid
		if !sliceVia(loc.Step.Call.Args[1], loc).hasParam(f, "sid") {
			c.Bad(rule, key, c.Pos(loc.Step.Pos()), "queue.Delete is applied to a different space id than the request's")
			continue
		}
		viaCut := func(from, to *ssa.BasicBlock) bool { return false }
		if loc.Site != loc.Step {
			// through a helper: it must have cleared the queue whenever it succeeds, and the effects must
			// not be reachable when it failed
			h := loc.Via[0]
			if !mustDoOnSuccess(h, func(in ssa.Instruction) bool { cl, ok := in.(*ssa.Call); return ok && isQD(cl) }) || len(errResults(loc.Site)) == 0 {
				c.Bad(rule, key, c.Pos(loc.Step.Pos()), FuncName(h)+" can succeed without having removed the space from the plotter queue")
				continue
			}
			viaCut = errorEdgeCut(f, loc.Site, false)
		}
		failOnly := reach(f, loc.Site, viaCut, nil)
		bad := false
		nEff := 0
		allInstrs(f, func(in ssa.Instruction) {
			id := calleeID(in)
			isEff := false
			switch id {
			case "(*" + pkg + ".WorkSpaceMap).Set", "(*" + pkg + ".WorkSpaceMap).Delete", "(*" + pkg + ".SpaceKeeper).disuseWorkSpace",
				"(*" + pkg + ".WorkSpace).StopPlot", "(*" + pkg + ".WorkSpace).Delete":
				isEff = true
			}
			if st, ok := in.(*ssa.Store); ok {
				if _, fld, _, ok := fieldOfAddr(st.Addr); ok && (fld == "state" || fld == "wouldMining" || fld == "using" || fld == "workSpaceList") {
					isEff = true
				}
			}
			if !isEff {
				return
			}
			nEff++
			if !instrDominates(qd[0], in) || (loc.Site != loc.Step && failOnly(in)) {
				bad = true
				c.Bad(rule, key, c.Pos(in.Pos()), "a state effect can run before the space was removed from the plotter queue (a stopped space could be plotted again)")
			}
		})
		if !bad {
			c.OK(rule, key, c.Pos(qd[0].Pos()), fmt.Sprintf("queue.Delete(sid) dominates all %d effects", nEff))
		}
	}
}

func checkSinglePlotter(c *Ctx, pkg, label string) {
	rule := "C09-PLOTTER"
	short := strings.TrimPrefix(pkg, repoMod+"/")
	sp := c.MustFn(rule, short, "(*SpaceKeeper).spacePlotter")
	onStart := c.MustFn(rule, short, "(*SpaceKeeper).OnStart")
	plot := c.MustFn(rule, short, "(*WorkSpace).Plot")
	if sp == nil || onStart == nil || plot == nil {
		return
	}
	// callers of WorkSpace.Plot
	var callers []string
	goSites := 0
	goInOnStart := 0
	onStartCallers := 0
	for fn := range c.AllFuncs {
		allInstrsShallow(fn, func(in ssa.Instruction) {
			if f := staticCallee(in); f == plot {
				if outermost(fn) != sp {
					callers = append(callers, FuncName(fn)+" at "+c.Pos(in.Pos()))
				}
			}
			if g, ok := in.(*ssa.Go); ok && g.Call.StaticCallee() == sp {
				goSites++
				if fn == onStart {
					goInOnStart++
					if blockReentered(fn, in) {
						goSites++ // in a loop: more than one plotter
					}
				}
			}
			if f := staticCallee(in); f == onStart {
				onStartCallers++
			}
			if f := staticCallee(in); f == sp {
				if _, isGo := in.(*ssa.Go); !isGo {
					goSites++ // direct call also runs a plotter loop
				}
			}
		})
	}
	sort.Strings(callers)
	if len(callers) > 0 {
		c.Bad(rule, label+":Plot-only-from-plotter", "", "WorkSpace.Plot is called outside the plotter: "+strings.Join(callers, "; "))
	} else {
		c.OK(rule, label+":Plot-only-from-plotter", c.Pos(plot.Pos()), "only the plotter goroutine calls WorkSpace.Plot")
	}
	if goSites == 1 && goInOnStart == 1 && onStartCallers == 0 {
		c.OK(rule, label+":one-plotter-goroutine", c.Pos(onStart.Pos()), "one `go spacePlotter()` site, in OnStart; OnStart has no caller in the repository (service.BaseService starts it once per start)")
	} else {
		c.Bad(rule, label+":one-plotter-goroutine", c.Pos(onStart.Pos()), fmt.Sprintf("plotter goroutine start sites: %d (in OnStart: %d), direct callers of OnStart: %d — more than one plotter can run", goSites, goInOnStart, onStartCallers))
	}
}

func checkOffered(c *Ctx) {
	rule := "C09-OFFER"
	// miner asks for SFMining
	if f := c.MustFn(rule, "poc/engine/pocminer/miner", "(*PoCMiner).syncGetBestProof"); f != nil {
		gps := callsIn(f, "("+repoMod+"/poc/engine/spacekeeper.SpaceKeeper).GetProofs")
		if len(gps) == 0 {
			// find by method name on any interface
			allInstrs(f, func(in ssa.Instruction) {
				if cl, ok := in.(*ssa.Call); ok && callName(cl) == "GetProofs" {
					gps = append(gps, cl)
				}
			})
		}
		if len(gps) != 1 {
			c.Bad(rule, "miner:asks-SFMining", c.Pos(f.Pos()), "reason=anchor-missing: GetProofs call in syncGetBestProof")
		} else {
			args := callArgs(gps[0])
			k, ok := strip(args[1]).(*ssa.Const)
			if ok && k.Value != nil && k.Value.Kind() == constant.Int && k.Value.ExactString() == "8" {
				c.OK(rule, "miner:asks-SFMining", c.Pos(gps[0].Pos()), "flags argument is the constant SFMining")
			} else {
				c.Bad(rule, "miner:asks-SFMining", c.Pos(gps[0].Pos()), "the miner does not ask the keeper for exactly the mining spaces (flags argument is not the constant SFMining)")
			}
		}
	}
	if f := c.MustFn(rule, "poc/engine/spacekeeper/capacity", "(*SpaceKeeper).GetProofs"); f != nil {
		gp := callsIn(f, "(*"+pkgCapacity+".SpaceKeeper).getProofs")
		ok := false
		if len(gp) == 1 {
			sl := backSlice(gp[0].Call.Args[1])
			for _, cl := range sl.callsTo(pkgCapacity + ".getWsByFlags") {
				if backSlice(cl.Call.Args[1]).hasParam(f, "flags") && backSlice(cl.Call.Args[0]).hasField(pkgCapacity+".SpaceKeeper", "workSpaceList") {
					ok = true
				}
			}
			// nothing else feeds the map: every MapUpdate on the items map stores an element of the filtered slice
			allInstrs(f, func(in ssa.Instruction) {
				if mu, isMU := in.(*ssa.MapUpdate); isMU {
					if !backSlice(mu.Value).hasCallTo(pkgCapacity + ".getWsByFlags") {
						ok = false
					}
				}
			})
		}
		if ok {
			c.OK(rule, "capacity.GetProofs:only-filtered-spaces", c.Pos(f.Pos()), "the proof workers receive only elements of getWsByFlags(sk.workSpaceList, flags)")
		} else {
			c.Bad(rule, "capacity.GetProofs:only-filtered-spaces", c.Pos(f.Pos()), "GetProofs offers spaces that did not pass getWsByFlags(workSpaceList, flags)")
		}
	}
	if f := c.MustFn(rule, "poc/engine/spacekeeper/capacity", "getWsByFlags"); f != nil {
		// append only on the true edge of states[ws.state], where states is filled from flags.States()
		var tests []boolTest
		okSrc := false
		allInstrs(f, func(in ssa.Instruction) {
			if lk, ok := in.(*ssa.Lookup); ok {
				idx := backSlice(lk.Index)
				if idx.hasField(pkgCapacity+".WorkSpace", "state") {
					tests = append(tests, boolTestsOf(f, lk)...)
				}
			}
			if mu, ok := in.(*ssa.MapUpdate); ok {
				if backSlice(mu.Key).hasCallTo("(" + pkgEngine + ".WorkSpaceStateFlags).States") {
					okSrc = true
				}
			}
		})
		r := reach(f, nil, boolEdgeCut(tests, true), nil)
		bad := len(tests) == 0 || !okSrc
		allInstrs(f, func(in ssa.Instruction) {
			if calleeID(in) == "builtin.append" && r(in) {
				bad = true
			}
		})
		if bad {
			c.Bad(rule, "capacity.getWsByFlags:filters-by-state-field", c.Pos(f.Pos()), "getWsByFlags keeps a space on a path where its state field is not known to be in the set derived from the flags")
		} else {
			c.OK(rule, "capacity.getWsByFlags:filters-by-state-field", c.Pos(f.Pos()), "append only behind states[ws.state], states filled from flags.States()")
		}
	}
	if f := c.MustFn(rule, "poc/engine/spacekeeper/capacity", "(*WorkSpace).Info"); f != nil {
		ok := false
		for _, a := range fieldAccesses(f) {
			if a.Kind == "store" && a.Field == "State" {
				if backSlice(a.In.(*ssa.Store).Val).hasField(pkgCapacity+".WorkSpace", "state") {
					ok = true
				}
			}
		}
		if ok {
			c.OK(rule, "capacity.WorkSpace.Info:reports-state-field", c.Pos(f.Pos()), "WorkSpaceInfo.State is the same field the flag filter reads")
		} else {
			c.Bad(rule, "capacity.WorkSpace.Info:reports-state-field", c.Pos(f.Pos()), "state queries do not report the WorkSpace.state field that the flag filters use")
		}
	}
}

// checkStep3: C09-STEP3.
func checkStep3(c *Ctx, rule, pkg, label string) {
	short := strings.TrimPrefix(pkg, repoMod+"/")
	sp := c.MustFn(rule, short, "(*SpaceKeeper).spacePlotter")
	if sp == nil {
		return
	}
	// the plotter's body: spacePlotter, its closures, and helpers / methods the reference tree does not
	// have (a plot step split into phases, a job object with a run method — summary.go, canon.go)
	body := bodyFns(sp, nil)
	var plot *ssa.Call
	for _, f := range body {
		allInstrsShallow(f, func(in ssa.Instruction) {
			if cl, ok := in.(*ssa.Call); ok && strings.HasSuffix(calleeID(cl), ".WorkSpace).Plot") {
				plot = cl
			}
		})
	}
	if plot == nil {
		c.Bad(rule, label+":spacePlotter:step3-anchor", c.Pos(sp.Pos()), "reason=anchor-missing: ws.Plot() is not called from the plotter")
		return
	}
	pf := plot.Parent()
	afterPlot := reach(pf, plot, nil, nil) // instructions of helpers are projected to their call sites
	sameSpace := func(g *ssa.Function, v ssa.Value) bool {
		if g == pf && sameOriginValue(pf, v, callRecv(plot)) {
			return true
		}
		pa, pb := accessPath(v), accessPath(callRecv(plot))
		if pa != "" && pa == pb {
			return true
		}
		// same field of the queued item / job, reached through different variables
		ta, fa, _, oka := fieldOfValue(v)
		tb, fb, _, okb := fieldOfValue(callRecv(plot))
		return oka && okb && ta == tb && fa == fb
	}
	// completeness tests: Progress() < 100 on the plotted space, evaluated after Plot returned
	type ctest struct {
		iff           *ssa.If
		done, notDone *ssa.BasicBlock
	}
	tests := map[*ssa.Function][]ctest{}
	for _, f := range body {
		f := f
		allInstrsShallow(f, func(in ssa.Instruction) {
			iff, ok := in.(*ssa.If)
			if !ok {
				return
			}
			cmp, ok := iff.Cond.(*ssa.BinOp)
			if !ok {
				return
			}
			prog, isC := cmp.X.(*ssa.Call)
			k, isK := cmp.Y.(*ssa.Const)
			if !isC || !isK || !strings.HasSuffix(calleeID(prog), ".WorkSpace).Progress") || k.Value == nil || !strings.HasPrefix(k.Value.ExactString(), "100") {
				return
			}
			if os.Getenv("VERIF_DEBUG") != "" {
				fmt.Printf("DEBUG step3 test in %s: sameSpace=%v afterPlot=%v recv=%s plotrecv=%s\n", f.Name(), sameSpace(f, callRecv(prog)), afterPlot(prog), accessPath(callRecv(prog)), accessPath(callRecv(plot)))
			}
			if !sameSpace(f, callRecv(prog)) || !afterPlot(prog) {
				return
			}
			b := iff.Block()
			switch cmp.Op {
			case token.LSS:
				tests[f] = append(tests[f], ctest{iff, b.Succs[1], b.Succs[0]})
			case token.GEQ:
				tests[f] = append(tests[f], ctest{iff, b.Succs[0], b.Succs[1]})
			}
		})
	}
	n := 0
	for _, f := range body {
		f := f
		allInstrsShallow(f, func(in ssa.Instruction) {
			cl, isCall := in.(*ssa.Call)
			if !isCall || len(cl.Call.Args) < 2 {
				return
			}
			from, to := stateRef(cl.Call.Args[len(cl.Call.Args)-2]), stateRef(cl.Call.Args[len(cl.Call.Args)-1])
			if from != "k:1" || (to != "k:2" && to != "k:3") {
				return
			}
			if !afterPlot(cl) {
				return
			}
			n++
			key := fmt.Sprintf("%s:spacePlotter:plotting->%s-only-when-complete", label, sname(to))
			complete := false
			for _, t := range tests[f] {
				if t.done != t.notDone && len(t.done.Preds) == 1 && t.done.Dominates(cl.Block()) {
					complete = true
				}
			}
			wm := false
			for _, a := range fieldAccessesShallow(f) {
				if a.Kind == "load" && a.Field == "wouldMining" {
					for _, t := range boolTestsOf(f, a.In.(ssa.Value)) {
						if to == "k:3" && len(t.TrueSucc.Preds) == 1 && t.TrueSucc.Dominates(cl.Block()) {
							wm = true
						}
						if to == "k:2" && len(t.FalseSucc.Preds) == 1 && t.FalseSucc.Dominates(cl.Block()) {
							wm = true
						}
					}
				}
			}
			switch {
			case !complete:
				c.Bad(rule, key, c.Pos(cl.Pos()), "after a plot run the space becomes "+sname(to)+" although `Progress() < 100` may hold (the transition is not behind the completeness test of the plotted space): an interrupted or failed plot is published as a finished one")
			case !wm:
				c.Bad(rule, key, c.Pos(cl.Pos()), "the choice between ready and mining after a plot does not follow the wouldMining request")
			default:
				c.OK(rule, key, c.Pos(cl.Pos()), "behind Progress() >= 100 (after Plot) and the wouldMining "+ifs(to == "k:3", "request", "negation"))
			}
		})
	}
	// step 3 is the cleanup of step 1: once the space was moved to plotting, every way out of the
	// plotter step passes a transition out of plotting
	{
		key := label + ":spacePlotter:always-leaves-plotting"
		isOut := func(in ssa.Instruction) bool {
			cl, ok := in.(*ssa.Call)
			return ok && len(cl.Call.Args) >= 2 && stateRef(cl.Call.Args[len(cl.Call.Args)-2]) == "k:1"
		}
		r := reach(pf, plot, nil, isOut) // a phase helper that always leaves `plotting` stops the walk like the step itself
		stuck := false
		for _, ret := range returnsOf(pf) {
			if r(ret) {
				stuck = true
			}
		}
		// …and the plot is started once per step: a second ws.Plot() for the same request without a new
		// look at the state under the lock would plot a space whose stop was already answered (a stop reaches a
		// plot only while the db is plotting)
		key2 := label + ":spacePlotter:one-plot-per-step"
		if r(plot) {
			c.Bad(rule, key2, c.Pos(plot.Pos()), "ws.Plot() can be reached again from itself without a transition out of `plotting` in between (a retry loop around the plot): a stop that arrives between two attempts finds no running plot, is answered with success, and the space is plotted all the same")
		} else {
			c.OK(rule, key2, c.Pos(plot.Pos()), "ws.Plot() is not re-entered before the step's transition out of plotting")
		}
		if stuck {
			c.Bad(rule, key, c.Pos(plot.Pos()), "after ws.Plot() the plotter can return without moving the space out of `plotting` (e.g. an early return on a plot error): the space stays plotting forever, later requests for it fail, and the next plot runs beside it")
		} else {
			c.OK(rule, key, c.Pos(plot.Pos()), "every path from ws.Plot() to the end of the step passes a transition out of plotting")
		}
	}
	if n < 2 {
		c.Bad(rule, label+":spacePlotter:step3-anchor", c.Pos(pf.Pos()), fmt.Sprintf("reason=anchor-missing: expected the plotting->ready and plotting->mining steps after ws.Plot(), found %d", n))
	}
}

// checkPoppedItem: C09-ITEM.
func checkPoppedItem(c *Ctx, pkg, label string) {
	rule := "C09-ITEM"
	short := strings.TrimPrefix(pkg, repoMod+"/")
	pi := c.MustFn(rule, short, "(*plotterQueue).PoppedItem")
	if pi == nil {
		return
	}
	key := label + ":PoppedItem:returns-the-stored-item"
	bad := ""
	for _, ret := range returnsOf(pi) {
		valueOrigins(pi, ret.Results[0], func(root ssa.Value) {
			switch x := root.(type) {
			case *ssa.Const:
				return
			case *ssa.UnOp:
				if _, f, _, ok := fieldOfValue(x); ok && f == "poppedItem" {
					return
				}
			}
			bad = c.Pos(ret.Pos()) + " "
		})
	}
	// and the writers of wouldMining outside the constructor reach their object through PoppedItem / the queue
	writers := 0
	for fn := range c.AllFuncs {
		if pkgOf(fn) != pkg {
			continue
		}
		for _, a := range fieldAccessesShallow(fn) {
			if a.Kind == "store" && a.Field == "wouldMining" && !isFreshObject(a.Base) {
				writers++
			}
		}
	}
	if bad != "" {
		c.Bad(rule, key, bad, "PoppedItem hands out something other than the stored item (a copy): PlotWS/MineWS/StopWS then change wouldMining on an object the plotter never reads, so a request that arrives during plotting is lost")
	} else if writers == 0 {
		c.Bad(rule, key, c.Pos(pi.Pos()), "reason=anchor-missing: no writer of wouldMining on a shared item")
	} else {
		c.OK(rule, key, c.Pos(pi.Pos()), fmt.Sprintf("returns pq.poppedItem itself; %d writers of wouldMining reach the shared item", writers))
	}
}

// checkListAliasing: C09-LIST.
func checkListAliasing(c *Ctx, pkg, label string) {
	rule := "C09-LIST"
	isWSSlice := func(t types.Type) bool {
		sl, ok := t.Underlying().(*types.Slice)
		return ok && strings.HasSuffix(sl.Elem().String(), ".WorkSpace")
	}
	var fns []*ssa.Function
	for fn := range c.AllFuncs {
		if pkgOf(fn) == pkg && len(fn.Blocks) > 0 {
			fns = append(fns, fn)
		}
	}
	sort.Slice(fns, func(i, j int) bool { return FuncName(fns[i]) < FuncName(fns[j]) })
	// origin of a slice value: the parameters / field it may alias (through Slice, Phi, and helper calls
	// that may return their parameter)
	returnsAlias := map[*ssa.Function]map[int]bool{}
	writesBacking := map[*ssa.Function]map[int]bool{}
	var aliasRoots func(fn *ssa.Function, v ssa.Value, depth int, out map[ssa.Value]bool)
	visiting := map[ssa.Value]bool{}
	aliasRoots = func(fn *ssa.Function, v ssa.Value, depth int, out map[ssa.Value]bool) {
		if visiting[v] || depth > 6 {
			return
		}
		visiting[v] = true
		defer delete(visiting, v)
		valueOrigins(fn, v, func(root ssa.Value) {
			switch x := root.(type) {
			case *ssa.Slice:
				aliasRoots(fn, x.X, depth, out)
			case *ssa.Call:
				if g := x.Call.StaticCallee(); g != nil && pkgOf(g) == pkg && depth < 3 {
					for i := range returnsAlias[g] {
						if i < len(x.Call.Args) {
							aliasRoots(fn, x.Call.Args[i], depth+1, out)
						}
					}
					return
				}
				if b, ok := x.Call.Value.(*ssa.Builtin); ok && b.Name() == "append" {
					aliasRoots(fn, x.Call.Args[0], depth, out)
					return
				}
				out[root] = true
			default:
				out[root] = true
			}
		})
	}
	for round := 0; round < 3; round++ {
		for _, fn := range fns {
			for i, p := range fn.Params {
				if !isWSSlice(p.Type()) {
					continue
				}
				for _, ret := range returnsOf(fn) {
					for _, r := range ret.Results {
						if !isWSSlice(r.Type()) {
							continue
						}
						roots := map[ssa.Value]bool{}
						aliasRoots(fn, r, 0, roots)
						if roots[p] {
							if returnsAlias[fn] == nil {
								returnsAlias[fn] = map[int]bool{}
							}
							returnsAlias[fn][i] = true
						}
					}
				}
				allInstrsShallow(fn, func(in ssa.Instruction) {
					hit := func(dst ssa.Value) {
						roots := map[ssa.Value]bool{}
						aliasRoots(fn, dst, 0, roots)
						if roots[p] {
							if writesBacking[fn] == nil {
								writesBacking[fn] = map[int]bool{}
							}
							writesBacking[fn][i] = true
						}
					}
					switch x := in.(type) {
					case *ssa.Call:
						if b, ok := x.Call.Value.(*ssa.Builtin); ok {
							if b.Name() == "append" {
								// append(src[:i], …) writes into src's array when the capacity allows
								if sl, isS := x.Call.Args[0].(*ssa.Slice); isS {
									hit(sl.X)
								}
							}
							if b.Name() == "copy" {
								hit(x.Call.Args[0])
							}
						}
					case *ssa.Store:
						if ia, ok := x.Addr.(*ssa.IndexAddr); ok && isWSSlice(ia.X.Type()) {
							hit(ia.X)
						}
					}
				})
			}
		}
	}
	isListField := func(v ssa.Value) bool {
		_, f, _, ok := fieldOfValue(v)
		return ok && f == "workSpaceList"
	}
	aliasesList := func(fn *ssa.Function, v ssa.Value) bool {
		roots := map[ssa.Value]bool{}
		aliasRoots(fn, v, 0, roots)
		for r := range roots {
			if isListField(r) {
				return true
			}
		}
		return false
	}
	// functions that (transitively) modify the list's array in place
	mutates := map[*ssa.Function]bool{}
	for round := 0; round < 6; round++ {
		for _, fn := range fns {
			if mutates[fn] {
				continue
			}
			allInstrsShallow(fn, func(in ssa.Instruction) {
				cl, ok := in.(ssa.CallInstruction)
				if !ok {
					return
				}
				g := cl.Common().StaticCallee()
				if g == nil || pkgOf(g) != pkg {
					return
				}
				if mutates[g] {
					mutates[fn] = true
				}
				for i := range writesBacking[g] {
					if i < len(cl.Common().Args) && aliasesList(fn, cl.Common().Args[i]) {
						mutates[fn] = true
					}
				}
			})
		}
	}
	n := 0
	for _, fn := range fns {
		// index loops over a []*WorkSpace: IndexAddr in a re-entered block
		seen := map[ssa.Value]bool{}
		allInstrsShallow(fn, func(in ssa.Instruction) {
			ia, ok := in.(*ssa.IndexAddr)
			if !ok || !isWSSlice(ia.X.Type()) || !blockReentered(fn, ia) || seen[ia.X] {
				return
			}
			seen[ia.X] = true
			if !aliasesList(fn, ia.X) {
				return
			}
			n++
			key := fmt.Sprintf("%s:%s:loop-over-list#%d", label, fn.Name(), len(seen))
			// does the loop body reach an in-place mutation?
			var via ssa.Instruction
			r := reach(fn, ia, nil, nil)
			allInstrsShallow(fn, func(x ssa.Instruction) {
				cl, ok := x.(ssa.CallInstruction)
				if !ok || !r(x) || !reach(fn, x, nil, nil)(ia) {
					return
				}
				if g := cl.Common().StaticCallee(); g != nil && pkgOf(g) == pkg {
					if mutates[g] {
						via = x
					}
					for i := range writesBacking[g] {
						if i < len(cl.Common().Args) && aliasesList(fn, cl.Common().Args[i]) {
							via = x
						}
					}
				}
			})
			if via != nil {
				c.Bad(rule, key, c.Pos(via.Pos()), "the loop iterates a slice that may share its array with the configured list while its body (through "+shortID(calleeID(via))+") modifies that array in place: elements are skipped or visited twice (a bulk remove/delete leaves a space configured and reports another as missing)")
			} else {
				c.OK(rule, key, c.Pos(ia.Pos()), "the body cannot modify the array being iterated")
			}
		})
	}
	if n == 0 {
		// today every bulk loop iterates a fresh getWsByFlags result; keep a positive anchor
		gw := c.Fn(strings.TrimPrefix(pkg, repoMod+"/"), "getWsByFlags")
		if gw == nil {
			c.Bad(rule, label+":anchor", "", "reason=anchor-missing: getWsByFlags")
			return
		}
		if len(returnsAlias[gw]) == 0 {
			c.OK(rule, label+":getWsByFlags:fresh-result", c.Pos(gw.Pos()), "getWsByFlags never returns its argument: bulk loops iterate a snapshot")
		}
	}
	del := c.Fn(strings.TrimPrefix(pkg, repoMod+"/"), "deleteFromSlice")
	if del != nil {
		if len(writesBacking[del]) == 0 {
			c.OK(rule, label+":deleteFromSlice:copy-on-write", c.Pos(del.Pos()), "deleteFromSlice builds a new array")
		} else {
			c.Note("%s: deleteFromSlice modifies its argument's array in place (allowed as long as no loop iterates an alias)", label)
		}
	}
}

// checkQueueDeleteAll: plotterQueue.Delete(sid) removes every entry of the space: the scan over the
// queue ends only when the queue is exhausted, never on the first match.
func checkQueueDeleteAll(c *Ctx, pkg, label string) {
	rule := "C09-QUEUE"
	short := strings.TrimPrefix(pkg, repoMod+"/")
	f := c.MustFn(rule, short, "(*plotterQueue).Delete")
	if f == nil {
		return
	}
	key := label + ":plotterQueue.Delete:removes-every-entry"
	var pops []ssa.Instruction
	allInstrs(f, func(in ssa.Instruction) {
		if cl, ok := in.(*ssa.Call); ok && callName(cl) == "Pop" && blockReentered(f, cl) {
			pops = append(pops, cl)
		}
	})
	if len(pops) == 0 {
		c.Bad(rule, key, c.Pos(f.Pos()), "reason=anchor-missing: the scan loop popping the queue")
		return
	}
	bad := ""
	isBad := false
	exits := 0
	for _, pop := range pops {
		// loop blocks: those that reach the Pop and are reached from it
		inLoop := map[*ssa.BasicBlock]bool{}
		fromPop := reach(f, pop, nil, nil)
		for _, b := range f.Blocks {
			if len(b.Instrs) == 0 {
				continue
			}
			first := b.Instrs[0]
			if (fromPop(first) || b == pop.Block()) && (reach(f, first, nil, nil)(pop) || b == pop.Block()) {
				inLoop[b] = true
			}
		}
		for b := range inLoop {
			for _, s2 := range b.Succs {
				if inLoop[s2] {
					continue
				}
				exits++
				iff, ok := b.Instrs[len(b.Instrs)-1].(*ssa.If)
				okExit := false
				if ok {
					for x := range backSlice(iff.Cond).vals {
						if cl, isC := x.(*ssa.Call); isC && callName(cl) == "Empty" {
							okExit = true
						}
					}
				}
				if !okExit {
					isBad = true
					bad = c.Pos(pop.Pos())
				}
			}
		}
	}
	if isBad {
		c.Bad(rule, key, bad, "the scan leaves the loop before the queue is exhausted (on a match): a space queued more than once keeps an entry after Stop/Remove/Delete and is plotted anyway")
	} else if exits == 0 {
		c.Bad(rule, key, c.Pos(f.Pos()), "reason=anchor-missing: loop exit")
	} else {
		c.OK(rule, key, c.Pos(pops[0].Pos()), "the scan ends only when the queue is empty")
	}
}

// checkOnStopWaits: OnStop returns only after the plotter goroutine has ended (wg.Wait on every path),
// otherwise a restarted keeper runs two plotters.
func checkOnStopWaits(c *Ctx, pkg, label string) {
	rule := "C09-PLOTTER"
	short := strings.TrimPrefix(pkg, repoMod+"/")
	f := c.MustFn(rule, short, "(*SpaceKeeper).OnStop")
	if f == nil {
		return
	}
	key := label + ":OnStop:waits-for-the-plotter"
	isWait := func(in ssa.Instruction) bool {
		cl, ok := in.(*ssa.Call)
		return ok && calleeID(cl) == "(*sync.WaitGroup).Wait" && strings.HasSuffix(accessPath(callRecv(cl)), ".wg")
	}
	has := false
	allInstrs(f, func(in ssa.Instruction) {
		if isWait(in) {
			has = true
		}
	})
	r := reach(f, f.Blocks[0].Instrs[0], nil, isWait)
	skip := false
	for _, ret := range returnsOf(f) {
		if r(ret) {
			skip = true
		}
	}
	switch {
	case !has:
		c.Bad(rule, key, c.Pos(f.Pos()), "OnStop does not wait for the plotter goroutine")
	case skip:
		c.Bad(rule, key, c.Pos(f.Pos()), "OnStop can return without waiting for the plotter goroutine: the old plotter survives a quick Stop/Start and two spaces plot at once")
	default:
		c.OK(rule, key, c.Pos(f.Pos()), "sk.wg.Wait() on every path")
	}
}

// checkListedOnce: a space is in the configured list at most once. Every append to workSpaceList happens in
// a function that first searches the list for the same id (a loop over workSpaceList with a string
// equality test from which the append is reachable only when nothing matched). A duplicate entry survives
// Remove (which deletes the first match), so state queries keep listing a space the actions no longer know.
func checkListedOnce(c *Ctx, pkg, label string) {
	rule := "C09-LIST"
	n := 0
	var fns []*ssa.Function
	for fn := range c.AllFuncs {
		if pkgOf(fn) == pkg {
			fns = append(fns, fn)
		}
	}
	sort.Slice(fns, func(i, j int) bool { return FuncName(fns[i]) < FuncName(fns[j]) })
	for _, fn := range fns {
		for _, a := range fieldAccessesShallow(fn) {
			if a.Kind != "store" || a.Type != pkg+".SpaceKeeper" || a.Field != "workSpaceList" || isFreshObject(a.Base) {
				continue
			}
			st := a.In.(*ssa.Store)
			var app *ssa.Call
			for v := range backSlice(st.Val).vals {
				if cl, ok := v.(*ssa.Call); ok {
					if b, isB := cl.Call.Value.(*ssa.Builtin); isB && b.Name() == "append" && cl.Parent() == fn {
						// an append that extends the list itself (not a rebuild from another slice)
						if backSlice(cl.Call.Args[0]).hasField(pkg+".SpaceKeeper", "workSpaceList") {
							app = cl
						}
					}
				}
			}
			if app == nil {
				continue
			}
			n++
			key := fmt.Sprintf("%s:%s:append-behind-membership-test", label, fn.Name())
			searched := false
			allInstrsShallow(fn, func(in ssa.Instruction) {
				bo, ok := in.(*ssa.BinOp)
				if !ok || (bo.Op != token.EQL && bo.Op != token.NEQ) || !blockReentered(fn, bo) {
					return
				}
				if b, isB := bo.X.Type().Underlying().(*types.Basic); !isB || b.Info()&types.IsString == 0 {
					return
				}
				if !(backSlice(bo.X).hasField(pkg+".SpaceKeeper", "workSpaceList") || backSlice(bo.Y).hasField(pkg+".SpaceKeeper", "workSpaceList")) {
					return
				}
				// the match edge must not reach the append
				for _, t := range boolTestsOf(fn, bo) {
					match := t.TrueSucc
					if bo.Op == token.NEQ {
						match = t.FalseSucc
					}
					r := reach(fn, t.If, func(from, to *ssa.BasicBlock) bool { return from == t.If.Block() && to != match }, nil)
					if !r(app) && instrDominatesOrReaches(fn, bo, app) {
						searched = true
					}
				}
			})
			if searched {
				c.OK(rule, key, c.Pos(app.Pos()), "the list is searched for the id first; a match skips the append")
			} else {
				c.Bad(rule, key, c.Pos(app.Pos()), "a space is appended to the configured list without checking that it is not listed yet: a configuration naming one space twice lists it twice, Remove takes out one entry, and queries keep showing a removed space")
			}
		}
	}
	if n == 0 {
		c.Bad(rule, label+":anchor:list-append", "", "reason=anchor-missing: no append to workSpaceList found")
	}
}

func instrDominatesOrReaches(fn *ssa.Function, a, b ssa.Instruction) bool {
	return instrDominates(a, b) || reach(fn, a, nil, nil)(b)
}
