package main

func init() {
	variants["C06"] = []variant{
		{Name: "ordinal taken from the size of the address map", Kill: true, Rule: "C06-ORDINAL", File: fMgr,
			Old: "\t\t\tindex = managedAddr.derivationPath.Index\n", New: "\t\t\tindex = uint32(len(addrManager.addrs) - 1)\n"},
		{Name: "counter of the other branch advanced", Kill: true, Rule: "C06-RMW", File: fAddrMgr,
			Old: "\terr = updateChildNum(am, internal, nextIndex)\n", New: "\terr = updateChildNum(am, !internal, nextIndex)\n"},
		{Name: "counter written one lower than consumed (index reused)", Kill: true, Rule: "C06-RMW", File: fAddrMgr,
			Old: "\terr = updateChildNum(am, internal, nextIndex)\n", New: "\terr = updateChildNum(am, internal, nextIndex-1)\n"},
		{Name: "address-manager lock taken after the counter was read", Kill: true, Rule: "C06-RMW", File: fAddrMgr,
			Old:   "func (a *AddrManager) nextAddresses(dbTransaction db.DBTransaction, internal bool, numAddresses uint32, net *config.Params) ([]*ManagedAddress, error) {\n\ta.mu.Lock()\n\tdefer a.mu.Unlock()\n\tam := dbTransaction.FetchBucket(a.storage)",
			New:   "func (a *AddrManager) nextAddresses(dbTransaction db.DBTransaction, internal bool, numAddresses uint32, net *config.Params) ([]*ManagedAddress, error) {\n\tam := dbTransaction.FetchBucket(a.storage)",
			File2: fAddrMgr, Old2: "\tbranchKey, err := acctKey.Child(branch)\n", New2: "\ta.mu.Lock()\n\tdefer a.mu.Unlock()\n\tbranchKey, err := acctKey.Child(branch)\n"},
		{Name: "public key persisted under the next index", Kill: true, Rule: "C06-RMW", File: fAddrMgr,
			Old: "\t\terr = putEncryptedPubKey(pkBucket, info.branch, info.index, pubKeyEnc)\n\t\tif err != nil {\n\t\t\treturn nil, err\n\t\t}\n\t}\n\n\treturn managedAddresses, nil", New: "\t\terr = putEncryptedPubKey(pkBucket, info.branch, info.index+1, pubKeyEnc)\n\t\tif err != nil {\n\t\t\treturn nil, err\n\t\t}\n\t}\n\n\treturn managedAddresses, nil"},
		{Name: "recorded index is the counter after the increment", Kill: true, Rule: "C06-RMW", File: fAddrMgr,
			Old: "\t\t\tBranch:  branch,\n\t\t\tIndex:   nextIndex - 1,\n", New: "\t\t\tBranch:  branch,\n\t\t\tIndex:   nextIndex,\n"},
		{Name: "keeper names new plots with ordinal 0", Kill: true, Rule: "C06-KEEPER", File: fCapacity,
			Old: "\treturn NewWorkSpace(sk.dbType, rootDir, int64(ordinal), pubKey, bitLength)", New: "\t_ = ordinal\n\treturn NewWorkSpace(sk.dbType, rootDir, 0, pubKey, bitLength)"},
		{Name: "plot keys issued on the internal branch", Kill: true, Rule: "C06-ORDINAL", File: fMgr,
			Old: "managedAddresses, err = addrManager.nextAddresses(dbTransaction, false, 1, kmc.params)", New: "managedAddresses, err = addrManager.nextAddresses(dbTransaction, true, 1, kmc.params)"},

		{Name: "branch computed before the account key is chosen", Kill: false, File: fAddrMgr,
			Old: "\tvar acctKey *hdkeychain.ExtendedKey\n\tacctKey = a.acctInfo.acctKeyPub\n", New: "\tvar acctKey *hdkeychain.ExtendedKey\n\tlogging.CPrint(logging.DEBUG, \"next addresses\", logging.LogFormat{\"internal\": internal})\n\tacctKey = a.acctInfo.acctKeyPub\n"},
		{Name: "ordinal and key read into locals first", Kill: false, File: fMgr,
			Old: "\t\t\tindex = managedAddr.derivationPath.Index\n", New: "\t\t\tdp := managedAddr.derivationPath\n\t\t\tindex = dp.Index\n"},
	}
	variants["C05"] = []variant{
		{Name: "internal branch key used for every address when unlocking", Kill: true, Rule: "C05-BIND", File: fAddrMgr,
			Old: "\t\t\texBKey = exBranchKeyExPriv\n\t\t} else {", New: "\t\t\texBKey = inBranchKeyExPriv\n\t\t} else {"},
		{Name: "branch test inverted when unlocking", Kill: true, Rule: "C05-BIND", File: fAddrMgr,
			Old: "\t\tif mAddr.derivationPath.Branch == ExternalBranch {", New: "\t\tif mAddr.derivationPath.Branch != ExternalBranch {"},
		{Name: "SignHash signs the hash of the hash", Kill: true, Rule: "C05-LOOKUP", File: fMgr,
			Old: "\tsig, err := acctM.signPocec(hash, addr)\n", New: "\th2 := wire.HashH(hash)\n\tsig, err := acctM.signPocec(h2[:], addr)\n"},
		{Name: "signing allowed while locked for empty digests", Kill: true, Rule: "C05-GATE", File: fAddrMgr,
			Old: "\tif !a.unlocked {\n\t\terr = errors.New(\"addrManager locked\")", New: "\tif !a.unlocked && len(hash) != 0 {\n\t\terr = errors.New(\"addrManager locked\")"},
		{Name: "imported internal addresses recorded on the external branch", Kill: true, Rule: "C05-BIND", File: fMgr,
			Old: "\t\t\t\tBranch:  InternalBranch,\n\t\t\t\tIndex:   i,\n", New: "\t\t\t\tBranch:  ExternalBranch,\n\t\t\t\tIndex:   i,\n"},
		{Name: "keeper signs with the first workspace's key", Kill: true, Rule: "C05-KEEPER", File: fCapacity,
			Old: "\t\treturn sk.wallet.SignMessage(ws.id.PubKey(), hash[:])", New: "\t\t_ = ws\n\t\treturn sk.wallet.SignMessage(sk.workSpaceList[0].id.PubKey(), hash[:])"},

		{Name: "address string computed through a helper-free inline call", Kill: false, File: fMgr,
			Old: "\taddr := address.EncodeAddress()\n\tacctM, err := kmc.getAddrManager(addr)\n\tif err != nil {\n\t\treturn nil, err\n\t}\n\n\tsig, err := acctM.signPocec(hash, addr)", New: "\tacctM, err := kmc.getAddrManager(address.EncodeAddress())\n\tif err != nil {\n\t\treturn nil, err\n\t}\n\n\tsig, err := acctM.signPocec(hash, address.EncodeAddress())"},
		{Name: "branch selection written as a switch", Kill: false, File: fAddrMgr,
			Old: "\t\tif mAddr.derivationPath.Branch == ExternalBranch {\n\t\t\texBKey = exBranchKeyExPriv\n\t\t} else {\n\t\t\texBKey = inBranchKeyExPriv\n\t\t}", New: "\t\tswitch mAddr.derivationPath.Branch {\n\t\tcase ExternalBranch:\n\t\t\texBKey = exBranchKeyExPriv\n\t\tdefault:\n\t\t\texBKey = inBranchKeyExPriv\n\t\t}"},
	}
}
