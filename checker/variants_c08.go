package main

const fMiner = "poc/engine/pocminer/miner/miner.go"

func init() {
	variants["C08"] = []variant{
		{Name: "binding filter dropped", Kill: true, Rule: "C08-FILTER", File: fMinerStrategy,
			Old: "\tproofs = getBindingProofs(proofs, pocTemplate)\n", New: ""},
		{Name: "binding filter keeps everything", Kill: true, Rule: "C08-FILTER", File: fMinerStrategy,
			Old: "\t\tif template.PassBinding(proofs[i]) {", New: "\t\tif template.PassBinding(proofs[i]) || len(proofs) == 1 {"},
		{Name: "template returned when quality merely equals the target", Kill: true, Rule: "C08-TARGET", File: fMinerStrategy,
			Old: "if bestQuality.Cmp(pocTemplate.GetTarget(pocTemplate.Timestamp)) > 0 {", New: "if bestQuality.Cmp(pocTemplate.GetTarget(pocTemplate.Timestamp)) >= 0 {"},
		{Name: "quality computed with the first proof's key for all proofs", Kill: true, Rule: "C08-TARGET", File: fMinerStrategy,
			Old: "proof.Proof.VerifiedQuality(pocutil.PubKeyHash(proof.PublicKey), challenge", New: "proof.Proof.VerifiedQuality(pocutil.PubKeyHash(proofs[0].PublicKey), challenge"},
		{Name: "slot advanced without the template timestamp", Kill: true, Rule: "C08-SLOT", File: fMinerStrategy,
			Old: "\t\t\t\tpocTemplate.Timestamp = pocTemplate.Timestamp.Add(pocSlot * time.Second)\n", New: ""},
		{Name: "stale monitor consulted only for the first slot of a tick", Kill: true, Rule: "C08-SLOT", File: fMinerStrategy,
			Old: "\t\t\t\tdefault:\n\t\t\t\t\tif staled() {", New: "\t\t\t\tdefault:\n\t\t\t\t\tif i == workSlot && staled() {"},
		{Name: "header field changed after the PoC hash was signed", Kill: true, Rule: "C08-SIGN", File: fMiner,
			Old: "\tlogging.CPrint(logging.INFO, \"Step 8: return\")\n", New: "\tblock.Header.Target = pocTemplate.GetTarget(tProof.time)\n\tlogging.CPrint(logging.INFO, \"Step 8: return\")\n"},
		{Name: "header target evaluated at the template time instead of the winning slot's", Kill: true, Rule: "C08-SIGN", File: fMiner,
			Old: "\tblock.Header.Target = pocTemplate.GetTarget(tProof.time)\n", New: "\tblock.Header.Target = pocTemplate.GetTarget(pocTemplate.Timestamp)\n"},
		{Name: "solo miners submit without waiting for the timestamp", Kill: true, Rule: "C08-SUBMIT", File: fMiner,
			Old: "\t\tif time.Now().After(block.MsgBlock().Header.Timestamp) {", New: "\t\tif time.Now().After(block.MsgBlock().Header.Timestamp) || m.allowSolo {"},
		{Name: "height recorded as mined before the chain accepted the block", Kill: true, Rule: "C08-SUBMIT", File: fMiner,
			Old: "\tisOrphan, err := m.chain.ProcessBlock(block)\n", New: "\tm.minedHeight[block.Height()] = struct{}{}\n\tisOrphan, err := m.chain.ProcessBlock(block)\n"},
		{Name: "double-mining map read from the stop path", Kill: true, Rule: "C08-SUBMIT", File: fMiner,
			Old: "\tclose(m.quit)\n\tm.wg.Wait()\n", New: "\tclose(m.quit)\n\tdelete(m.minedHeight, 0)\n\tm.wg.Wait()\n"},

		{Name: "target computed into a local before the comparison", Kill: false, File: fMinerStrategy,
			Old: "\t\t\t\tif bestQuality.Cmp(pocTemplate.GetTarget(pocTemplate.Timestamp)) > 0 {", New: "\t\t\t\ttarget := pocTemplate.GetTarget(pocTemplate.Timestamp)\n\t\t\t\tif bestQuality.Cmp(target) > 0 {"},
		{Name: "timestamp wait written as a negated loop condition", Kill: false, File: fMiner,
			Old: "\tfor {\n\t\tif time.Now().After(block.MsgBlock().Header.Timestamp) {\n\t\t\tbreak\n\t\t}\n\t\ttime.Sleep(time.Second * pocSlot / 4)\n\t}\n", New: "\tfor !time.Now().After(block.MsgBlock().Header.Timestamp) {\n\t\ttime.Sleep(time.Second * pocSlot / 4)\n\t}\n"},
		{Name: "target hoisted out of the slot loop (seed C08-r2a)", Kill: true, Rule: "C08-TARGET", File: "poc/engine/pocminer/miner/strategy.go",
			Old: "\t\t\tfor i := workSlot; i <= nowSlot+allowAhead; i++ {\n", New: "\t\t\ttarget := pocTemplate.GetTarget(pocTemplate.Timestamp)\n\t\t\tfor i := workSlot; i <= nowSlot+allowAhead; i++ {\n",
			File2: "poc/engine/pocminer/miner/strategy.go", Old2: "\t\t\t\tif bestQuality.Cmp(pocTemplate.GetTarget(pocTemplate.Timestamp)) > 0 {\n", New2: "\t\t\t\tif bestQuality.Cmp(target) > 0 {\n"},
		{Name: "target computed into a local inside the slot loop", Kill: false, File: "poc/engine/pocminer/miner/strategy.go",
			Old: "\t\t\t\tif bestQuality.Cmp(pocTemplate.GetTarget(pocTemplate.Timestamp)) > 0 {\n", New: "\t\t\t\ttarget := pocTemplate.GetTarget(pocTemplate.Timestamp)\n\t\t\t\tif bestQuality.Cmp(target) > 0 {\n"},
		{Name: "mined heights below the new one are forgotten (seed C08-r2b)", Kill: true, Rule: "C08-SUBMIT", File: "poc/engine/pocminer/miner/miner.go",
			Old: "\tm.minedHeight[block.Height()] = struct{}{}\n", New: "\tfor height := range m.minedHeight {\n\t\tif height < block.Height() {\n\t\t\tdelete(m.minedHeight, height)\n\t\t}\n\t}\n\tm.minedHeight[block.Height()] = struct{}{}\n"},
	}
}

func init() {
	variants["C08"] = append(variants["C08"],
		variant{Name: "best quality not reset between slots", Kill: true, Rule: "C08-TARGET", File: fMinerStrategy,
			Old: "\t\t\t\tbestQuality.SetUint64(0)\n", New: ""},
		variant{Name: "stale monitor waits for the next height only", Kill: true, Rule: "C08-SLOT", File: fMiner,
			Old: "\tch, err := chain.BlockWaiter(node.Height)\n", New: "\tch, err := chain.BlockWaiter(node.Height + 1)\n"},
		variant{Name: "best accumulator reset by assigning a fresh zero", Kill: false, File: fMinerStrategy,
			Old: "\t\t\t\tbestQuality.SetUint64(0)\n", New: "\t\t\t\tbestQuality = big.NewInt(0)\n"},
	)
}
