package main

import (
	"fmt"
	"go/token"
	"sort"
	"strings"

	"golang.org/x/tools/go/ssa"
)

// Window tiling (part of C07-ORDER / C10-ORDER): a plotting pass fills its table window by window. The
// window that starts at point s is written at file position offset + s*S (S bytes per point) and covers
// cache.Len()/D points (the next window starts at s + cache.Len()/D). The windows tile the table exactly
// when S == D. Both are read off the code as products of leaves and a constant (recordSize*4,
// (Len/recordSize)>>2 → recordSize·4): a shared "commit window" helper that derives the stride from
// another field or takes it from an argument is followed through its parameters to this pass's call site.

type monomial struct {
	leaves []string // sorted canonical leaves
	k      int64
}

func (m monomial) String() string {
	if len(m.leaves) == 0 {
		return fmt.Sprintf("%d", m.k)
	}
	return fmt.Sprintf("%s·%d", strings.Join(m.leaves, "·"), m.k)
}

func (m monomial) equal(o monomial) bool {
	if m.k != o.k || len(m.leaves) != len(o.leaves) {
		return false
	}
	for i := range m.leaves {
		if m.leaves[i] != o.leaves[i] {
			return false
		}
	}
	return true
}

func mulMono(a, b monomial) monomial {
	out := monomial{k: a.k * b.k}
	out.leaves = append(append([]string{}, a.leaves...), b.leaves...)
	sort.Strings(out.leaves)
	return out
}

// monoOf: v as a product of leaves and a constant. The record size of a map is one leaf whatever way it is
// read (the HashMap.recordSize field, pocutil.RecordSize(bl)); a loop variable is the leaf "phi".
func monoOf(v ssa.Value, depth int) (monomial, bool) {
	if depth > 12 {
		return monomial{}, false
	}
	switch x := v.(type) {
	case *ssa.Const:
		if n, ok := constInt(x); ok {
			return monomial{k: n}, true
		}
		return monomial{}, false
	case *ssa.Convert:
		return monoOf(x.X, depth+1)
	case *ssa.ChangeType:
		return monoOf(x.X, depth+1)
	case *ssa.BinOp:
		switch x.Op {
		case token.MUL:
			a, ok1 := monoOf(x.X, depth+1)
			b, ok2 := monoOf(x.Y, depth+1)
			if ok1 && ok2 {
				return mulMono(a, b), true
			}
			return monomial{}, false
		case token.SHL:
			a, ok1 := monoOf(x.X, depth+1)
			if k, isK := strip(x.Y).(*ssa.Const); ok1 && isK {
				if n, ok := constInt(k); ok && n >= 0 && n < 32 {
					a.k *= int64(1) << uint(n)
					return a, true
				}
			}
			return monomial{}, false
		}
		return monomial{}, false
	case *ssa.Phi:
		return monomial{leaves: []string{"phi"}, k: 1}, true
	case *ssa.Parameter:
		if h := x.Parent(); h != nil && h.Parent() == nil && gNewFuncs[h] {
			if ss := sitesOf(h); len(ss) == 1 && ss[0].Common().StaticCallee() == h {
				for i, q := range h.Params {
					if q == x && i < len(ss[0].Common().Args) {
						return monoOf(ss[0].Common().Args[i], depth+1)
					}
				}
			}
		}
		return monomial{leaves: []string{"param:" + x.Name()}, k: 1}, true
	case *ssa.Call:
		if strings.HasSuffix(calleeID(x), "/pocutil.RecordSize") {
			return monomial{leaves: []string{"recordSize"}, k: 1}, true
		}
		if h := x.Call.StaticCallee(); h != nil && gNewFuncs[h] && h.Signature.Results().Len() == 1 {
			if rets := returnsOf(h); len(rets) == 1 {
				return monoOf(rets[0].Results[0], depth+1)
			}
		}
		return monomial{leaves: []string{"call:" + shortID(calleeID(x))}, k: 1}, true
	case *ssa.UnOp:
		if x.Op == token.MUL {
			if _, f, _, ok := fieldOfValue(x); ok {
				if f == "recordSize" {
					return monomial{leaves: []string{"recordSize"}, k: 1}, true
				}
				return monomial{leaves: []string{"field:" + f}, k: 1}, true
			}
			// a local or captured variable: its single definition
			var roots []ssa.Value
			valueOriginsLocal(x.Parent(), x, func(r ssa.Value) { roots = append(roots, r) })
			if len(roots) == 1 && roots[0] != ssa.Value(x) {
				return monoOf(roots[0], depth+1)
			}
			if len(roots) > 1 {
				// a loop variable kept in a cell
				return monomial{leaves: []string{"phi"}, k: 1}, true
			}
		}
	case *ssa.FreeVar:
		var roots []ssa.Value
		valueOrigins(x.Parent(), x, func(r ssa.Value) { roots = append(roots, r) })
		if len(roots) == 1 && roots[0] != ssa.Value(x) {
			return monoOf(roots[0], depth+1)
		}
	}
	return monomial{}, false
}

// addTerms: the operands of a sum (x + y + z …), conversions looked through.
func addTerms(v ssa.Value, out *[]ssa.Value, depth int) {
	if depth > 8 {
		*out = append(*out, v)
		return
	}
	switch x := v.(type) {
	case *ssa.Convert:
		addTerms(x.X, out, depth+1)
		return
	case *ssa.BinOp:
		if x.Op == token.ADD {
			addTerms(x.X, out, depth+1)
			addTerms(x.Y, out, depth+1)
			return
		}
	case *ssa.Call:
		// the position computed by a helper the reference tree does not have (`hm.windowPos(start)`)
		if h := x.Call.StaticCallee(); h != nil && gNewFuncs[h] && h.Signature.Results().Len() == 1 {
			if rets := returnsOf(h); len(rets) == 1 {
				addTerms(rets[0].Results[0], out, depth+1)
				return
			}
		}
	case *ssa.Parameter:
		if h := x.Parent(); h != nil && h.Parent() == nil && gNewFuncs[h] {
			if ss := sitesOf(h); len(ss) == 1 && ss[0].Common().StaticCallee() == h {
				for i, q := range h.Params {
					if q == x && i < len(ss[0].Common().Args) {
						addTerms(ss[0].Common().Args[i], out, depth+1)
						return
					}
				}
			}
		}
	case *ssa.UnOp:
		if x.Op == token.MUL {
			var roots []ssa.Value
			valueOriginsLocal(x.Parent(), x, func(r ssa.Value) { roots = append(roots, r) })
			if len(roots) == 1 && roots[0] != ssa.Value(x) {
				addTerms(roots[0], out, depth+1)
				return
			}
		}
	}
	*out = append(*out, v)
}

func checkWindowTiling(c *Ctx, rule string, fn *ssa.Function, ws []*ssa.Call) {
	name := fn.Name()
	key := name + ":windows-tile-the-table"
	if len(ws) != 1 || len(ws[0].Call.Args) < 5 {
		return // the shape rule reports a missing or duplicated window write
	}
	// stride: the term of the destination offset that contains the window start
	var terms []ssa.Value
	addTerms(ws[0].Call.Args[4], &terms, 0)
	var stride *monomial
	for _, t := range terms {
		m, ok := monoOf(t, 0)
		if !ok {
			continue
		}
		n := 0
		var rest []string
		for _, l := range m.leaves {
			if l == "phi" {
				n++
			} else {
				rest = append(rest, l)
			}
		}
		if n == 1 {
			mm := monomial{leaves: rest, k: m.k}
			stride = &mm
		}
	}
	// points per window: cache.Len() / D, possibly shifted right afterwards
	var div *monomial
	nq := 0
	for _, g := range bodyFns(fn, nil) {
		allInstrsShallow(g, func(in ssa.Instruction) {
			bo, ok := in.(*ssa.BinOp)
			if !ok || bo.Op != token.QUO {
				return
			}
			isLen := false
			for x := range backSlice(bo.X).vals {
				if cl, isC := x.(*ssa.Call); isC && strings.HasSuffix(calleeID(cl), ".MemCache).Len") {
					isLen = true
				}
			}
			if !isLen {
				return
			}
			d, okD := monoOf(bo.Y, 0)
			if !okD {
				return
			}
			// a right shift applied to the quotient on its way to the window size
			for al := range aliasesForward(g, bo) {
				if refs := al.Referrers(); refs != nil {
					for _, r := range *refs {
						if sh, isB := r.(*ssa.BinOp); isB && sh.Op == token.SHR && sh.X == al {
							if k, isK := strip(sh.Y).(*ssa.Const); isK {
								if n, okN := constInt(k); okN && n >= 0 && n < 32 {
									d.k *= int64(1) << uint(n)
								}
							}
						}
					}
				}
			}
			nq++
			div = &d
		})
	}
	switch {
	case stride == nil || div == nil || nq != 1:
		// not of the product form (a running file position, a precomputed table of offsets …): not decided
		c.OK(rule, key, c.Pos(ws[0].Pos()), "window placement is not of the form offset + start·S with window size Len/D: tiling not decided here")
	case stride.equal(*div):
		c.OK(rule, key, c.Pos(ws[0].Pos()), "a window starting at point s is written at offset + s·("+stride.String()+") and covers Len/("+div.String()+") points: consecutive windows tile the table")
	default:
		c.Bad(rule, key, c.Pos(ws[0].Pos()), "a window starting at point s is written at offset + s·("+stride.String()+") but covers Len/("+div.String()+") points: every window after the first (a plot that needs several windows, or a pass resumed from a checkpoint) is written over the wrong part of the table while the checkpoint advances and the plot reports complete")
	}
}
