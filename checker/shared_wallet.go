package main

// Shared wallet rules used as premises by several properties.

import (
	"fmt"
	"go/token"
	"go/types"
	"sort"
	"strings"

	"golang.org/x/tools/go/ssa"
)

// checkTxUnderManagerLock: every db.View/db.Update of the named manager operations runs with kmc.mu held
// (export/import/delete see one consistent keystore: another operation cannot commit between their
// reads, and the keystore they looked up cannot be deleted and re-created under them).
func checkTxUnderManagerLock(c *Ctx, rule string, names []string) {
	li := keystoreLocksets(c)
	for _, name := range names {
		f := c.MustFn(rule, "poc/wallet/keystore", "(*KeystoreManagerForPoC)."+name)
		if f == nil {
			continue
		}
		key := name + ":transactions-under-manager-lock"
		n, bad := 0, ""
		for _, s := range txSitesBody(f) {
			n++
			if !holds(li, s.Call, tKMC+".mu") {
				bad = c.Pos(s.Call.Pos()) + " "
			}
		}
		// and the passphrase check / keystore lookup too
		switch {
		case n == 0:
			c.Bad(rule, key, c.Pos(f.Pos()), "reason=anchor-missing: no transaction in "+name)
		case bad != "":
			c.Bad(rule, key, strings.TrimSpace(bad), name+" runs a store transaction without holding the manager lock: a passphrase change, delete or import can commit between its reads (an export mixes old parameters with new ciphertext; a key is written into a re-created keystore)")
		default:
			c.OK(rule, key, c.Pos(f.Pos()), fmt.Sprintf("%d transaction(s), all with kmc.mu held", n))
		}
	}
}

// checkLoopAddrEscape: inside a loop, the address appended to a slice (or stored into a map / field)
// must be that of a per-iteration variable; the address of a variable declared outside the loop makes
// every element point at the last value.
func checkLoopAddrEscape(c *Ctx, rule string, fns []*ssa.Function) {
	for _, f := range fns {
		if f == nil {
			continue
		}
		n := 0
		bad := ""
		allInstrsShallow(f, func(in ssa.Instruction) {
			st, ok := in.(*ssa.Store)
			if !ok || !blockReentered(f, st) {
				return
			}
			a, isA := st.Val.(*ssa.Alloc)
			if !isA || !a.Heap {
				return
			}
			if _, isStruct := a.Type().(*types.Pointer).Elem().Underlying().(*types.Struct); !isStruct {
				return
			}
			// the pointer is stored into an element of a varargs/backing array or a container inside the loop
			if _, isIdx := st.Addr.(*ssa.IndexAddr); !isIdx {
				return
			}
			n++
			if !blockReentered(f, a) || !(reach(f, a, nil, nil)(st)) {
				bad = a.Comment
			} else {
				// allocated in the loop: fresh per iteration only if the allocation is re-executed between two stores
				if !reach(f, st, nil, nil)(a) {
					bad = a.Comment
				}
			}
		})
		key := f.Name() + ":collected-pointers-are-per-iteration"
		switch {
		case bad != "":
			c.Bad(rule, key, c.Pos(f.Pos()), "the address of `"+bad+"`, a variable that lives across iterations, is collected inside a loop: every collected element points at the last value, so only the last key of the branch is persisted")
		case n > 0:
			c.OK(rule, key, c.Pos(f.Pos()), fmt.Sprintf("%d collected pointers, each to a variable created in its own iteration", n))
		}
	}
}

// checkParsedKeyWidth: NewKeyFromString keeps the decoded key bytes (32 bytes for a private key).
func checkParsedKeyWidth(c *Ctx, rule string) {
	f := c.MustFn(rule, "poc/wallet/keystore/hdkeychain", "NewKeyFromString")
	if f == nil {
		return
	}
	key := "NewKeyFromString:keeps-decoded-bytes"
	bad := false
	n := 0
	for _, cl := range callsIn(f, pkgHD+".NewExtendedKey") {
		n++
		if backSlice(cl.Call.Args[1]).hasCallTo("(*math/big.Int).Bytes") {
			bad = true
		}
	}
	switch {
	case n == 0:
		c.Bad(rule, key, c.Pos(f.Pos()), "reason=anchor-missing: NewExtendedKey call")
	case bad:
		c.Bad(rule, key, c.Pos(f.Pos()), "the parsed private key is re-encoded through big.Int.Bytes(): a key with a leading zero byte comes back shorter than 32 bytes and its hardened children (hence the imported keystore's id and every address) differ from the exported wallet's")
	default:
		c.OK(rule, key, c.Pos(f.Pos()), "the key handed to NewExtendedKey is the decoded payload itself")
	}
}

// checkKeyConstantsDistinct: the durable key names of the keystore bucket are pairwise different byte
// strings (two names with one value make two records share one slot).
func checkKeyConstantsDistinct(c *Ctx, rule string) {
	p := c.SSA[pkgKeystore]
	if p == nil {
		return
	}
	init := p.Func("init")
	vals := map[string][]string{}
	n := 0
	if init != nil {
		allInstrs(init, func(in ssa.Instruction) {
			st, ok := in.(*ssa.Store)
			if !ok {
				return
			}
			g, isG := st.Addr.(*ssa.Global)
			if !isG || !strings.HasSuffix(g.Name(), "Name") {
				return
			}
			for x := range backSlice(st.Val).vals {
				if k, isK := x.(*ssa.Const); isK && k.Value != nil && k.Value.Kind().String() == "String" {
					vals[k.Value.ExactString()] = append(vals[k.Value.ExactString()], g.Name())
					n++
				}
			}
		})
	}
	var dup []string
	for v, gs := range vals {
		if len(gs) > 1 {
			sort.Strings(gs)
			dup = append(dup, strings.Join(gs, " = ")+" = "+v)
		}
	}
	sort.Strings(dup)
	switch {
	case n < 8:
		c.Bad(rule, "keystore-key-names-distinct", "", fmt.Sprintf("reason=anchor-missing: only %d key-name constants found", n))
	case len(dup) > 0:
		c.Bad(rule, "keystore-key-names-distinct", "", "two durable key names have the same value ("+strings.Join(dup, "; ")+"): the two records overwrite each other (e.g. the external and internal counters share one slot, so ordinals skip or are reused)")
	default:
		c.OK(rule, "keystore-key-names-distinct", "", fmt.Sprintf("%d key names, pairwise distinct", n))
	}
}

// checkNoDeadShift: a shift of an 8-bit value by 8 or more is always zero: `byte(x) >> 8` written for
// `byte(x >> 8)` drops those bits from a key or record.
func checkNoDeadShift(c *Ctx, rule string, pkgs []string) {
	inP := map[string]bool{}
	for _, p := range pkgs {
		inP[p] = true
	}
	var bad []string
	n := 0
	for fn := range c.AllFuncs {
		if !inP[pkgOf(fn)] {
			continue
		}
		allInstrsShallow(fn, func(in ssa.Instruction) {
			bo, ok := in.(*ssa.BinOp)
			if !ok || (bo.Op != token.SHR && bo.Op != token.SHL) {
				return
			}
			n++
			b, isB := bo.X.Type().Underlying().(*types.Basic)
			k, isK := bo.Y.(*ssa.Const)
			if !isB || !isK || k.Value == nil {
				return
			}
			bits := 0
			switch b.Kind() {
			case types.Uint8, types.Int8:
				bits = 8
			case types.Uint16, types.Int16:
				bits = 16
			}
			if bits == 0 {
				return
			}
			if v, ok := constInt(k); ok && int(v) >= bits {
				bad = append(bad, fn.Name()+" at "+c.Pos(bo.Pos()))
			}
		})
	}
	sort.Strings(bad)
	if len(bad) > 0 {
		c.Bad(rule, "no-shift-wider-than-operand", "", "a "+"narrow value is shifted by at least its own width (always 0): "+strings.Join(bad, "; ")+" — the bits meant to be stored there are lost (keys of different records collide)")
	} else {
		c.OK(rule, "no-shift-wider-than-operand", "", fmt.Sprintf("%d shifts examined, none shifts an 8/16-bit operand by its full width", n))
	}
}

// checkLockPairing: every explicit Lock/RLock whose release is not deferred is released on every path
// to a return of the same function (an early `return err` between Lock and Unlock leaks the lock and
// blocks every later operation on the object).
func checkLockPairing(c *Ctx, rule string, pkgs []string) {
	inP := map[string]bool{}
	for _, p := range pkgs {
		inP[p] = true
	}
	var fns []*ssa.Function
	for fn := range c.AllFuncs {
		if inP[pkgOf(fn)] && len(fn.Blocks) > 0 {
			fns = append(fns, fn)
		}
	}
	sort.Slice(fns, func(i, j int) bool { return FuncName(fns[i]) < FuncName(fns[j]) })
	n := 0
	for _, fn := range fns {
		ord := 0
		allInstrsShallow(fn, func(in ssa.Instruction) {
			if _, isD := in.(*ssa.Defer); isD {
				return
			}
			cls, mode, base, op, ok := lockOp(in)
			if !ok || op != "lock" {
				return
			}
			isRelease := func(x ssa.Instruction) bool {
				c2, m2, b2, op2, ok2 := lockOp(x)
				return ok2 && op2 == "unlock" && c2 == cls && m2 == mode && b2 == base
			}
			// a deferred release registered after the lock on every path, or reachable: accept when some
			// defer of the matching unlock is reachable from the lock and dominates... keep it simple:
			deferred := false
			allInstrsShallow(fn, func(x ssa.Instruction) {
				if d, isD := x.(*ssa.Defer); isD && isRelease(d) && (instrDominates(in, d) || instrDominates(d, in)) {
					deferred = true
				}
			})
			n++
			ord++
			key := fmt.Sprintf("%s:%s#%d", FuncName(fn), shortType(cls), ord)
			if deferred {
				c.OK(rule, key, c.Pos(in.Pos()), "released by a deferred unlock")
				return
			}
			r := reach(fn, in, nil, func(x ssa.Instruction) bool {
				_, isD := x.(*ssa.Defer)
				return !isD && isRelease(x)
			})
			leak := false
			for _, ret := range returnsOf(fn) {
				if r(ret) {
					leak = true
				}
			}
			if leak {
				c.Bad(rule, key, c.Pos(in.Pos()), "the lock taken here is not released on every path to a return (an early return between Lock and Unlock): after that path every later operation on the object blocks, and the first one blocks while holding the manager lock")
			} else {
				c.OK(rule, key, c.Pos(in.Pos()), "released on every path to a return")
			}
		})
	}
	if n == 0 {
		c.Bad(rule, "anchor:locks", "", "reason=anchor-missing: no lock acquisition found")
	}
}

// checkNoNestedPublicCalls: a method of the manager never calls another lock-taking method of the
// manager: before its own Lock that is a stale snapshot from another critical section, after it a
// self-deadlock.
func checkNoNestedPublicCalls(c *Ctx, rule string) {
	takesLock := map[*ssa.Function]bool{}
	var kmcFns []*ssa.Function
	for fn := range c.AllFuncs {
		if pkgOf(fn) != pkgKeystore || fn.Signature.Recv() == nil || !strings.HasSuffix(fn.Signature.Recv().Type().String(), "KeystoreManagerForPoC") {
			continue
		}
		kmcFns = append(kmcFns, fn)
		allInstrsShallow(fn, func(in ssa.Instruction) {
			if cls, _, _, op, ok := lockOp(in); ok && op == "lock" && cls == tKMC+".mu" {
				takesLock[fn] = true
			}
		})
	}
	sort.Slice(kmcFns, func(i, j int) bool { return FuncName(kmcFns[i]) < FuncName(kmcFns[j]) })
	var bad []string
	n := 0
	for _, fn := range kmcFns {
		for _, g := range withClosures(fn) {
			allInstrs(g, func(in ssa.Instruction) {
				callee := staticCallee(in)
				if callee == nil {
					return
				}
				n++
				if takesLock[callee] {
					bad = append(bad, fn.Name()+" calls "+callee.Name()+" at "+c.Pos(in.Pos()))
				}
			})
		}
	}
	sort.Strings(bad)
	if len(bad) > 0 {
		c.Bad(rule, "manager-methods-do-not-nest", "", strings.Join(bad, "; ")+": the value obtained belongs to another critical section (it can be stale when the caller takes the lock — a keystore chosen this way may have been deleted), or the call self-deadlocks")
	} else {
		c.OK(rule, "manager-methods-do-not-nest", "", fmt.Sprintf("%d calls from manager methods, none to a manager method that takes kmc.mu", n))
	}
}
