package main

// C20 — HTTP gateway admits only configured origins; API reports exact values (structure).

import (
	"os"
	"fmt"
	"go/token"
	"go/types"
	"sort"
	"strings"

	"golang.org/x/tools/go/ssa"
)

func init() { register("C20", checkC20) }

const pkgAPI = repoMod + "/api"

func constString(v ssa.Value) (string, bool) {
	k, ok := strip(v).(*ssa.Const)
	if !ok || k.Value == nil {
		return "", false
	}
	s := k.Value.ExactString()
	if strings.HasPrefix(s, `"`) {
		return strings.Trim(s, `"`), true
	}
	return s, true
}

func checkC20(c *Ctx) Meta {
	c.Rule("C20-GATE", "the handler given to http.ListenAndServe is accessControlHandler(everything else, decision function built from the configured whitelist and LAN settings); inside it the inner handler runs only on the allow edge and the deny edge answers 403; the gRPC listener binds a loopback constant", 4)
	c.Rule("C20-ALLOW", "the LAN table is exactly RFC 1918 (10/8, 172.16/12, 192.168/16); every allow edge of the decision function is one of: wildcard flag, loopback literal, whitelist equality, enabled-LAN containment", 3)
	c.Rule("C20-TARGET", "api.getBindingTarget is operation-for-operation the chain library's GetBindingTarget (or calls it); v1 passes (compressed public key, default proof type, bit length), v2 (plot id, chia proof type, k); the listed address derives from the same workspace's key; every returned target depends on all three parameters", 5)
	c.Rule("C20-EXACT", "no floating-point value occurs in AmountToString/StringToAmount or anything they call", 2)

	// ---- RENDER: totals and fee of a rendered transaction cover every output
	c.Rule("C20-RENDER", "a rendered transaction is complete or refused: in the functions that list a transaction's outputs and inputs every error of a step (script disassembly, address extraction, amount conversion) ends the rendering with a non-nil error — an output that is skipped drops out of the total the fee is computed from, and a well-formed but wrong amount is shown", 2)
	{
		var scope []*ssa.Function
		for _, name := range []string{"(*Server).createVoutList", "(*Server).createVinList", "createVoutList", "createVinList"} {
			if f := c.Fn("api", name); f != nil {
				scope = append(scope, bodyFns(f, nil)...)
			}
		}
		if len(scope) == 0 {
			c.Bad("C20-RENDER", "anchor", "", "reason=anchor-missing: createVoutList / createVinList in package api")
		} else {
			runErrflow(c, errflowCfg{rule: "C20-RENDER", scope: scope,
				classK: func(fn *ssa.Function, call *ssa.Call) bool { return true },
				strict: func(fn *ssa.Function, call *ssa.Call) bool { return true }})
		}
	}
	// ---- GATE
	if run := c.MustFn("C20-GATE", "api", "Run"); run != nil {
		ls := callsIn(run, "net/http.ListenAndServe")
		key := "Run:serves-only-through-access-control"
		if len(ls) != 1 {
			c.Bad("C20-GATE", key, c.Pos(run.Pos()), "reason=anchor-missing: http.ListenAndServe call")
		} else {
			var wrap *ssa.Call
			n := 0
			valueOrigins(run, ls[0].Call.Args[1], func(root ssa.Value) {
				n++
				if cl, ok := root.(*ssa.Call); ok && isCall(cl, pkgAPI+".accessControlHandler") {
					wrap = cl
				}
			})
			if wrap == nil || n != 1 {
				c.Bad("C20-GATE", key, c.Pos(ls[0].Pos()), "the handler served by http.ListenAndServe is not (only) the result of accessControlHandler: requests can reach the API without the origin check")
			} else {
				// the decision function comes from getIPAccessControlFunc(cfg.Whitelist, cfg.AllowedLan)
				fsl := backSlice(wrap.Call.Args[1])
				okF := false
				for _, g := range fsl.callsTo(pkgAPI + ".getIPAccessControlFunc") {
					a0, a1 := backSlice(g.Call.Args[0]), backSlice(g.Call.Args[1])
					if a0.hasField(repoMod+"/config.API", "Whitelist") && a1.hasField(repoMod+"/config.API", "AllowedLan") {
						okF = true
					}
				}
				// nothing else is served: no other ListenAndServe/Serve in package api outside the gRPC server
				if okF {
					c.OK("C20-GATE", key, c.Pos(ls[0].Pos()), "ListenAndServe(port, accessControlHandler(inner, getIPAccessControlFunc(cfg.Whitelist, cfg.AllowedLan)))")
				} else {
					c.Bad("C20-GATE", key, c.Pos(wrap.Pos()), "the access-control decision function is not built from the configured whitelist and LAN settings")
				}
			}
		}
		// other HTTP servers in the repository's node packages
		var others []string
		for fn := range c.AllFuncs {
			if strings.HasPrefix(pkgOf(fn), repoMod+"/cmd/") {
				continue
			}
			allInstrsShallow(fn, func(in ssa.Instruction) {
				id := calleeID(in)
				if id == "net/http.ListenAndServe" && fn != run && isProfileServer(c, fn, in) {
					return
				}
				if (id == "net/http.ListenAndServe" && fn != run) || id == "net/http.ListenAndServeTLS" || id == "(*net/http.Server).ListenAndServe" || id == "(*net/http.Server).Serve" || id == "net/http.Serve" {
					others = append(others, FuncName(fn)+" at "+c.Pos(in.Pos()))
				}
			})
		}
		sort.Strings(others)
		if len(others) > 0 {
			c.Bad("C20-GATE", "no-other-http-server", "", "another HTTP server is started without the access-control wrapper: "+strings.Join(others, "; "))
		} else {
			c.OK("C20-GATE", "no-other-http-server", "", "api.Run is the only HTTP listener of the node")
		}
	}
	if ach := c.MustFn("C20-GATE", "api", "accessControlHandler"); ach != nil && len(ach.AnonFuncs) == 1 {
		h := ach.AnonFuncs[0]
		key := "accessControlHandler:inner-only-on-allow-edge"
		var decide *ssa.Call
		var serve, deny []ssa.Instruction
		allInstrs(h, func(in ssa.Instruction) {
			cl, ok := in.(*ssa.Call)
			if !ok {
				return
			}
			if !cl.Call.IsInvoke() && freeVarName(cl.Call.Value) == "isAllowedAddress" {
				decide = cl
			}
			if cl.Call.IsInvoke() && cl.Call.Method.Name() == "ServeHTTP" {
				serve = append(serve, in)
			}
			if strings.HasSuffix(calleeID(cl), "runtime.OtherErrorHandler") {
				deny = append(deny, in)
			}
			// OtherErrorHandler is a package-level func variable: a call through a load of that global
			if u, ok := cl.Call.Value.(*ssa.UnOp); ok {
				if g, ok := u.X.(*ssa.Global); ok && g.Name() == "OtherErrorHandler" {
					deny = append(deny, in)
				}
			}
		})
		if decide == nil || len(serve) == 0 || len(deny) == 0 {
			c.Bad("C20-GATE", key, c.Pos(h.Pos()), "the wrapper no longer calls the decision function, the inner handler and the 403 writer")
		} else {
			tests := boolTestsOf(h, decide)
			okAllow, _ := unreachableWhenCut(h, boolEdgeCut(tests, true), serve)
			okDeny, _ := unreachableWhenCut(h, boolEdgeCut(tests, false), deny)
			// the decision is taken on the peer address of the connection and on nothing else the client
			// controls: no other field of the request (headers, URL, form) and no net/http accessor may flow
			// into the argument (a helper that prefers X-Forwarded-For lets any client name its own origin)
			argSlice := backSlice(decide.Call.Args[0])
			okArg := argSlice.hasField("net/http.Request", "RemoteAddr")
			for v := range argSlice.vals {
				if t, f, _, ok := fieldOfAddr(v); ok && t == "net/http.Request" && f != "RemoteAddr" {
					okArg = false
				}
				if t, f, _, ok := fieldOfValue(v); ok && t == "net/http.Request" && f != "RemoteAddr" {
					okArg = false
				}
				if cl, ok := v.(*ssa.Call); ok && (strings.Contains(calleeID(cl), "net/http.") || strings.Contains(calleeID(cl), "net/url.")) {
					okArg = false
				}
			}
			// the inner handler served is the wrapper's parameter h; the 403 constant
			okInner := true
			for _, s := range serve {
				if freeVarName(s.(*ssa.Call).Call.Value) != "h" {
					okInner = false
				}
			}
			ok403 := false
			for _, d := range deny {
				for _, a := range d.(*ssa.Call).Call.Args {
					if s, ok := constString(a); ok && s == "403" {
						ok403 = true
					}
				}
			}
			if len(tests) > 0 && okAllow && okDeny && okArg && okInner && ok403 {
				c.OK("C20-GATE", key, c.Pos(decide.Pos()), "h.ServeHTTP only on the true edge of isAllowedAddress(req.RemoteAddr); 403 only on the false edge")
			} else {
				c.Bad("C20-GATE", key, c.Pos(decide.Pos()), fmt.Sprintf("the inner handler can run without a positive origin decision (inner-behind-allow=%v deny-behind-refusal=%v decides-on-RemoteAddr=%v serves-h=%v answers-403=%v)", okAllow && len(tests) > 0, okDeny, okArg, okInner, ok403))
			}
		}
	}
	if st := c.MustFn("C20-GATE", "api", "(*Server).Start"); st != nil {
		key := "Server.Start:grpc-loopback"
		ls := callsIn(st, "net.Listen")
		v, _ := constVal(c, pkgAPI, "GRPCListenAddress")
		v = strings.Trim(v, `"`)
		loop := v == "127.0.0.1" || v == "localhost" || v == "::1" || v == "[::1]"
		okAddr := false
		if len(ls) == 1 {
			okAddr = backSlice(ls[0].Call.Args[1]).hasConstVal(`"` + v + `"`)
			// the address must start with the constant: fmt.Sprintf("%s:%d", GRPCListenAddress, port)
			for _, sp := range backSlice(ls[0].Call.Args[1]).callsTo("fmt.Sprintf") {
				if f, ok := constString(sp.Call.Args[0]); !ok || !strings.HasPrefix(f, "%s:") {
					okAddr = false
				}
			}
		}
		if loop && okAddr {
			c.OK("C20-GATE", key, c.Pos(st.Pos()), "gRPC listens on the loopback constant "+v)
		} else {
			c.Bad("C20-GATE", key, c.Pos(st.Pos()), "the gRPC server (which has no origin check) does not listen on a loopback constant (GRPCListenAddress="+v+")")
		}
	}

	// ---- ALLOW: LAN table
	{
		want := map[string]string{"rfc1918_10": "10.0.0.0/8/32", "rfc1918_192": "192.168.0.0/16/32", "rfc1918_172": "172.16.0.0/12/32"}
		got := map[string]string{}
		init := c.Fn("api", "init")
		if init != nil {
			for _, a := range fieldAccesses(init) {
				if a.Kind != "store" || a.Type != "net.IPNet" {
					continue
				}
				g, ok := a.Base.(*ssa.Global)
				if !ok {
					continue
				}
				st := a.In.(*ssa.Store)
				for _, cl := range backSlice(st.Val).callsTo("net.ParseIP") {
					if s, ok := constString(cl.Call.Args[0]); ok && a.Field == "IP" {
						got[g.Name()] = s + got[g.Name()]
					}
				}
				for _, cl := range backSlice(st.Val).callsTo("net.CIDRMask") {
					o, _ := constString(cl.Call.Args[0])
					b, _ := constString(cl.Call.Args[1])
					if a.Field == "Mask" {
						got[g.Name()] = got[g.Name()] + "/" + o + "/" + b
					}
				}
			}
		}
		bad := []string{}
		for k, v := range want {
			if got[k] != v {
				bad = append(bad, fmt.Sprintf("%s=%q (want %q)", k, got[k], v))
			}
		}
		sort.Strings(bad)
		// lanRules keys
		keysOK := false
		if init != nil {
			m := map[string]string{}
			allInstrs(init, func(in ssa.Instruction) {
				if mu, ok := in.(*ssa.MapUpdate); ok {
					k, _ := constString(mu.Key)
					for v := range backSlice(mu.Value).vals {
						if g, ok := v.(*ssa.Global); ok && strings.HasPrefix(g.Name(), "rfc1918_") {
							m[k] = g.Name()
						}
					}
				}
			})
			keysOK = len(m) == 3 && m["10"] == "rfc1918_10" && m["192"] == "rfc1918_192" && m["172"] == "rfc1918_172"
		}
		if len(bad) == 0 && keysOK {
			c.OK("C20-ALLOW", "lan-table-is-rfc1918", "", "10.0.0.0/8, 172.16.0.0/12, 192.168.0.0/16 under keys 10/172/192")
		} else {
			c.Bad("C20-ALLOW", "lan-table-is-rfc1918", "", "the private-LAN table differs from RFC 1918: "+strings.Join(bad, ", ")+fmt.Sprintf(" keys-ok=%v", keysOK))
		}
	}
	if gf := c.MustFn("C20-ALLOW", "api", "getIPAccessControlFunc"); gf != nil {
		var fn *ssa.Function
		for _, a := range gf.AnonFuncs {
			if a.Signature.Results().Len() == 1 && a.Signature.Params().Len() == 1 {
				fn = a
			}
		}
		if fn == nil {
			// the decision function may be a method of an object the reference tree does not have, handed
			// out as a method value
			for _, ret := range returnsOf(gf) {
				valueOrigins(gf, ret.Results[0], func(r ssa.Value) {
					if mc, ok := r.(*ssa.MakeClosure); ok {
						if h := boundMethodTarget(mc); h != nil && gNewFuncs[h] && h.Signature.Results().Len() == 1 && h.Signature.Params().Len() == 1 {
							fn = h
						}
					}
				})
			}
		}
		if fn == nil {
			c.Bad("C20-ALLOW", "decision:anchor", c.Pos(gf.Pos()), "reason=anchor-missing: decision closure")
		} else {
			resolved := callsIn(fn, "net.ResolveTCPAddr")
			fromReq := func(s *slice) bool {
				for _, r := range resolved {
					if s.has(r) {
						return true
					}
				}
				return false
			}
			classify := func(cond ssa.Value) string {
				cond = strip(cond)
				switch x := cond.(type) {
				case *ssa.UnOp:
					// the wildcard flag: a boolean captured variable (or, where the closure became an object,
					// a boolean field of that object) — where it can become true is judged below
					if n := freeVarName(x); n != "" && x.Op == token.MUL && types.Identical(x.Type().Underlying(), types.Typ[types.Bool]) {
						return "wildcard"
					}
				case *ssa.BinOp:
					if x.Op == token.EQL {
						sx, sy := backSlice(x.X), backSlice(x.Y)
						for _, pair := range [][2]ssa.Value{{x.X, x.Y}, {x.Y, x.X}} {
							if s, ok := constString(pair[0]); ok && (s == "127.0.0.1" || s == "::1") && fromReq(backSlice(pair[1])) {
								return "loopback"
							}
						}
						hasList := func(s *slice) bool {
							for v := range s.vals {
								if freeVarName(v) == "allowedIPs" {
									return true
								}
							}
							return false
						}
						if (hasList(sx) && fromReq(sy) && !fromReq(sx)) || (hasList(sy) && fromReq(sx) && !fromReq(sy)) {
							return "whitelist"
						}
					}
				case *ssa.Call:
					if isCall(x, "(*net.IPNet).Contains") && fromReq(backSlice(x.Call.Args[1])) {
						rs := backSlice(x.Call.Args[0])
						for v := range rs.vals {
							if freeVarName(v) == "allowedLANs" {
								return "lan"
							}
						}
					}
				}
				return ""
			}
			kinds := map[string]int{}
			bad := false
			for _, r := range returnsOf(fn) {
				s, ok := constString(r.Results[0])
				if !ok || s != "true" {
					if !ok {
						bad = true
						c.Bad("C20-ALLOW", "decision:allow-edges", c.Pos(r.Pos()), "the decision returns a non-constant value")
					}
					continue
				}
				b := r.Block()
				if len(b.Preds) == 0 {
					bad = true
					continue
				}
				for _, p := range b.Preds {
					ifi, ok := p.Instrs[len(p.Instrs)-1].(*ssa.If)
					if !ok || p.Succs[0] != b {
						bad = true
						c.Bad("C20-ALLOW", "decision:allow-edges", c.Pos(r.Pos()), "an allow result is reached other than through the true edge of a recognised test")
						continue
					}
					k := classify(ifi.Cond)
					if k == "" {
						bad = true
						c.Bad("C20-ALLOW", "decision:allow-edges", c.Pos(r.Pos()), "an allow edge is controlled by a condition that is none of: wildcard flag, loopback literal, whitelist equality, LAN containment")
					} else {
						kinds[k]++
					}
				}
			}
			if !bad {
				if kinds["wildcard"] >= 1 && kinds["loopback"] >= 1 && kinds["whitelist"] >= 1 && kinds["lan"] >= 1 {
					c.OK("C20-ALLOW", "decision:allow-edges", c.Pos(fn.Pos()), fmt.Sprintf("allow edges: %v — every `return true` is behind one of the four admitted tests", kinds))
				} else {
					c.Bad("C20-ALLOW", "decision:allow-edges", c.Pos(fn.Pos()), fmt.Sprintf("one of the four admitted origins is no longer accepted: %v", kinds))
				}
			}
			// where the lists come from
			okLists := true
			foundOnly := true
			allInstrsNew(gf, func(in ssa.Instruction) {
				cl, ok := in.(*ssa.Call)
				if !ok || calleeID(cl) != "builtin.append" {
					return
				}
				t := cl.Type().String()
				s := backSlice(cl.Call.Args[1])
				if strings.Contains(t, "net.IPNet") {
					if !s.hasGlobal(pkgAPI, "lanRules") || !s.hasParam(gf, "lanPrefix") {
						okLists = false
					}
					// only a rule that was found is added: the append lies behind the `ok` of the table lookup
					// (an unknown prefix would add the zero network, which contains the nil IP that
					// ResolveTCPAddr yields for an address without host part)
					if !behindLookupOK(cl) {
						okLists = false
						foundOnly = false
					}
				} else if strings.Contains(t, "net.IP") {
					if !s.hasCallTo("net.ParseIP") || !s.hasParam(gf, "whitelist") {
						okLists = false
					}
				}
			})
			// the LAN list holds nothing but looked-up rules: it starts empty (a list made with a length holds
			// zero networks, and the zero network contains the nil IP that an address without host part
			// resolves to) and grows by the appends judged above only
			for _, g := range bodyFns(gf, nil) {
				if g == fn {
					continue
				}
				allInstrsShallow(g, func(in ssa.Instruction) {
					ms, ok := in.(*ssa.MakeSlice)
					if !ok || !strings.Contains(ms.Type().String(), "net.IPNet") {
						return
					}
					if k, isK := strip(ms.Len).(*ssa.Const); !isK || k.Value == nil || k.Value.ExactString() != "0" {
						okLists = false
						foundOnly = false
					}
				})
				allInstrsShallow(g, func(in ssa.Instruction) {
					st, ok := in.(*ssa.Store)
					if !ok {
						return
					}
					if ia, isIA := st.Addr.(*ssa.IndexAddr); isIA && strings.Contains(ia.X.Type().String(), "[]net.IPNet") {
						okLists = false // an element written in place: not an append of a looked-up rule
						foundOnly = false
					}
				})
			}
			// the wildcard is switched on only by the "*" entry: every store of the constant true into a
			// boolean cell (local, captured variable, field of a new object) in the constructor's body is
			// dominated by the true edge of a comparison with "*", and there is one
			wild, wildBad := false, false
			for _, g := range bodyFns(gf, nil) {
				if g == fn {
					continue
				}
				g := g
				allInstrsShallow(g, func(in ssa.Instruction) {
					// where a boolean becomes the constant true: a store, or (for a local kept in a register)
					// the edge of a phi
					var at []*ssa.BasicBlock
					switch x := in.(type) {
					case *ssa.Store:
						if s, ok := constString(x.Val); ok && s == "true" {
							at = append(at, x.Block())
						}
					case *ssa.Phi:
						if types.Identical(x.Type().Underlying(), types.Typ[types.Bool]) {
							for i, e := range x.Edges {
								if s, ok := constString(e); ok && s == "true" {
									at = append(at, x.Block().Preds[i])
								}
							}
						}
					}
					if len(at) == 0 {
						return
					}
					st := in
					guarded := true
					for _, blk := range at {
						gd := false
						for _, t := range cmpTests(g, func(bo *ssa.BinOp) bool {
							s, ok := constString(bo.Y)
							return bo.Op == token.EQL && ok && s == "*"
						}) {
							if t.TrueSucc == blk || t.TrueSucc.Dominates(blk) {
								gd = true
							}
						}
						if !gd {
							guarded = false
						}
					}
					if guarded {
						wild = true
					} else {
						wildBad = true
					}
					if os.Getenv("VERIF_DEBUG") != "" {
						fmt.Printf("DEBUG wildcard store in %s at %s guarded=%v\n", g.Name(), c.Pos(st.Pos()), guarded)
					}
				})
			}
			wild = wild && !wildBad
			if okLists && wild {
				c.OK("C20-ALLOW", "decision:lists-from-configuration", c.Pos(gf.Pos()), "whitelist entries come from ParseIP(whitelist[i]), LAN rules from lanRules[lanPrefix[i]], wildcard only from \"*\"")
			} else {
				c.Bad("C20-ALLOW", "decision:lists-from-configuration", c.Pos(gf.Pos()), fmt.Sprintf("the allow lists are not built only from the configuration (lists=%v wildcard-only-from-star=%v only-known-lan-prefixes-added=%v)", okLists, wild, foundOnly))
			}
		}
	}

	// ---- TARGET
	checkBindingTarget(c)

	// ---- EXACT
	for _, name := range []string{"AmountToString", "StringToAmount"} {
		f := c.MustFn("C20-EXACT", "api", name)
		if f == nil {
			continue
		}
		seen := c.Reachable([]*ssa.Function{f}, func(from *ssa.Function, e callEdge) bool {
			p := pkgOf(e.Callee)
			return strings.HasPrefix(p, repoMod) || strings.HasPrefix(p, "github.com/massnetorg/mass-core/massutil") || strings.HasPrefix(p, "github.com/massnetorg/mass-core/consensus")
		})
		var floats []string
		n := 0
		for g := range seen {
			if g.Blocks == nil {
				continue
			}
			n++
			allInstrs(g, func(in ssa.Instruction) {
				check := func(t types.Type) {
					if b, ok := t.Underlying().(*types.Basic); ok && b.Info()&(types.IsFloat|types.IsComplex) != 0 {
						floats = append(floats, FuncName(g)+" at "+c.Pos(in.Pos()))
					}
				}
				if v, ok := in.(ssa.Value); ok {
					check(v.Type())
				}
				var ops []*ssa.Value
				for _, op := range in.Operands(ops) {
					if op != nil && *op != nil {
						check((*op).Type())
					}
				}
				// strconv.ParseFloat / FormatFloat / fmt %f
				id := calleeID(in)
				if id == "strconv.ParseFloat" || id == "strconv.FormatFloat" || strings.HasPrefix(id, "math.") && !strings.HasPrefix(id, "math/big") && !strings.HasPrefix(id, "math/bits") {
					floats = append(floats, FuncName(g)+" calls "+id)
				}
			})
		}
		sort.Strings(floats)
		if len(floats) > 0 {
			c.Bad("C20-EXACT", name+":no-floating-point", "", "floating-point values on the amount path (the maximum amount exceeds 2^53, so exactness is lost): "+floats[0])
		} else {
			c.OK("C20-EXACT", name+":no-floating-point", c.Pos(f.Pos()), fmt.Sprintf("%d functions on the path, no float/complex value or float conversion", n))
		}
	}
	// and nothing else in the API renders an amount through floating point: no function of the api package
	// converts a chain amount to a float (Amount.ToMASS/ToUnit) or formats/parses floats as decimal text
	{
		var bad []string
		n := 0
		for fn := range c.AllFuncs {
			if pkgOf(fn) != pkgAPI {
				continue
			}
			n++
			fn := fn
			allInstrsShallow(fn, func(in ssa.Instruction) {
				id := calleeID(in)
				switch {
				case strings.HasSuffix(id, "massutil.Amount).ToMASS"), strings.HasSuffix(id, "massutil.Amount).ToUnit"),
					id == "strconv.FormatFloat", id == "strconv.ParseFloat":
					bad = append(bad, FuncName(fn)+" calls "+shortID(id)+" at "+c.Pos(in.Pos()))
				}
				if cv, ok := in.(*ssa.Convert); ok {
					if tb, isB := cv.Type().Underlying().(*types.Basic); isB && tb.Info()&types.IsFloat != 0 {
						if strings.HasSuffix(cv.X.Type().String(), "massutil.Amount") {
							bad = append(bad, FuncName(fn)+" converts an Amount to "+tb.Name()+" at "+c.Pos(cv.Pos()))
						}
					}
				}
			})
		}
		// decimal text is never trimmed with a cutset that mixes digits and the point: TrimRight(s, "0.")
		// also eats the zeros of the integral part once the fraction is gone ("10.00000000" -> "1")
		for fn := range c.AllFuncs {
			if pkgOf(fn) != pkgAPI {
				continue
			}
			fn := fn
			allInstrsShallow(fn, func(in ssa.Instruction) {
				cl, ok := in.(*ssa.Call)
				if !ok || !isCallAny(cl, "strings.TrimRight", "strings.TrimLeft", "strings.Trim") || len(cl.Call.Args) != 2 {
					return
				}
				if cut, isS := constString(cl.Call.Args[1]); isS && strings.Contains(cut, ".") && strings.ContainsAny(cut, "0123456789") {
					bad = append(bad, FuncName(fn)+" trims decimal text with the cutset "+fmt.Sprintf("%q", cut)+" at "+c.Pos(cl.Pos()))
				}
			})
		}
		sort.Strings(bad)
		if len(bad) > 0 {
			c.Bad("C20-EXACT", "api:amounts-never-through-floats", "", strings.Join(bad, "; ")+": amounts of 2^53 maxwell and more lose their low digits, so the reported value is not the exact one and parses back to a different amount")
		} else {
			c.OK("C20-EXACT", "api:amounts-never-through-floats", "", fmt.Sprintf("%d functions of the api package, none converts an amount to a float or formats/parses float text", n))
		}
	}

	return Meta{
		Explanation: "Provenance of the handler served and of the decision function, edge-cut dominance inside the 403 wrapper, constant evaluation of the LAN table and of the gRPC listen address, a census of the decision function's allow edges against the four admitted kinds, clone comparison of the binding-target construction with the chain library's, and an effect check (no floating point) on the amount path.",
		NotDecided:  "the allow decision for all address spellings (IPv4-mapped IPv6, malformed); canonical form and round trip of all amounts — value facts over all inputs.",
		Trusted:     []string{"go/ssa", "net/http serves only through the handler given to ListenAndServe", "mass-core massutil.GetBindingTarget / NewAddressPubKeyHash as the chain library's definition"},
	}
}

// targetShape: the observable construction inside a binding-target function: which parameters feed
// Hash160, the order of the appended bytes, the address constructor, the encoder.
func targetShape(fn *ssa.Function) string {
	var parts []string
	for _, h := range callsInPrefix(fn, "github.com/massnetorg/mass-core/massutil.Hash160") {
		for _, p := range fn.Params {
			if backSlice(h.Call.Args[0]).has(p) {
				parts = append(parts, "hash160("+fmt.Sprint(paramIndex(fn, p))+")")
			}
		}
	}
	// appended bytes by position
	allInstrs(fn, func(in ssa.Instruction) {
		st, ok := in.(*ssa.Store)
		if !ok {
			return
		}
		ia, ok := st.Addr.(*ssa.IndexAddr)
		if !ok {
			return
		}
		k, ok := ia.Index.(*ssa.Const)
		if !ok {
			return
		}
		for _, p := range fn.Params {
			if backSlice(st.Val).has(p) {
				parts = append(parts, fmt.Sprintf("byte[%s]=param%d", k.Value.ExactString(), paramIndex(fn, p)))
			}
		}
	})
	for _, cl := range callsInPrefix(fn, "github.com/massnetorg/mass-core/massutil.NewAddress") {
		parts = append(parts, shortID(calleeID(cl)))
	}
	allInstrs(fn, func(in ssa.Instruction) {
		if cl, ok := in.(*ssa.Call); ok && callName(cl) == "EncodeAddress" {
			parts = append(parts, "EncodeAddress")
		}
	})
	sort.Strings(parts)
	return strings.Join(parts, " ")
}

func paramIndex(fn *ssa.Function, p *ssa.Parameter) int {
	for i, q := range fn.Params {
		if q == p {
			return i
		}
	}
	return -1
}

func callsInPrefix(fn *ssa.Function, prefix string) []*ssa.Call {
	var out []*ssa.Call
	allInstrs(fn, func(in ssa.Instruction) {
		if cl, ok := in.(*ssa.Call); ok && strings.HasPrefix(calleeID(cl), prefix) {
			out = append(out, cl)
		}
	})
	return out
}

func checkBindingTarget(c *Ctx) {
	rule := "C20-TARGET"
	f := c.MustFn(rule, "api", "getBindingTarget")
	ref := c.Fn("github.com/massnetorg/mass-core/massutil", "GetBindingTarget")
	if f == nil {
		return
	}
	key := "getBindingTarget:equals-chain-library"
	if ref == nil || ref.Blocks == nil {
		c.Unk(rule, key, c.Pos(f.Pos()), "reference massutil.GetBindingTarget not available")
	} else if len(callsIn(f, "github.com/massnetorg/mass-core/massutil.GetBindingTarget")) == 1 {
		cl := callsIn(f, "github.com/massnetorg/mass-core/massutil.GetBindingTarget")[0]
		ok := true
		for i := 0; i < 3; i++ {
			if !backSlice(cl.Call.Args[i]).has(f.Params[i]) {
				ok = false
			}
		}
		if ok {
			c.OK(rule, key, c.Pos(f.Pos()), "delegates to massutil.GetBindingTarget with its own parameters in order")
		} else {
			c.Bad(rule, key, c.Pos(cl.Pos()), "delegates to massutil.GetBindingTarget with permuted or foreign arguments")
		}
	} else {
		a, b := targetShape(f), targetShape(ref)
		if a == b && a != "" {
			c.OK(rule, key, c.Pos(f.Pos()), "same construction as massutil.GetBindingTarget: "+a)
		} else {
			c.Bad(rule, key, c.Pos(f.Pos()), "the binding target is not built like the chain library's GetBindingTarget: api="+a+" chain="+b)
		}
	}
	// every value returned as a binding target is a function of all three parameters (no path — a
	// cache hit, a default — returns a target computed for other arguments)
	{
		// the script is built in memory of its own: no append onto a package-level slice (a shared backing
		// array is overwritten by a concurrent listing request between the append and the encoding, so a
		// workspace is listed with another key's target)
		{
			key := "getBindingTarget:script-built-in-its-own-memory"
			shared := ""
			allInstrs(f, func(in ssa.Instruction) {
				cl, ok := in.(*ssa.Call)
				if !ok {
					return
				}
				if b, isB := cl.Call.Value.(*ssa.Builtin); !isB || b.Name() != "append" || len(cl.Call.Args) == 0 {
					return
				}
				for v := range backSlice(cl.Call.Args[0]).vals {
					if g, isG := v.(*ssa.Global); isG {
						shared = g.Name() + " at " + c.Pos(cl.Pos())
					}
				}
			})
			if shared != "" {
				c.Bad(rule, key, c.Pos(f.Pos()), "the binding-target script is appended onto the package-level slice "+shared+": concurrent listing requests share its backing array and overwrite each other's bytes before they are encoded")
			} else {
				c.OK(rule, key, c.Pos(f.Pos()), "every append in getBindingTarget extends a value made in the call")
			}
		}
		key := "getBindingTarget:every-result-depends-on-key-type-and-size"
		bad := ""
		n := 0
		for _, ret := range returnsOf(f) {
			if len(ret.Results) == 0 || !isNilErrorReturn(ret) {
				continue
			}
			n++
			sl := backSlice(ret.Results[0])
			for i := 0; i < 3 && i < len(f.Params); i++ {
				if !sl.has(f.Params[i]) {
					bad = fmt.Sprintf("the result returned at %s does not depend on parameter %s", c.Pos(ret.Pos()), f.Params[i].Name())
				}
			}
		}
		switch {
		case n == 0:
			c.Bad(rule, key, c.Pos(f.Pos()), "reason=anchor-missing: no successful return")
		case bad != "":
			c.Bad(rule, key, c.Pos(f.Pos()), bad+": a space listed with another size or proof type gets the target of the first listing of its key")
		default:
			c.OK(rule, key, c.Pos(f.Pos()), fmt.Sprintf("%d successful return(s), each derived from pub, proofType and bitLength", n))
		}
	}
	// call sites
	for _, spec := range []struct {
		fn, key, keyField, typ, proofConst, blField string
	}{
		{"workSpaceInfo2ProtoWorkSpace", "v1:arguments", "PublicKey", pkgEngine + ".WorkSpaceInfo", "0", "BitLength"},
		{"workSpaceInfo2ProtoWorkSpaceV2", "v2:arguments", "PlotID", pkgEngineV2 + ".WorkSpaceInfo", "1", "BitLength"},
	} {
		g := c.MustFn(rule, "api", spec.fn)
		if g == nil {
			continue
		}
		cs := callsIn(g, pkgAPI+".getBindingTarget", "github.com/massnetorg/mass-core/massutil.GetBindingTarget")
		if len(cs) != 1 {
			c.Bad(rule, spec.key, c.Pos(g.Pos()), "reason=anchor-missing: binding-target call")
			continue
		}
		a := cs[0].Call.Args
		s0 := backSlice(a[0])
		okKey := s0.hasField(spec.typ, spec.keyField)
		if spec.keyField == "PublicKey" {
			okKey = okKey && s0.hasCallTo("(*github.com/massnetorg/mass-core/pocec.PublicKey).SerializeCompressed")
		}
		pt, okPT := constString(a[1])
		okBL := backSlice(a[2]).hasField(spec.typ, spec.blField)
		// proof type constants from the chain library
		want := spec.proofConst
		if v, ok := constVal(c, "github.com/massnetorg/mass-core/poc", map[string]string{"0": "ProofTypeDefault", "1": "ProofTypeChia"}[spec.proofConst]); ok {
			want = v
		}
		// the target is what is reported
		reported := false
		for _, fa := range fieldAccesses(g) {
			if fa.Kind == "store" && fa.Field == "BindingTarget" && backSlice(fa.In.(*ssa.Store).Val).has(resultOf(cs[0], 0)) {
				reported = true
			}
		}
		if okKey && okPT && pt == want && okBL && reported {
			c.OK(rule, spec.key, c.Pos(cs[0].Pos()), "target computed from this workspace's "+spec.keyField+", proof type "+pt+" and bit length, and reported as BindingTarget")
		} else {
			c.Bad(rule, spec.key, c.Pos(cs[0].Pos()), fmt.Sprintf("the listed binding target is not the chain library's for this workspace (key-from-%s=%v proof-type=%s want %s bitlength=%v reported=%v)", spec.keyField, okKey, pt, want, okBL, reported))
		}
	}
	// the target reported for a workspace is computed for that workspace: no BindingTarget written into
	// a response comes out of a map (a memo keyed by the public key alone hands a second space of the same
	// key, with another size, the first one's target)
	{
		key := "listing:target-computed-per-workspace"
		n := 0
		memo := ""
		for fn := range c.AllFuncs {
			if pkgOf(fn) != pkgAPI {
				continue
			}
			for _, fa := range fieldAccessesShallow(fn) {
				if fa.Kind != "store" || fa.Field != "BindingTarget" {
					continue
				}
				n++
				for v := range backSlice(fa.In.(*ssa.Store).Val).vals {
					if lk, isL := v.(*ssa.Lookup); isL {
						if _, isMap := lk.X.Type().Underlying().(*types.Map); isMap {
							memo = fn.Name() + " at " + c.Pos(lk.Pos())
						}
					}
				}
			}
		}
		switch {
		case n == 0:
			c.Bad(rule, key, "", "reason=anchor-missing: no store to a BindingTarget field in the api package")
		case memo != "":
			c.Bad(rule, key, "", "a listed binding target is looked up in a map ("+memo+") instead of being computed from the workspace's own key, proof type and size: two spaces sharing a key but differing in size are listed with the same target")
		default:
			c.OK(rule, key, "", fmt.Sprintf("%d BindingTarget stores, none fed from a map", n))
		}
	}
	// address derives from the same workspace's key through the pay-to-pubkey-hash constructor
	if g := c.Fn("api", "workSpaceInfo2ProtoWorkSpace"); g != nil {
		key := "v1:address-from-same-key"
		ok := false
		for _, fa := range fieldAccesses(g) {
			if fa.Kind == "store" && fa.Field == "Address" && fa.Type == pkgAPI+"/proto.WorkSpace" {
				s := backSlice(fa.In.(*ssa.Store).Val)
				if s.hasCallTo(pkgKeystore+".NewPoCAddress") && s.hasField(pkgEngine+".WorkSpaceInfo", "PublicKey") {
					ok = true
				}
			}
		}
		np := c.Fn("poc/wallet/keystore", "newPoCAddress")
		okCtor := false
		if np != nil {
			for _, cl := range callsIn(np, "github.com/massnetorg/mass-core/massutil.NewAddressPubKeyHash") {
				s := backSlice(cl.Call.Args[0])
				if s.hasCallTo("github.com/massnetorg/mass-core/massutil.Hash160") && s.hasCallTo("(*github.com/massnetorg/mass-core/pocec.PublicKey).SerializeCompressed") && s.hasParam(np, "pubKey") {
					okCtor = true
				}
			}
		}
		if ok && okCtor {
			c.OK(rule, key, c.Pos(g.Pos()), "Address = NewAddressPubKeyHash(Hash160(key.SerializeCompressed())) of wsi.PublicKey")
		} else {
			c.Bad(rule, key, c.Pos(g.Pos()), fmt.Sprintf("the listed address does not derive from this workspace's key through the chain library's pay-to-pubkey-hash constructor (from-key=%v constructor=%v)", ok, okCtor))
		}
	}
}

// freeVarName: v is a captured variable (or a load of one); returns its name.
func freeVarName(v ssa.Value) string {
	if u, ok := v.(*ssa.UnOp); ok && u.Op == token.MUL {
		v = u.X
	}
	if fv, ok := v.(*ssa.FreeVar); ok {
		return fv.Name()
	}
	// captured variables gathered into a struct the reference tree does not have: the field of that name
	if fa, ok := v.(*ssa.FieldAddr); ok {
		if t, f, _, isF := fieldOfAddr(fa); isF && gNewTypes[t] {
			return f
		}
	}
	return ""
}

// isProfileServer: the opt-in pprof server of mass.go — ListenAndServe(addr, nil) on the default mux,
// admissible only while no repository code registers anything but a redirect on the default mux.
func isProfileServer(c *Ctx, fn *ssa.Function, in ssa.Instruction) bool {
	cl, ok := in.(*ssa.Call)
	if !ok || !isNilConst(strip(cl.Call.Args[1])) {
		return false
	}
	okMux := true
	for g := range c.AllFuncs {
		allInstrsShallow(g, func(i2 ssa.Instruction) {
			id := calleeID(i2)
			if id == "net/http.HandleFunc" {
				okMux = false
			}
			if id == "net/http.Handle" {
				if !backSlice(i2.(ssa.CallInstruction).Common().Args[1]).hasCallTo("net/http.RedirectHandler") {
					okMux = false
				}
			}
		})
	}
	if okMux {
		c.Note("exception: %s starts the opt-in profiling server on http.DefaultServeMux (pprof + a redirect only; verified that no repository code registers another handler on the default mux) — it is not the API gateway", FuncName(fn))
	}
	return okMux
}


// behindLookupOK: the value appended by ap comes from a comma-ok map lookup (directly, or through a
// helper the reference tree does not have that hands the pair back), and ap is unreachable unless that
// `ok` was true.
func behindLookupOK(ap *ssa.Call) bool {
	g := ap.Parent()
	var okVal ssa.Value
	consider := func(r ssa.Value) {
		ex, isE := r.(*ssa.Extract)
		if !isE || ex.Index != 0 {
			return
		}
		switch t := ex.Tuple.(type) {
		case *ssa.Lookup:
			if t.CommaOk {
				okVal = siblingExtract(t, 1)
			}
		case *ssa.Call:
			h := t.Call.StaticCallee()
			if h == nil || !gNewFuncs[h] || h.Signature.Results().Len() != 2 {
				return
			}
			// the helper's second result is the lookup's ok (or false)
			faithful := len(returnsOf(h)) > 0
			for _, ret := range returnsOf(h) {
				good := false
				valueOrigins(h, ret.Results[1], func(r2 ssa.Value) {
					if e2, isE2 := r2.(*ssa.Extract); isE2 && e2.Index == 1 {
						if lk, isL := e2.Tuple.(*ssa.Lookup); isL && lk.CommaOk {
							good = true
						}
					}
					if k, isK := r2.(*ssa.Const); isK && k.Value != nil && k.Value.String() == "false" {
						good = true
					}
				})
				if !good {
					faithful = false
				}
			}
			if faithful {
				okVal = siblingExtract(t, 1)
			}
		}
	}
	// the appended element (through the variadic argument slice)
	for v := range backSlice(ap.Call.Args[1]).vals {
		if ex, isE := v.(*ssa.Extract); isE && ex.Parent() == g {
			consider(ex)
		}
	}
	if okVal == nil {
		return false
	}
	tests := boolTestsOf(g, okVal)
	if len(tests) == 0 {
		return false
	}
	u, _ := unreachableWhenCut(g, boolEdgeCut(tests, true), []ssa.Instruction{ap})
	return u
}

// siblingExtract: the Extract of component idx of the same tuple.
func siblingExtract(tuple ssa.Value, idx int) ssa.Value {
	if refs := tuple.Referrers(); refs != nil {
		for _, r := range *refs {
			if ex, ok := r.(*ssa.Extract); ok && ex.Index == idx {
				return ex
			}
		}
	}
	return nil
}
