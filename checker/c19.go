package main

// C19 — wallet bucket store: key construction, name validation, transaction discipline, prefix scans.

import (
	"fmt"
	"go/token"
	"go/types"
	"sort"
	"strings"

	"golang.org/x/tools/go/ssa"
)

func init() { register("C19", checkC19) }

const (
	tLDBBucket     = pkgLDB + ".LDBBucket"
	tLDBReadBucket = pkgLDB + ".LDBReadBucket"
	idJoin         = pkgLDB + ".joinBucketPath"
)

func isLevelDBStoreCall(in ssa.Instruction) (string, bool) {
	id := calleeID(in)
	for _, p := range []string{"(*github.com/syndtr/goleveldb/leveldb.Transaction).", "(*github.com/syndtr/goleveldb/leveldb.DB).", "(*github.com/syndtr/goleveldb/leveldb.Batch)."} {
		if strings.HasPrefix(id, p) {
			return strings.TrimPrefix(id, "(*github.com/syndtr/goleveldb/leveldb."), true
		}
	}
	return "", false
}

// normSeq renders a function as a sequence of operation descriptors, ignoring local names and the
// receiver's concrete type (siblings LDBBucket / LDBReadBucket must agree).
// normSeq: what a function does, as a sorted set: the calls it makes (constant arguments kept), the
// constants it compares with, the fields it touches and the package-level values (sentinel errors,
// separators) it uses — over the function, its closures and helpers the reference tree does not have.
// Two sibling implementations must agree on this set; the order of operations, the shape of control
// flow (defer vs explicit release, named vs explicit results) and temporaries are not compared, so a
// behaviour-preserving restyling of one sibling does not make them "disagree".
func normSeq(fn *ssa.Function) []string {
	set := map[string]bool{}
	norm := func(s string) string {
		s = strings.ReplaceAll(s, "LDBReadBucket", "B")
		s = strings.ReplaceAll(s, "LDBBucket", "B")
		return s
	}
	for _, g := range bodyFns(fn, nil) {
		for _, b := range g.Blocks {
			for _, in := range b.Instrs {
				switch x := in.(type) {
				case *ssa.DebugRef:
					continue
				case ssa.CallInstruction:
					id := calleeID(in)
					if id == "" {
						continue // call of a local closure
					}
					if h := x.Common().StaticCallee(); h != nil && (gNewFuncs[h] || h.Parent() != nil) {
						continue // folded into the body
					}
					args := []string{}
					for _, a := range x.Common().Args {
						if k, ok := a.(*ssa.Const); ok {
							args = append(args, k.String())
						} else {
							args = append(args, "_")
						}
					}
					set[norm("call "+id+"("+strings.Join(args, ",")+")")] = true
				case *ssa.BinOp:
					if k, ok := x.Y.(*ssa.Const); ok {
						switch x.Op {
						case token.EQL, token.NEQ, token.LSS, token.LEQ, token.GTR, token.GEQ:
							set["compare "+x.Op.String()+" "+k.String()] = true
						case token.ADD, token.SUB, token.MUL, token.SHL, token.SHR, token.AND, token.OR:
							// layout arithmetic with a constant (buffer sizes, offsets): the constants are part of the agreement
							set["arith "+x.Op.String()+" "+k.String()] = true
						}
					}
				case *ssa.FieldAddr:
					_, st := namedStructOrAnon(x.X.Type())
					set["field "+st.Field(x.Field).Name()] = true
				case *ssa.UnOp:
					if gl, ok := x.X.(*ssa.Global); ok {
						set["global "+gl.Name()] = true
					}
				}
			}
		}
	}
	var out []string
	for k := range set {
		out = append(out, k)
	}
	sort.Strings(out)
	return out
}

// nameValidCut: the edges on which `name` (a parameter of f) is known valid — the true edge of
// isValidBucketName(name), or, where the validation is written out at the call site, the edge of the
// separator search on which the separator is absent (strings.Contains/ContainsAny false; strings.Index
// compared negative). Cutting them must make every success unreachable. found: such a test exists.
func nameValidCut(f *ssa.Function, sep string) (func(from, to *ssa.BasicBlock) bool, bool) {
	var cuts []func(from, to *ssa.BasicBlock) bool
	ofName := func(v ssa.Value) bool { return backSlice(v).hasParam(f, "name") }
	for _, cl := range callsIn(f, pkgLDB+".isValidBucketName") {
		if ofName(cl.Call.Args[0]) {
			if t := boolTestsOf(f, cl); len(t) > 0 {
				cuts = append(cuts, boolEdgeCut(t, true))
			}
		}
	}
	isSep := func(v ssa.Value) bool {
		k, isK := strip(v).(*ssa.Const)
		return isK && k.Value != nil && sep != "" && k.Value.ExactString() == sep
	}
	for _, cl := range callsIn(f, "strings.Contains", "strings.ContainsAny") {
		if ofName(cl.Call.Args[0]) && isSep(cl.Call.Args[1]) {
			if t := boolTestsOf(f, cl); len(t) > 0 {
				cuts = append(cuts, boolEdgeCut(t, false))
			}
		}
	}
	for _, cl := range callsIn(f, "strings.Index") {
		if !ofName(cl.Call.Args[0]) || !isSep(cl.Call.Args[1]) {
			continue
		}
		if refs := cl.Referrers(); refs != nil {
			for _, r := range *refs {
				bo, ok := r.(*ssa.BinOp)
				if !ok || bo.X != ssa.Value(cl) {
					continue
				}
				k, isK := bo.Y.(*ssa.Const)
				if !isK || k.Value == nil {
					continue
				}
				kv := k.Value.ExactString()
				switch {
				case (bo.Op == token.LSS && kv == "0") || (bo.Op == token.EQL && kv == "-1") || (bo.Op == token.LEQ && kv == "-1"):
					if t := boolTestsOf(f, bo); len(t) > 0 {
						cuts = append(cuts, boolEdgeCut(t, true)) // absent on the true edge
					}
				case (bo.Op == token.GEQ && kv == "0") || (bo.Op == token.NEQ && kv == "-1") || (bo.Op == token.GTR && kv == "-1"):
					if t := boolTestsOf(f, bo); len(t) > 0 {
						cuts = append(cuts, boolEdgeCut(t, false)) // absent on the false edge
					}
				}
			}
		}
	}
	if len(cuts) == 0 {
		return func(from, to *ssa.BasicBlock) bool { return false }, false
	}
	return orCut(cuts...), true
}

func checkC19(c *Ctx) Meta {
	c.Rule("C19-KEY", "every key handed to the leveldb transaction/DB/batch derives from the one key constructor innerKey(bucket path + separator + key), from an index key joinBucketPath(\"b\", path), or from an iterator over such a prefix", 20)
	c.Rule("C19-NAME", "every bucket-index write is dominated by successful isValidBucketName(name), which rejects the separator joinBucketPath joins with", 3)
	c.Rule("C19-TX", "write-transaction buckets write through their transaction only; read-only buckets cannot write; BeginTx opens a leveldb transaction; Commit/Rollback map to Commit/Discard", 12)
	c.Rule("C19-PREFIX", "prefix scans (Clear, deleteBucket, GetByPrefix, BucketNames) iterate a prefix that ends with the separator after the complete bucket path", 8)
	c.Rule("C19-SIBLING", "the two bucket kinds (LDBBucket / LDBReadBucket) agree operation-for-operation on innerKey, subBucket, Get, GetByPrefix, BucketNames and GetBucketMeta", 6)
	c.Rule("C19-SUBTREE", "deleting a bucket removes its whole subtree: within one activation of the delete routine the enumeration of the bucket's sub-buckets (read from the name index) is not reachable after a descent that unlinks sub-buckets from that index", 1)
	checkDeleteOrder(c)
	c.Rule("C19-WMD", "stored entries disappear only through the bucket API: every leveldb delete (Transaction.Delete, Batch.Delete, DB.Delete) in the store's package sits in Bucket.Delete, Bucket.Clear or the bucket-deletion routine (or a helper used by them alone) — no maintenance pass, open path or other function removes entries by its own reading of the keys", 4)
	checkWhoMayDelete(c, "C19-WMD")
	c.Rule("C19-BATCH", "what a bucket operation collects reaches the store: every leveldb.Batch the store package allocates is handed to Transaction.Write / DB.Write by the allocating function or by a function it is passed to (or leaves the function: nothing claimed) — a batch that is filled and dropped loses the deletes collected in it, so the entries of a deleted sub-bucket reappear in a bucket created later under the same path", 2)
	checkBatchWritten(c, "C19-BATCH")
	c.Rule("C19-UPDATE", "db.Update rolls back on a closure error and returns Commit's result otherwise (shared with C12-E)", 3)

	sep, _ := constVal(c, pkgLDB, "bucketPathSep")
	idxPrefix, _ := constVal(c, pkgLDB, "bucketNameBucket")

	var fns []*ssa.Function
	for fn := range c.AllFuncs {
		if pkgOf(fn) == pkgLDB {
			fns = append(fns, fn)
		}
	}
	sort.Slice(fns, func(i, j int) bool { return fns[i].String() < fns[j].String() })

	isIndexKey := func(s *slice) bool {
		for _, cl := range s.callsTo(idJoin) {
			as := backSliceAny(cl.Call.Args)
			if as.hasConstVal(idxPrefix) {
				return true
			}
		}
		return false
	}
	isInnerKey := func(s *slice) bool {
		return s.hasCallTo("(*"+tLDBBucket+").innerKey", "(*"+tLDBReadBucket+").innerKey")
	}
	isIterKey := func(s *slice) bool {
		for v := range s.vals {
			if cl, ok := v.(*ssa.Call); ok && callName(cl) == "Key" && strings.Contains(calleeID(cl), "iterator") {
				return true
			}
		}
		return false
	}
	isPathPrefix := func(s *slice) bool {
		// joinBucketPath(path, "") — complete path followed by the separator
		for _, cl := range s.callsTo(idJoin) {
			as := backSliceAny(cl.Call.Args)
			if as.hasConstVal(`""`) {
				return true
			}
		}
		return false
	}

	// ---- KEY + TX
	for _, fn := range fns {
		ord := map[string]int{}
		allInstrsShallow(fn, func(in ssa.Instruction) {
			op, ok := isLevelDBStoreCall(in)
			if !ok {
				return
			}
			m := callName(in)
			switch m {
			case "Put", "Get", "Delete", "NewIterator", "Has":
			default:
				return
			}
			if strings.HasPrefix(op, "Batch).") && m != "Delete" && m != "Put" {
				return
			}
			ord[op]++
			key := fmt.Sprintf("%s:%s#%d", FuncName(fn), op, ord[op])
			args := callArgs(in)
			if len(args) == 0 {
				return
			}
			sl := backSlice(args[0])
			what := ""
			switch {
			case m == "NewIterator":
				// util.BytesPrefix(prefix): prefix must be an innerKey(prefix,true) or a path prefix ending with the separator
				if isInnerKey(sl) {
					what = "innerKey prefix"
				} else if isPathPrefix(sl) {
					what = "complete bucket path + separator"
				}
			case isInnerKey(sl):
				what = "innerKey"
			case isIndexKey(sl):
				what = "index key joinBucketPath(\"b\", path)"
			case isIterKey(sl):
				what = "key read from a prefix iterator"
			}
			if what == "" {
				c.Bad("C19-KEY", key, c.Pos(in.Pos()), "the key handed to leveldb "+op+" is built neither by innerKey nor as an index key nor taken from a prefix iterator: a raw key can collide with another bucket's keys or with the bucket index")
			} else {
				c.OK("C19-KEY", key, c.Pos(in.Pos()), "key is "+what)
			}
		})
	}

	// ---- NAME
	valid := c.fnExact("poc/wallet/db/ldb", "isValidBucketName")
	if valid == nil {
		// the validation may be written out at its call sites: the site rules below then require the
		// separator search itself (nameValidCut); joinBucketPath must still join with that constant
		joinOK := false
		if j := c.Fn("poc/wallet/db/ldb", "joinBucketPath"); j != nil {
			for _, cl := range callsIn(j, "strings.Join") {
				if k, isK := cl.Call.Args[1].(*ssa.Const); isK && k.Value != nil && k.Value.ExactString() == sep {
					joinOK = true
				}
			}
		}
		if joinOK && sep != "" {
			c.OK("C19-NAME", "isValidBucketName:rejects-separator", "", "no isValidBucketName function: each site searches the name for "+sep+" itself (site rules), the constant joinBucketPath joins with")
		} else {
			c.Bad("C19-NAME", "isValidBucketName:rejects-separator", "", "reason=anchor-missing: isValidBucketName, and joinBucketPath does not join with the separator constant")
		}
	}
	if valid != nil {
		key := "isValidBucketName:rejects-separator"
		ok := false
		allInstrs(valid, func(in ssa.Instruction) {
			if cl, isCall := in.(*ssa.Call); isCall && isCallAny(cl, "strings.Index", "strings.Contains", "strings.ContainsAny", "strings.IndexByte") {
				if k, isK := cl.Call.Args[1].(*ssa.Const); isK && k.Value != nil && k.Value.ExactString() == sep {
					ok = true
				}
			}
		})
		// and joinBucketPath joins with the same constant
		joinOK := false
		if j := c.Fn("poc/wallet/db/ldb", "joinBucketPath"); j != nil {
			for _, cl := range callsIn(j, "strings.Join") {
				if k, isK := cl.Call.Args[1].(*ssa.Const); isK && k.Value != nil && k.Value.ExactString() == sep {
					joinOK = true
				}
			}
		}
		// the search decides: the function answers true only when the separator is absent — every way of
		// returning true is the absent-test itself or lies behind its true edge (`a && b || absent` answers
		// true for a name with a separator)
		if ok {
			var absent ssa.Value // the comparison meaning "separator not in name"
			allInstrs(valid, func(in ssa.Instruction) {
				switch x := in.(type) {
				case *ssa.BinOp:
					if cl, isC := x.X.(*ssa.Call); isC && isCallAny(cl, "strings.Index", "strings.IndexByte") {
						if k, isK := x.Y.(*ssa.Const); isK && k.Value != nil {
							if (x.Op == token.LSS && k.Value.ExactString() == "0") || (x.Op == token.EQL && k.Value.ExactString() == "-1") {
								absent = x
							}
						}
					}
				case *ssa.UnOp:
					if cl, isC := x.X.(*ssa.Call); isC && x.Op == token.NOT && isCallAny(cl, "strings.Contains", "strings.ContainsAny") {
						absent = x
					}
				}
			})
			if absent == nil {
				ok = false
			} else {
				behind := func(b *ssa.BasicBlock) bool {
					for _, t := range boolTestsOf(valid, absent) {
						if t.TrueSucc != t.FalseSucc && len(t.TrueSucc.Preds) == 1 && (t.TrueSucc == b || t.TrueSucc.Dominates(b)) {
							return true
						}
					}
					return false
				}
				for _, ret := range returnsOf(valid) {
					var edges func(v ssa.Value, from *ssa.BasicBlock, depth int)
					edges = func(v ssa.Value, from *ssa.BasicBlock, depth int) {
						if v == absent || depth > 4 {
							return
						}
						switch x := v.(type) {
						case *ssa.Const:
							if x.Value != nil && x.Value.String() == "true" && !behind(from) {
								ok = false
							}
						case *ssa.Phi:
							for i, e := range x.Edges {
								edges(e, x.Block().Preds[i], depth+1)
							}
						default:
							if !behind(from) {
								ok = false // true can be answered by another test without the separator test having passed
							}
						}
					}
					edges(ret.Results[0], ret.Block(), 0)
				}
			}
		}
		// non-empty name required as well
		if ok && joinOK && sep != "" {
			c.OK("C19-NAME", key, c.Pos(valid.Pos()), "isValidBucketName searches the name for "+sep+", the constant joinBucketPath joins with")
		} else {
			c.Bad("C19-NAME", key, c.Pos(valid.Pos()), "isValidBucketName does not reject the separator that joinBucketPath joins with: a name containing it aliases another bucket's path")
		}
	}
	// subBucket: nil-error return only behind isValidBucketName true
	validatedBySub := map[string]bool{}
	for _, recv := range []string{"LDBBucket", "LDBReadBucket"} {
		sb := c.MustFn("C19-NAME", "poc/wallet/db/ldb", "(*"+recv+").subBucket")
		if sb == nil {
			continue
		}
		key := recv + ".subBucket:validates-name"
		vcut, vfound := nameValidCut(sb, sep)
		r := reach(sb, nil, vcut, nil)
		bad := !vfound
		for _, ret := range returnsOf(sb) {
			if isNilErrorReturn(ret) && r(ret) {
				bad = true
			}
		}
		if bad {
			c.Bad("C19-NAME", key, c.Pos(sb.Pos()), "subBucket can succeed for a name that did not pass isValidBucketName")
		} else {
			validatedBySub[recv] = true
			c.OK("C19-NAME", key, c.Pos(sb.Pos()), "subBucket's success return lies behind isValidBucketName(name)")
		}
	}
	// index writes
	for _, spec := range []struct{ fn, via string }{{"(*LDBTransaction).CreateTopLevelBucket", "direct"}, {"(*LDBBucket).NewBucket", "subBucket"}} {
		f := c.MustFn("C19-NAME", "poc/wallet/db/ldb", spec.fn)
		if f == nil {
			continue
		}
		key := spec.fn + ":index-write-validated"
		var puts []ssa.Instruction
		allInstrs(f, func(in ssa.Instruction) {
			if op, ok := isLevelDBStoreCall(in); ok && strings.HasSuffix(op, ").Put") {
				puts = append(puts, in)
			}
		})
		if len(puts) == 0 {
			c.Bad("C19-NAME", key, c.Pos(f.Pos()), "reason=anchor-missing: no index write found")
			continue
		}
		var cut func(from, to *ssa.BasicBlock) bool
		found := false
		if spec.via == "direct" {
			cut, found = nameValidCut(f, sep)
		}
		if !found {
			// through subBucket(name) success
			subs := callsIn(f, "(*"+tLDBBucket+").subBucket")
			if len(subs) == 1 && validatedBySub["LDBBucket"] && backSlice(subs[0].Call.Args[1]).hasParam(f, "name") {
				found = true
				cut = errorEdgeCut(f, subs[0], false)
				// the key written derives from the validated sub bucket's path
				for _, p := range puts {
					if !backSlice(callArgs(p)[0]).has(resultOf(subs[0], 0)) {
						found = false
					}
				}
			}
		}
		if !found {
			c.Bad("C19-NAME", key, c.Pos(puts[0].Pos()), "a bucket index entry is written without validating the bucket name")
			continue
		}
		if ok, at := unreachableWhenCut(f, cut, puts); ok {
			c.OK("C19-NAME", key, c.Pos(puts[0].Pos()), "index write unreachable unless the name was validated ("+spec.via+")")
		} else {
			c.Bad("C19-NAME", key, c.Pos(at.Pos()), "a bucket index entry can be written on a path where the name was not validated")
		}
	}

	// ---- TX
	for _, fn := range fns {
		recv := fn.Signature.Recv()
		if recv == nil || fn.Parent() != nil {
			continue
		}
		rt := recv.Type().String()
		switch {
		case strings.HasSuffix(rt, ".LDBBucket") || fn.Name() == "deleteBucket":
		}
	}
	for _, fn := range fns {
		isWriteBucketFn := false
		if fn.Signature.Recv() != nil && strings.HasSuffix(fn.Signature.Recv().Type().String(), ".LDBBucket") {
			isWriteBucketFn = true
		}
		if fn.Signature.Recv() != nil && strings.HasSuffix(fn.Signature.Recv().Type().String(), ".LDBTransaction") {
			isWriteBucketFn = true // the transaction's own lookups and creations too
		}
		if fn.Name() == "deleteBucket" && fn.Parent() == nil {
			isWriteBucketFn = true
		}
		if !isWriteBucketFn {
			continue
		}
		var bad []string
		n := 0
		allInstrsShallow(fn, func(in ssa.Instruction) {
			op, ok := isLevelDBStoreCall(in)
			if !ok {
				return
			}
			n++
			if strings.HasPrefix(op, "DB).") {
				bad = append(bad, op+" at "+c.Pos(in.Pos())+" bypasses the transaction")
				return
			}
			if strings.HasPrefix(op, "Transaction).") {
				p := accessPath(callRecv(in))
				if !strings.HasSuffix(p, ".tx.tr") && !strings.HasSuffix(p, ".tr") {
					bad = append(bad, op+" at "+c.Pos(in.Pos())+" uses "+p+" instead of the bucket's own transaction")
				}
			}
		})
		if n == 0 {
			continue
		}
		key := FuncName(fn) + ":through-own-transaction"
		if len(bad) > 0 {
			c.Bad("C19-TX", key, c.Pos(fn.Pos()), strings.Join(bad, "; ")+": the write is not rolled back with the transaction / is visible before commit")
		} else {
			c.OK("C19-TX", key, c.Pos(fn.Pos()), fmt.Sprintf("%d leveldb calls, all on b.tx.tr (or a batch written through it)", n))
		}
	}
	for _, m := range []string{"NewBucket", "Clear", "Delete", "Put", "DeleteBucket"} {
		f := c.MustFn("C19-TX", "poc/wallet/db/ldb", "(*LDBReadBucket)."+m)
		if f == nil {
			continue
		}
		key := "LDBReadBucket." + m + ":cannot-write"
		calls := 0
		allInstrs(f, func(in ssa.Instruction) {
			if _, ok := in.(ssa.CallInstruction); ok {
				calls++
			}
		})
		okRet := true
		for _, r := range returnsOf(f) {
			last := strip(r.Results[len(r.Results)-1])
			u, ok := last.(*ssa.UnOp)
			if !ok {
				okRet = false
				continue
			}
			if g, ok := u.X.(*ssa.Global); !ok || g.Name() != "ErrNotSupported" {
				okRet = false
			}
		}
		if calls == 0 && okRet {
			c.OK("C19-TX", key, c.Pos(f.Pos()), "returns db.ErrNotSupported and calls nothing")
		} else {
			c.Bad("C19-TX", key, c.Pos(f.Pos()), "a read-only bucket's mutator does something other than returning ErrNotSupported")
		}
	}
	for _, spec := range []struct{ fn, must, key string }{
		{"(*LevelDB).BeginTx", "(*github.com/syndtr/goleveldb/leveldb.DB).OpenTransaction", "BeginTx:opens-leveldb-transaction"},
		{"(*LDBTransaction).Commit", "(*github.com/syndtr/goleveldb/leveldb.Transaction).Commit", "Commit:commits"},
		{"(*LDBTransaction).Rollback", "(*github.com/syndtr/goleveldb/leveldb.Transaction).Discard", "Rollback:discards"},
	} {
		f := c.MustFn("C19-TX", "poc/wallet/db/ldb", spec.fn)
		if f == nil {
			continue
		}
		cs := callsIn(f, spec.must)
		ok := len(cs) == 1
		if ok {
			// every normal return is preceded by the call
			r := reach(f, nil, nil, func(in ssa.Instruction) bool { return in == ssa.Instruction(cs[0]) })
			for _, ret := range returnsOf(f) {
				if r(ret) && (len(ret.Results) == 0 || isNilErrorReturn(ret)) {
					ok = false
				}
			}
			if spec.fn == "(*LDBTransaction).Commit" {
				// Commit's error is returned
				al := aliasesForward(f, cs[0])
				if !flowsToReturn(f, al) {
					ok = false
				}
			}
			if spec.fn == "(*LevelDB).BeginTx" {
				// the transaction object stores the opened transaction
				stored := false
				for _, a := range fieldAccesses(f) {
					if a.Kind == "store" && a.Field == "tr" && backSlice(a.In.(*ssa.Store).Val).has(resultOf(cs[0], 0)) {
						stored = true
					}
				}
				ok = ok && stored
			}
		}
		if ok {
			c.OK("C19-TX", spec.key, c.Pos(f.Pos()), "maps to "+shortID(spec.must))
		} else {
			c.Bad("C19-TX", spec.key, c.Pos(f.Pos()), shortID(spec.fn)+" does not (always) call "+shortID(spec.must)+" / propagate its result")
		}
	}

	// ---- PREFIX
	for _, spec := range []string{"(*LDBBucket).Clear", "deleteBucket", "(*LDBBucket).GetByPrefix", "(*LDBReadBucket).GetByPrefix", "(*LDBBucket).BucketNames", "(*LDBReadBucket).BucketNames", "(*LDBTransaction).BucketNames", "(*LDBReadTransaction).BucketNames"} {
		f := c.MustFn("C19-PREFIX", "poc/wallet/db/ldb", spec)
		if f == nil {
			continue
		}
		key := spec + ":prefix-ends-with-separator"
		var its []*ssa.Call
		allInstrsNew(f, func(in ssa.Instruction) {
			if cl, ok := in.(*ssa.Call); ok && callName(cl) == "NewIterator" {
				its = append(its, cl)
			}
		})
		if len(its) == 0 {
			c.Bad("C19-PREFIX", key, c.Pos(f.Pos()), "reason=anchor-missing: no iterator")
			continue
		}
		bad := false
		for _, it := range its {
			sl := backSlice(callArgs(it)[0])
			if !sl.hasCallTo("github.com/syndtr/goleveldb/leveldb/util.BytesPrefix") || !(isInnerKey(sl) || isPathPrefix(sl)) {
				bad = true
			}
			// and the path is the bucket's own: a direct use of b.path, or innerKey called on the receiver
			if recv := f.Signature.Recv(); recv != nil && strings.Contains(recv.Type().String(), "Bucket") {
				own := sl.hasField(tLDBBucket, "path") || sl.hasField(tLDBReadBucket, "path")
				for v := range sl.vals {
					if cl, ok := v.(*ssa.Call); ok && callName(cl) == "innerKey" && len(f.Params) > 0 && callRecv(cl) == ssa.Value(f.Params[0]) {
						own = true
					}
				}
				if !own {
					bad = true
				}
			}
		}
		if bad {
			c.Bad("C19-PREFIX", key, c.Pos(its[0].Pos()), "the scan prefix is not the bucket's complete path followed by the separator: a bucket whose path is a proper prefix of another's would match the other's keys")
		} else {
			c.OK("C19-PREFIX", key, c.Pos(its[0].Pos()), "iterates util.BytesPrefix(path + separator …)")
		}
	}
	// innerKey layout: path, then separator at pathLen, then key; pathLen == len(path) at every construction
	for _, recv := range []string{"LDBBucket", "LDBReadBucket"} {
		f := c.MustFn("C19-PREFIX", "poc/wallet/db/ldb", "(*"+recv+").innerKey")
		if f == nil {
			continue
		}
		key := recv + ".innerKey:path+separator+key"
		copies := callsInBody(f, "builtin.copy") // also in a helper the reference tree does not have
		hasPath, hasSep, hasKey := false, false, false
		// the position after the path: the pathLen field, or len() of the path itself
		atPathLen := func(dst *slice) bool {
			if dst.hasField(pkgLDB+"."+recv, "pathLen") {
				return true
			}
			for v := range dst.vals {
				if cl, ok := v.(*ssa.Call); ok {
					if b, isB := cl.Call.Value.(*ssa.Builtin); isB && b.Name() == "len" && len(cl.Call.Args) == 1 && backSlice(cl.Call.Args[0]).hasField(pkgLDB+"."+recv, "path") {
						return true
					}
				}
			}
			return false
		}
		for _, cp := range copies {
			src := backSlice(cp.Call.Args[1])
			dst := backSlice(cp.Call.Args[0])
			if src.hasField(pkgLDB+"."+recv, "path") {
				hasPath = true
			}
			if src.hasConstVal(sep) && atPathLen(dst) {
				hasSep = true
			}
			if src.hasParam(f, "key") && atPathLen(dst) {
				hasKey = true
			}
		}
		if !(hasPath && hasSep && hasKey) {
			// the same layout built by appending onto an empty buffer: path, then the separator, then the key,
			// in this order and nothing else
			okChain := false
			for _, ret := range returnsOf(f) {
				if len(ret.Results) == 0 || isNilConst(strip(ret.Results[0])) {
					continue
				}
				var parts []*slice
				cur := ret.Results[0]
				for depth := 0; depth < 6; depth++ {
					var ap *ssa.Call
					valueOrigins(f, cur, func(r ssa.Value) {
						if cl, ok := r.(*ssa.Call); ok {
							if b, isB := cl.Call.Value.(*ssa.Builtin); isB && b.Name() == "append" && len(cl.Call.Args) == 2 {
								ap = cl
							}
						}
					})
					if ap == nil {
						break
					}
					parts = append([]*slice{backSlice(ap.Call.Args[1])}, parts...)
					cur = ap.Call.Args[0]
				}
				_, baseIsMake := strip(cur).(*ssa.MakeSlice)
				if ms, ok := strip(cur).(*ssa.MakeSlice); ok {
					if k, isK := strip(ms.Len).(*ssa.Const); !isK || k.Value == nil || k.Value.ExactString() != "0" {
						baseIsMake = false // a non-empty base shifts the layout
					}
				}
				if len(parts) == 3 && baseIsMake &&
					parts[0].hasField(pkgLDB+"."+recv, "path") && !parts[0].hasParam(f, "key") &&
					parts[1].hasConstVal(sep) && !parts[1].hasParam(f, "key") && !parts[1].hasField(pkgLDB+"."+recv, "path") &&
					parts[2].hasParam(f, "key") {
					okChain = true
				} else {
					okChain = false
					break
				}
			}
			if okChain {
				hasPath, hasSep, hasKey = true, true, true
			}
		}
		if hasPath && hasSep && hasKey {
			c.OK("C19-PREFIX", key, c.Pos(f.Pos()), "buffer = bucket path, separator at pathLen, key after it")
		} else {
			c.Bad("C19-PREFIX", key, c.Pos(f.Pos()), fmt.Sprintf("innerKey no longer builds path+separator+key (path=%v separator=%v key=%v)", hasPath, hasSep, hasKey))
		}
	}
	{
		key := "pathLen==len(path)-at-construction"
		bad := false
		n := 0
		for _, fn := range fns {
			for _, a := range fieldAccessesShallow(fn) {
				if a.Kind != "store" || a.Field != "pathLen" {
					continue
				}
				n++
				st := a.In.(*ssa.Store)
				okLen := false
				if cl, ok := st.Val.(*ssa.Call); ok && calleeID(cl) == "builtin.len" {
					if t, f2, base, ok := fieldOfValue(cl.Call.Args[0]); ok && f2 == "path" && t == a.Type && accessPath(base) == accessPath(a.Base) {
						okLen = true
					}
					// a constructor: len(p) of the very value it stores into the path field of the same object
					for _, b := range fieldAccessesShallow(fn) {
						if b.Kind == "store" && b.Field == "path" && b.Type == a.Type && b.Base == a.Base {
							if pv := b.In.(*ssa.Store).Val; pv == cl.Call.Args[0] || sameOriginValue(fn, pv, cl.Call.Args[0]) {
								okLen = true
							}
						}
					}
				}
				if !okLen {
					bad = true
					c.Bad("C19-PREFIX", key, c.Pos(st.Pos()), "pathLen is not set to len(path) of the same bucket: innerKey would place the separator inside or beyond the path")
				}
			}
		}
		if !bad && n > 0 {
			c.OK("C19-PREFIX", key, "", fmt.Sprintf("%d constructions set pathLen = len(path)", n))
		}
	}

	// ---- SIBLING
	for _, m := range []string{"innerKey", "subBucket", "Get", "GetByPrefix", "BucketNames", "GetBucketMeta"} {
		a := c.MustFn("C19-SIBLING", "poc/wallet/db/ldb", "(*LDBBucket)."+m)
		b := c.MustFn("C19-SIBLING", "poc/wallet/db/ldb", "(*LDBReadBucket)."+m)
		if a == nil || b == nil {
			continue
		}
		sa, sb := normSeq(a), normSeq(b)
		// the only allowed difference: which leveldb handle is used
		normAll := func(in []string) []string {
			var out []string
			for _, x := range in {
				x = strings.ReplaceAll(x, "LDBReadBucket", "B")
				x = strings.ReplaceAll(x, "LDBBucket", "B")
				x = strings.ReplaceAll(x, "leveldb.Transaction)", "leveldb.H)")
				x = strings.ReplaceAll(x, "leveldb.DB)", "leveldb.H)")
				if x == "field tx" {
					continue // b.tx.tr is two hops, b.ldb one: the handle
				}
				if x == "field tr" || x == "field ldb" {
					continue // which handle is used is C19-TX's business
				}
				out = append(out, x)
			}
			return out
		}
		sa, sb = normAll(sa), normAll(sb)
		ja := strings.Join(dedupAdjacent(sa), "\n")
		jb := strings.Join(dedupAdjacent(sb), "\n")
		if ja == jb {
			c.OK("C19-SIBLING", m, c.Pos(a.Pos()), fmt.Sprintf("%d normalised operations agree", len(sa)))
		} else {
			c.Bad("C19-SIBLING", m, c.Pos(b.Pos()), "the write-transaction bucket and the read-only bucket disagree on "+m+" (first difference: "+firstDiff(sa, sb)+"): reads inside a transaction and outside it would address different keys")
		}
	}

	// ---- EXIST: lookups return a bucket only when its index entry was read successfully
	// iterators are walked from their first element: Next() is the loop condition and nothing else
	// repositions the iterator
	{
		var bad []string
		n := 0
		for fn := range c.AllFuncs {
			if pkgOf(fn) != pkgLDB {
				continue
			}
			allInstrsShallow(fn, func(in ssa.Instruction) {
				cl, ok := in.(*ssa.Call)
				if !ok || !cl.Call.IsInvoke() {
					return
				}
				if !strings.HasSuffix(cl.Call.Value.Type().String(), "iterator.Iterator") {
					return
				}
				switch cl.Call.Method.Name() {
				case "First", "Last", "Seek", "Prev":
					bad = append(bad, fn.Name()+": iterator."+cl.Call.Method.Name()+" at "+c.Pos(cl.Pos()))
				case "Next":
					n++
					if !blockReentered(fn, cl) {
						bad = append(bad, fn.Name()+": iterator.Next outside the loop condition at "+c.Pos(cl.Pos()))
					}
				}
			})
		}
		sort.Strings(bad)
		if len(bad) > 0 {
			c.Bad("C19-PREFIX", "iterators-walk-every-element", "", strings.Join(bad, "; ")+": positioning the iterator before the `for it.Next()` loop makes the loop start at the second element — the smallest key of a cleared or deleted bucket survives")
		} else if n > 0 {
			c.OK("C19-PREFIX", "iterators-walk-every-element", "", fmt.Sprintf("%d iterator loops, each driven by Next() only", n))
		}
	}
	// the iterator's key/value buffers are not kept: goleveldb reuses them on Next(), so a Key()/Value()
	// result may be converted, copied from, measured or handed to a call, but never stored, collected,
	// returned or captured as it is
	{
		var bad []string
		n := 0
		for fn := range c.AllFuncs {
			if pkgOf(fn) != pkgLDB {
				continue
			}
			fn := fn
			allInstrsShallow(fn, func(in ssa.Instruction) {
				cl, ok := in.(*ssa.Call)
				if !ok || !cl.Call.IsInvoke() || !strings.HasSuffix(cl.Call.Value.Type().String(), "iterator.Iterator") {
					return
				}
				if m := cl.Call.Method.Name(); m != "Key" && m != "Value" {
					return
				}
				n++
				taint := map[ssa.Value]bool{cl: true}
				for changed := true; changed; {
					changed = false
					allInstrsShallow(fn, func(i2 ssa.Instruction) {
						v, isV := i2.(ssa.Value)
						if !isV || taint[v] {
							return
						}
						switch x := i2.(type) {
						case *ssa.Slice:
							if taint[x.X] {
								taint[v], changed = true, true
							}
						case *ssa.ChangeType:
							if taint[x.X] {
								taint[v], changed = true, true
							}
						case *ssa.Phi:
							for _, e := range x.Edges {
								if taint[e] {
									taint[v], changed = true, true
								}
							}
						}
					})
				}
				allInstrsShallow(fn, func(i2 ssa.Instruction) {
					kept := ""
					switch x := i2.(type) {
					case *ssa.Store:
						if taint[x.Val] {
							kept = "stored"
						}
					case *ssa.MapUpdate:
						if taint[x.Value] || taint[x.Key] {
							kept = "put into a map"
						}
					case *ssa.Return:
						for _, r := range x.Results {
							if taint[r] {
								kept = "returned"
							}
						}
					case *ssa.Send:
						if taint[x.X] {
							kept = "sent on a channel"
						}
					case *ssa.MakeClosure:
						for _, b := range x.Bindings {
							if taint[b] {
								kept = "captured by a closure"
							}
						}
					case *ssa.MakeInterface:
						if taint[x.X] {
							kept = "boxed into an interface value"
						}
					}
					if kept != "" {
						bad = append(bad, fn.Name()+": iterator."+cl.Call.Method.Name()+"() result "+kept+" at "+c.Pos(i2.Pos()))
					}
				})
			})
		}
		sort.Strings(bad)
		if len(bad) > 0 {
			c.Bad("C19-PREFIX", "iterator-buffers-not-kept", "", strings.Join(bad, "; ")+": the iterator reuses its key/value buffer on Next(), so every kept slice ends up holding the last entry — e.g. a bucket deletion that collects the keys first deletes one entry (several times) and leaves the others behind")
		} else if n > 0 {
			c.OK("C19-PREFIX", "iterator-buffers-not-kept", "", fmt.Sprintf("%d Key()/Value() results, each only converted, copied from, measured or passed on", n))
		}
	}
	// the deletion batch is only added to and written
	{
		var bad []string
		n := 0
		for fn := range c.AllFuncs {
			if pkgOf(fn) != pkgLDB {
				continue
			}
			allInstrsShallow(fn, func(in ssa.Instruction) {
				id := calleeID(in)
				if !strings.Contains(id, "leveldb.Batch).") {
					return
				}
				n++
				m := id[strings.LastIndex(id, ".")+1:]
				if m != "Delete" && m != "Put" && m != "Len" {
					bad = append(bad, fn.Name()+": Batch."+m+" at "+c.Pos(in.Pos()))
				}
			})
		}
		sort.Strings(bad)
		if len(bad) > 0 {
			c.Bad("C19-PREFIX", "deletion-batch-only-grows", "", strings.Join(bad, "; ")+": entries queued for deletion (e.g. those of nested buckets) are dropped from the batch, so they survive the bucket's deletion and reappear in a bucket re-created under the same name")
		} else if n > 0 {
			c.OK("C19-PREFIX", "deletion-batch-only-grows", "", fmt.Sprintf("%d batch operations, all Delete/Put", n))
		}
	}
	c.Rule("C19-EXIST", "bucket lookups (FetchBucket, TopLevelBucket, Bucket of both transaction kinds) return a bucket only on the success edge of the read of its index entry: a bucket that was never created, was rolled back or was deleted does not resolve", 6)
	for _, name := range []string{"(*LDBTransaction).FetchBucket", "(*LDBTransaction).TopLevelBucket", "(*LDBBucket).Bucket", "(*LDBReadTransaction).FetchBucket", "(*LDBReadTransaction).TopLevelBucket", "(*LDBReadBucket).Bucket"} {
		f := c.MustFn("C19-EXIST", "poc/wallet/db/ldb", name)
		if f == nil {
			continue
		}
		key := name + ":exists-before-resolve"
		var gets []*ssa.Call
		allInstrs(f, func(in ssa.Instruction) {
			if op, ok := isLevelDBStoreCall(in); ok && strings.HasSuffix(op, ").Get") {
				gets = append(gets, in.(*ssa.Call))
			}
		})
		if len(gets) != 1 {
			c.Bad("C19-EXIST", key, c.Pos(f.Pos()), "reason=anchor-missing: index read in lookup")
			continue
		}
		r := reach(f, nil, errorEdgeCut(f, gets[0], false), nil)
		bad := len(errResults(gets[0])) == 0 || len(nilTestsOf(f, errResults(gets[0])[0])) == 0
		for _, ret := range returnsOf(f) {
			if isNilConst(strip(ret.Results[0])) {
				continue
			}
			if r(ret) {
				bad = true
			}
		}
		if bad {
			c.Bad("C19-EXIST", key, c.Pos(gets[0].Pos()), "a bucket handle is returned on a path where the read of its index entry did not succeed (e.g. not found): a rolled-back or deleted bucket resolves to a live writable bucket")
		} else {
			c.OK("C19-EXIST", key, c.Pos(gets[0].Pos()), "non-nil bucket only behind err == nil of the index read")
		}
	}
	// transaction-level siblings
	for _, m := range []string{"FetchBucket", "TopLevelBucket", "BucketNames"} {
		a := c.Fn("poc/wallet/db/ldb", "(*LDBTransaction)."+m)
		b := c.Fn("poc/wallet/db/ldb", "(*LDBReadTransaction)."+m)
		if a == nil || b == nil {
			c.Bad("C19-SIBLING", "tx:"+m, "", "reason=anchor-missing")
			continue
		}
		norm := func(in []string) []string {
			var out []string
			for _, x := range in {
				x = strings.ReplaceAll(x, "LDBReadBucket", "B")
				x = strings.ReplaceAll(x, "LDBBucket", "B")
				x = strings.ReplaceAll(x, "leveldb.Transaction)", "leveldb.H)")
				x = strings.ReplaceAll(x, "leveldb.DB)", "leveldb.H)")
				x = strings.ReplaceAll(x, "LDBReadTransaction", "T")
				x = strings.ReplaceAll(x, "LDBTransaction", "T")
				if x == "field tx" || x == "field tr" || x == "field ldb" {
					continue
				}
				out = append(out, x)
			}
			return out
		}
		sa, sb := norm(normSeq(a)), norm(normSeq(b))
		if strings.Join(sa, "\n") == strings.Join(sb, "\n") {
			c.OK("C19-SIBLING", "tx:"+m, c.Pos(a.Pos()), fmt.Sprintf("%d normalised operations agree", len(sa)))
		} else {
			c.Bad("C19-SIBLING", "tx:"+m, c.Pos(a.Pos()), "write and read transactions disagree on "+m+" (first difference: "+firstDiff(sa, sb)+"): they would disagree on which buckets exist")
		}
	}

	checkUpdateWrapper(c, "C19-UPDATE")
	_ = types.Typ
	_ = token.ADD
	c.Rule("C19-KEEP", "committed data is still there at the next open: no code outside the frozen who-may-destroy table removes, truncates or renames files (the C11-WMC table) — in particular nothing removes the wallet's store directory on a failed open", 5)
	checkWhoMayDestroy(c, "C19-KEEP")

	return Meta{
		Explanation: "Structural isolation argument for the bucket store, decided on every leveldb call site of package ldb: all keys come from the one constructor or are index keys; names are validated against the join separator before any index write; write buckets use only their own transaction; read-only buckets cannot write; scans use path+separator prefixes; the two bucket kinds agree operation-for-operation; db.Update has the rollback/commit shape.",
		NotDecided:  "the map semantics for all operation sequences; isolation for adversarial keys beyond the separator rule (e.g. keys imitating index entries across depths); rdb (rocksdb build tag, cgo) cannot be type-checked here and is out of scope.",
		Trusted:     []string{"go/ssa", "goleveldb transaction isolation/atomicity", "util.BytesPrefix iterates exactly the keys with that prefix"},
	}
}

func dedupAdjacent(s []string) []string { return s }

func firstDiff(a, b []string) string {
	for i := 0; i < len(a) && i < len(b); i++ {
		if a[i] != b[i] {
			return fmt.Sprintf("#%d %q vs %q", i, a[i], b[i])
		}
	}
	return fmt.Sprintf("length %d vs %d", len(a), len(b))
}

// checkWhoMayDelete (C19-WMD): census of the leveldb delete operations of the store package.
func checkWhoMayDelete(c *Ctx, rule string) {
	allowedNames := map[string]bool{"(*LDBBucket).Delete": true, "(*LDBBucket).Clear": true, "deleteBucket": true, "(*LDBBucket).DeleteBucket": true}
	allowed := map[*ssa.Function]bool{}
	for name := range allowedNames {
		if f := c.Fn("poc/wallet/db/ldb", name); f != nil {
			for _, g := range bodyFns(f, nil) {
				allowed[g] = true
			}
		}
	}
	var fns []*ssa.Function
	for fn := range c.AllFuncs {
		if fn != nil && fn.Blocks != nil && pkgOf(outermost(fn)) == pkgLDB {
			fns = append(fns, fn)
		}
	}
	sort.Slice(fns, func(i, j int) bool { return FuncName(fns[i]) < FuncName(fns[j]) })
	n := 0
	for _, fn := range fns {
		k := 0
		allInstrsShallow(fn, func(in ssa.Instruction) {
			cl, ok := in.(*ssa.Call)
			if !ok {
				return
			}
			id := calleeID(cl)
			if !(strings.HasSuffix(id, "leveldb.Transaction).Delete") || strings.HasSuffix(id, "leveldb.Batch).Delete") || strings.HasSuffix(id, "leveldb.DB).Delete")) {
				return
			}
			n++
			k++
			key := FuncName(outermost(fn)) + ":delete#" + fmt.Sprint(k)
			if allowed[fn] || allowed[outermost(fn)] {
				c.OK(rule, key, c.Pos(cl.Pos()), "a delete of the bucket API")
			} else {
				c.Bad(rule, key, c.Pos(cl.Pos()), "entries are deleted outside Bucket.Delete / Bucket.Clear / the bucket-deletion routine: a pass that decides by its own reading of the stored keys which entries to remove can remove committed data of a live bucket (keys are arbitrary bytes and may contain the separator)")
			}
		})
	}
	if n == 0 {
		c.Bad(rule, "anchor", "", "reason=anchor-missing: no leveldb delete in the store package")
	}
}
