package main

import (
	"fmt"
	"go/types"
	"sort"
	"strings"

	"golang.org/x/tools/go/ssa"
)

// checkNoLostMutation (rule <P>-BYVALUE): state that a mechanism keeps in a struct is not updated through a
// copy. A function that receives a struct of the repository *by value* (a value receiver or a by-value
// parameter) and writes one of its fields — directly, or by calling a pointer-receiver method that writes
// on the copy or on one of its fields — updates a copy that dies with the call, unless the function hands
// the copy back (builder style). The caller's object keeps its old state: a write position that never
// advances, a stale flag that never turns true, a key that is never zeroed.
func checkNoLostMutation(c *Ctx, rule string, pkgs ...string) {
	inPkg := map[string]bool{}
	for _, p := range pkgs {
		inPkg[p] = true
	}
	var fns []*ssa.Function
	for fn := range c.AllFuncs {
		if inPkg[pkgOf(fn)] && fn.Blocks != nil {
			fns = append(fns, fn)
		}
	}
	sort.Slice(fns, func(i, j int) bool { return FuncName(fns[i]) < FuncName(fns[j]) })
	n := 0
	for _, fn := range fns {
		for idx, p := range fn.Params {
			nt, ok := p.Type().(*types.Named)
			if !ok {
				continue
			}
			if _, isStruct := nt.Underlying().(*types.Struct); !isStruct {
				continue
			}
			if nt.Obj().Pkg() == nil || !strings.HasPrefix(nt.Obj().Pkg().Path(), repoMod) {
				continue
			}
			// the cell the by-value parameter is spilled to (only when its address is needed)
			var cell *ssa.Alloc
			if refs := p.Referrers(); refs != nil {
				for _, r := range *refs {
					if st, isSt := r.(*ssa.Store); isSt && st.Val == ssa.Value(p) {
						if a, isA := st.Addr.(*ssa.Alloc); isA {
							cell = a
						}
					}
				}
			}
			if cell == nil {
				continue
			}
			n++
			derived := map[ssa.Value]bool{cell: true}
			for changed := true; changed; {
				changed = false
				allInstrsShallow(fn, func(in ssa.Instruction) {
					v, ok := in.(ssa.Value)
					if !ok || derived[v] {
						return
					}
					switch x := in.(type) {
					case *ssa.FieldAddr:
						if derived[x.X] {
							derived[v], changed = true, true
						}
					case *ssa.IndexAddr:
						if derived[x.X] {
							if _, isArr := x.X.Type().Underlying().(*types.Pointer); isArr {
								derived[v], changed = true, true
							}
						}
					}
				})
			}
			var muts []ssa.Instruction
			allInstrsShallow(fn, func(in ssa.Instruction) {
				switch x := in.(type) {
				case *ssa.Store:
					if x.Addr != ssa.Value(cell) && derived[x.Addr] {
						muts = append(muts, in)
					}
				case ssa.CallInstruction:
					cc := x.Common()
					h := cc.StaticCallee()
					if h == nil || h.Signature.Recv() == nil || len(cc.Args) == 0 || !derived[cc.Args[0]] {
						return
					}
					if _, isPtr := h.Signature.Recv().Type().Underlying().(*types.Pointer); !isPtr {
						return
					}
					if h.Blocks != nil && strings.HasPrefix(pkgOf(h), repoMod) && !paramMayBeWritten(h, 0, 2) {
						return
					}
					if h.Blocks == nil || !strings.HasPrefix(pkgOf(h), repoMod) {
						// library methods: only the well-known mutators of state kept by value
						id := calleeID(in)
						if !(strings.HasPrefix(id, "(*sync/atomic.") || strings.HasPrefix(id, "(*sync.") || strings.HasSuffix(id, ").Zero") || strings.HasSuffix(id, ").Reset") || strings.HasSuffix(id, ").Set")) {
							return
						}
					}
					muts = append(muts, in)
				}
			})
			if len(muts) == 0 {
				continue
			}
			// handed back: a result of the function is (a field of) the copy
			returned := false
			for _, ret := range returnsOf(fn) {
				for _, r := range ret.Results {
					// the copy itself (or its address) is a result
					rt := r.Type()
					if pt, isP := rt.Underlying().(*types.Pointer); isP {
						rt = pt.Elem()
					}
					if !types.Identical(rt, p.Type()) {
						continue
					}
					for v := range backSlice(r).vals {
						if u, isU := v.(*ssa.UnOp); isU && u.X == ssa.Value(cell) {
							returned = true
						}
						if v == ssa.Value(cell) {
							returned = true
						}
					}
				}
			}
			// escapes by address (stored elsewhere, captured, handed to a goroutine): the copy lives on
			escapes := false
			allInstrsShallow(fn, func(in ssa.Instruction) {
				switch x := in.(type) {
				case *ssa.Store:
					if derived[x.Val] {
						escapes = true
					}
				case *ssa.MakeClosure:
					captured := false
					for _, b := range x.Bindings {
						if derived[b] {
							captured = true
						}
					}
					if captured {
						// a closure that is merely called during this call (once.Do(func(){…}), a deferred
						// cleanup) does not keep the copy alive; one that is started as a goroutine, stored
						// or returned does
						if refs := x.Referrers(); refs != nil {
							for _, r := range *refs {
								switch y := r.(type) {
								case *ssa.Go, *ssa.Return, *ssa.MakeInterface:
									escapes = true
								case *ssa.Store:
									if y.Val == ssa.Value(x) {
										escapes = true
									}
								}
							}
						}
					}
				case *ssa.MakeInterface:
					if derived[x.X] {
						escapes = true
					}
				}
			})
			key := fmt.Sprintf("%s:by-value-%s", FuncName(fn), p.Name())
			_ = idx
			if returned || escapes {
				c.OK(rule, key, c.Pos(fn.Pos()), "the copy that is written is handed back or kept by address")
				continue
			}
			c.Bad(rule, key, c.Pos(muts[0].Pos()), fmt.Sprintf("%s receives %s %s by value and writes it (%d write(s), first at %s): the write lands in a copy that dies with the call, the caller's object keeps its old state (a position that never advances, a flag that never turns true, a key that is never wiped)", FuncName(fn), shortType(nt.Obj().Pkg().Path()+"."+nt.Obj().Name()), p.Name(), len(muts), c.Pos(muts[0].Pos())))
		}
	}
	c.OK(rule, "census", "", fmt.Sprintf("%d by-value struct parameters with their address taken examined in %d functions", n, len(fns)))
}


// copyRulePkgs: the packages whose structs carry the state each property depends on.
var copyRulePkgs = func() map[string][]string {
	wallet := []string{repoMod + "/poc/wallet/keystore", repoMod + "/poc/wallet/keystore/hdkeychain", repoMod + "/poc/wallet/keystore/snacl", repoMod + "/poc/wallet/db", repoMod + "/poc/wallet/db/ldb", repoMod + "/poc/wallet"}
	plot := []string{repoMod + "/poc/engine/massdb", repoMod + "/poc/engine/massdb/massdb.v1", repoMod + "/poc/engine/spacekeeper/capacity", repoMod + "/poc/engine.v2/spacekeeper/skchia", repoMod + "/poc/engine/spacekeeper", repoMod + "/poc/engine"}
	miner := []string{repoMod + "/poc/engine/pocminer/miner", repoMod + "/poc/engine.v2/pocminer/miner", repoMod + "/poc/engine/pocminer", repoMod + "/poc/engine.v2/pocminer"}
	fractal := []string{repoMod + "/fractal", repoMod + "/fractal/protocol", repoMod + "/fractal/connection"}
	api := []string{repoMod + "/api"}
	m := map[string][]string{}
	for _, p := range []string{"C01", "C02", "C03", "C04", "C05", "C06", "C12", "C14", "C18", "C19"} {
		m[p] = wallet
	}
	for _, p := range []string{"C07", "C09", "C10", "C11", "C13", "C15"} {
		m[p] = plot
	}
	// the keeper's load checks ask the wallet (key ownership, ordinals): its state belongs to C11 and C15 too
	m["C11"] = append(append([]string{}, plot...), wallet[0], wallet[5])
	m["C15"] = append(append([]string{}, plot...), wallet[0], wallet[5], repoMod+"/mining")
	m["C08"] = append(append([]string{}, miner...), fractal[0])
	m["C16"], m["C17"] = fractal, append(append([]string{}, fractal...), miner[1])
	m["C20"] = append(append([]string{}, api...), plot[2], plot[3])
	return m
}()

func runCopyRule(c *Ctx, prop string) {
	pkgs := copyRulePkgs[prop]
	if len(pkgs) == 0 {
		return
	}
	rule := prop + "-BYVALUE"
	c.Rule(rule, "state the mechanism keeps in a struct is not updated through a by-value copy: no function of the property's packages writes a struct it received by value (value receiver or by-value parameter) unless it hands the copy back", 1)
	checkNoLostMutation(c, rule, pkgs...)
	rule2 := prop + "-NILOK"
	c.Rule(rule2, "a helper the reference tree does not have that reports by error never hands back a nil object with an error that may be nil, unless every caller tests the object (no new crash path through a refactored gate)", 1)
	checkHelperNilContract(c, rule2, pkgs...)
	rule3 := prop + "-NEWSTATE"
	c.Rule(rule3, "state added next to the mechanism (a field or package-level variable the reference tree does not have) is kept consistent: accessed under the lock its writers hold, refreshed or invalidated by every exported operation that changes what it is derived from, and — for a memo — keyed by everything its value depends on", 1)
	checkNewState(c, rule3, pkgs...)
	rule4 := prop + "-ESCAPE"
	c.Rule(rule4, "a map that a type updates under its own mutex stays behind that mutex: no method returns the map itself or stores it into another object (a copy made under the lock is the accepted form) — otherwise its readers race with the owner's writers", 1)
	checkGuardedEscape(c, rule4, pkgs...)
}

// checkHelperNilContract (rule <P>-NILOK): a helper the reference tree does not have that reports by error
// does not hand back a nil object together with an error that may be nil — unless every caller tests the
// object itself. Callers of an error-reporting helper conventionally use the object behind `err == nil`
// alone; a "give up" path that returns (nil, err) with an err that was never set turns into a nil
// dereference in the caller (a crash on a rare path: stop during the first wait, an empty input).
// Reference functions are not judged here (their contracts were read by hand); with no new functions the
// rule has nothing to examine.
func checkHelperNilContract(c *Ctx, rule string, pkgs ...string) {
	inPkg := map[string]bool{}
	for _, p := range pkgs {
		inPkg[p] = true
	}
	var hs []*ssa.Function
	for h := range gNewFuncs {
		if h != nil && h.Parent() == nil && h.Blocks != nil && inPkg[pkgOf(h)] {
			hs = append(hs, h)
		}
	}
	sort.Slice(hs, func(i, j int) bool { return FuncName(hs[i]) < FuncName(hs[j]) })
	n := 0
	for _, h := range hs {
		res := h.Signature.Results()
		if res.Len() < 2 || !isErrorType(res.At(res.Len()-1).Type()) {
			continue
		}
		for idx := 0; idx < res.Len()-1; idx++ {
			switch res.At(idx).Type().Underlying().(type) {
			case *types.Pointer, *types.Interface:
			default:
				continue
			}
			n++
			var badRet *ssa.Return
			for _, ret := range returnsOf(h) {
				if idx >= len(ret.Results) || !isNilErrorReturn(ret) {
					continue
				}
				isNil := false
				valueOrigins(h, ret.Results[idx], func(r ssa.Value) {
					if k, ok := r.(*ssa.Const); ok && k.IsNil() {
						isNil = true
					}
				})
				// `return nil, nil` with a constant nil error is a deliberate "nothing" answer only if the
				// callers look at the object; a variable error that may be nil is the dangerous shape
				if isNil {
					badRet = ret
				}
			}
			if badRet == nil {
				continue
			}
			// every caller tests the object for nil before using it
			allTest := len(gCallSitesOf[h]) > 0
			for _, cs := range gCallSitesOf[h] {
				cl, ok := cs.(*ssa.Call)
				if !ok {
					allTest = false
					continue
				}
				ov := resultOf(cl, idx)
				if ov == nil {
					continue // result dropped
				}
				if len(nilTestsOf(cl.Parent(), ov)) == 0 {
					allTest = false
				}
			}
			key := fmt.Sprintf("%s:result#%d", FuncName(h), idx)
			if allTest {
				c.OK(rule, key, c.Pos(h.Pos()), "may hand back nil with a nil error, and every caller tests the object")
			} else {
				c.Bad(rule, key, c.Pos(badRet.Pos()), fmt.Sprintf("%s can return a nil %s together with an error that may be nil (%s), and a caller uses the object behind the error test alone: on that path the caller dereferences nil (a crash on a rare path such as a stop during the first wait)", FuncName(h), res.At(idx).Type().String(), c.Pos(badRet.Pos())))
			}
		}
	}
	c.OK(rule, "census", "", fmt.Sprintf("%d object results of %d new error-reporting helpers examined", n, len(hs)))
}
