package main

// C18 — HD derivation: width discipline of minimal-length big-endian integers.

import (
	"fmt"
	"go/token"
	"go/types"
	"sort"
	"strings"

	"golang.org/x/tools/go/ssa"
)

func init() { register("C18", checkC18) }

const pkgHD = pkgKeystore + "/hdkeychain"

type widthTaint struct {
	scope     map[*ssa.Function]bool
	param     map[*ssa.Parameter]bool
	field     map[string]bool
	returns   map[*ssa.Function]bool
	padders   map[*ssa.Function]bool
	memo      map[ssa.Value]bool
	onStack   map[ssa.Value]bool
	sourceCnt int
}

// isPadder: f(… src []byte …) computes a pad count / offset from len(src) (size - len(src)) and
// returns the padded slice: its result has a fixed width.
func isPadder(f *ssa.Function) bool {
	if f == nil || f.Blocks == nil {
		return false
	}
	ok := false
	allInstrs(f, func(in ssa.Instruction) {
		bo, isB := in.(*ssa.BinOp)
		if !isB || bo.Op != token.SUB {
			return
		}
		for _, side := range []ssa.Value{bo.X, bo.Y} {
			for v := range backSlice(side).vals {
				if cl, isC := v.(*ssa.Call); isC && calleeID(cl) == "builtin.len" {
					if _, isP := strip(cl.Call.Args[0]).(*ssa.Parameter); isP {
						ok = true
					}
				}
			}
		}
	})
	return ok
}

func (w *widthTaint) labeled(fn *ssa.Function, v ssa.Value) bool {
	if v == nil {
		return false
	}
	if r, ok := w.memo[v]; ok {
		return r
	}
	if w.onStack[v] {
		return false
	}
	w.onStack[v] = true
	defer delete(w.onStack, v)
	res := false
	valueOrigins(fn, v, func(root ssa.Value) {
		if res {
			return
		}
		switch x := root.(type) {
		case *ssa.Call:
			id := calleeID(x)
			if id == "(*math/big.Int).Bytes" {
				res = true
				return
			}
			if f := x.Call.StaticCallee(); f != nil && w.scope[f] {
				if w.padders[f] {
					return
				}
				if w.returns[f] {
					res = true
				}
			}
		case *ssa.Extract:
			if cl, ok := x.Tuple.(*ssa.Call); ok {
				if f := cl.Call.StaticCallee(); f != nil && w.scope[f] && w.returns[f] && !w.padders[f] && x.Index == 0 {
					res = true
				}
			}
		case *ssa.Parameter:
			if w.param[x] {
				res = true
			}
		case *ssa.Slice:
			if w.labeled(fn, x.X) {
				// re-slicing keeps "whatever length it has"; a slice with constant bounds of a labelled
				// value is still of unknown width
				res = true
			}
		case *ssa.UnOp:
			if t, f, base, ok := fieldOfValue(x); ok && w.field[t+"."+f] {
				// typestate refinement: ExtendedKey.key holds a minimal-length scalar only for private keys
				// (verified at the constructor's call sites); a load on the isPrivate == false edge is the
				// fixed-width compressed public key
				if f == "key" && strings.HasSuffix(t, ".ExtendedKey") && knownPublic(x, base) {
					return
				}
				res = true
			}
		case *ssa.Field:
			if t, f, _, ok := fieldOfAddr(x); ok && w.field[t+"."+f] {
				res = true
			}
		}
	})
	w.memo[v] = res
	return res
}

func checkC18(c *Ctx) Meta {
	c.Rule("C18-WIDTH", "a minimal-length big-endian integer ((*big.Int).Bytes()) never reaches a fixed-offset copy or an append into a serialisation / HMAC buffer without left-padding (pad helper, FillBytes, or an offset computed from len of the very value)", 6)
	c.Rule("C18-DEPTH", "Child refuses to derive below depth 255 for every kind of parent key: the construction of the child lies behind the depth != 255 edge", 1)
	checkChildDepthGate(c)
	c.Rule("C18-PAD", "the pad helpers right-align: the destination offset or pad count is size - len(src)", 2)

	w := &widthTaint{scope: map[*ssa.Function]bool{}, param: map[*ssa.Parameter]bool{}, field: map[string]bool{}, returns: map[*ssa.Function]bool{}, padders: map[*ssa.Function]bool{}, memo: map[ssa.Value]bool{}, onStack: map[ssa.Value]bool{}}
	var fns []*ssa.Function
	for fn := range c.AllFuncs {
		p := pkgOf(fn)
		if p == pkgHD || p == pkgKeystore {
			w.scope[fn] = true
			fns = append(fns, fn)
		}
	}
	sort.Slice(fns, func(i, j int) bool { return fns[i].String() < fns[j].String() })
	for _, fn := range fns {
		if fn.Parent() == nil && isPadder(fn) && (strings.Contains(strings.ToLower(fn.Name()), "pad")) {
			w.padders[fn] = true
		}
	}
	// fixpoint
	for iter := 0; iter < 12; iter++ {
		changed := false
		w.memo = map[ssa.Value]bool{}
		for _, fn := range fns {
			allInstrsShallow(fn, func(in ssa.Instruction) {
				switch x := in.(type) {
				case *ssa.Call:
					if calleeID(x) == "(*math/big.Int).Bytes" && iter == 0 {
						w.sourceCnt++
					}
					if f := x.Call.StaticCallee(); f != nil && w.scope[f] {
						for i, a := range x.Call.Args {
							if i < len(f.Params) && w.labeled(fn, a) && !w.param[f.Params[i]] {
								w.param[f.Params[i]] = true
								changed = true
							}
						}
					}
				case *ssa.Store:
					if t, f, _, ok := fieldOfAddr(x.Addr); ok && w.labeled(fn, x.Val) && !w.field[t+"."+f] {
						w.field[t+"."+f] = true
						changed = true
					}
				case *ssa.Return:
					if len(x.Results) > 0 && w.labeled(fn, x.Results[0]) && !w.returns[fn] {
						w.returns[fn] = true
						changed = true
					}
				}
			})
		}
		if !changed {
			break
		}
	}
	w.memo = map[ssa.Value]bool{}

	// sinks
	nSinks := 0
	ordByName := map[string]map[string]int{}
	for _, fn := range fns {
		// a sink in a helper the reference tree does not have is counted with the reference function all its
		// uses come from (the construct moved, it is still that function's copy): obligation keys — and with
		// them the known-finding keys — survive an extraction
		name := FuncName(fn)
		if gNewFuncs[fn] && fn.Parent() == nil {
			if o := ownerOfNew(fn, 3); o != nil {
				name = FuncName(o)
			}
		}
		if ordByName[name] == nil {
			ordByName[name] = map[string]int{}
		}
		ord := ordByName[name]
		allInstrsShallow(fn, func(in ssa.Instruction) {
			cl, ok := in.(*ssa.Call)
			if !ok {
				return
			}
			id := calleeID(cl)
			var src, dst ssa.Value
			kind := ""
			switch id {
			case "builtin.copy":
				dst, src, kind = cl.Call.Args[0], cl.Call.Args[1], "copy"
			case "builtin.append":
				if len(cl.Call.Args) == 2 {
					dst, src, kind = cl.Call.Args[0], cl.Call.Args[1], "append"
				}
			case "(hash.Hash).Write", "(io.Writer).Write":
				src, kind = cl.Call.Args[0], "hash-write"
			default:
				if strings.HasSuffix(id, "base58.Encode") || strings.HasSuffix(id, "base58.CheckEncode") {
					src, kind = cl.Call.Args[0], "encode"
				}
			}
			if kind == "" || src == nil || !w.labeled(fn, src) {
				return
			}
			nSinks++
			ord[kind]++
			key := fmt.Sprintf("%s:%s#%d", name, kind, ord[kind])
			// right-alignment idiom: the destination offset (copy) or a preceding pad loop (append) is
			// computed from len of the very value being copied
			aligned := false
			if sl, isSlice := dst.(*ssa.Slice); isSlice && sl.Low != nil {
				for v := range backSlice(sl.Low).vals {
					if lc, isC := v.(*ssa.Call); isC && calleeID(lc) == "builtin.len" && sameOriginValue(fn, lc.Call.Args[0], src) {
						aligned = true
					}
				}
			}
			if kind == "append" && w.padders[fn] {
				aligned = true
			}
			if aligned {
				c.OK("C18-WIDTH", key, c.Pos(cl.Pos()), "right-aligned: offset / pad count derives from len of the copied value")
				return
			}
			c.Bad("C18-WIDTH", key, c.Pos(cl.Pos()), "a value of minimal length (derived from (*big.Int).Bytes(), here "+describeLabel(w, fn, src)+") is placed at a fixed offset with "+kind+" without left-padding: a 31-byte value is left-aligned and the derived key / serialisation differs from BIP32 and from the same key after a text round trip")
		})
	}
	checkLabelImpliesPrivate(c, w, fns)
	// padded consumers: list them so that the evidence shows the discipline
	for _, fn := range fns {
		ord := 0
		allInstrsShallow(fn, func(in ssa.Instruction) {
			cl, ok := in.(*ssa.Call)
			if !ok {
				return
			}
			f := cl.Call.StaticCallee()
			if f == nil || !w.padders[f] {
				return
			}
			for _, a := range cl.Call.Args {
				if w.labeled(fn, a) {
					ord++
					key := fmt.Sprintf("%s:padded-by:%s#%d", FuncName(fn), f.Name(), ord)
					// the width padded to must not be computed from the (minimal) length of the value itself
					selfSized := false
					for _, other := range cl.Call.Args {
						if other == a {
							continue
						}
						if b, isB := other.Type().Underlying().(*types.Basic); !isB || b.Info()&types.IsInteger == 0 {
							continue
						}
						for x := range backSlice(other).vals {
							if lc, isC := x.(*ssa.Call); isC && calleeID(lc) == "builtin.len" && (lc.Call.Args[0] == a || sameOriginValue(fn, lc.Call.Args[0], a)) {
								selfSized = true
							}
						}
					}
					if selfSized {
						c.Bad("C18-WIDTH", key, c.Pos(cl.Pos()), "the width "+f.Name()+" pads to is computed from the length of the minimal-length value itself: leading zero bytes that the value lost are not restored (an entropy or key with enough leading zeros comes back short)")
					} else {
						c.OK("C18-WIDTH", key, c.Pos(cl.Pos()), "minimal-length value passes through "+f.Name()+" with a width independent of its own length")
					}
				}
			}
		})
	}
	c.Note("sources ((*big.Int).Bytes() calls in hdkeychain/keystore): %d; labelled fields: %v; labelled sinks examined: %d", w.sourceCnt, keysOf(w.field), nSinks)
	if w.sourceCnt < 4 {
		c.Bad("C18-WIDTH", "anchor:sources", "", fmt.Sprintf("reason=anchor-missing: only %d (*big.Int).Bytes() sources found", w.sourceCnt))
	}

	// a derived child owns its byte slices: Zero() wipes slices in place, so a slice shared between keys
	// (a memoised fingerprint, the parent's chain code) would be wiped under the feet of the other key
	c.Rule("C18-OWN", "the byte slices Child hands to the new key (key, chain code, parent fingerprint) are freshly computed in that call, never storage held by the parent or shared between siblings (Zero() wipes in place)", 1)
	if f := c.MustFn("C18-OWN", "poc/wallet/keystore/hdkeychain", "(*ExtendedKey).Child"); f != nil {
		key := "Child:child-owns-its-slices"
		bad := ""
		n := 0
		var originFresh func(fn *ssa.Function, v ssa.Value, depth int) string
		originFresh = func(fn *ssa.Function, v ssa.Value, depth int) string {
			why := ""
			valueOrigins(fn, v, func(root ssa.Value) {
				switch x := root.(type) {
				case *ssa.Slice:
					if w2 := originFresh(fn, x.X, depth); w2 != "" {
						why = w2
					}
				case *ssa.UnOp:
					if _, fld, _, ok := fieldOfValue(x); ok {
						why = "field " + fld
					}
				case *ssa.Call:
					if g := x.Call.StaticCallee(); g != nil && pkgOf(g) == pkgHD && depth < 3 && len(g.Blocks) > 0 {
						for _, ret := range returnsOf(g) {
							for _, r := range ret.Results {
								if _, isS := r.Type().Underlying().(*types.Slice); isS {
									if w2 := originFresh(g, r, depth+1); w2 != "" {
										why = w2 + " (returned by " + g.Name() + ")"
									}
								}
							}
						}
					}
				case *ssa.Parameter:
					if depth > 0 {
						why = "parameter " + x.Name()
					}
				}
			})
			return why
		}
		for _, cl := range callsIn(f, pkgHD+".NewExtendedKey") {
			for i, a := range cl.Call.Args {
				if _, isS := a.Type().Underlying().(*types.Slice); !isS || i == 0 {
					continue // version bytes are constants of the network
				}
				n++
				if why := originFresh(f, a, 0); why != "" {
					bad = fmt.Sprintf("argument #%d of NewExtendedKey is %s", i, why)
				}
			}
		}
		switch {
		case n == 0:
			c.Bad("C18-OWN", key, c.Pos(f.Pos()), "reason=anchor-missing: NewExtendedKey call in Child")
		case bad != "":
			c.Bad("C18-OWN", key, c.Pos(f.Pos()), bad+": the child shares that storage with its parent and siblings, and Zero() of any of them wipes it in place — the serialised form (parent fingerprint) of the others changes")
		default:
			c.OK("C18-OWN", key, c.Pos(f.Pos()), fmt.Sprintf("%d slice arguments, each computed in the call", n))
		}
	}

	// PAD helpers right-align
	for _, spec := range []struct{ pkg, name string }{{"poc/wallet/keystore/hdkeychain", "paddedAppend"}, {"poc/wallet/keystore", "padByteSlice"}} {
		f := c.MustFn("C18-PAD", spec.pkg, spec.name)
		if f == nil {
			continue
		}
		key := spec.name + ":right-aligns"
		ok := false
		allInstrs(f, func(in ssa.Instruction) {
			bo, isB := in.(*ssa.BinOp)
			if !isB || bo.Op != token.SUB {
				return
			}
			// size - len(src), in this order
			lenRight := false
			for v := range backSlice(bo.Y).vals {
				if cl, isC := v.(*ssa.Call); isC && calleeID(cl) == "builtin.len" {
					lenRight = true
				}
			}
			sizeLeft := false
			for v := range backSlice(bo.X).vals {
				if _, isP := v.(*ssa.Parameter); isP {
					sizeLeft = true
				}
			}
			if lenRight && sizeLeft {
				ok = true
			}
		})
		// the pad loop accumulates: what is appended to inside the loop is the running slice itself
		accum := true
		allInstrs(f, func(in ssa.Instruction) {
			cl, isC := in.(*ssa.Call)
			if !isC || !blockReentered(f, cl) {
				return
			}
			if b, isB := cl.Call.Value.(*ssa.Builtin); !isB || b.Name() != "append" {
				return
			}
			ph, isP := cl.Call.Args[0].(*ssa.Phi)
			if !isP {
				accum = false
				return
			}
			carried := false
			for _, e := range ph.Edges {
				if e == ssa.Value(cl) {
					carried = true
				}
			}
			if !carried {
				accum = false
			}
		})
		if !accum {
			c.Bad("C18-PAD", spec.name+":pad-loop-accumulates", c.Pos(f.Pos()), "inside the pad loop the zero byte is appended to a slice that is not the running result: at most one pad byte survives, so a value two or more bytes short stays short")
		} else {
			c.OK("C18-PAD", spec.name+":pad-loop-accumulates", c.Pos(f.Pos()), "every append in the pad loop extends the running slice")
		}
		if ok && w.padders[f] {
			c.OK("C18-PAD", key, c.Pos(f.Pos()), "pad count / offset = size - len(src)")
		} else {
			c.Bad("C18-PAD", key, c.Pos(f.Pos()), "the pad helper no longer computes size - len(src): short values are not right-aligned")
		}
	}
	c.Rule("C18-TABLE", "the shared big.Int constants and tables (checksum masks, shift values) are never written: no in-place big.Int operation has a package-level value or an element of a package-level table as its receiver — a mutated mask makes the mnemonic round trip work once per process and fail afterwards", 1)
	checkTablesNotMutated(c, "C18-TABLE")
	c.Rule("C18-BRANCHKEY", "the key a wallet address signs with is the BIP32 child of its own branch: at unlock each entry's private key is Child(index) of the branch key selected by the entry's recorded branch (external test selects the external branch key), the C05-BIND rule — otherwise an internal address gets the key of path …/0/i instead of …/1/i and no longer matches its public key", 1)
	// …and on import every address is re-derived from the key of its own branch (the C01/C06 import-loop
	// rule): otherwise the imported wallet's addresses are not the BIP32 children their paths name
	checkImportLoopPolarity(c, "C18-BRANCHKEY")
	checkRederiveOwnPath(c, "C18-BRANCHKEY")
	if f := c.Fn("poc/wallet/keystore", "(*AddrManager).nextAddresses"); f != nil {
		checkPersistOwnPath(c, f, "C18-BRANCHKEY") // and the public key is stored under its own (branch, index), so a reload reports the path the key was derived on
	}

	return Meta{
		Explanation: "Width discipline only: a forward label analysis (sources = (*big.Int).Bytes() in hdkeychain and the mnemonic code; propagation through locals, slices, parameters, returns and struct fields; sanitisers = the repository's pad helpers recognised by shape; width-insensitive consumers ignored) with fixed-offset copy / append / hash-write / base58 sinks. A short private key reaching the hardened-derivation buffer is the known btcsuite deviation and is a recorded known finding.",
		NotDecided:  "equality of derived keys with BIP32/BIP39 for all inputs, public/private derivation agreement, mnemonic round trip — value facts (elliptic-curve and bit arithmetic).",
		Trusted:     []string{"go/ssa", "field-based heap (ExtendedKey.key carries the label when any store does)", "big.Int.SetBytes / ScalarBaseMult / PrivKeyFromBytes are width-insensitive"},
	}
}

func sameOriginValue(fn *ssa.Function, a, b ssa.Value) bool {
	// two loads of the same field of the same object
	if ta, fa, ba, ok := fieldOfValue(a); ok {
		if tb, fb, bb, ok := fieldOfValue(b); ok && ta == tb && fa == fb && accessPath(ba) == accessPath(bb) && accessPath(ba) != "" {
			return true
		}
	}
	ra, rb := map[ssa.Value]bool{}, map[ssa.Value]bool{}
	if len(gNewFuncs) > 0 && (instrParent(a) != fn || instrParent(b) != fn) {
		// one of the values sits in a helper the reference tree does not have: follow its parameters to
		// the arguments of its call sites (canon.go)
		originsAcross(a, ra, 4)
		originsAcross(b, rb, 4)
	} else {
		valueOrigins(fn, a, func(r ssa.Value) { ra[r] = true })
		valueOrigins(fn, b, func(r ssa.Value) { rb[r] = true })
	}
	for k := range ra {
		if rb[k] {
			return true
		}
	}
	return false
}

func describeLabel(w *widthTaint, fn *ssa.Function, v ssa.Value) string {
	out := "a local value"
	valueOrigins(fn, v, func(root ssa.Value) {
		if t, f, _, ok := fieldOfValue(root); ok && w.field[t+"."+f] {
			out = "field " + shortType(t) + "." + f
		}
		if p, ok := root.(*ssa.Parameter); ok && w.param[p] {
			out = "parameter " + p.Name()
		}
	})
	return out
}

// knownPublic: the load is dominated by the edge of a test of <base>.isPrivate on which it is false.
func knownPublic(ld *ssa.UnOp, base ssa.Value) bool {
	fn := ld.Parent()
	for _, a := range fieldAccesses(fn) {
		if a.Kind != "load" || a.Field != "isPrivate" || a.Base != base {
			continue
		}
		for _, t := range boolTestsOf(fn, a.In.(ssa.Value)) {
			if len(t.FalseSucc.Preds) == 1 && t.FalseSucc != t.TrueSucc && t.FalseSucc.Dominates(ld.Block()) {
				return true
			}
		}
	}
	return false
}

// checkLabelImpliesPrivate: at every construction of an ExtendedKey the key argument can be a
// minimal-length scalar only when the isPrivate argument is true (pairing of the two phis).
func checkLabelImpliesPrivate(c *Ctx, w *widthTaint, fns []*ssa.Function) {
	ctor := c.Fn("poc/wallet/keystore/hdkeychain", "NewExtendedKey")
	if ctor == nil {
		c.Bad("C18-WIDTH", "anchor:NewExtendedKey", "", "reason=anchor-missing: NewExtendedKey")
		return
	}
	// the constructor is the only writer of ExtendedKey.key besides in-place zeroing
	for _, fn := range fns {
		for _, cl := range callsInShallow(fn, pkgHD+".NewExtendedKey") {
			key, priv := cl.Call.Args[1], cl.Call.Args[6]
			if !w.labeled(fn, key) {
				continue
			}
			okey := FuncName(fn) + ":NewExtendedKey:scalar-only-when-private"
			ok := false
			if k, isK := strip(priv).(*ssa.Const); isK && k.Value != nil && k.Value.String() == "true" {
				ok = true
			}
			kp, isKP := key.(*ssa.Phi)
			pp, isPP := priv.(*ssa.Phi)
			if isKP && isPP && kp.Block() == pp.Block() {
				ok = true
				for i, e := range kp.Edges {
					if w.labeled(fn, e) {
						if k, isK := strip(pp.Edges[i]).(*ssa.Const); !isK || k.Value == nil || k.Value.String() != "true" {
							ok = false
						}
					}
				}
			}
			// both held in local cells assigned in the same branches
			if !ok {
				ok = cellsPairedPrivate(w, fn, key, priv)
			}
			if ok {
				c.OK("C18-WIDTH", okey, c.Pos(cl.Pos()), "the key argument is a minimal-length scalar only on the paths where isPrivate is true")
			} else {
				c.Unk("C18-WIDTH", okey, c.Pos(cl.Pos()), "cannot establish that a minimal-length key is only ever stored in a private extended key (the public-key refinement of the label would be unsound)")
			}
		}
	}
}

func cellsPairedPrivate(w *widthTaint, fn *ssa.Function, key, priv ssa.Value) bool {
	kl, ok1 := key.(*ssa.UnOp)
	pl, ok2 := priv.(*ssa.UnOp)
	if !ok1 || !ok2 {
		return false
	}
	rd := rdOf(fn)
	ks, ps := rd.loads[kl], rd.loads[pl]
	if len(ks) == 0 || len(ps) == 0 {
		return false
	}
	for _, k := range ks {
		st := k.(*ssa.Store)
		if !w.labeled(fn, st.Val) {
			continue
		}
		// a store of `true` to the isPrivate cell in the same block
		paired := false
		for _, p := range ps {
			pst := p.(*ssa.Store)
			if pst.Block() == st.Block() {
				if c, isK := strip(pst.Val).(*ssa.Const); isK && c.Value != nil && c.Value.String() == "true" {
					paired = true
				}
			}
		}
		if !paired {
			return false
		}
	}
	return true
}

// checkTablesNotMutated: the package-level big.Int constants and tables of the key-derivation code
// (checksum masks, shift values, bigOne…) are shared by every call: no in-place big.Int operation
// (z.Add, z.Sub, z.Set…, which write their receiver) has a receiver that is one of them or an element of
// one of them. `mask.Add(mask, one)` on a table entry makes the first decode of a sentence length work and
// every later one fail its checksum.
func checkTablesNotMutated(c *Ctx, rule string) {
	mut := map[string]bool{"Add": true, "Sub": true, "Mul": true, "Div": true, "Mod": true, "Quo": true, "Rem": true, "DivMod": true, "QuoRem": true,
		"Set": true, "SetBytes": true, "SetInt64": true, "SetUint64": true, "SetString": true, "SetBit": true, "SetBits": true,
		"Lsh": true, "Rsh": true, "And": true, "Or": true, "Xor": true, "Not": true, "AndNot": true, "Neg": true, "Abs": true, "Exp": true, "ModInverse": true, "Sqrt": true}
	n := 0
	var bad []string
	for fn := range c.AllFuncs {
		p := pkgOf(fn)
		if p != pkgKeystore && p != pkgHD {
			continue
		}
		fn := fn
		allInstrsShallow(fn, func(in ssa.Instruction) {
			cl, ok := in.(*ssa.Call)
			if !ok || !strings.HasPrefix(calleeID(cl), "(*math/big.Int).") || !mut[callName(cl)] {
				return
			}
			n++
			recv := callRecv(cl)
			if recv == nil {
				return
			}
			shared := ""
			valueOrigins(fn, recv, func(root ssa.Value) {
				switch x := root.(type) {
				case *ssa.UnOp:
					if g, isG := x.X.(*ssa.Global); isG {
						shared = g.Name()
					}
				case *ssa.Lookup:
					for v := range backSlice(x.X).vals {
						if g, isG := v.(*ssa.Global); isG {
							shared = "an element of " + g.Name()
						}
					}
				case *ssa.Extract:
					if lk, isL := x.Tuple.(*ssa.Lookup); isL {
						for v := range backSlice(lk.X).vals {
							if g, isG := v.(*ssa.Global); isG {
								shared = "an element of " + g.Name()
							}
						}
					}
				}
			})
			if shared != "" {
				bad = append(bad, fmt.Sprintf("%s: %s.%s(…) at %s", fn.Name(), shared, callName(cl), c.Pos(cl.Pos())))
			}
		})
	}
	sort.Strings(bad)
	key := "shared-big-ints-are-never-written"
	if len(bad) > 0 {
		c.Bad(rule, key, "", "an in-place big.Int operation writes a package-level value ("+strings.Join(bad, "; ")+"): the table entry changes under every later call, so a sentence that decoded once fails its checksum the next time")
	} else {
		c.OK(rule, key, "", fmt.Sprintf("%d in-place big.Int operations in the keystore and hdkeychain packages, none on a package-level value", n))
	}
}


func instrParent(v ssa.Value) *ssa.Function {
	if in, ok := v.(ssa.Instruction); ok {
		return in.Parent()
	}
	if p, ok := v.(*ssa.Parameter); ok {
		return p.Parent()
	}
	if fv, ok := v.(*ssa.FreeVar); ok {
		return fv.Parent()
	}
	return nil
}

// originsAcross: the roots of v, where a parameter of a new helper (canon.go) is replaced by the roots
// of the arguments at the helper's call sites.
func originsAcross(v ssa.Value, out map[ssa.Value]bool, depth int) {
	fn := instrParent(v)
	if fn == nil {
		out[v] = true
		return
	}
	valueOrigins(fn, v, func(r ssa.Value) {
		if p, ok := r.(*ssa.Parameter); ok && depth > 0 && gNewFuncs[lexicalOutermost(p.Parent())] && p.Parent().Parent() == nil {
			h := p.Parent()
			idx := -1
			for i, q := range h.Params {
				if q == p {
					idx = i
				}
			}
			sites := sitesOf(h)
			if idx >= 0 && len(sites) > 0 {
				for _, s := range sites {
					if args := s.Common().Args; idx < len(args) {
						originsAcross(args[idx], out, depth-1)
					}
				}
				return
			}
		}
		out[r] = true
	})
}


// sameOriginSets: a and b (values in different functions, one of them in a helper the reference tree does
// not have) have exactly the same origins — reaching definitions inside each function, parameters of new
// helpers followed to the arguments of their call sites in the current binding context.
func sameOriginSets(a, b ssa.Value) bool {
	if len(gNewFuncs) == 0 {
		return false
	}
	oa, ob := map[ssa.Value]bool{}, map[ssa.Value]bool{}
	originsAcross(a, oa, 4)
	originsAcross(b, ob, 4)
	if len(oa) == 0 || len(oa) != len(ob) {
		return false
	}
	for k := range oa {
		if !ob[k] {
			return false
		}
	}
	return true
}
