package main

// C03 — private keys usable only with the current passphrase; Lock wipes them (structure).

import (
	"fmt"
	"go/token"
	"go/types"
	"sort"
	"strings"

	"golang.org/x/tools/go/ssa"
)

func init() { register("C03", checkC03) }

const (
	idCheckPw     = "(*" + tAddrMgr + ").checkPassword"
	idSafeCheckPw = "(*" + tAddrMgr + ").safelyCheckPassword"
	idUnmarshalMP = pkgKeystore + ".unmarshalMasterPrivKey"
)

// gate: every target is unreachable unless the call `chk` returned nil, and the passphrase argument
// of chk derives from parameter pw of fn.
func authGate(c *Ctx, key string, fn *ssa.Function, chk *ssa.Call, pwArg ssa.Value, pwParam string, targets []ssa.Instruction, what string) {
	if chk != nil && chk.Parent() != fn && lexicalOutermost(chk.Parent()) != lexicalOutermost(fn) {
		// the check sits in a phase helper the reference tree does not have: gate on the helper's call
		if locs := findSteps(fn, func(cl *ssa.Call) bool { return cl == chk }, 2); len(locs) > 0 {
			authGateLoc(c, key, fn, locs[0], pwArg, pwParam, targets, what)
			return
		}
	}
	authGateLoc(c, key, fn, stepLoc{Site: chk, Step: chk}, pwArg, pwParam, targets, what)
}

// authGateLoc: the credential check may be performed by a keystore function fn calls (loc.Via): then
// that function must fail when the check fails, and fn is gated on the call of that function.
func authGateLoc(c *Ctx, key string, fn *ssa.Function, loc stepLoc, pwArg ssa.Value, pwParam string, targets []ssa.Instruction, what string) {
	chk := loc.Site
	if chk == nil || loc.Step == nil || len(targets) == 0 {
		c.Bad("C03-AUTH", key, c.Pos(fn.Pos()), "reason=anchor-missing: credential check or guarded effect not found ("+what+")")
		return
	}
	if ok, why := stepFailsVia(loc); !ok {
		c.Bad("C03-AUTH", key, c.Pos(loc.Step.Pos()), "a failed credential check does not fail the function the operation relies on for it: "+why)
		return
	}
	if len(errResults(chk)) == 0 || len(nilTestsOf(fn, errResults(chk)[0])) == 0 {
		c.Bad("C03-AUTH", key, c.Pos(chk.Pos()), "the result of the credential check is not tested")
		return
	}
	if !sliceVia(pwArg, loc).hasParam(lexicalOutermost(fn), pwParam) {
		c.Bad("C03-AUTH", key, c.Pos(chk.Pos()), "the credential checked is not the caller's "+pwParam)
		return
	}
	if ok, at := unreachableWhenCut(fn, errorEdgeCut(fn, chk, false), targets); ok {
		c.OK("C03-AUTH", key, c.Pos(chk.Pos()), what+" only behind the success edge of "+shortID(calleeID(loc.Step))+"("+pwParam+")")
	} else {
		c.Bad("C03-AUTH", key, c.Pos(at.Pos()), what+" is reachable without a successful check of the current passphrase")
	}
}

func firstCall(fn *ssa.Function, ids ...string) *ssa.Call {
	cs := callsIn(fn, ids...)
	if len(cs) == 0 {
		return nil
	}
	return cs[0]
}

func updateCallsIn(fn *ssa.Function) []ssa.Instruction {
	var out []ssa.Instruction
	for _, s := range txSitesBody(fn) {
		if s.Write {
			out = append(out, s.Call)
		}
	}
	return out
}

func checkC03(c *Ctx) Meta {
	// the transaction discipline as a premise (C12: memory is refreshed only after the commit, one
	// transaction per operation, no swallowed error): "only the current passphrase works, now and after a restart" needs the running image to be the committed one: a passphrase change adopted in memory before (or without) its commit leaves the running wallet on a passphrase the store does not have
	c.pushAlias("C12-", "C03-TX-")
	checkC12(c)
	c.popAlias()
	c.Rule("C03-AUTH", "every secret-revealing or mutating wallet operation is dominated by a successful check of the caller's passphrase against the current credential: unlock, export, delete, private/public passphrase change, the passphrase of an imported file, and the same-passphrase gate of new and imported keystores", 10)
	c.Rule("C03-CURRENT", "the credential compared against (salted hash, scrypt parameters) is written only by unlock, passphrase change, load and the eraser; the unlocked flags are raised only by updatePrivKeys and Unlock", 3)
	c.Rule("C03-ERASE", "every private-hierarchy field that any function fills is zeroed (and dropped) by clearPrivKeys; Lock erases every keystore and clears the unlocked flag", 7)
	c.Rule("C03-LOCKWIPE", "Lock wipes whatever the manager's unlocked flag says: no clearPrivKeys call of Lock is control-dependent on a test of the flag (the flag is set only by a fully successful Unlock; a partly failed one leaves unlocked keystores behind a false flag, and Lock is their only cleanup)", 1)
	checkLockWipesUnconditionally(c, "C03-LOCKWIPE")
	c.Rule("C03-DERIVED", "a key-decrypting key derived from the private passphrase does not survive an operation that leaves the wallet locked: every derive is followed, on all paths to the operation's return, by unlocking or by Zero(); the derived key is shared by reference, never copied out of the object that is zeroed", 4)
	c.Rule("C03-SCRATCH", "every scratch copy of a private-passphrase-derived key (unmarshalMasterPrivKey target, secretKeyGen result that becomes the stored private master key) is zeroed on every path from its derivation to the function's return, unless it is the key handed to the keystores by ChangePrivPassphrase", 5)
	c.Rule("C03-ATOMIC", "the private passphrase governs all keystores: ChangePrivPassphrase re-encrypts every keystore inside one transaction, Unlock checks every keystore, and a keystore added to an unlocked manager is unlocked with it", 4)

	// ---- AUTH
	if f := c.MustFn("C03-AUTH", "poc/wallet/keystore", "(*KeystoreManagerForPoC).useKeystore"); f != nil {
		chk := firstCall(f, idCheckPw)
		var targets []ssa.Instruction
		for _, cl := range callsIn(f, "(*"+tAddrMgr+").updatePrivKeys") {
			targets = append(targets, cl)
		}
		for _, a := range fieldAccesses(f) {
			if a.Write && a.Field == "hashedPrivPassphrase" {
				targets = append(targets, a.In)
			}
		}
		var arg ssa.Value
		if chk != nil {
			arg = chk.Call.Args[1]
		}
		authGate(c, "useKeystore:unlock", f, chk, arg, "privPassphrase", targets, "deriving private keys and caching the passphrase hash")
	}
	if f := c.MustFn("C03-AUTH", "poc/wallet/keystore", "(*AddrManager).exportKeystore"); f != nil {
		chk := firstCall(f, idSafeCheckPw, idCheckPw)
		var arg ssa.Value
		if chk != nil {
			arg = chk.Call.Args[1]
		}
		expTargets := callInstrs(callsIn(f, pkgKeystore+".export"))
		if len(expTargets) == 0 {
			// export inlined: the guarded effect is the reading of the sealed keys itself
			expTargets = callInstrs(callsIn(f, pkgKeystore+".fetchMasterHDKeys", pkgKeystore+".fetchCryptoKeys", pkgKeystore+".fetchMasterKeyParams"))
		}
		authGate(c, "exportKeystore:export", f, chk, arg, "passphrase", expTargets, "reading the encrypted master key for export")
	}
	if f := c.MustFn("C03-AUTH", "poc/wallet/keystore", "(*KeystoreManagerForPoC).ExportKeystore"); f != nil {
		ok := false
		for _, g := range withClosures(f) {
			for _, cl := range callsIn(g, "(*"+tAddrMgr+").exportKeystore") {
				if backSlice(cl.Call.Args[2]).hasParam(f, "privPassphrase") {
					ok = true
				}
			}
		}
		if ok {
			c.OK("C03-AUTH", "ExportKeystore:passes-own-passphrase", c.Pos(f.Pos()), "exportKeystore(tx, privPassphrase)")
		} else {
			c.Bad("C03-AUTH", "ExportKeystore:passes-own-passphrase", c.Pos(f.Pos()), "the passphrase handed to the export check is not the caller's")
		}
	}
	if f := c.MustFn("C03-AUTH", "poc/wallet/keystore", "(*KeystoreManagerForPoC).DeleteKeystore"); f != nil {
		chk := firstCall(f, idSafeCheckPw, idCheckPw)
		var arg ssa.Value
		if chk != nil {
			arg = chk.Call.Args[1]
		}
		targets := updateCallsIn(f)
		for _, a := range fieldAccesses(f) {
			if a.Kind == "mapdelete" && a.Field == "managedKeystores" {
				targets = append(targets, a.In)
			}
		}
		authGate(c, "DeleteKeystore:delete", f, chk, arg, "privPassphrase", targets, "deleting the keystore")
		// the keystore checked is the keystore deleted
		if chk != nil {
			rs := backSlice(callRecv(chk))
			okSame := false
			for v := range rs.vals {
				if lk, isL := v.(*ssa.Lookup); isL && backSlice(lk.Index).hasParam(f, "accountID") {
					okSame = true
				}
			}
			if !okSame {
				c.Bad("C03-AUTH", "DeleteKeystore:delete", c.Pos(chk.Pos()), "the passphrase is checked against a keystore other than the one being deleted")
			}
		}
	}
	if f := c.MustFn("C03-AUTH", "poc/wallet/keystore", "(*AddrManager).changePrivPassphrase"); f != nil {
		chk := firstCall(f, idCheckPw, idSafeCheckPw)
		var targets []ssa.Instruction
		targets = append(targets, callInstrs(callsIn(f, pkgKeystore+".putMasterKeyParams", pkgKeystore+".putCryptoKeys"))...)
		var arg ssa.Value
		if chk != nil {
			arg = chk.Call.Args[1]
		}
		authGate(c, "changePrivPassphrase:rekey", f, chk, arg, "oldPrivPass", targets, "re-encrypting the private crypto key")
		// and the stored key is decrypted with the key derived from the old passphrase
		um := firstCall(f, idUnmarshalMP)
		var arg2 ssa.Value
		if um != nil {
			arg2 = um.Call.Args[1]
		}
		authGate(c, "changePrivPassphrase:decrypt-with-old", f, um, arg2, "oldPrivPass", targets, "re-encrypting the private crypto key")
	}
	if f := c.MustFn("C03-AUTH", "poc/wallet/keystore", "(*KeystoreManagerForPoC).allocAddrMgrNamespace"); f != nil {
		var loc stepLoc
		var arg ssa.Value
		if ums := findSteps(f, func(cl *ssa.Call) bool { return isCall(cl, idUnmarshalMP) }, 2); len(ums) > 0 {
			loc = ums[0]
			arg = loc.Step.Call.Args[1]
		}
		targets := callInstrs(callsIn(f, pkgKeystore+".putMasterKeyParams", pkgKeystore+".putCryptoKeys", pkgKeystore+".putMasterHDKeys", pkgKeystore+".createManagerKeyScope"))
		authGateLoc(c, "allocAddrMgrNamespace:file-passphrase", f, loc, arg, "oldPass", targets, "storing the imported keystore")
	}
	if f := c.MustFn("C03-AUTH", "poc/wallet/keystore", "(*KeystoreManagerForPoC).ChangePubPassphrase"); f != nil {
		var chk *ssa.Call
		var owner *ssa.Function
		for _, g := range withClosures(f) {
			for _, cl := range callsIn(g, "(*"+pkgKeystore+"/snacl.SecretKey).DeriveKey") {
				if cellHoldsParam(cl.Call.Args[1], f, "oldPubPass") {
					chk, owner = cl, g
				}
			}
		}
		if chk == nil {
			c.Bad("C03-AUTH", "ChangePubPassphrase:old-public-passphrase", c.Pos(f.Pos()), "the old public passphrase is never verified (DeriveKey(&oldPubPass))")
		} else {
			targets := callInstrs(callsIn(owner, pkgKeystore+".putMasterKeyParams", pkgKeystore+".putCryptoKeys"))
			if ok, _ := unreachableWhenCut(owner, errorEdgeCut(owner, chk, false), targets); ok && len(targets) > 0 {
				c.OK("C03-AUTH", "ChangePubPassphrase:old-public-passphrase", c.Pos(chk.Pos()), "public re-keying only behind DeriveKey(&oldPubPass) success")
			} else {
				c.Bad("C03-AUTH", "ChangePubPassphrase:old-public-passphrase", c.Pos(chk.Pos()), "the public crypto key is re-encrypted without a successful check of the old public passphrase")
			}
		}
	}
	checkSamePassphraseGates(c, "C03-AUTH")

	// ---- CURRENT: who writes the compared credential
	{
		allowed := map[string]bool{"useKeystore": true, "ChangePrivPassphrase": true, "loadAddrManager": true, "clearPrivKeys": true}
		var bad []string
		n := 0
		for fn := range c.AllFuncs {
			if !inRepo(fn) {
				continue
			}
			for _, a := range fieldAccessesShallow(fn) {
				if a.Type == tAddrMgr && a.Write && (a.Field == "hashedPrivPassphrase" || a.Field == "privPassphraseSalt" || a.Field == "masterKeyPriv") {
					n++
					if !allowed[outermost(fn).Name()] {
						bad = append(bad, FuncName(fn)+" writes "+a.Field+" at "+c.Pos(a.In.Pos()))
					}
				}
			}
		}
		sort.Strings(bad)
		if len(bad) > 0 {
			c.Bad("C03-CURRENT", "credential-writers", "", "the stored credential is modified outside unlock / passphrase change / load / erase: "+strings.Join(bad, "; "))
		} else {
			c.OK("C03-CURRENT", "credential-writers", "", fmt.Sprintf("%d writes of hashedPrivPassphrase/privPassphraseSalt/masterKeyPriv, all in useKeystore, ChangePrivPassphrase, loadAddrManager, clearPrivKeys", n))
		}
		// unlocked flags are raised only by the unlock path
		{
			var bad2 []string
			n2 := 0
			for fn := range c.AllFuncs {
				if !inRepo(fn) {
					continue
				}
				for _, a := range fieldAccessesShallow(fn) {
					if a.Kind != "store" || a.Field != "unlocked" || (a.Type != tAddrMgr && a.Type != tKMC) {
						continue
					}
					k, isK := strip(a.In.(*ssa.Store).Val).(*ssa.Const)
					if isK && k.Value != nil && k.Value.String() == "false" {
						continue
					}
					n2++
					want := "updatePrivKeys"
					if a.Type == tKMC {
						want = "Unlock"
					}
					if outermost(fn).Name() != want {
						bad2 = append(bad2, FuncName(fn)+" at "+c.Pos(a.In.Pos()))
					}
				}
			}
			sort.Strings(bad2)
			if len(bad2) > 0 || n2 < 2 {
				c.Bad("C03-CURRENT", "unlocked-flag-raisers", "", fmt.Sprintf("the unlocked flag is raised outside updatePrivKeys/Unlock (or the raisers were not found, n=%d): %s", n2, strings.Join(bad2, "; ")))
			} else {
				c.OK("C03-CURRENT", "unlocked-flag-raisers", "", fmt.Sprintf("%d stores of a non-false value to unlocked: AddrManager in updatePrivKeys, manager in Unlock", n2))
			}
		}
		// checkPassword compares with those fields
		if f := c.Fn("poc/wallet/keystore", "(*AddrManager).checkPassword"); f != nil {
			okHash, okKey := false, false
			for _, cl := range callsIn(f, "bytes.Equal") {
				if backSliceAny(cl.Call.Args).hasField(tAddrMgr, "hashedPrivPassphrase") && backSliceAny(cl.Call.Args).hasParam(f, "passphrase") && backSliceAny(cl.Call.Args).hasField(tAddrMgr, "privPassphraseSalt") {
					okHash = true
				}
			}
			for _, cl := range callsIn(f, "(*"+pkgKeystore+"/snacl.SecretKey).DeriveKey") {
				if backSlice(cl.Call.Args[0]).hasField(tAddrMgr, "masterKeyPriv") && backSlice(cl.Call.Args[1]).hasParam(f, "passphrase") {
					okKey = true
				}
			}
			// every nil return lies behind one of the two comparisons
			if okHash && okKey {
				c.OK("C03-CURRENT", "checkPassword:compares-with-current", c.Pos(f.Pos()), "unlocked: salted hash equality; locked: DeriveKey on masterKeyPriv's stored parameters")
			} else {
				c.Bad("C03-CURRENT", "checkPassword:compares-with-current", c.Pos(f.Pos()), "checkPassword does not compare the argument with the stored credential")
			}
		}
	}

	// ---- ERASE
	checkEraser(c)

	// ---- DERIVED
	checkDerivedKeyLifetime(c)

	// ---- HIER: private material is sealed only under the private hierarchy (the C04 key-hierarchy rule,
	// here as the premise of "usable only with the private passphrase")
	c.Rule("C03-HIER", "private keys, the master HD key and the private crypto key are encrypted only under keys of the private hierarchy (never under the public crypto key or the public master key, which a locked wallet holds), and an encrypting key is never used after it was zeroed", 12)
	c.Rule("C03-TXRUN", "a passphrase change that is acknowledged was committed: db.Update returns the error of BeginTx, of the body and of Commit on every path and reports success only after tx.Commit — otherwise the superseded passphrase still opens the wallet after a restart", 5)
	checkTxRunner(c, "C03-TXRUN")
	{
		t := newTaintCtx(c)
		var fns []*ssa.Function
		for fn := range c.AllFuncs {
			if inTaintScope(pkgOf(fn)) && len(fn.Blocks) > 0 {
				fns = append(fns, fn)
			}
		}
		sort.Slice(fns, func(i, j int) bool { return FuncName(fns[i]) < FuncName(fns[j]) })
		c.pushAlias("C04-ENC", "C03-HIER")
		c04Enc(c, t, fns)
		c.popAlias()
	}

	// ---- SCRATCH
	checkScratchKeys(c)

	// ---- ATOMIC
	for _, name := range []string{"NewKeystore", "ImportKeystore"} {
		f := c.MustFn("C03-ATOMIC", "poc/wallet/keystore", "(*KeystoreManagerForPoC)."+name)
		if f == nil {
			continue
		}
		key := name + ":joins-in-manager-lock-state"
		var ins ssa.Instruction
		for _, a := range fieldAccesses(f) {
			if a.Kind == "mapupdate" && a.Field == "managedKeystores" {
				ins = a.In
			}
		}
		if ins == nil {
			c.Bad("C03-ATOMIC", key, c.Pos(f.Pos()), "reason=anchor-missing: insertion into managedKeystores")
			continue
		}
		var unlockedTests []boolTest
		for _, a := range fieldAccesses(f) {
			if a.Kind == "load" && a.Type == tKMC && a.Field == "unlocked" {
				unlockedTests = append(unlockedTests, boolTestsOf(f, a.In.(ssa.Value))...)
			}
		}
		if len(unlockedTests) == 0 {
			c.Bad("C03-ATOMIC", key, c.Pos(ins.Pos()), "the new keystore is added without regard to the manager's lock state: an unlocked wallet would contain a locked keystore")
			continue
		}
		r := reach(f, ins, boolEdgeCut(unlockedTests, false), func(in ssa.Instruction) bool {
			cl, ok := in.(*ssa.Call)
			return ok && isCall(cl, "(*"+tKMC+").useKeystore")
		})
		bad := false
		for _, ret := range returnsOf(f) {
			if r(ret) {
				bad = true
			}
		}
		if bad {
			c.Bad("C03-ATOMIC", key, c.Pos(ins.Pos()), "when the manager is unlocked the new keystore can be added without being unlocked: signing would work for some keystores only")
		} else {
			c.OK("C03-ATOMIC", key, c.Pos(ins.Pos()), "on the unlocked path every return after the insertion passes useKeystore")
		}
	}
	checkRekeyAllKeystores(c, "C03-ATOMIC")
	checkUnlockAllOrNothing(c, "C03-ATOMIC")
	// the lock discipline of the wallet (C14) is a premise here: a passphrase check and the effect it guards are one critical section; run under this property's name
	c.pushAlias("C14-", "C03-LOCK-")
	checkC14(c)
	c.popAlias()

	return Meta{
		Explanation: "Credential gates as edge-cut dominance over every operation that reveals or changes secrets, a who-may-write rule on the stored credential, a cover rule for the eraser over all private-hierarchy fields (derived from the struct types), a lifetime rule for scrypt-derived key-decrypting keys, and the all-keystores structure of passphrase change and unlock.",
		NotDecided:  "that zeroing is effective at machine level; cryptographic soundness of the digest check; behaviour after a restart as a value fact (C02).",
		Trusted:     []string{"go/ssa", "snacl.SecretKey.DeriveKey verifies the passphrase against the stored digest", "private-hierarchy fields are those of AddrManager/accountInfo/branchInfo/ManagedAddress whose name says Priv (ciphertext and salt excluded by name)"},
	}
}

// secretFields: private-hierarchy fields by struct type: name contains "priv" (case-insensitive),
// excluding ciphertext ("Encrypted") and the salt.
func secretFields(c *Ctx) map[string]types.Type {
	out := map[string]types.Type{}
	p := c.SSA[pkgKeystore]
	if p == nil {
		return out
	}
	for _, tn := range []string{"AddrManager", "accountInfo", "branchInfo", "ManagedAddress"} {
		obj := p.Pkg.Scope().Lookup(tn)
		if obj == nil {
			continue
		}
		st, ok := obj.Type().Underlying().(*types.Struct)
		if !ok {
			continue
		}
		for i := 0; i < st.NumFields(); i++ {
			f := st.Field(i)
			n := strings.ToLower(f.Name())
			if !strings.Contains(n, "priv") || strings.Contains(n, "encrypted") || strings.Contains(n, "salt") {
				continue
			}
			out[pkgKeystore+"."+tn+"."+f.Name()] = f.Type()
		}
	}
	return out
}

func checkEraser(c *Ctx) {
	rule := "C03-ERASE"
	clr := c.MustFn(rule, "poc/wallet/keystore", "(*AddrManager).clearPrivKeys")
	if clr == nil {
		return
	}
	secrets := secretFields(c)
	if len(secrets) < 6 {
		c.Bad(rule, "anchor:secret-fields", "", fmt.Sprintf("reason=anchor-missing: only %d private-hierarchy fields found", len(secrets)))
	}
	// which secrets are ever filled (stored to / written through) outside the eraser and constructors' zero values
	filled := map[string]string{}
	for fn := range c.AllFuncs {
		if pkgOf(fn) != pkgKeystore || outermost(fn) == clr {
			continue
		}
		for _, a := range fieldAccessesShallow(fn) {
			k := a.Type + "." + a.Field
			if _, ok := secrets[k]; !ok {
				continue
			}
			if a.Write {
				if st, isSt := a.In.(*ssa.Store); isSt && isNilConst(strip(st.Val)) {
					continue
				}
				filled[k] = FuncName(fn)
			}
			// method calls that fill the pointee: CopyBytes / DeriveKey on the loaded value
			if a.Kind == "load" {
				if refs := a.In.(ssa.Value).Referrers(); refs != nil {
					for _, r := range *refs {
						if cl, isC := r.(*ssa.Call); isC && (callName(cl) == "CopyBytes" || callName(cl) == "DeriveKey") && callRecv(cl) == a.In.(ssa.Value) {
							filled[k] = FuncName(fn)
						}
					}
				}
			}
		}
	}
	keys := []string{}
	for k := range filled {
		keys = append(keys, k)
	}
	sort.Strings(keys)
	for _, k := range keys {
		short := strings.TrimPrefix(k, pkgKeystore+".")
		key := "clearPrivKeys:erases:" + short
		zeroed, dropped := false, false
		isPtrKey := false
		if _, ok := secrets[k].(*types.Pointer); ok {
			isPtrKey = true
		}
		for _, a := range fieldAccesses(clr) {
			if a.Type+"."+a.Field != k {
				continue
			}
			if st, isSt := a.In.(*ssa.Store); isSt && isNilConst(strip(st.Val)) {
				dropped = true
			}
			if a.Kind == "addrarg" {
				zeroed = true // zero.Bytea64(&a.hashedPrivPassphrase)
			}
			if a.Kind == "load" {
				v := a.In.(ssa.Value)
				for al := range aliasesForward(clr, v) {
					if refs := al.Referrers(); refs != nil {
						for _, r := range *refs {
							if cl, isC := r.(*ssa.Call); isC {
								if callName(cl) == "Zero" && callRecv(cl) == al {
									zeroed = true
								}
								if strings.HasPrefix(calleeID(cl), pkgKeystore+"/zero.") {
									zeroed = true
								}
							}
							// mAddr.privKey.D handed to zero.BigInt
							if fa, isFA := r.(*ssa.FieldAddr); isFA {
								if fr := fa.Referrers(); fr != nil {
									for _, r2 := range *fr {
										if ld, isLd := r2.(*ssa.UnOp); isLd {
											if lr := ld.Referrers(); lr != nil {
												for _, r3 := range *lr {
													if cl, isC := r3.(*ssa.Call); isC && strings.HasPrefix(calleeID(cl), pkgKeystore+"/zero.") {
														zeroed = true
													}
												}
											}
										}
									}
								}
							}
						}
					}
				}
			}
		}
		// masterKeyPriv / cryptoKeyPriv are long-lived holder objects: zeroing in place is the erasure
		needDrop := isPtrKey && !strings.HasSuffix(k, "masterKeyPriv")
		switch {
		case !zeroed:
			c.Bad(rule, key, c.Pos(clr.Pos()), short+" is filled by "+filled[k]+" but never zeroed by clearPrivKeys: it stays in memory while the wallet is locked")
		case needDrop && !dropped:
			c.Bad(rule, key, c.Pos(clr.Pos()), short+" is zeroed but the pointer is kept: code that tests it for nil (nextAddresses, signPocec) would treat the locked wallet as holding a key")
		default:
			c.OK(rule, key, c.Pos(clr.Pos()), "zeroed"+ifs(needDrop, " and set to nil", " in place"))
		}
	}
	// Lock
	if lk := c.MustFn(rule, "poc/wallet/keystore", "(*KeystoreManagerForPoC).Lock"); lk != nil {
		rangeOK, callIn, flag := false, false, false
		// Lock's body: Lock itself plus the unexported helpers it calls (bounded inlining, summary.go)
		for _, g := range bodyFns(lk, exceptExported) {
			g := g
			allInstrsShallow(g, func(in ssa.Instruction) {
				if rg, isR := in.(*ssa.Range); isR && backSlice(rg.X).hasField(tKMC, "managedKeystores") {
					rangeOK = true
				}
				if cl, isC := in.(*ssa.Call); isC && isCall(cl, "(*"+tAddrMgr+").clearPrivKeys") && blockReentered(g, cl) {
					callIn = true
				}
			})
			for _, a := range fieldAccessesShallow(g) {
				if a.Kind == "store" && a.Field == "unlocked" && a.Type == tKMC {
					if k, ok := strip(a.In.(*ssa.Store).Val).(*ssa.Const); ok && k.Value.String() == "false" {
						flag = true
					}
				}
			}
		}
		if rangeOK && callIn && flag {
			c.OK(rule, "Lock:erases-every-keystore", c.Pos(lk.Pos()), "clearPrivKeys for every element of managedKeystores; kmc.unlocked = false")
		} else {
			c.Bad(rule, "Lock:erases-every-keystore", c.Pos(lk.Pos()), "Lock does not erase every keystore or leaves the manager marked unlocked")
		}
	}
	// clearPrivKeys clears the per-keystore flag
	flag := false
	for _, a := range fieldAccesses(clr) {
		if a.Kind == "store" && a.Field == "unlocked" && a.Type == tAddrMgr {
			if k, ok := strip(a.In.(*ssa.Store).Val).(*ssa.Const); ok && k.Value.String() == "false" {
				flag = true
			}
		}
	}
	if flag {
		c.OK(rule, "clearPrivKeys:clears-unlocked", c.Pos(clr.Pos()), "a.unlocked = false")
	} else {
		c.Bad(rule, "clearPrivKeys:clears-unlocked", c.Pos(clr.Pos()), "the keystore stays marked unlocked after its keys were erased")
	}
}

// checkDerivedKeyLifetime: sites that leave a private-passphrase scrypt key derived, and what must
// follow them.
func checkDerivedKeyLifetime(c *Ctx) {
	rule := "C03-DERIVED"
	isZeroOf := func(fn *ssa.Function, in ssa.Instruction, what func(ssa.Value) bool) bool {
		cl, ok := in.(*ssa.Call)
		if !ok || callName(cl) != "Zero" || !strings.HasSuffix(calleeID(cl), "snacl.SecretKey).Zero") {
			return false
		}
		return what(callRecv(cl))
	}
	// (a) callers of checkPassword (which leaves masterKeyPriv derived when locked)
	for fn := range c.AllFuncs {
		if pkgOf(fn) != pkgKeystore {
			continue
		}
		for _, chk := range callsInShallow(fn, idCheckPw) {
			key := FuncName(fn) + ":after-checkPassword"
			mgr := callRecv(chk)
			stop := func(in ssa.Instruction) bool {
				if isZeroOf(fn, in, func(v ssa.Value) bool {
					_, f, base, ok := fieldOfValue(v)
					return ok && f == "masterKeyPriv" && sameOriginValue(fn, base, mgr)
				}) {
					return true
				}
				if cl, ok := in.(*ssa.Call); ok && isCall(cl, "(*"+tAddrMgr+").updatePrivKeys") && sameOriginValue(fn, callRecv(cl), mgr) {
					return true
				}
				return false
			}
			// parameters that every caller passes as constant true select feasible edges
			cut := orCut(errorEdgeCut(fn, chk, true), constParamCut(c, fn))
			r := reach(fn, chk, cut, stop)
			bad := false
			for _, ret := range returnsOf(fn) {
				if r(ret) {
					bad = true
					c.Bad(rule, key, c.Pos(ret.Pos()), "after a successful checkPassword (which leaves the scrypt key derived when the wallet is locked) the function can return without unlocking (updatePrivKeys) or zeroing masterKeyPriv: a key-decrypting key stays in memory while locked")
				}
			}
			if !bad {
				c.OK(rule, key, c.Pos(chk.Pos()), "every return after a successful checkPassword passes updatePrivKeys or masterKeyPriv.Zero()")
			}
		}
	}
	// (b) a freshly derived private master key installed into keystores (ChangePrivPassphrase)
	if f := c.MustFn(rule, "poc/wallet/keystore", "(*KeystoreManagerForPoC).ChangePrivPassphrase"); f != nil {
		key := "ChangePrivPassphrase:new-derived-key"
		var gen *ssa.Call
		allInstrs(f, func(in ssa.Instruction) {
			cl, ok := in.(*ssa.Call)
			if !ok || cl.Call.StaticCallee() != nil || cl.Call.IsInvoke() {
				return
			}
			if g, isG := unwrapGlobalLoad(cl.Call.Value); isG && g.Name() == "secretKeyGen" && cellHoldsParam(cl.Call.Args[0], f, "newPrivPass") {
				gen = cl
			}
		})
		if gen == nil {
			c.Bad(rule, key, c.Pos(f.Pos()), "reason=anchor-missing: secretKeyGen(&newPrivPass)")
		} else {
			newKey := resultOf(gen, 0)
			isNew := func(v ssa.Value) bool { return backSlice(v).has(newKey) || sameOriginValue(f, v, newKey) }
			stop := func(in ssa.Instruction) bool {
				if isZeroOf(f, in, isNew) {
					return true
				}
				// `defer func() { if !kmc.unlocked { key.Zero() } }()`: the deferred eraser runs at every
				// later return; it counts when, inside the closure, every locked path passes Zero(key)
				if d, ok := in.(*ssa.Defer); ok {
					if mc, isMC := d.Call.Value.(*ssa.MakeClosure); isMC {
						return closureZeroesWhenLocked(mc.Fn.(*ssa.Function), isNew)
					}
					if g := d.Call.StaticCallee(); g != nil && strings.HasSuffix(FuncName(g), "snacl.SecretKey).Zero") && len(d.Call.Args) > 0 {
						return isNew(d.Call.Args[0])
					}
				}
				return false
			}
			// on the path where the manager is unlocked the key may stay derived (the wallet holds secrets anyway)
			var unlockedTests []boolTest
			for _, a := range fieldAccesses(f) {
				if a.Kind == "load" && a.Type == tKMC && a.Field == "unlocked" {
					unlockedTests = append(unlockedTests, boolTestsOf(f, a.In.(ssa.Value))...)
				}
			}
			cut := orCut(errorEdgeCut(f, gen, true), boolEdgeCut(unlockedTests, true))
			r := reach(f, gen, cut, stop)
			bad := false
			for _, ret := range returnsOf(f) {
				if r(ret) {
					bad = true
				}
			}
			// the key bytes must stay inside the object that gets zeroed: no read of its Key field here
			copied := ""
			for _, g := range withClosures(f) {
				for _, a := range fieldAccesses(g) {
					if a.Field == "Key" && strings.HasSuffix(a.Type, "snacl.SecretKey") && (a.Kind == "load" || a.Kind == "addr" || a.Kind == "addrarg") {
						if backSlice(a.Base).has(newKey) || sameOriginValue(g, a.Base, newKey) {
							copied = c.Pos(a.In.Pos()) + " "
						}
					}
				}
			}
			if copied != "" {
				c.Bad(rule, key+":bytes-stay-in-the-zeroed-object", copied, "the bytes of the freshly derived key are read out of the key object (copied into the keystores' own key objects): zeroing the original on the locked path leaves the copies derived — a locked wallet then holds a key-decrypting key for every keystore")
			} else {
				c.OK(rule, key+":bytes-stay-in-the-zeroed-object", c.Pos(gen.Pos()), "the derived key is installed by reference only; the object zeroed is the object the keystores hold")
			}
			if bad {
				c.Bad(rule, key, c.Pos(gen.Pos()), "the scrypt key derived from the new private passphrase is installed as masterKeyPriv of every keystore and the operation can return with it still derived while the wallet is locked (no Zero() on the locked path / error paths)")
			} else {
				c.OK(rule, key, c.Pos(gen.Pos()), "every return on the locked path passes Zero() of the freshly derived key")
			}
		}
	}
}

// cellHoldsParam: addr is the address of a variable cell (possibly captured) whose stored values
// derive from parameter name of fn (the `&pass` argument idiom).
func cellHoldsParam(addr ssa.Value, fn *ssa.Function, name string) bool {
	if backSlice(addr).hasParam(fn, name) {
		return true
	}
	root := rootCell(addr)
	a, ok := root.(*ssa.Alloc)
	if !ok {
		return false
	}
	found := false
	for _, g := range withClosures(lexicalOutermost(a.Parent())) {
		allInstrs(g, func(in ssa.Instruction) {
			if st, ok := in.(*ssa.Store); ok && rootCell(st.Addr) == root && backSlice(st.Val).hasParam(fn, name) {
				found = true
			}
		})
	}
	return found
}

// closureZeroesWhenLocked: in closure g, with the edges taken when the manager is unlocked cut,
// every return passes a Zero() call on a value satisfying isKey.
func closureZeroesWhenLocked(g *ssa.Function, isKey func(ssa.Value) bool) bool {
	if len(g.Blocks) == 0 {
		return false
	}
	var unlockedTests []boolTest
	for _, a := range fieldAccesses(g) {
		if a.Kind == "load" && a.Type == tKMC && a.Field == "unlocked" {
			unlockedTests = append(unlockedTests, boolTestsOf(g, a.In.(ssa.Value))...)
		}
	}
	stop := func(in ssa.Instruction) bool {
		cl, ok := in.(*ssa.Call)
		return ok && callName(cl) == "Zero" && strings.HasSuffix(calleeID(cl), "snacl.SecretKey).Zero") && isKey(callRecv(cl))
	}
	r := reach(g, g.Blocks[0].Instrs[0], boolEdgeCut(unlockedTests, true), stop)
	for _, ret := range returnsOf(g) {
		if r(ret) {
			return false
		}
	}
	return true
}

func unwrapGlobalLoad(v ssa.Value) (*ssa.Global, bool) {
	if u, ok := v.(*ssa.UnOp); ok {
		if g, ok := u.X.(*ssa.Global); ok {
			return g, true
		}
	}
	return nil, false
}

// constParamCut: for bool parameters of fn that every static caller passes as the constant true
// (false), cut the infeasible edge of tests on them.
func constParamCut(c *Ctx, fn *ssa.Function) func(from, to *ssa.BasicBlock) bool {
	type fixed struct {
		tests []boolTest
		val   bool
	}
	var fx []fixed
	for i, p := range fn.Params {
		if b, ok := p.Type().Underlying().(*types.Basic); !ok || b.Kind() != types.Bool {
			continue
		}
		all, n := "", 0
		for g := range c.AllFuncs {
			for _, cl := range callsIn(g, fn.Object().(*types.Func).FullName()) {
				n++
				k, isK := strip(cl.Call.Args[i]).(*ssa.Const)
				v := "?"
				if isK && k.Value != nil {
					v = k.Value.String()
				}
				if all == "" {
					all = v
				} else if all != v {
					all = "?"
				}
			}
		}
		if n > 0 && (all == "true" || all == "false") {
			fx = append(fx, fixed{boolTestsOf(fn, p), all == "true"})
		}
	}
	return func(from, to *ssa.BasicBlock) bool {
		for _, f := range fx {
			for _, t := range f.tests {
				if from == t.If.Block() {
					if f.val && to == t.FalseSucc && t.FalseSucc != t.TrueSucc {
						return true
					}
					if !f.val && to == t.TrueSucc && t.FalseSucc != t.TrueSucc {
						return true
					}
				}
			}
		}
		return false
	}
}

// checkScratchKeys: C03-SCRATCH.
func checkScratchKeys(c *Ctx) {
	rule := "C03-SCRATCH"
	zeroStop := func(isKey func(ssa.Value) bool) func(ssa.Instruction) bool {
		return func(in ssa.Instruction) bool {
			switch x := in.(type) {
			case *ssa.Call:
				return callName(x) == "Zero" && strings.HasSuffix(calleeID(x), "snacl.SecretKey).Zero") && isKey(callRecv(x))
			case *ssa.Defer:
				if f := x.Call.StaticCallee(); f != nil && f.Name() == "Zero" && strings.HasSuffix(FuncName(f), "snacl.SecretKey).Zero") && len(x.Call.Args) > 0 {
					return isKey(x.Call.Args[0])
				}
			}
			return false
		}
	}
	var fns []*ssa.Function
	for fn := range c.AllFuncs {
		if pkgOf(fn) == pkgKeystore {
			fns = append(fns, fn)
		}
	}
	sort.Slice(fns, func(i, j int) bool { return FuncName(fns[i]) < FuncName(fns[j]) })
	for _, fn := range fns {
		n := 0
		for _, um := range callsInShallow(fn, idUnmarshalMP) {
			n++
			key := fmt.Sprintf("%s:unmarshalMasterPrivKey#%d", FuncName(fn), n)
			target := um.Call.Args[0]
			root := rootCell(target)
			isKey := func(v ssa.Value) bool { return v == target || (root != nil && rootCell(v) == root) }
			// the defer may precede the derivation (defer k.Zero(); unmarshal(&k,…)): a dominating defer counts
			domDefer := false
			allInstrsShallow(fn, func(in ssa.Instruction) {
				if d, ok := in.(*ssa.Defer); ok && zeroStop(isKey)(d) && instrDominates(d, um) && !inCycle(d) {
					domDefer = true
				}
			})
			if domDefer {
				c.OK(rule, key, c.Pos(um.Pos()), "defer Zero() registered before the key is derived")
				continue
			}
			r := reach(fn, um, nil, zeroStop(isKey))
			bad := false
			for _, ret := range returnsOf(fn) {
				if r(ret) {
					bad = true
				}
			}
			if bad {
				c.Bad(rule, key, c.Pos(um.Pos()), "the master key derived from the private passphrase is not zeroed on every path to the return: it survives the operation in memory although the wallet may be locked")
			} else {
				c.OK(rule, key, c.Pos(um.Pos()), "Zero() on every path from the derivation to the return")
			}
		}
		m := 0
		allInstrsShallow(fn, func(in ssa.Instruction) {
			cl, ok := in.(*ssa.Call)
			if !ok || cl.Call.StaticCallee() != nil || cl.Call.IsInvoke() {
				return
			}
			g, isG := unwrapGlobalLoad(cl.Call.Value)
			if !isG || g.Name() != "secretKeyGen" {
				return
			}
			res := resultOf(cl, 0)
			// private iff its Marshal() becomes the stored private parameters
			private := false
			for _, g2 := range withClosures(lexicalOutermost(fn)) {
				for _, put := range callsIn(g2, pkgKeystore+".putMasterKeyParams") {
					if backSlice(put.Call.Args[2]).has(res) {
						private = true
					}
				}
				for _, ch := range callsIn(g2, "(*"+tAddrMgr+").changePrivPassphrase") {
					if backSlice(ch.Call.Args[3]).has(res) {
						private = false // handed to the keystores: decided by C03-DERIVED
						return
					}
				}
			}
			if !private {
				return
			}
			m++
			key := fmt.Sprintf("%s:secretKeyGen-private#%d", FuncName(fn), m)
			isKey := func(v ssa.Value) bool { return v == res || backSlice(v).has(res) }
			r := reach(fn, cl, errorEdgeCut(fn, cl, true), zeroStop(isKey))
			bad := false
			for _, ret := range returnsOf(fn) {
				if r(ret) {
					bad = true
				}
			}
			if bad {
				c.Bad(rule, key, c.Pos(cl.Pos()), "the scrypt key derived from the private passphrase for a new keystore is not zeroed on every path to the return")
			} else {
				c.OK(rule, key, c.Pos(cl.Pos()), "Zero() (deferred) on every path from the derivation to the return")
			}
		})
	}
}

// checkSamePassphraseGates: a keystore is created/imported only under the passphrase an existing
// keystore accepts (shared by C03-AUTH and C05-GATE: signing-while-locked depends on unlocking being
// all-or-nothing).
func checkSamePassphraseGates(c *Ctx, rule string) {
	for _, spec := range []struct{ name, pw string }{{"NewKeystore", "privPassphrase"}, {"ImportKeystore", "newPrivPass"}} {
		f := c.MustFn(rule, "poc/wallet/keystore", "(*KeystoreManagerForPoC)."+spec.name)
		if f == nil {
			continue
		}
		key := spec.name + ":same-passphrase-as-existing-keystores"
		chk := firstCall(f, idSafeCheckPw, idCheckPw)
		upd := updateCallsIn(f)
		if chk == nil || len(upd) == 0 {
			c.Bad(rule, key, c.Pos(f.Pos()), "reason=anchor-missing: same-passphrase check or db.Update")
			continue
		}
		// the check (with its loop over the existing keystores) may sit in a gate helper the reference tree
		// does not have: the loop rules are then evaluated in the helper against its successful returns,
		// and the operation must stop when the helper fails
		fTop := f
		checked := chk.Call.Args[1]
		var gateSite *ssa.Call
		gateOK := true
		if host := hostFn(f, chk); host != f && host.Parent() == nil {
			gateOK = false
			if site, ok := siteIn(f, chk).(*ssa.Call); ok && site != nil && site.Parent() == f && site.Call.StaticCallee() == host && len(errResults(site)) > 0 {
				valueOriginsLocal(host, chk.Call.Args[1], func(r ssa.Value) {
					if p, isP := r.(*ssa.Parameter); isP {
						for i, q := range host.Params {
							if q == p && i < len(site.Call.Args) {
								checked = site.Call.Args[i]
								gateSite = site
								gateOK = true
							}
						}
					}
				})
			}
			if gateOK {
				// in the caller: the store is reached only after the gate, and not when the gate failed
				rPre := reach(fTop, nil, nil, func(in ssa.Instruction) bool { return in == ssa.Instruction(gateSite) })
				rFail := reach(fTop, gateSite, errorEdgeCut(fTop, gateSite, false), nil)
				for _, u := range upd {
					if rPre(u) || rFail(u) {
						gateOK = false
					}
				}
				f = host
				upd = nil
				for _, ret := range returnsOf(host) {
					if isNilErrorReturn(ret) {
						upd = append(upd, ret)
					}
				}
			}
		}
		// the passphrase checked is the one the new keystore is stored under: the same variable that is
		// handed to create(privPassphrase) / allocAddrMgrNamespace(newPass), not assigned after the check
		okArg := false
		{
			f := fTop
			storeFn, storeParam := pkgKeystore+".create", "privPassphrase"
			if spec.name == "ImportKeystore" {
				storeFn, storeParam = "(*"+tKMC+").allocAddrMgrNamespace", "newPass"
			}
			var under []ssa.Value
			for _, g := range withClosures(f) {
				for _, cl := range callsIn(g, storeFn) {
					callee := cl.Call.StaticCallee()
					for i, p := range callee.Params {
						if p.Name() == storeParam && i < len(cl.Call.Args) {
							under = append(under, cl.Call.Args[i])
						}
					}
				}
			}
			cellOfLoad := func(v ssa.Value) ssa.Value {
				if u, ok := v.(*ssa.UnOp); ok && u.Op == token.MUL {
					return rootCell(u.X)
				}
				return nil
			}
			chkCell := cellOfLoad(checked)
			okArg = len(under) > 0 && gateOK
			for _, u := range under {
				if u == checked {
					continue
				}
				if uc := cellOfLoad(u); uc == nil || chkCell == nil || uc != chkCell {
					// the store may sit in a phase helper the reference tree does not have (its own copy of
					// the variable): the value stored and the value checked must then have exactly the same
					// origins (reaching definitions, followed through the helpers' parameters)
					same := instrParent(u) != instrParent(checked) && sameOriginSets(u, checked)
					if !same {
						okArg = false
					}
				}
			}
			if okArg && chkCell != nil {
				// no assignment to the variable after the check
				var afterStart ssa.Instruction = chk
				if gateSite != nil {
					afterStart = gateSite
				}
				after := reach(f, afterStart, nil, nil)
				for _, g := range withClosures(f) {
					allInstrs(g, func(in ssa.Instruction) {
						if st, ok := in.(*ssa.Store); ok && rootCell(st.Addr) == chkCell {
							if g != f || after(st) {
								okArg = false
							}
						}
					})
				}
			}
			if !backSlice(checked).hasParam(f, spec.pw) {
				okArg = false
			}
		}
		// whenever an existing keystore is found (range yields one), every path to db.Update passes the check…
		var body *ssa.BasicBlock
		allInstrs(f, func(in ssa.Instruction) {
			nx, ok := in.(*ssa.Next)
			if !ok {
				return
			}
			if rg, isR := nx.Iter.(*ssa.Range); !isR || !backSlice(rg.X).hasField(tKMC, "managedKeystores") {
				return
			}
			if refs := nx.Referrers(); refs != nil {
				for _, r := range *refs {
					if ex, isE := r.(*ssa.Extract); isE && ex.Index == 0 {
						for _, t := range boolTestsOf(f, ex) {
							if instrDominates(nx, chk) && t.TrueSucc.Dominates(chk.Block()) {
								body = t.TrueSucc
							}
						}
					}
				}
			}
		})
		if body == nil {
			c.Bad(rule, key, c.Pos(chk.Pos()), "the same-passphrase check is not made for an existing keystore of the manager")
			continue
		}
		// from the entry, with the "no keystore exists" edges cut (empty range, len(...) > 0 false),
		// db.Update must not be reachable without passing the check
		emptyCut := func(from, to *ssa.BasicBlock) bool {
			iff, ok := from.Instrs[len(from.Instrs)-1].(*ssa.If)
			if !ok || len(from.Succs) != 2 || to != from.Succs[1] || from.Succs[0] == from.Succs[1] {
				return false
			}
			switch x := iff.Cond.(type) {
			case *ssa.Extract: // ok of Next over managedKeystores
				if nx, isN := x.Tuple.(*ssa.Next); isN && x.Index == 0 {
					if rg, isR := nx.Iter.(*ssa.Range); isR && backSlice(rg.X).hasField(tKMC, "managedKeystores") {
						return true
					}
				}
			case *ssa.BinOp: // len(kmc.managedKeystores) > 0
				if x.Op == token.GTR {
					if k, isK := x.Y.(*ssa.Const); isK && k.Value != nil && k.Value.String() == "0" {
						if cl, isC := x.X.(*ssa.Call); isC {
							if b, isB := cl.Call.Value.(*ssa.Builtin); isB && b.Name() == "len" && backSlice(cl.Call.Args[0]).hasField(tKMC, "managedKeystores") {
								return true
							}
						}
					}
				}
			}
			return false
		}
		r := reach(f, f.Blocks[0].Instrs[0], emptyCut, func(in ssa.Instruction) bool { return in == ssa.Instruction(chk) })
		skip := false
		for _, u := range upd {
			if r(u) {
				skip = true
			}
		}
		// …and a failed check never reaches db.Update
		okFail, _ := unreachableWhenCut(f, func(from, to *ssa.BasicBlock) bool {
			// cut the success edges only along the path through the check: approximated by cutting nil edges
			return errorEdgeCut(f, chk, false)(from, to)
		}, nil)
		_ = okFail
		rFail := reach(f, chk, errorEdgeCut(f, chk, false), nil)
		fails := false
		for _, u := range upd {
			if rFail(u) {
				fails = true
			}
		}
		if okArg && !skip && !fails {
			c.OK(rule, key, c.Pos(chk.Pos()), "when a keystore exists, db.Update is reached only through a successful safelyCheckPassword("+spec.pw+")")
		} else {
			c.Bad(rule, key, c.Pos(chk.Pos()), fmt.Sprintf("a keystore can be created/imported under a private passphrase different from the existing keystores' (checks-caller-passphrase=%v can-skip-check=%v proceeds-after-failure=%v): unlocking would no longer be all-or-nothing", okArg, skip, fails))
		}
	}

}

// checkUnlockAllOrNothing: Unlock applies useKeystore to every keystore with the caller's passphrase,
// in the calling goroutine, and marks the manager unlocked only if none failed (shared by C03 and C05).
func checkUnlockAllOrNothing(c *Ctx, rule string) {
	if f := c.MustFn(rule, "poc/wallet/keystore", "(*KeystoreManagerForPoC).Unlock"); f != nil {
		key := "Unlock:all-or-nothing"
		var use *ssa.Call
		for _, cl := range callsIn(f, "(*"+tKMC+").useKeystore") {
			if blockReentered(f, cl) {
				use = cl
			}
		}
		var setUnlocked []ssa.Instruction
		for _, a := range fieldAccesses(f) {
			if a.Kind == "store" && a.Type == tKMC && a.Field == "unlocked" {
				setUnlocked = append(setUnlocked, a.In)
			}
		}
		ok := use != nil && len(setUnlocked) > 0
		if ok {
			// a failed useKeystore returns; unlocked=true unreachable on its error edge
			r := reach(f, use, errorEdgeCut(f, use, false), nil)
			for _, s := range setUnlocked {
				if r(s) {
					ok = false
				}
			}
			rangeOK := false
			allInstrs(f, func(in ssa.Instruction) {
				if rg, isR := in.(*ssa.Range); isR && backSlice(rg.X).hasField(tKMC, "managedKeystores") {
					rangeOK = true
				}
			})
			ok = ok && rangeOK && backSlice(use.Call.Args[2]).hasParam(f, "privPassphrase")
		}
		if ok {
			c.OK(rule, key, c.Pos(f.Pos()), "every keystore is unlocked with the caller's passphrase; the manager is marked unlocked only if none failed")
		} else {
			c.Bad(rule, key, c.Pos(f.Pos()), "the manager can be marked unlocked although a keystore rejected the passphrase (or not every keystore is tried)")
		}
	}
}

// checkRekeyAllKeystores: ChangePrivPassphrase re-encrypts every keystore inside its one transaction
// (shared by C03-ATOMIC and C04-REKEY).
func checkRekeyAllKeystores(c *Ctx, rule string) {
	if f := c.MustFn(rule, "poc/wallet/keystore", "(*KeystoreManagerForPoC).ChangePrivPassphrase"); f != nil {
		ok := false
		for _, s := range txSitesBody(f) { // the transaction may be started by a phase helper the reference tree does not have
			if !s.Write || s.Closure == nil {
				continue
			}
			// inside the closure: range over managedKeystores calling changePrivPassphrase
			rangeOK, callIn := false, false
			for _, g := range bodyFns(s.Closure, nil) {
				g := g
				allInstrsShallow(g, func(in ssa.Instruction) {
					if rg, isR := in.(*ssa.Range); isR && backSlice(rg.X).hasField(tKMC, "managedKeystores") {
						rangeOK = true
					}
					if cl, isC := in.(*ssa.Call); isC && isCall(cl, "(*"+tAddrMgr+").changePrivPassphrase") && blockReentered(g, cl) {
						callIn = true
					}
				})
			}
			if rangeOK && callIn {
				ok = true
			}
		}
		if ok {
			c.OK(rule, "ChangePrivPassphrase:all-keystores-one-transaction", c.Pos(f.Pos()), "changePrivPassphrase is applied to every element of managedKeystores inside the single db.Update closure")
		} else {
			c.Bad(rule, "ChangePrivPassphrase:all-keystores-one-transaction", c.Pos(f.Pos()), "the private passphrase is not changed for all keystores in one transaction: keystores can end up under different passphrases")
		}
	}
}
